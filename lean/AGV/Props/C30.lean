/-
  C30 — extensions are transparent and run their hooks in lifecycle order.

  Model: Model/Ext.lean (chain runners, request pipeline with the executor as a parameter, the
  executor of the static family with the extension branch of field / list resolution).
  `stack ls` is the stack of recording pass-through extensions with indices `ls` (outermost first).

  OBLIGATION c30_nesting_chain
  OBLIGATION c30_nesting
  OBLIGATION c30_nesting_family
  OBLIGATION c30_transparent
  OBLIGATION c30_transparent_family
  OBLIGATION c30_lifecycle_stages
  OBLIGATION c30_lifecycle
  OBLIGATION c30_lifecycle_family
  OBLIGATION c30_passthrough_needed
  OBLIGATION c30_fast_unknown_field_witness
  OBLIGATION c30_resolve_once_per_invocation
  OBLIGATION c30_sites_balanced_exec
  OBLIGATION c30_sites_balanced
  OBLIGATION c30_resolve_once_family
-/
import AGV.Lemmas.ExtPipeline
import AGV.Lemmas.ExtSites

namespace AGV.Props.C30
open AGV.Core AGV.Model.Ext AGV.Lemmas.Ext

section
variable {Req Doc VR Op Resp E : Type}

/-- NESTING, one hook site: a chain of recording pass-through hooks returns what the base future
    returns, and its trace is  enter l₀ … enter lₙ · base trace · exit lₙ … exit l₀  — the hooks
    nest in registration order.  (Induction on the stack.) -/
theorem c30_nesting_chain {α : Type} (s : Site) (ls : List Nat) (base : Unit → T α) :
    runChain (ls.map (fun i => recWrap i s)) base =
      ((base ()).1, ls.map (fun i => Ev.hook true i s) ++ (base ()).2 ++ ls.reverse.map (fun i => Ev.hook false i s)) :=
  runChain_rec s ls base

/-- NESTING, whole request: the trace under a stack of recording extensions is the
    extension-free trace (markers of the hook sites only) in which every site
    `⟦ inner ⟧` has become `⟦ enter l₀ … enter lₙ · inner · exit lₙ … exit l₀ ⟧`, recursively. -/
theorem c30_nesting (B : Base Req Doc VR Op Resp E) (ls : List Nat) (hB : ExecNatural B ls) (req : Req) :
    (execute B (stack ls) req).2 = expand ls (execute B [] req).2 := by
  rw [execute_stack B ls hB req]; rfl

/-- TRANSPARENCY: with pass-through (recording) extensions the response — whatever it consists of:
    data, errors, extensions map, cache policy — equals the extension-free response, provided the
    executor treats its resolve hook naturally. -/
theorem c30_transparent (B : Base Req Doc VR Op Resp E) (ls : List Nat) (hB : ExecNatural B ls) (req : Req) :
    (execute B (stack ls) req).1 = (execute B [] req).1 := by
  rw [execute_stack B ls hB req]; rfl
end

/-- the executor of the static family is natural in the resolve hook once the extension-free
    path performs the same registry look-up (`plainPathSkipsLookup = false`) -/
theorem family_natural (D : AGV.Model.ExecStatic.Defects) (X : XDefects) (hX : X.plainPathSkipsLookup = false)
    (ls : List Nat) : ExecNatural (caseBase D X) ls := by
  intro req doc op vr
  simp only [caseBase]
  rw [runOp_rel (expand_hom ls) D X _ false _ _ (resolveAt_rel ls) (Or.inl hX)]
  rfl

theorem c30_transparent_family (D : AGV.Model.ExecStatic.Defects) (X : XDefects) (hX : X.plainPathSkipsLookup = false)
    (ls : List Nat) (req : CaseReq) :
    (execute (caseBase D X) (stack ls) req).1 = (execute (caseBase D X) [] req).1 :=
  c30_transparent _ ls (family_natural D X hX ls) req

theorem c30_nesting_family (D : AGV.Model.ExecStatic.Defects) (X : XDefects) (hX : X.plainPathSkipsLookup = false)
    (ls : List Nat) (req : CaseReq) :
    (execute (caseBase D X) (stack ls) req).2 = expand ls (execute (caseBase D X) [] req).2 :=
  c30_nesting _ ls (family_natural D X hX ls) req

example : (stack [0, 1, 2] : List (Ext CaseReq Doc Cache Resp Stage)).length = 3 := rfl

-- ------------------------------------------------------------------ lifecycle

/-- the hook sites opened, in order -/
def opened (t : List Ev) : List Hook :=
  t.filterMap (fun e => match e with
    | .mark true s => some s.hook
    | _ => none)

/-- the hooks extension `i` entered, in order -/
def entered (i : Nat) (t : List Ev) : List Hook :=
  t.filterMap (fun e => match e with
    | .hook true j s => if j = i then some s.hook else none
    | _ => none)

def MarksOnly (t : List Ev) : Prop := ∀ e ∈ t, ∃ b s, e = Ev.mark b s

section
variable {Req Doc VR Op Resp E : Type}

/-- LIFECYCLE, stages: without extensions the sites are opened in the order
    request, prepare_request, parse_query, then validation iff parsing succeeded, then execute iff
    validation succeeded and an operation was selected, then the executor's (resolve) sites. -/
theorem c30_lifecycle_stages (B : Base Req Doc VR Op Resp E) (req : Req) :
    opened (execute B ([] : List (Ext Req Doc VR Resp E)) req).2 =
      [.request, .prepare, .parse] ++
        (match B.parse req with
         | .error _ => []
         | .ok doc => Hook.validation ::
           (match B.validate req doc with
            | .error _ => []
            | .ok vr =>
              match B.selectOp req doc with
              | .error _ => []
              | .ok op => Hook.execute :: opened (B.exec (resolveAt ([] : List (Ext Req Doc VR Resp E))) false req doc op vr).2)) := by
  simp only [execute, stages, prepareAt, atSite, runChain, runPrepare, List.map_nil]
  cases hp : B.parse req with
  | error e => simp [opened]
  | ok doc =>
    cases hv : B.validate req doc with
    | error e => simp [opened, hv]
    | ok vr =>
      cases hs : B.selectOp req doc with
      | error e => simp [opened, hv, hs]
      | ok op => simp [opened, hv, hs, List.filterMap_append]

theorem entered_map_enter (i : Nat) (s : Site) (ls : List Nat) :
    entered i (ls.map (fun j => Ev.hook true j s)) = List.replicate (ls.count i) s.hook := by
  induction ls with
  | nil => rfl
  | cons j ls ih =>
    simp only [entered, List.map_cons, List.filterMap_cons, List.count_cons] at ih ⊢
    by_cases h : j = i
    · simp [h, ih, List.replicate_succ]
    · simp [h, ih]

theorem entered_map_exit (i : Nat) (s : Site) (ls : List Nat) :
    entered i (ls.map (fun j => Ev.hook false j s)) = [] := by
  induction ls with
  | nil => rfl
  | cons j ls ih => simpa [entered] using ih

theorem entered_append (i : Nat) (a b : List Ev) : entered i (a ++ b) = entered i a ++ entered i b := by
  simp [entered, List.filterMap_append]

/-- what extension `i` sees of an expanded marker trace -/
theorem entered_expand (i : Nat) (ls : List Nat) (t : List Ev) (ht : MarksOnly t) :
    entered i (expand ls t) = (opened t).flatMap (fun h => List.replicate (ls.count i) h) := by
  induction t with
  | nil => rfl
  | cons e t ih =>
    have ht' : MarksOnly t := fun e' he' => ht e' (List.mem_cons_of_mem _ he')
    obtain ⟨b, s, rfl⟩ := ht e (List.mem_cons_self)
    rw [expand_cons, entered_append, ih ht']
    cases b with
    | true =>
      have : entered i (expandEv ls (Ev.mark true s)) = List.replicate (ls.count i) s.hook := by
        show entered i (Ev.mark true s :: ls.map (fun j => Ev.hook true j s)) = _
        rw [show (Ev.mark true s :: ls.map (fun j => Ev.hook true j s)) = [Ev.mark true s] ++ ls.map (fun j => Ev.hook true j s) from rfl,
          entered_append, entered_map_enter]
        rfl
      rw [this]
      simp [opened, List.flatMap_cons]
    | false =>
      have : entered i (expandEv ls (Ev.mark false s)) = [] := by
        show entered i (ls.reverse.map (fun j => Ev.hook false j s) ++ [Ev.mark false s]) = _
        rw [entered_append, entered_map_exit]
        rfl
      rw [this]
      simp [opened]

theorem flatMap_replicate_one (hs : List Hook) : hs.flatMap (fun h => List.replicate 1 h) = hs := by
  induction hs with
  | nil => rfl
  | cons h hs ih => simp [List.flatMap_cons, ih]

/-- LIFECYCLE: every extension that is registered once enters exactly the hooks of the sites of
    the extension-free run, once each and in that order: request, prepare_request, parse_query,
    validation (iff parsing succeeded), execute (iff validation succeeded and an operation was
    selected), then one resolve per site the executor opens (fields and list items). -/
theorem c30_lifecycle (B : Base Req Doc VR Op Resp E) (ls : List Nat) (hB : ExecNatural B ls) (req : Req)
    (hM : MarksOnly (execute B ([] : List (Ext Req Doc VR Resp E)) req).2)
    (i : Nat) (hi : ls.count i = 1) :
    entered i (execute B (stack ls) req).2 = opened (execute B ([] : List (Ext Req Doc VR Resp E)) req).2 := by
  rw [c30_nesting B ls hB req, entered_expand i ls _ hM, hi, flatMap_replicate_one]

/-- NEGATIVE SIDE: pass-through is needed.  An extension whose request hook answers by itself
    (never running the rest of the chain) determines the response. -/
def shortCircuit (r : Resp) : Ext Req Doc VR Resp E :=
  { (passExt : Ext Req Doc VR Resp E) with request := fun _ => (r, []) }

theorem c30_passthrough_needed (B : Base Req Doc VR Op Resp E) (req : Req) (r : Resp)
    (hr : r ≠ (execute B ([] : List (Ext Req Doc VR Resp E)) req).1) :
    (execute B [shortCircuit r] req).1 ≠ (execute B ([] : List (Ext Req Doc VR Resp E)) req).1 := by
  have : (execute B [shortCircuit r] req).1 = r := by
    simp [execute, atSite, runChain, shortCircuit]
  rw [this]; exact hr
end

-- ------------------------------------------------------------------ the family

theorem filter_marks_hom : Hom (List.filter (fun e => match e with | Ev.mark _ _ => true | _ => false)) :=
  ⟨rfl, fun a b => List.filter_append ..⟩

/-- the executor of the family, run without extensions, emits site markers only -/
theorem family_marksOnly (D : AGV.Model.ExecStatic.Defects) (X : XDefects) (req : CaseReq) (doc : Doc) (op : OpDef) (vr : Cache) :
    MarksOnly ((caseBase D X).exec (resolveAt ([] : List (Ext CaseReq Doc Cache Resp Stage))) false req doc op vr).2 := by
  let φ : List Ev → List Ev := List.filter (fun e => match e with | Ev.mark _ _ => true | _ => false)
  have hrel : HookRel φ (resolveAt ([] : List (Ext CaseReq Doc Cache Resp Stage))) (resolveAt ([] : List (Ext CaseReq Doc Cache Resp Stage))) := by
    intro s b1 b2 h
    simp only [resolveAt, List.map_nil, atSite, runChain, h, mapT]
    simp [φ, List.filter_append, List.filter_cons]
  have h := runOp_rel filter_marks_hom D X false false _ _ hrel (Or.inr rfl) req.S doc op req.vars req.w req.fuel
  intro e he
  simp only [caseBase] at he
  rw [h] at he
  simp only [mapT_snd, List.mem_filter] at he
  cases e with
  | mark b s => exact ⟨b, s, rfl⟩
  | hook b i s => simp at he

theorem family_execute_marksOnly (D : AGV.Model.ExecStatic.Defects) (X : XDefects) (req : CaseReq) :
    MarksOnly (execute (caseBase D X) ([] : List (Ext CaseReq Doc Cache Resp Stage)) req).2 := by
  intro e he
  simp only [execute, stages, prepareAt, atSite, runChain, runPrepare, List.map_nil] at he
  have hx := family_marksOnly D X
  cases hp : (caseBase D X).parse req with
  | error e' => simp [hp] at he; rcases he with rfl | rfl | rfl | rfl | rfl | rfl <;> exact ⟨_, _, rfl⟩
  | ok doc =>
    cases hv : (caseBase D X).validate req doc with
    | error e' => simp [hp, hv] at he; rcases he with rfl | rfl | rfl | rfl | rfl | rfl | rfl | rfl <;> exact ⟨_, _, rfl⟩
    | ok vr =>
      cases hs : (caseBase D X).selectOp req doc with
      | error e' => simp [hp, hv, hs] at he; rcases he with rfl | rfl | rfl | rfl | rfl | rfl | rfl | rfl <;> exact ⟨_, _, rfl⟩
      | ok op =>
        simp [hp, hv, hs] at he
        rcases he with rfl | rfl | rfl | rfl | rfl | rfl | rfl | rfl | he | rfl | rfl
        all_goals first
          | exact ⟨_, _, rfl⟩
          | exact hx req doc op vr e he

/-- LIFECYCLE for the family (look-up on both paths): each of `n` stacked recording extensions
    enters exactly the hooks of the extension-free sites, once each, in order. -/
theorem c30_lifecycle_family (D : AGV.Model.ExecStatic.Defects) (X : XDefects) (hX : X.plainPathSkipsLookup = false)
    (ls : List Nat) (req : CaseReq) (i : Nat) (hi : ls.count i = 1) :
    entered i (execute (caseBase D X) (stack ls) req).2 =
      opened (execute (caseBase D X) ([] : List (Ext CaseReq Doc Cache Resp Stage)) req).2 :=
  c30_lifecycle _ ls (family_natural D X hX ls) req (family_execute_marksOnly D X req) i hi

example : [0, 1, 2].count 1 = 1 := by decide

/-- the executor of the family run without extensions: `Once` -/
theorem family_once (D : AGV.Model.ExecStatic.Defects) (X : XDefects) (req : CaseReq) (doc : Doc) (op : OpDef) (vr : Cache) :
    Bal ((caseBase D X).exec (resolveAt ([] : List (Ext CaseReq Doc Cache Resp Stage))) false req doc op vr).2 ∧
    fieldOpens ((caseBase D X).exec (resolveAt ([] : List (Ext CaseReq Doc Cache Resp Stage))) false req doc op vr).2 =
      ((caseBase D X).exec (resolveAt ([] : List (Ext CaseReq Doc Cache Resp Stage))) false req doc op vr).1.res.log.length :=
  runOp_once D X false _ resolveAt_nil_siteHook req.S doc op req.vars req.w req.fuel

/-- ONE FIELD SITE PER RESOLVER INVOCATION (was OPEN): in the family's executor (`runOp`,
    `resolveContainerX`, `runFieldX`, `resolveValueX`) run without extensions, the number of opened
    field sites (resolve sites whose path ends in a key) equals the number of resolver invocations
    in the log of the result — every field future that reaches a resolver does so inside exactly
    one site, list items open item sites only, `__typename`/unknown fields open none.
    (`Lemmas.ExtSites.Once`, by induction on the fuel and on the `TypeRef`.) -/
theorem c30_resolve_once_per_invocation :
  ∀ (D : AGV.Model.ExecStatic.Defects) (X : XDefects) (req : CaseReq) (doc : Doc) (op : OpDef) (vr : Cache),
    let r := (caseBase D X).exec (resolveAt ([] : List (Ext CaseReq Doc Cache Resp Stage))) false req doc op vr
    (r.2.filter (fun e => match e with
      | .mark true s => s.hook = .resolve && (match s.path.getLast? with | some (.key _) => true | _ => false)
      | _ => false)).length = r.1.res.log.length := by
  intro D X req doc op vr
  have h := (family_once D X req doc op vr).2
  have e : (fun e : Ev => match e with
      | .mark true s => decide (s.hook = .resolve) && (match s.path.getLast? with | some (.key _) => true | _ => false)
      | _ => false) = isFieldOpen := by
    funext e
    cases e with
    | mark b s => cases b <;> rfl
    | hook b i s => rfl
  simp only [e]
  exact h

/-- BALANCE: the site markers of the family's executor are well bracketed -/
theorem c30_sites_balanced_exec (D : AGV.Model.ExecStatic.Defects) (X : XDefects) (req : CaseReq) (doc : Doc) (op : OpDef) (vr : Cache) :
    balanced [] ((caseBase D X).exec (resolveAt ([] : List (Ext CaseReq Doc Cache Resp Stage))) false req doc op vr).2 = true :=
  (family_once D X req doc op vr).1.balanced

/-- the events recorded by extensions are transparent for bracketing -/
theorem balanced_hooks (a : List Ev) (ha : ∀ e ∈ a, ∃ en i s, e = Ev.hook en i s) (st : List Site) (r : List Ev) :
    balanced st (a ++ r) = balanced st r := by
  induction a with
  | nil => rfl
  | cons e a ih =>
    obtain ⟨en, i, s, rfl⟩ := ha e List.mem_cons_self
    simp only [List.cons_append, balanced]
    exact ih (fun e' he' => ha e' (List.mem_cons_of_mem _ he'))

/-- … so a stack of recording extensions does not change whether a trace is well bracketed -/
theorem balanced_expand (ls : List Nat) (t : List Ev) : ∀ st, balanced st (expand ls t) = balanced st t := by
  induction t with
  | nil => intro st; rfl
  | cons e t ih =>
    intro st
    rw [expand_cons]
    cases e with
    | hook en i s => simp only [expandEv, List.cons_append, List.nil_append, balanced, ih]
    | mark b s =>
      cases b with
      | true =>
        simp only [expandEv, List.cons_append, balanced]
        rw [balanced_hooks _ (by intro e he; obtain ⟨j, _, rfl⟩ := List.mem_map.mp he; exact ⟨_, _, _, rfl⟩), ih]
      | false =>
        simp only [expandEv, List.append_assoc]
        rw [balanced_hooks _ (by intro e he; obtain ⟨j, _, rfl⟩ := List.mem_map.mp he; exact ⟨_, _, _, rfl⟩)]
        cases st <;> simp [balanced, ih]

/-- extension `i` enters a field site -/
def isFieldEnter (i : Nat) : Ev → Bool
  | .hook true j s => j == i && isFieldSite s
  | _ => false

/-- the number of field sites extension `i` enters -/
def fieldEnters (i : Nat) (t : List Ev) : Nat := (t.filter (isFieldEnter i)).length

theorem fieldEnters_append (i : Nat) (a b : List Ev) : fieldEnters i (a ++ b) = fieldEnters i a + fieldEnters i b := by
  simp [fieldEnters, List.filter_append]

theorem fieldEnters_enter (i : Nat) (s : Site) (ls : List Nat) :
    fieldEnters i (ls.map (fun j => Ev.hook true j s)) = if isFieldSite s then ls.count i else 0 := by
  cases hs : isFieldSite s
  · induction ls with
    | nil => rfl
    | cons j ls ih =>
      simp only [fieldEnters, List.map_cons, List.filter_cons, isFieldEnter, hs, Bool.and_false] at ih ⊢
      simpa using ih
  · induction ls with
    | nil => rfl
    | cons j ls ih =>
      simp only [fieldEnters, List.map_cons, List.filter_cons, isFieldEnter, hs, Bool.and_true, List.count_cons] at ih ⊢
      by_cases h : j = i <;> simp_all

theorem fieldEnters_exit (i : Nat) (s : Site) (ls : List Nat) :
    fieldEnters i (ls.map (fun j => Ev.hook false j s)) = 0 := by
  induction ls with
  | nil => rfl
  | cons j ls ih => simp [fieldEnters, isFieldEnter]

theorem fieldEnters_expand (i : Nat) (ls : List Nat) (t : List Ev) (ht : MarksOnly t) :
    fieldEnters i (expand ls t) = ls.count i * fieldOpens t := by
  induction t with
  | nil => rfl
  | cons e t ih =>
    have ht' : MarksOnly t := fun e' he' => ht e' (List.mem_cons_of_mem _ he')
    obtain ⟨b, s, rfl⟩ := ht e (List.mem_cons_self)
    rw [expand_cons, fieldEnters_append, ih ht']
    have hc : fieldOpens (Ev.mark b s :: t) = fieldOpens [Ev.mark b s] + fieldOpens t := fieldOpens_append [_] t
    rw [hc, Nat.mul_add]
    congr 1
    cases b with
    | true =>
      show fieldEnters i ([Ev.mark true s] ++ ls.map (fun j => Ev.hook true j s)) = _
      rw [fieldEnters_append, fieldEnters_enter]
      cases hs : isFieldSite s <;> simp [fieldEnters, isFieldEnter, fieldOpens, isFieldOpen, hs]
    | false =>
      show fieldEnters i (ls.reverse.map (fun j => Ev.hook false j s) ++ [Ev.mark false s]) = _
      rw [fieldEnters_append, fieldEnters_exit]
      simp [fieldEnters, isFieldEnter, fieldOpens, isFieldOpen]

/-- the whole extension-free request of the family: stage sites around the executor's sites —
    well bracketed, and the field sites are exactly the resolver invocations of the response -/
theorem family_execute_once (D : AGV.Model.ExecStatic.Defects) (X : XDefects) (req : CaseReq) :
    Bal (execute (caseBase D X) ([] : List (Ext CaseReq Doc Cache Resp Stage)) req).2 ∧
    fieldOpens (execute (caseBase D X) ([] : List (Ext CaseReq Doc Cache Resp Stage)) req).2 =
      (execute (caseBase D X) ([] : List (Ext CaseReq Doc Cache Resp Stage)) req).1.res.log.length := by
  have hx := family_once D X
  simp only [execute, stages, prepareAt, atSite, runChain, runPrepare, List.map_nil]
  cases hp : (caseBase D X).parse req with
  | error e' =>
    constructor
    · intro st r; simp [balanced]
    · simp [fieldOpens, isFieldOpen, isFieldSite, caseBase]
  | ok doc =>
    cases hv : (caseBase D X).validate req doc with
    | error e' =>
      simp only [hv]
      constructor
      · intro st r; simp [balanced]
      · simp [fieldOpens, isFieldOpen, isFieldSite, caseBase]
    | ok vr =>
      cases hs : (caseBase D X).selectOp req doc with
      | error e' =>
        simp only [hv, hs]
        constructor
        · intro st r; simp [balanced]
        · simp [fieldOpens, isFieldOpen, isFieldSite, caseBase]
      | ok op =>
        obtain ⟨h1, h2⟩ := hx req doc op vr
        simp only [hv, hs, List.isEmpty_nil, Bool.not_true]
        constructor
        · intro st r
          simp [balanced, h1 _ _]
        · rw [← h2]
          simp [fieldOpens, isFieldOpen, isFieldSite, List.filter_append]

/-- BALANCE: whatever stack of recording extensions is installed, the trace of a request of the
    family is well bracketed: every site (stage, field, list item) closes inside the site that
    was open when it began. -/
theorem c30_sites_balanced (D : AGV.Model.ExecStatic.Defects) (X : XDefects) (hX : X.plainPathSkipsLookup = false)
    (ls : List Nat) (req : CaseReq) :
    balanced [] (execute (caseBase D X) (stack ls) req).2 = true := by
  rw [c30_nesting_family D X hX ls req, balanced_expand]
  exact (family_execute_once D X req).1.balanced

/-- ONE RESOLVE HOOK PER RESOLVER INVOCATION, as an extension sees it: each extension registered
    once enters exactly as many field sites as the response's log has resolver invocations. -/
theorem c30_resolve_once_family (D : AGV.Model.ExecStatic.Defects) (X : XDefects) (hX : X.plainPathSkipsLookup = false)
    (ls : List Nat) (req : CaseReq) (i : Nat) (hi : ls.count i = 1) :
    fieldEnters i (execute (caseBase D X) (stack ls) req).2 =
      (execute (caseBase D X) (stack ls) req).1.res.log.length := by
  rw [c30_nesting_family D X hX ls req, c30_transparent_family D X hX ls req,
    fieldEnters_expand i ls _ (family_execute_marksOnly D X req), hi, Nat.one_mul]
  exact (family_execute_once D X req).2


/-- `{ a }` with two recording extensions: one field site, one resolver invocation -/
def okReq : CaseReq :=
  { S := { types := [{ name := "Query", kind := .object, fields := [{ name := "a", ty := .named "Int", args := [] }] },
                     { name := "Int", kind := .scalar }], query := "Query" },
    doc := { ops := [{ ty := .query, name := none, vars := [], dirs := [],
                       sels := [.field none "a" [] [] [] ⟨1, 3⟩] }], frags := [] },
    opName := none, vars := [], w := { entries := [] }, parses := true, strictValid := true, fast := false, fuel := 3 }

example : fieldEnters 1 (execute (caseBase {} {}) (stack [0, 1]) okReq).2 = 1 ∧
    (execute (caseBase {} {}) (stack [0, 1]) okReq).1.res.log.length = 1 := by decide

-- ------------------------------------------------------------------ the defect of the pinned tree

def wS : Schema :=
  { types := [{ name := "Query", kind := .object, fields := [{ name := "a", ty := .named "Int", args := [] }] },
              { name := "Int", kind := .scalar }],
    query := "Query" }

/-- `{ nope }` in fast validation mode -/
def wReq : CaseReq :=
  { S := wS,
    doc := { ops := [{ ty := .query, name := none, vars := [], dirs := [],
                       sels := [.field none "nope" [] [] [] ⟨1, 3⟩] }], frags := [] },
    opName := none, vars := [], w := { entries := [] }, parses := true, strictValid := false, fast := true, fuel := 3 }

/-- WITNESS of the pinned behaviour (`plainPathSkipsLookup`): in fast mode `{ nope }` yields
    `{"nope": null}` without extensions but `data: null` plus an error with one recording
    extension installed — transparency fails. -/
theorem c30_fast_unknown_field_witness :
    ((execute (caseBase {} { plainPathSkipsLookup := true }) ([] : List (Ext CaseReq Doc Cache Resp Stage)) wReq).1.res.val.isSome = true ∧
     (execute (caseBase {} { plainPathSkipsLookup := true }) ([] : List (Ext CaseReq Doc Cache Resp Stage)) wReq).1.res.errs.length = 0) ∧
    ((execute (caseBase {} { plainPathSkipsLookup := true }) (stack [0]) wReq).1.res.val.isNone = true ∧
     (execute (caseBase {} { plainPathSkipsLookup := true }) (stack [0]) wReq).1.res.nq = 1) := by
  refine ⟨⟨?_, ?_⟩, ⟨?_, ?_⟩⟩ <;> decide

end AGV.Props.C30
