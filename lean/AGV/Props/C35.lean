import AGV.Model.HttpGet
import AGV.Spec.HttpGet
import AGV.Lemmas.HttpGet
import AGV.Gen.GetBranches
import AGV.Model.HttpGetBody
import AGV.Spec.HttpGetBody

/-!
C35 — HTTP GET requests never execute mutations.

Model: `AGV.Model.HttpGet.handle D integration route method accept body` (request extractor of the
integration → `prepare_request` → `execute_once`), property: `AGV.Spec.HttpGet.getSafe`.
`Defects.none` is the repaired pipeline, `Defects.pinned` the pinned tree (every integration hands
GET-decoded requests to the executor unmarked).

  OBLIGATION c35_get_no_mutation_resolver
  OBLIGATION c35_get_mutation_answered_with_error
  OBLIGATION c35_get_safe
  OBLIGATION c35_get_safe_unless_listed
  OBLIGATION c35_marked_requests_in_a_batch
  OBLIGATION c35_marked_mutation_response_failed
  OBLIGATION c35_select_refines_spec
  OBLIGATION c35_repair_conservative
  OBLIGATION c35_post_control_runs_mutation
  OBLIGATION c35_get_query_still_runs
  OBLIGATION c35_witness_each_integration
  OBLIGATION c35_pinned_runs_the_mutation
  OBLIGATION c35_toggles_independent
  OBLIGATION c35_unmarked_unsafe_iff
  OBLIGATION c35_src_get_branches

Body dimension (`AGV.Model.HttpGetBody.handleX Br D integration route accept x`: method, query-string
shape, content type, Content-Length and body content vary independently; `Br` = per integration what
a GET without query part and what the other methods do; `extracted` = that table as read from the
source by srcfacts `GetBranches`), property `AGV.Spec.HttpGetBody.getSafeX`:

  OBLIGATION c35_src_method_dispatch
  OBLIGATION c35_getbody_no_mutation_resolver
  OBLIGATION c35_getbody_safe
  OBLIGATION c35_getbody_safe_of_branches
  OBLIGATION c35_get_ignores_body
  OBLIGATION c35_get_without_query_key_answered_with_error
  OBLIGATION c35_getbody_extends_model
  OBLIGATION c35_fallthrough_witness
  OBLIGATION c35_fallthrough_is_post
  OBLIGATION c35_fallthrough_needs_no_query_part
  OBLIGATION c35_other_methods_take_body_branch
-/

namespace AGV.Props.C35
open AGV.Spec.HttpGet AGV.Model.HttpGet AGV.Lemmas.HttpGet

/-- the output of a GET request through an integration that marks GET-decoded requests is a
    rejection or the execution of a marked request -/
theorem get_shape (D : Defects) (i : Integ) (route : Route) (acc : Accept) (b : Body)
    (hD : D.unmarked i = false) :
    (∃ s, s ≠ 2 ∧ handle D i route .get acc b = rejected s) ∨
    (∃ g r, g.queryOnly = true ∧ getRequest b = some r ∧ decodeGet D i r = .ok g ∧
      handle D i route .get acc b = respondSingle g) := by
  have hdec : ∀ r g, decodeGet D i r = .ok g → g.queryOnly = true := by
    intro r g h
    unfold decodeGet at h
    cases i <;> cases hq : r.quirk <;> simp_all
    all_goals (subst h; rfl)
  have hst : ∀ r s, decodeGet D i r = .error s → s ≠ 2 := by
    intro r s h
    unfold decodeGet at h
    cases i <;> cases hq : r.quirk <;> simp_all [badQueryStatus]
    all_goals (subst h; decide)
  unfold handle
  simp only
  match b with
  | .batch [] => exact .inl ⟨4, by decide, rfl⟩
  | .single r | .batch (r :: _) =>
    simp only [getRequest]
    cases hd : decodeGet D i r with
    | error s => exact .inl ⟨s, hst r s hd, rfl⟩
    | ok g => exact .inr ⟨g, r, hdec r g hd, rfl, hd, rfl⟩

/-- Part 1 (repaired pipeline): whatever is sent over GET — any integration, route, Accept header,
    document, operation name, variables, malformed parameters — no mutation resolver runs. -/
theorem c35_get_no_mutation_resolver (i : Integ) (route : Route) (acc : Accept) (b : Body) :
    noMutationRan (handle Defects.none i route .get acc b) = true := by
  rcases get_shape Defects.none i route acc b (by cases i <;> rfl) with ⟨s, _, h⟩ | ⟨g, r, hg, _, _, h⟩
  · rw [h]; rfl
  · rw [h]
    unfold respondSingle noMutationRan
    exact execute_marked_log g hg

/-- a GET request that designates a mutation (GraphQL GetOperation on the document sent) -/
theorem answered_of_marked (D : Defects) (i : Integ) (r : Req) (g : GReq) (hg : g.queryOnly = true)
    (hd : decodeGet D i r = .ok g) (hm : selectsMutation r = true) :
    answeredWithError (respondSingle g) = true := by
  -- the decoder keeps document and operation name (a request with `noquery` selects nothing)
  have hq : r.quirk ≠ .noquery := by
    intro h; simp [selectsMutation, h] at hm
  have hdoc : g.doc = r.doc ∧ g.opName = r.opName := by
    unfold decodeGet at hd
    cases i <;> cases hq' : r.quirk <;> simp_all
    all_goals (subst hd; exact ⟨rfl, rfl⟩)
  unfold selectsMutation at hm
  cases hdc : r.doc with
  | raw => simp [hdc] at hm
  | ops l =>
    simp only [hdc, Bool.and_eq_true, Option.any_eq_true] at hm
    obtain ⟨_, o, hsel, hty⟩ := hm
    have hp : prepare g = none :=
      prepare_marked_mutation g l o hg (by rw [hdoc.1, hdc])
        (by rw [selectOp_eq_selected, hdoc.2]; exact hsel) (by simpa using hty)
    simp [respondSingle, execute, hp, answeredWithError, Resp.failed]

/-- Part 2 (repaired pipeline): a GET request whose designated operation is a mutation is answered
    with an error. -/
theorem c35_get_mutation_answered_with_error (i : Integ) (route : Route) (acc : Accept) (b : Body)
    (r : Req) (hb : getRequest b = some r) (hm : selectsMutation r = true) :
    answeredWithError (handle Defects.none i route .get acc b) = true := by
  rcases get_shape Defects.none i route acc b (by cases i <;> rfl) with ⟨s, hs, h⟩ | ⟨g, r', hg, hr', hd, h⟩
  · rw [h]
    simp [answeredWithError, rejected, hs]
  · rw [h]
    rw [hb] at hr'
    cases hr'
    exact answered_of_marked Defects.none i r g hg hd hm

/-- C35 for the repaired pipeline, every method, integration, route, header and body. -/
theorem c35_get_safe (i : Integ) (route : Route) (m : Method) (acc : Accept) (b : Body) :
    getSafe m b (handle Defects.none i route m acc b) = true := by
  cases m with
  | post => rfl
  | get =>
    simp only [getSafe, Bool.or_eq_true, Bool.and_eq_true]
    right
    refine ⟨c35_get_no_mutation_resolver i route acc b, ?_⟩
    cases hb : getRequest b with
    | none => simp
    | some r =>
      cases hm : selectsMutation r with
      | false => simp [hm]
      | true =>
        simp only [Option.any_some, hm, Bool.not_true]
        exact Or.inr (c35_get_mutation_answered_with_error i route acc b r hb hm)

/-- … and for any set of listed defects, every integration that is NOT listed is safe: a new
    integration starting to violate cannot hide behind the listed ones. -/
theorem c35_get_safe_unless_listed (D : Defects) (i : Integ) (hD : D.unmarked i = false)
    (route : Route) (acc : Accept) (b : Body) :
    getSafe .get b (handle D i route .get acc b) = true := by
  simp only [getSafe, Bool.or_eq_true, Bool.and_eq_true]
  right
  rcases get_shape D i route acc b hD with ⟨s, hs, h⟩ | ⟨g, r, hg, hr, hd, h⟩
  · rw [h]
    exact ⟨rfl, by simp [answeredWithError, rejected, hs]⟩
  · rw [h]
    refine ⟨execute_marked_log g hg, ?_⟩
    rw [hr]
    cases hm : selectsMutation r with
    | false => simp [hm]
    | true =>
      simp only [Option.any_some, hm, Bool.not_true]
      exact Or.inr (answered_of_marked D i r g hg hd hm)

/-- Executor level, batched: in any batch of requests the mutation resolvers that run are
    exactly those of the unmarked requests — a marked request contributes none, wherever it
    stands in the batch. -/
theorem c35_marked_requests_in_a_batch (rs : List GReq) :
    (executeAll rs).2.filter Entry.isMutation
      = (executeAll (rs.filter (fun r => !r.queryOnly))).2.filter Entry.isMutation := by
  induction rs with
  | nil => rfl
  | cons r rs ih =>
    cases hq : r.queryOnly with
    | true =>
      have h0 : (execute r).2.filter Entry.isMutation = [] := by
        have := execute_marked_log r hq
        simp only [List.all_eq_true, Bool.not_eq_true'] at this
        exact List.filter_eq_nil_iff.mpr (by intro e he; simp [this e he])
      simp only [executeAll, List.filter_append, h0, List.nil_append, List.filter_cons, hq,
        Bool.not_true, Bool.false_eq_true, if_false]
      exact ih
    | false =>
      simp only [executeAll, List.filter_append, List.filter_cons, hq, Bool.not_false, if_true]
      rw [ih]

/-- Executor level: a marked request that designates a mutation gets a failed response (errors,
    no data), in mixed documents selected by operation name as well. -/
theorem c35_marked_mutation_response_failed (l : List Op) (n : Option String) (v : Option Int)
    (o : Op) (hs : selected l n = some o) (hm : o.ty = .mutation) :
    execute ⟨.ops l, n, v, true⟩ = (Resp.failed, []) := by
  have := prepare_marked_mutation ⟨.ops l, n, v, true⟩ l o rfl rfl
    (by rw [selectOp_eq_selected]; exact hs) hm
  simp [execute, this]

/-- operation selection of `prepare_request` is GraphQL's GetOperation, on every document -/
theorem c35_select_refines_spec (ops : List Op) (n : Option String) :
    selectOp ops n = selected ops n := selectOp_eq_selected ops n

/-- The repair changes nothing else: for POST, and for GET requests that do not designate a
    mutation, the pinned and the repaired pipeline (and anything between) answer alike. -/
theorem c35_repair_conservative (D : Defects) (i : Integ) (route : Route) (m : Method)
    (acc : Accept) (b : Body)
    (h : m = .post ∨ (getRequest b).any selectsMutation = false) :
    handle D i route m acc b = handle Defects.none i route m acc b := by
  cases m with
  | post => rfl
  | get =>
    have h : (getRequest b).any selectsMutation = false := by
      rcases h with h | h
      · cases h
      · exact h
    -- `execute` does not look at the mark unless the selected operation is a mutation
    have key : ∀ (d : Doc) (n : Option String) (v : Option Int) (q : Bool),
        (∀ l o, d = .ops l → selected l n = some o → o.ty ≠ .mutation) →
        respondSingle ⟨d, n, v, q⟩ = respondSingle ⟨d, n, v, false⟩ := by
      intro d n v q hh
      have := prepare_unmarked_of_not_mutation d n v q
        (by intro l o hd hs; exact hh l o hd (by rw [← selectOp_eq_selected]; exact hs))
      simp [respondSingle, execute, this]
    have key2 : ∀ (d : Doc) (n : Option String) (v : Option Int) (q q' : Bool),
        (∀ l o, d = .ops l → selected l n = some o → o.ty ≠ .mutation) →
        respondSingle ⟨d, n, v, q⟩ = respondSingle ⟨d, n, v, q'⟩ := by
      intro d n v q q' hh
      rw [key d n v q hh, key d n v q' hh]
    have notmut : ∀ r : Req, selectsMutation r = false → r.quirk ≠ .noquery →
        ∀ l o, r.doc = .ops l → selected l r.opName = some o → o.ty ≠ .mutation := by
      intro r hr hq l o hd hs hty
      have hq' : (r.quirk != Quirk.noquery) = true := by simpa using hq
      simp [selectsMutation, hd, hs, hty, hq'] at hr
    unfold handle
    simp only
    match b, h with
    | .batch [], _ => rfl
    | .single r, h | .batch (r :: _), h =>
      simp only [getRequest, Option.any_some] at h
      simp only
      unfold decodeGet
      cases i <;> cases hq : r.quirk <;> simp only []
      all_goals first
        | rfl
        | exact key2 _ _ _ _ _ (by intro l o hd; cases hd)
        | exact key2 _ _ _ _ _ (notmut r h (by simp [hq]))

/-- Control: over POST the mutation does run (the model is not vacuously safe): a valid
    anonymous mutation sent as a single JSON request runs all its fields in order, on every
    integration and route, whatever the toggles. -/
theorem c35_post_control_runs_mutation (D : Defects) (i : Integ) (route : Route) (acc : Accept)
    (fs : List Fld) (v : Option Int) (q : Quirk) (hne : fs ≠ [])
    (hv : ∀ f ∈ fs, rootOf f = some .mutation) :
    (handle D i route .post acc (.single ⟨.ops [⟨.mutation, none, fs⟩], none, v, q⟩)).log
      = fs.map (entryOf v .mutation) := by
  have hall : fs.all (fun f => rootOf f == some OpType.mutation) = true := by
    simp only [List.all_eq_true, beq_iff_eq]; exact hv
  have hne' : fs.isEmpty = false := by cases fs <;> simp_all
  simp [handle, respondSingle, decodePost, execute, prepare, parses, opValid, selectOp, hall, hne',
    executeOnce]

/-- … and over GET a valid query still runs on the repaired pipeline. -/
theorem c35_get_query_still_runs (i : Integ) (route : Route) (acc : Accept)
    (fs : List Fld) (v : Option Int) (hne : fs ≠ [])
    (hv : ∀ f ∈ fs, rootOf f = some .query) :
    (handle Defects.none i route .get acc (.single ⟨.ops [⟨.query, none, fs⟩], none, v, .ok⟩)).log
      = fs.map Entry.q := by
  have hall : fs.all (fun f => rootOf f == some OpType.query) = true := by
    simp only [List.all_eq_true, beq_iff_eq]; exact hv
  have hne' : fs.isEmpty = false := by cases fs <;> simp_all
  have hmap : fs.map (entryOf v .query) = fs.map Entry.q := by
    apply List.map_congr_left; intro f _; cases f <;> rfl
  cases i <;>
    simp [handle, decodeGet, respondSingle, execute, prepare, parses, opValid, selectOp,
      executeOnce, Defects.none, Defects.unmarked, hall, hne', hmap]

-- ------------------------------------------------------------------ the pinned tree

/-- exactly integration `i` hands GET requests to the executor unmarked -/
def only : Integ → Defects
  | .axum => { axum := true } | .actix => { actix := true } | .poem => { poem := true }
  | .warp => { warp := true } | .rocket => { rocket := true }

/-- `GET ?query=mutation{inc}` -/
def witness : Body := .single ⟨.ops [⟨.mutation, none, [.inc]⟩], none, none, .ok⟩

/-- `GET ?query=query A{a} mutation B{inc}&operationName=B` — a mixed document -/
def witnessMixed : Body :=
  .single ⟨.ops [⟨.query, some "A", [.a]⟩, ⟨.mutation, some "B", [.inc]⟩], some "B", none, .ok⟩

/-- Witness for every toggle: with integration `i` unmarked, `GET ?query=mutation{inc}` through
    `i` violates the property (both documents, every route) — these inputs are in the corpus and
    the listed findings. -/
theorem c35_witness_each_integration (i : Integ) (route : Route) :
    getSafe .get witness (handle (only i) i route .get .plain witness) = false ∧
    getSafe .get witnessMixed (handle (only i) i route .get .plain witnessMixed) = false := by
  cases i <;> cases route <;> decide

/-- what the pinned tree does with the witness: status 200, no error, the mutation ran -/
theorem c35_pinned_runs_the_mutation (i : Integ) (route : Route) (acc : Accept) :
    handle Defects.pinned i route .get acc witness = ⟨2, .single ⟨false⟩, [.m .inc]⟩ := by
  cases i <;> cases route <;> cases acc <;> decide

/-- a toggle concerns its own integration only -/
theorem c35_toggles_independent (i j : Integ) (hij : i ≠ j) (route : Route) (m : Method)
    (acc : Accept) (b : Body) :
    handle (only i) j route m acc b = handle Defects.none j route m acc b := by
  cases m with
  | post => rfl
  | get =>
    have : (only i).unmarked j = Defects.none.unmarked j := by
      cases i <;> cases j <;> first | (exfalso; exact hij rfl) | rfl
    unfold handle decodeGet
    simp only [this]

/-- Exact extent of the defect: through an unmarked integration a GET request is unsafe
    precisely when it decodes and `prepare_request` arrives at a mutation operation — then the
    mutation runs; every other GET request is already safe on the pinned tree. -/
theorem c35_unmarked_unsafe_iff (D : Defects) (i : Integ) (hD : D.unmarked i = true)
    (route : Route) (acc : Accept) (r : Req) :
    getSafe .get (.single r) (handle D i route .get acc (.single r)) = false ↔
      ∃ g o, decodeGet D i r = .ok g ∧ prepare g = some o ∧ o.ty = .mutation := by
  have hst : ∀ s, decodeGet D i r = .error s → s ≠ 2 := by
    intro s h
    unfold decodeGet at h
    cases i <;> cases hq : r.quirk <;> simp_all [badQueryStatus]
    all_goals (subst h; decide)
  -- an unmarked decoder keeps document and operation name unless `query` is missing
  have hkeep : ∀ g, decodeGet D i r = .ok g → r.quirk ≠ .noquery →
      g.doc = r.doc ∧ g.opName = r.opName ∧ g.queryOnly = false := by
    intro g h hq
    unfold decodeGet at h
    cases i <;> cases hq' : r.quirk <;> simp_all
    all_goals (subst h; exact ⟨rfl, rfl, rfl⟩)
  cases hd : decodeGet D i r with
  | error s =>
    have hh : handle D i route .get acc (.single r) = rejected s := by simp [handle, hd]
    rw [hh]
    constructor
    · intro h
      simp [getSafe, noMutationRan, rejected, answeredWithError, hst s hd] at h
    · rintro ⟨g, o, h, _⟩
      cases h
  | ok g =>
    have hh : handle D i route .get acc (.single r) = respondSingle g := by simp [handle, hd]
    rw [hh]
    cases hp : prepare g with
    | none =>
      constructor
      · intro h
        simp [getSafe, noMutationRan, respondSingle, execute, hp, answeredWithError, Resp.failed] at h
      · rintro ⟨g', o, h, hp', _⟩
        cases h
        rw [hp] at hp'
        cases hp'
    | some o =>
      obtain ⟨l, hdoc, hsel, hne, _⟩ := prepare_some_inv g o hp
      cases hty : o.ty with
      | mutation =>
        constructor
        · intro _
          exact ⟨g, o, rfl, hp, hty⟩
        · intro _
          obtain ⟨f, fs, hfs⟩ := List.exists_cons_of_ne_nil hne
          simp [getSafe, noMutationRan, respondSingle, execute, hp, executeOnce, hty, hfs,
            entryOf_mutation]
      | query =>
        constructor
        · intro h
          exfalso
          have hlog : (execute g).2.all (fun e => !e.isMutation) = true := by
            simp only [execute, hp]
            exact executeOnce_log_not_mutation g.v o (by rw [hty]; decide)
          have hsm : selectsMutation r = false := by
            by_cases hq : r.quirk = .noquery
            · simp [selectsMutation, hq]
            · obtain ⟨h1, h2, _⟩ := hkeep g hd hq
              rw [h1] at hdoc
              rw [h2, selectOp_eq_selected] at hsel
              simp [selectsMutation, hdoc, hsel, hty]
          simp [getSafe, noMutationRan, respondSingle, hlog, getRequest, hsm] at h
        · rintro ⟨g', o', h, hp', hm⟩
          cases h
          rw [hp] at hp'
          cases hp'
          rw [hty] at hm
          cases hm
      | subscription =>
        constructor
        · intro h
          simp [getSafe, noMutationRan, respondSingle, execute, hp, executeOnce, hty,
            answeredWithError, Resp.failed] at h
        · rintro ⟨g', o', h, hp', hm⟩
          cases h
          rw [hp] at hp'
          cases hp'
          rw [hty] at hm
          cases hm

-- ------------------------------------------------------------------ source tie

/-- The integrations found under integrations/ and the function each hands a GET query string to
    (extracted from the source on every run) are exactly those of the model. -/
theorem c35_src_get_branches :
    AGV.Gen.GetBranches.getDecoders = allIntegs.map (fun i => (integDir i, getDecoderOf i)) := by
  decide

-- ------------------------------------------------------------------ the body dimension

section Body
open AGV.Spec.HttpGetBody AGV.Model.HttpGetBody

/-- the method dispatch of the five integrations as extracted from the source on every run -/
def extracted : Branches :=
  Branches.ofTables AGV.Gen.GetBranches.getNoQuery AGV.Gen.GetBranches.otherMethods

/-- The extracted dispatch (what a GET whose URI has no query part does; what methods other than
    GET and POST do) is the one the correspondence model runs with; in particular no integration
    hands a GET to the body branch. -/
theorem c35_src_method_dispatch (i : Integ) :
    extracted.noQuery i = srcBranches.noQuery i ∧ extracted.other i = srcBranches.other i := by
  cases i <;> decide

theorem extracted_not_readsBody (i : Integ) : extracted.noQuery i ≠ .readsBody := by
  rw [(c35_src_method_dispatch i).1]
  cases i <;> decide

/-- the query branch of a marking integration is safe (restating `c35_get_safe_unless_listed`) -/
theorem queryBranch_safe (D : Defects) (i : Integ) (hD : D.unmarked i = false) (route : Route)
    (acc : Accept) (r : Req) :
    noMutationRan (queryBranch D i route acc r) = true ∧
      (selectsMutation r = true → answeredWithError (queryBranch D i route acc r) = true) := by
  have h := c35_get_safe_unless_listed D i hD route acc (.single r)
  simp only [getSafe, getRequest, Option.any_some] at h
  unfold queryBranch
  cases hm : selectsMutation r <;> simp_all

/-- General form: for ANY dispatch table in which integration `i` does not hand a GET to the body
    branch and any toggle set that does not list `i`, every exchange — every method, query-string
    shape, content type, Content-Length, body — satisfies the property. -/
theorem c35_getbody_safe_of_branches (Br : Branches) (D : Defects) (i : Integ)
    (hBr : Br.noQuery i ≠ .readsBody) (hD : D.unmarked i = false) (route : Route) (acc : Accept)
    (x : ReqX) :
    getSafeX x (handleX Br D i route acc x) = true := by
  obtain ⟨m, q, ct, cl, p⟩ := x
  cases m <;> try rfl
  simp only [getSafeX, handleX, handleGet, bne_self_eq_false, Bool.false_or, Bool.and_eq_true]
  cases q with
  | qs r =>
    have h := queryBranch_safe D i hD route acc r
    refine ⟨h.1, ?_⟩
    cases hm : selectsMutation r with
    | false => simp [QS.request, hm]
    | true => simp [QS.request, hm, h.2 hm]
  | emptyq | junk =>
    exact ⟨(queryBranch_safe D i hD route acc noKeys).1, by simp [QS.request]⟩
  | noq =>
    cases hn : Br.noQuery i with
    | readsBody => exact absurd hn hBr
    | error => exact ⟨rfl, by simp [QS.request]⟩
    | emptyQuery => exact ⟨(queryBranch_safe D i hD route acc noKeys).1, by simp [QS.request]⟩

/-- C35 with the body dimension, over the extracted dispatch: every integration, route, Accept
    header, method, query-string shape, content type, Content-Length and body. -/
theorem c35_getbody_safe (i : Integ) (route : Route) (acc : Accept) (x : ReqX) :
    getSafeX x (handleX extracted Defects.none i route acc x) = true :=
  c35_getbody_safe_of_branches extracted Defects.none i (extracted_not_readsBody i)
    (by cases i <;> rfl) route acc x

/-- … in particular: whatever a GET carries in its body (a mutation, a batch, as JSON or multipart,
    with or without Content-Length) and whatever its URI looks like, no mutation resolver runs. -/
theorem c35_getbody_no_mutation_resolver (i : Integ) (route : Route) (acc : Accept) (q : QS) (ct : CT)
    (cl : Bool) (p : Option Body) :
    noMutationRan (handleX extracted Defects.none i route acc ⟨.get, q, ct, cl, p⟩) = true := by
  have h := c35_getbody_safe i route acc ⟨.get, q, ct, cl, p⟩
  simp only [getSafeX, bne_self_eq_false, Bool.false_or, Bool.and_eq_true] at h
  exact h.1

/-- A GET never looks at its body: content type, Content-Length and body content do not influence
    the answer (any toggle set; any dispatch that does not hand GET to the body branch). -/
theorem c35_get_ignores_body (Br : Branches) (D : Defects) (i : Integ)
    (hBr : Br.noQuery i ≠ .readsBody) (route : Route) (acc : Accept) (q : QS)
    (ct ct' : CT) (cl cl' : Bool) (p p' : Option Body) :
    handleX Br D i route acc ⟨.get, q, ct, cl, p⟩ = handleX Br D i route acc ⟨.get, q, ct', cl', p'⟩ := by
  simp only [handleX, handleGet]
  cases q <;> try rfl
  cases hn : Br.noQuery i <;> first | rfl | exact absurd hn hBr

/-- A GET whose URI carries no `query` key (no `?`, `?`, `?foo=1&bar`, `?operationName=…`) is
    answered with an error and runs NO resolver at all — under every toggle set, the pinned tree
    included. -/
theorem c35_get_without_query_key_answered_with_error (Br : Branches) (D : Defects) (i : Integ)
    (hBr : Br.noQuery i ≠ .readsBody) (route : Route) (acc : Accept) (x : ReqX)
    (hx : x.method = .get) (hq : x.qs.hasQuery = false) :
    answeredWithError (handleX Br D i route acc x) = true ∧ (handleX Br D i route acc x).log = [] := by
  have key : ∀ r : Req, r.quirk = .noquery →
      answeredWithError (queryBranch D i route acc r) = true ∧ (queryBranch D i route acc r).log = [] := by
    intro r hr
    cases i <;>
      simp [queryBranch, handle, decodeGet, hr, respondSingle, execute, prepare, rejected,
        answeredWithError, Resp.failed]
  obtain ⟨m, q, ct, cl, p⟩ := x
  cases hx
  simp only [handleX, handleGet]
  cases q with
  | qs r => exact key r (by simpa [QS.hasQuery] using hq)
  | emptyq | junk => exact key noKeys rfl
  | noq =>
    cases hn : Br.noQuery i with
    | readsBody => exact absurd hn hBr
    | error => exact ⟨rfl, rfl⟩
    | emptyQuery => exact key noKeys rfl

/-- The model with the body dimension extends the one of the stream `main`: a GET with a query
    string is that model's GET (the body is not looked at), a POST with a body that model's POST. -/
theorem c35_getbody_extends_model (Br : Branches) (D : Defects) (i : Integ) (route : Route)
    (acc : Accept) (q : QS) (ct : CT) (cl : Bool) (p : Option Body) (r : Req) (b : Body) :
    handleX Br D i route acc ⟨.get, .qs r, ct, cl, p⟩ = handle D i route .get acc (.single r) ∧
    handleX Br D i route acc ⟨.post, q, ct, cl, some b⟩ = handle D i route .post acc b :=
  ⟨rfl, rfl⟩

/-- `GET /path` (no `?`), body `{"query":"mutation{inc}"}` as application/json -/
def witnessX : ReqX := ⟨.get, .noq, .json, true, some witness⟩

/-- `GET /path`, body `[{"query":"{a}"},{"query":"mutation{inc}"}]` as multipart/form-data -/
def witnessBatchX : ReqX :=
  ⟨.get, .noq, .multipart, false,
    some (.batch [⟨.ops [⟨.query, none, [.a]⟩], none, none, .ok⟩, ⟨.ops [⟨.mutation, none, [.inc]⟩], none, none, .ok⟩])⟩

/-- Witness for the dispatch `if let (&Method::GET, Some(query)) = (method, uri.query())`: if
    integration `j` lets a GET without query part fall into the body branch shared with POST, then
    `GET /path` with a mutation in the body runs it — on every route, although requests decoded
    from query strings are still marked (no toggle set).  The batch witness needs a batch route. -/
theorem c35_fallthrough_witness (j : Integ) (route : Route) (acc : Accept) :
    getSafeX witnessX (handleX (fallThrough j) Defects.none j route acc witnessX) = false ∧
    (handleX (fallThrough j) Defects.none j route acc witnessX).log = [.m .inc] ∧
    (handleX (fallThrough j) Defects.none j .batch acc witnessBatchX).log = [.q .a, .m .inc] := by
  cases j <;> cases route <;> cases acc <;> decide

/-- Extent of such a fall-through: the GET without query part is then answered exactly like the
    POST with the same body … -/
theorem c35_fallthrough_is_post (Br : Branches) (D : Defects) (i : Integ)
    (h : Br.noQuery i = .readsBody) (route : Route) (acc : Accept) (ct : CT) (cl : Bool)
    (p : Option Body) :
    handleX Br D i route acc ⟨.get, .noq, ct, cl, p⟩ = handleX Br D i route acc ⟨.post, .noq, ct, cl, p⟩ := by
  simp [handleX, handleGet, h]

/-- … and ONLY that request is affected: a GET whose URI has any query part (`?`, `?foo=1`,
    `?query=…`) stays safe under every dispatch table — which is why a harness that always sends
    a query string cannot see the defect. -/
theorem c35_fallthrough_needs_no_query_part (Br : Branches) (D : Defects) (i : Integ)
    (hD : D.unmarked i = false) (route : Route) (acc : Accept) (x : ReqX) (hq : x.qs ≠ .noq) :
    getSafeX x (handleX Br D i route acc x) = true := by
  obtain ⟨m, q, ct, cl, p⟩ := x
  cases m <;> try rfl
  simp only [getSafeX, handleX, handleGet, bne_self_eq_false, Bool.false_or, Bool.and_eq_true]
  cases q with
  | noq => exact absurd rfl hq
  | qs r =>
    have h := queryBranch_safe D i hD route acc r
    refine ⟨h.1, ?_⟩
    cases hm : selectsMutation r with
    | false => simp [QS.request, hm]
    | true => simp [QS.request, hm, h.2 hm]
  | emptyq | junk =>
    exact ⟨(queryBranch_safe D i hD route acc noKeys).1, by simp [QS.request]⟩

/-- Not GET, hence outside the property, but recorded: the extractors of axum and poem send every
    method other than GET to the body branch, so a HEAD or PUT request whose body carries a
    mutation runs it (axum answers HEAD through `get(handler)` routes too); actix-web and warp
    refuse such methods, rocket answers HEAD through the GET route. -/
theorem c35_other_methods_take_body_branch (acc : Accept) (q : QS) (ct : CT) (cl : Bool) :
    (handleX srcBranches Defects.none .axum .single acc ⟨.head, q, ct, cl, some witness⟩).log = [.m .inc] ∧
    (handleX srcBranches Defects.none .axum .svc acc ⟨.put, q, ct, cl, some witness⟩).log = [.m .inc] ∧
    (handleX srcBranches Defects.none .poem .single acc ⟨.head, q, ct, cl, some witness⟩).log = [.m .inc] ∧
    (∀ route m, m ≠ .get → m ≠ .post →
      (handleX srcBranches Defects.none .actix route acc ⟨m, q, ct, cl, some witness⟩).log = [] ∧
      (handleX srcBranches Defects.none .warp route acc ⟨m, q, ct, cl, some witness⟩).log = [] ∧
      (handleX srcBranches Defects.none .rocket route acc ⟨m, q, ct, cl, some witness⟩).log.all
        (fun e => !e.isMutation) = true) := by
  refine ⟨by cases acc <;> rfl, by cases acc <;> rfl, by cases acc <;> rfl, ?_⟩
  intro route m hg hp
  have hr := c35_getbody_safe_of_branches srcBranches Defects.none .rocket (by decide) rfl route acc
    ⟨.get, q, ct, cl, some witness⟩
  simp only [getSafeX, bne_self_eq_false, Bool.false_or, Bool.and_eq_true] at hr
  cases m with
  | get => exact absurd rfl hg
  | post => exact absurd rfl hp
  | head =>
    refine ⟨rfl, rfl, ?_⟩
    have e : handleX srcBranches Defects.none .rocket route acc ⟨.head, q, ct, cl, some witness⟩
        = strip (handleX srcBranches Defects.none .rocket route acc ⟨.get, q, ct, cl, some witness⟩) := rfl
    rw [e]
    exact hr.1
  | put => exact ⟨rfl, rfl, rfl⟩

end Body

end AGV.Props.C35
