/-
  C19 — introspection modes gate schema metadata and user resolvers.
  Property theorems only (helper lemmas live in AGV/Lemmas/Introspection.lean).
  All table theorems are about the COMPLETE decision table
  (2 flavours × 3 schema modes × 3 request modes × 3 operation types × 6 field kinds = 324 entries)
  of the model with no defect toggle.

  OBLIGATION c19_disabled
  OBLIGATION c19_only
  OBLIGATION c19_typename
  OBLIGATION c19_typename_subscription_refused
  OBLIGATION c19_metadata_iff
  OBLIGATION c19_resolver_iff
  OBLIGATION c19_modes_symmetric
  OBLIGATION c19_lift
  OBLIGATION c19_doc_disabled
  OBLIGATION c19_doc_only
  OBLIGATION c19_doc_typename
  OBLIGATION c19_doc_spec
  OBLIGATION c19_sel_plain
  OBLIGATION c19_sel_lift
  OBLIGATION c19_sel_spec
  OBLIGATION c19_violated_by_staticServiceUngated
  OBLIGATION c19_violated_by_dynEntitiesGated
  OBLIGATION c19_violated_by_dynSubscriptionInOnly
  OBLIGATION c19_violated_by_emptyMutationTypename
-/
import AGV.Lemmas.Introspection

namespace AGV.Props.C19
open AGV.Model.Introspection AGV.Spec.Introspection AGV.Lemmas.Introspection

/-- the repaired model: no defect toggle -/
abbrev D0 : Defects := {}

/-! ### The decision table -/

/-- Disabled at either level ⇒ no entry of the table is `metadata`. -/
theorem c19_disabled (fl : Flavour) (sm rm : Mode) (op : Op) (k : Kind)
    (h : sm = .disabled ∨ rm = .disabled) : dispatch D0 fl sm rm op k ≠ .metadata := by
  revert h
  cases fl <;> cases sm <;> cases rm <;> cases op <;> cases k <;> decide

/-- Introspection-only at either level ⇒ no entry of the table runs a user resolver
    (query, mutation, subscription or entity resolver). -/
theorem c19_only (fl : Flavour) (sm rm : Mode) (op : Op) (k : Kind)
    (h : sm = .only ∨ rm = .only) : dispatch D0 fl sm rm op k ≠ .userResolver := by
  revert h
  cases fl <;> cases sm <;> cases rm <;> cases op <;> cases k <;> decide

/-- `__typename` on a query or mutation root is answered with the root's name in every mode. -/
theorem c19_typename (fl : Flavour) (sm rm : Mode) (op : Op) (h : op ≠ .subscription) :
    dispatch D0 fl sm rm op .typename = .typeName (rootOf op) := by
  revert h
  cases fl <;> cases sm <;> cases rm <;> cases op <;> decide

/-- … and on a subscription root it never reaches execution: validation refuses it, in every
    mode and both flavours (the GraphQL specification forbids it there). -/
theorem c19_typename_subscription_refused (fl : Flavour) (sm rm : Mode) (via : Via) (ks : List Kind)
    (h : Kind.typename ∈ ks) : runDoc D0 fl sm rm .subscription via ks = .rejected := by
  have : (ks.any fun k => !known fl sm .subscription k) = true :=
    List.any_eq_true.2 ⟨.typename, h, by cases fl <;> cases sm <;> decide⟩
  simp [runDoc, this]

/-- Exactly which entries are metadata: a query's `__schema`, `__type`, `_service` when neither
    level is disabled. -/
theorem c19_metadata_iff (fl : Flavour) (sm rm : Mode) (op : Op) (k : Kind) :
    dispatch D0 fl sm rm op k = .metadata ↔
      (op = .query ∧ sm ≠ .disabled ∧ rm ≠ .disabled ∧ (k = .schema ∨ k = .type ∨ k = .service)) := by
  cases fl <;> cases sm <;> cases rm <;> cases op <;> cases k <;> decide

/-- Exactly which entries run a user resolver: neither level is introspection-only, and the field
    is an ordinary one or a query's `_entities` — independent of `disabled`, and the same for both
    flavours. -/
theorem c19_resolver_iff (fl : Flavour) (sm rm : Mode) (op : Op) (k : Kind) :
    dispatch D0 fl sm rm op k = .userResolver ↔
      (sm ≠ .only ∧ rm ≠ .only ∧ (k = .ordinary ∨ (k = .entities ∧ op = .query))) := by
  cases fl <;> cases sm <;> cases rm <;> cases op <;> cases k <;> decide

/-- The schema-level and the request-level setting play the same role during execution. -/
theorem c19_modes_symmetric (fl : Flavour) (sm rm : Mode) (op : Op) (k : Kind) :
    dispatch D0 fl sm rm op k = dispatch D0 fl rm sm op k := by
  cases fl <;> cases sm <;> cases rm <;> cases op <;> cases k <;> decide

/-! ### Lifting to documents -/

/-- Every root field of every executed document goes through the table: the result lists, in
    order, each root field with its table entry, and every one of them passed validation.
    (For every defect setting.) -/
theorem c19_lift (D : Defects) (fl : Flavour) (sm rm : Mode) (op : Op) (via : Via) (ks : List Kind)
    (os : List (Kind × Outcome)) (h : runDoc D fl sm rm op via ks = .fields os) :
    os = ks.map (fun k => (k, dispatch D fl sm rm op k)) ∧ ∀ k ∈ ks, known fl sm op k = true := by
  unfold runDoc at h
  split at h
  · cases h
  · rename_i hk
    split at h
    · cases h
    · injection h with h
      refine ⟨by rw [← h, rootLoop_eq_map], ?_⟩
      intro k hmem
      cases hkn : known fl sm op k with
      | true => rfl
      | false => exact absurd (List.any_eq_true.2 ⟨k, hmem, by simp [hkn]⟩) hk

/-- Disabled ⇒ no root field of any document, sent any way, yields metadata. -/
theorem c19_doc_disabled (fl : Flavour) (sm rm : Mode) (op : Op) (via : Via) (ks : List Kind)
    (os : List (Kind × Outcome)) (hd : sm = .disabled ∨ rm = .disabled)
    (h : runDoc D0 fl sm rm op via ks = .fields os) : ∀ p ∈ os, p.2 ≠ .metadata := by
  obtain ⟨rfl, _⟩ := c19_lift _ _ _ _ _ _ _ _ h
  intro p hp
  obtain ⟨k, _, rfl⟩ := List.mem_map.1 hp
  exact c19_disabled fl sm rm op k hd

/-- Introspection-only ⇒ no root field of any document invokes a user resolver. -/
theorem c19_doc_only (fl : Flavour) (sm rm : Mode) (op : Op) (via : Via) (ks : List Kind)
    (os : List (Kind × Outcome)) (ho : sm = .only ∨ rm = .only)
    (h : runDoc D0 fl sm rm op via ks = .fields os) : ∀ p ∈ os, p.2 ≠ .userResolver := by
  obtain ⟨rfl, _⟩ := c19_lift _ _ _ _ _ _ _ _ h
  intro p hp
  obtain ⟨k, _, rfl⟩ := List.mem_map.1 hp
  exact c19_only fl sm rm op k ho

/-- Every `__typename` root field of every executed document names the operation's root type. -/
theorem c19_doc_typename (fl : Flavour) (sm rm : Mode) (op : Op) (via : Via) (ks : List Kind)
    (os : List (Kind × Outcome)) (h : runDoc D0 fl sm rm op via ks = .fields os) :
    ∀ p ∈ os, p.1 = .typename → p.2 = .typeName (rootOf op) := by
  obtain ⟨rfl, hk⟩ := c19_lift _ _ _ _ _ _ _ _ h
  intro p hp ht
  obtain ⟨k, hmem, rfl⟩ := List.mem_map.1 hp
  simp only at ht
  subst ht
  have hop : op ≠ .subscription := by
    have := hk _ hmem
    intro e; subst e; revert this; cases fl <;> cases sm <;> decide
  exact c19_typename fl sm rm op hop

/-- table entry by table entry, a validated field meets the specification's three requirements -/
private theorem field_holds (fl : Flavour) (sm rm : Mode) (op : Op) (k : Kind)
    (h : known fl sm op k = true) :
    fieldHolds sm rm op (observeField k (dispatch D0 fl sm rm op k)) = true := by
  revert h
  cases fl <;> cases sm <;> cases rm <;> cases op <;> cases k <;> decide

/-- Refinement to the specification: for every flavour, mode pair, operation type, transport and
    document, what the repaired model lets a client observe satisfies the property. -/
theorem c19_doc_spec (fl : Flavour) (sm rm : Mode) (op : Op) (via : Via) (ks : List Kind) :
    holds sm rm op (observe (runDoc D0 fl sm rm op via ks)) = true := by
  cases hr : runDoc D0 fl sm rm op via ks with
  | rejected => simp [holds, observe]
  | unsupported => simp [holds, observe]
  | fields os =>
    obtain ⟨rfl, hk⟩ := c19_lift _ _ _ _ _ _ _ _ hr
    have := all_observe_fields (P := fieldHolds sm rm op) (f := dispatch D0 fl sm rm op) ks
      (fun k hmem => field_holds fl sm rm op k (hk k hmem))
    rw [rootLoop_eq_map] at this
    simp only [holds, this, Bool.true_and]
    simp [observe]

/-! ### Documents whose root selection set contains inline fragments -/

/-- Without fragments `runSel` is `runDoc`. -/
theorem c19_sel_plain (D : Defects) (fl : Flavour) (sm rm : Mode) (op : Op) (via : Via) (ks : List Kind) :
    runSel D fl sm rm op via (ks.map .field) = runDoc D fl sm rm op via ks := by
  simp [runSel, runDoc, selLoop_fields, List.any_map, Function.comp_def, Sel.kind]

/-- Lifting with fragments: the result lists the root selections' kinds in order, every one passed
    validation, and every entry is the table entry of its kind or `absent` (a fragment the root
    loop skipped) — for every defect setting. -/
theorem c19_sel_lift (D : Defects) (fl : Flavour) (sm rm : Mode) (op : Op) (via : Via) (ss : List Sel)
    (os : List (Kind × Outcome)) (h : runSel D fl sm rm op via ss = .fields os) :
    os.map Prod.fst = ss.map Sel.kind
    ∧ (∀ s ∈ ss, known fl sm op s.kind = true)
    ∧ ∀ p ∈ os, p.2 = dispatch D fl sm rm op p.1 ∨
        (p.2 = .absent ∧ (op = .subscription ∨ typedMatches D fl sm rm op = false)) := by
  unfold runSel at h
  split at h
  · cases h
  · rename_i hk
    split at h
    · cases h
    · injection h with h
      subst h
      refine ⟨selLoop_kinds _ _ _ _, ?_, fun p hp => (mem_selLoop hp).2⟩
      intro s hmem
      cases hkn : known fl sm op s.kind with
      | true => rfl
      | false => exact absurd (List.any_eq_true.2 ⟨s, hmem, by simp [hkn]⟩) hk

/-- a skipped fragment under a subscription root meets the specification (it cannot hold
    `__typename`: validation refuses that) -/
private theorem absent_holds (fl : Flavour) (sm rm : Mode) (k : Kind)
    (h : known fl sm .subscription k = true) :
    fieldHolds sm rm .subscription (observeField k .absent) = true := by
  revert h
  cases fl <;> cases sm <;> cases rm <;> cases k <;> decide

/-- Refinement to the specification, with fragments: for every flavour, mode pair, operation type,
    transport and root selection set, what the repaired model lets a client observe satisfies the
    property. -/
theorem c19_sel_spec (fl : Flavour) (sm rm : Mode) (op : Op) (via : Via) (ss : List Sel) :
    holds sm rm op (observe (runSel D0 fl sm rm op via ss)) = true := by
  cases hr : runSel D0 fl sm rm op via ss with
  | rejected => simp [holds, observe]
  | unsupported => simp [holds, observe]
  | fields os =>
    obtain ⟨hkinds, hk, hent⟩ := c19_sel_lift _ _ _ _ _ _ _ _ hr
    have hknown : ∀ p ∈ os, known fl sm op p.1 = true := by
      intro p hp
      have : p.1 ∈ os.map Prod.fst := List.mem_map.2 ⟨p, hp, rfl⟩
      rw [hkinds] at this
      obtain ⟨s, hs, he⟩ := List.mem_map.1 this
      rw [← he]; exact hk s hs
    simp only [holds, observe, List.all_eq_true, List.mem_map, Bool.and_eq_true]
    refine ⟨?_, by simp⟩
    rintro _ ⟨p, hp, rfl⟩
    rcases hent p hp with he | ⟨he, hop | htm⟩
    · rw [he]; exact field_holds fl sm rm op p.1 (hknown p hp)
    · rw [he]; subst hop; exact absent_holds fl sm rm p.1 (hknown p hp)
    · exact absurd htm (by cases fl <;> cases sm <;> cases rm <;> cases op <;> decide)

/-! ### Each defect of the pinned tree violates the specification (witnesses; also in the corpus) -/

theorem c19_violated_by_staticServiceUngated :
    ∃ fl sm rm op via ks,
      holds sm rm op (observe (runDoc { staticServiceUngated := true } fl sm rm op via ks)) = false :=
  ⟨.static, .disabled, .enabled, .query, .exec, [.service], by decide⟩

theorem c19_violated_by_dynEntitiesGated :
    ∃ fl sm rm op via ks,
      holds sm rm op (observe (runDoc { dynEntitiesGated := true } fl sm rm op via ks)) = false :=
  ⟨.dynamic, .enabled, .only, .query, .exec, [.entities], by decide⟩

theorem c19_violated_by_dynSubscriptionInOnly :
    ∃ fl sm rm op via ks,
      holds sm rm op (observe (runDoc { dynSubscriptionInOnly := true } fl sm rm op via ks)) = false :=
  ⟨.dynamic, .only, .enabled, .subscription, .stream, [.ordinary], by decide⟩

theorem c19_violated_by_emptyMutationTypename :
    ∃ fl sm rm op via ks,
      holds sm rm op (observe (runDoc { emptyMutationTypename := true } fl sm rm op via ks)) = false :=
  ⟨.static, .enabled, .only, .mutation, .exec, [.typename], by decide⟩

/-- the substituted `EmptyMutation` also makes `... on Mutation { __typename }` vanish -/
example : runSel { emptyMutationTypename := true } .static .only .enabled .mutation .exec
    [.inline true .typename, .inline false .typename]
    = .fields [(.typename, .absent), (.typename, .typeName .emptyMutation)] := by decide
example : runSel D0 .static .only .enabled .mutation .exec [.inline true .typename, .inline true .ordinary]
    = .fields [(.typename, .typeName .mutation), (.ordinary, .null)] := by decide

/-- the hypotheses of the document theorems are satisfiable by non-trivial inputs -/
example : runDoc D0 .static .disabled .only .query .exec [.schema, .service, .entities, .typename, .ordinary]
    = .fields [(.schema, .null), (.service, .null), (.entities, .null), (.typename, .typeName .query),
               (.ordinary, .null)] := by decide
example : runDoc D0 .dynamic .enabled .enabled .query .stream [.schema, .service, .entities, .ordinary]
    = .fields [(.schema, .metadata), (.service, .metadata), (.entities, .userResolver),
               (.ordinary, .userResolver)] := by decide

end AGV.Props.C19
