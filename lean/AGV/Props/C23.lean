/-
  C23 — all HTTP request encodings decode to the same request; batches keep order.
  Property theorems only (helper lemmas live in AGV/Lemmas/Http.lean).

  Round trips, for every request and every table of pairwise distinct key names
  OBLIGATION c23_get_roundtrip
  OBLIGATION c23_json_roundtrip
  OBLIGATION c23_batch_roundtrip
  OBLIGATION c23_multipart_roundtrip
  The property: one request, four transports, same decoded request (repaired decoders)
  OBLIGATION c23_same
  OBLIGATION c23_batch_order
  The decoders refine the reference semantics on every input (well-formed or not)
  OBLIGATION c23_body_refines_spec
  OBLIGATION c23_get_refines_spec
  OBLIGATION c23_multipart_refines_spec
  OBLIGATION c23_execute_refines_spec
  Malformed shapes are rejected; freedoms of the encoding do not matter
  OBLIGATION c23_malformed_body
  OBLIGATION c23_malformed_member
  OBLIGATION c23_malformed_get
  OBLIGATION c23_unknown_member_ignored
  OBLIGATION c23_single_rejects_batch
  Source ties (tables generated from src/request.rs and src/http/mod.rs)
  OBLIGATION c23_src_json_keys
  OBLIGATION c23_src_get_keys
  OBLIGATION c23_src_batch_shape
  Witnesses of the defect toggles
  OBLIGATION c23_get_violated_by_snake_case
  OBLIGATION c23_empty_batch_violated_by_array_request
  OBLIGATION c23_multipart_violated_by_panic
-/
import AGV.Lemmas.Http
import AGV.Gen.RequestKeys

namespace AGV.Props.C23
open AGV.Spec.Http (Str J Members Req BatchReq Err Part BatchResp)
open AGV.Model.Http AGV.Lemmas.Http

/-- GET: for every request, every table of distinct parameter names and every JSON printer/parser
    pair that round-trips (the library assumption), the parameters sent for `r` decode to `r`. -/
theorem c23_get_roundtrip (K : Keys) (hK : K.Distinct) (parse : Str → Option J) (print : J → Str)
    (hp : ∀ j, parse (print j) = some j) (r : Req) :
    decodeGet K parse (encodeGet K print r) = .ok r := by
  obtain ⟨⟨a, b, c, d, e, f⟩, ⟨a', b', c', d', e', f'⟩⟩ := Keys.Distinct.all hK
  obtain ⟨q, o, v, x⟩ := r
  cases o <;>
  simp [decodeGet, encodeGet, hasDup, count, lookup, List.filter, List.find?, getMembers, asMembers, hp, *]

/-- JSON body: the object sent for `r` decodes to the single request `r` — also with the pinned
    tree's array reading switched on (it does not interfere with objects). -/
theorem c23_json_roundtrip (D : Defects) (K : Keys) (hK : K.Distinct) (r : Req) :
    decodeBatch D K (encodeJson K r) = .ok (.single r) := by
  simp [decodeBatch, decodeReq_encode D K hK r]

/-- JSON batch: a non-empty array of request objects decodes to exactly these requests, in order. -/
theorem c23_batch_roundtrip (D : Defects) (K : Keys) (hK : K.Distinct) (rs : List Req) (hne : rs ≠ []) :
    decodeBatch D K (encodeBatch K rs) = .ok (.batch rs) := by
  have htr : traverse (decodeReq D K) (rs.map (encodeJson K)) = some rs :=
    traverse_map _ _ (decodeReq_encode D K hK) rs
  have hsingle : decodeReq D K (encodeBatch K rs) = none := by
    cases rs with
    | nil => exact absurd rfl hne
    | cons r rs =>
      obtain ⟨kvs, h1, _⟩ := decodeReqObj_encode K hK r
      cases hD : D.requestAcceptsArray <;>
      simp [encodeBatch, decodeReq, hD, decodeReqSeq, h1, fieldQuery]
  cases rs with
  | nil => exact absurd rfl hne
  | cons r rs' =>
    simp only [decodeBatch, hsingle]
    simp only [encodeBatch, List.map_cons] at htr ⊢
    rw [htr]
    simp

/-- multipart: `operations` part (any non-multipart content type) plus `map` part, either order. -/
theorem c23_multipart_roundtrip (D : Defects) (K : Keys) (hK : K.Distinct) (ct : Option Str)
    (hct : AGV.Spec.Http.isMultipartType ct = false) (r : Req) :
    decodeMultipart D K [.ops ct (encodeJson K r), .map] = .ok (.single r) ∧
    decodeMultipart D K [.map, .ops ct (encodeJson K r)] = .ok (.single r) ∧
    decodeMultipart D K [.other, .ops ct (encodeJson K r), .other, .map] = .ok (.single r) := by
  simp [decodeMultipart, decodeMultipartAux, hct, c23_json_roundtrip D K hK r]

/-- THE PROPERTY (repaired decoders, GraphQL-over-HTTP names): a request sent as GET parameters,
    as a JSON body, as a one-element batch member, or as the `operations` part of a multipart
    body decodes to the same query, operation name, variables and extensions. -/
theorem c23_same (parse : Str → Option J) (print : J → Str) (hp : ∀ j, parse (print j) = some j) (r : Req) :
    decodeGet (getKeys {}) parse (encodeGet jsonKeys print r) = .ok r ∧
    decodeBatch {} jsonKeys (encodeJson jsonKeys r) = .ok (.single r) ∧
    decodeBatch {} jsonKeys (encodeBatch jsonKeys [r]) = .ok (.batch [r]) ∧
    decodeMultipart {} jsonKeys [.ops none (encodeJson jsonKeys r), .map] = .ok (.single r) := by
  refine ⟨?_, c23_json_roundtrip {} _ jsonKeys_distinct r,
    c23_batch_roundtrip {} _ jsonKeys_distinct [r] (by simp),
    (c23_multipart_roundtrip {} _ jsonKeys_distinct none rfl r).1⟩
  have : getKeys {} = jsonKeys := rfl
  rw [this]
  exact c23_get_roundtrip _ jsonKeys_distinct parse print hp r

/-- batches keep order: the i-th response answers the i-th request of the body, and there are as
    many responses as requests. -/
theorem c23_batch_order {ρ : Type} (exec : Req → ρ) (D : Defects) (K : Keys) (hK : K.Distinct)
    (rs : List Req) (hne : rs ≠ []) :
    ∃ resps, (decodeBatch D K (encodeBatch K rs)).map (executeBatch exec) = .ok (.batch resps) ∧
      resps.length = rs.length ∧ ∀ i : Nat, resps[i]? = (rs[i]?).map exec := by
  refine ⟨rs.map exec, ?_, by simp, by simp⟩
  rw [c23_batch_roundtrip D K hK rs hne]
  rfl

-- ------------------------------------------------------------------ refinement of the reference semantics

theorem decodeReqObj_eq_spec (kvs : Members) :
    decodeReqObj jsonKeys kvs = AGV.Spec.Http.reqOfObject kvs := by
  simp only [decodeReqObj, AGV.Spec.Http.reqOfObject, member_eq, hasDup, jsonKeys]
  by_cases h1 : count AGV.Spec.Http.kQuery kvs > 1
  · simp [h1]
  by_cases h2 : count AGV.Spec.Http.kOperationName kvs > 1
  · simp [h1, h2]
  by_cases h3 : count AGV.Spec.Http.kVariables kvs > 1
  · simp [h1, h2, h3]
  by_cases h4 : count AGV.Spec.Http.kExtensions kvs > 1
  · simp [h1, h2, h3, h4]
  simp [h1, h2, h3, h4]
  have e1 : fieldQuery (lookup AGV.Spec.Http.kQuery kvs) = AGV.Spec.Http.queryOf (lookup AGV.Spec.Http.kQuery kvs) := by
    cases lookup AGV.Spec.Http.kQuery kvs with
    | none => rfl
    | some v => cases v <;> rfl
  have e2 : fieldOperationName (lookup AGV.Spec.Http.kOperationName kvs)
      = AGV.Spec.Http.operationNameOf (lookup AGV.Spec.Http.kOperationName kvs) := by
    cases lookup AGV.Spec.Http.kOperationName kvs with
    | none => rfl
    | some v => cases v <;> rfl
  have e3 : ∀ o : Option J, fieldMembers o = AGV.Spec.Http.membersOf o := by
    intro o
    cases o with
    | none => rfl
    | some v => cases v <;> rfl
  rw [e1, e2, e3, e3]
  cases AGV.Spec.Http.queryOf (lookup AGV.Spec.Http.kQuery kvs) <;> try rfl
  cases AGV.Spec.Http.operationNameOf (lookup AGV.Spec.Http.kOperationName kvs) <;> try rfl
  cases AGV.Spec.Http.membersOf (lookup AGV.Spec.Http.kVariables kvs) <;> try rfl
  cases AGV.Spec.Http.membersOf (lookup AGV.Spec.Http.kExtensions kvs) <;> rfl

theorem decodeReq_eq_spec : decodeReq {} jsonKeys = AGV.Spec.Http.reqOfJson := by
  funext j
  cases j <;> simp [decodeReq, AGV.Spec.Http.reqOfJson, decodeReqObj_eq_spec]

/-- JSON bodies: on EVERY document (well-formed or not) the repaired decoder returns what the
    reference semantics requires. -/
theorem c23_body_refines_spec (j : J) : decodeBatch {} jsonKeys j = AGV.Spec.Http.decodeBody j := by
  cases j with
  | obj kvs =>
    simp only [decodeBatch, decodeReq, AGV.Spec.Http.decodeBody, decodeReqObj_eq_spec]
    cases AGV.Spec.Http.reqOfObject kvs <;> rfl
  | arr xs =>
    cases xs with
    | nil => simp [decodeBatch, decodeReq, traverse, AGV.Spec.Http.decodeBody]
    | cons a as =>
      simp only [decodeBatch, decodeReq, AGV.Spec.Http.decodeBody, Bool.false_eq_true, if_false,
        decodeReq_eq_spec, traverse_eq_allSome]
      cases h : AGV.Spec.Http.allSome AGV.Spec.Http.reqOfJson (a :: as) with
      | none => rfl
      | some rs =>
        have := traverse_length _ _ _ ((traverse_eq_allSome _ _).trans h)
        cases rs with
        | nil => simp at this
        | cons r rs => rfl
  | null => rfl
  | bool b => rfl
  | num n => rfl
  | str s => rfl

/-- GET: same, for every list of parameter pairs and every JSON text parser. -/
theorem c23_get_refines_spec (parse : Str → Option J) (ps : List (Str × Str)) :
    decodeGet (getKeys {}) parse ps = AGV.Spec.Http.decodeGet parse ps := by
  have hk : getKeys {} = jsonKeys := rfl
  simp only [hk, decodeGet, AGV.Spec.Http.decodeGet, member_eq, hasDup, jsonKeys]
  have e : ∀ (er : Err) (o : Option Str), getMembers parse er o =
      match AGV.Spec.Http.textMembers parse o with | none => .error er | some m => .ok m := by
    intro er o
    cases o with
    | none => rfl
    | some t =>
      simp only [getMembers, AGV.Spec.Http.textMembers]
      cases parse t with
      | none => rfl
      | some j => cases j <;> rfl
  by_cases h1 : count AGV.Spec.Http.kQuery ps > 1
  · simp [h1]
  by_cases h2 : count AGV.Spec.Http.kOperationName ps > 1
  · simp [h1, h2]
  by_cases h3 : count AGV.Spec.Http.kVariables ps > 1
  · simp [h1, h2, h3]
  by_cases h4 : count AGV.Spec.Http.kExtensions ps > 1
  · simp [h1, h2, h3, h4]
  simp only [h1, h2, h3, h4, decide_false, Bool.or_self, Bool.false_eq_true, if_false, e]
  cases AGV.Spec.Http.textMembers parse (lookup AGV.Spec.Http.kVariables ps) <;> try rfl
  cases AGV.Spec.Http.textMembers parse (lookup AGV.Spec.Http.kExtensions ps) <;> rfl

theorem decodeMultipartAux_eq_spec (parts : List Part) (req : Option BatchReq) (m : Bool) :
    decodeMultipartAux {} jsonKeys parts req m = AGV.Spec.Http.decodeMultipartAux parts req m := by
  induction parts generalizing req m with
  | nil => cases req <;> cases m <;> rfl
  | cons p ps ih =>
    cases p with
    | ops ct j =>
      simp only [decodeMultipartAux, AGV.Spec.Http.decodeMultipartAux, c23_body_refines_spec]
      cases AGV.Spec.Http.isMultipartType ct
      · simp only [Bool.false_eq_true, if_false]
        cases AGV.Spec.Http.decodeBody j with
        | error e => rfl
        | ok r => exact ih _ _
      · rfl
    | map => simp only [decodeMultipartAux, AGV.Spec.Http.decodeMultipartAux]; exact ih _ _
    | other => simp only [decodeMultipartAux, AGV.Spec.Http.decodeMultipartAux]; exact ih _ _

/-- multipart: same, for every sequence of parts. -/
theorem c23_multipart_refines_spec (parts : List Part) :
    decodeMultipart {} jsonKeys parts = AGV.Spec.Http.decodeMultipart parts :=
  decodeMultipartAux_eq_spec parts none false

/-- batch execution is the reference one (`List.map`, order kept) for every executor. -/
theorem c23_execute_refines_spec {ρ : Type} (exec : Req → ρ) (b : BatchReq) :
    executeBatch exec b = AGV.Spec.Http.executeBatch exec b := by
  cases b <;> rfl

-- ------------------------------------------------------------------ malformed encodings

/-- bodies that are not a request object or a non-empty array of request objects are rejected
    (scalars, `null`, the empty array, an array holding anything but a decodable object). -/
theorem c23_malformed_body (K : Keys) :
    decodeBatch {} K .null = .error .invalidRequest ∧
    (∀ b, decodeBatch {} K (.bool b) = .error .invalidRequest) ∧
    (∀ n, decodeBatch {} K (.num n) = .error .invalidRequest) ∧
    (∀ s, decodeBatch {} K (.str s) = .error .invalidRequest) ∧
    decodeBatch {} K (.arr []) = .error .invalidRequest ∧
    (∀ xs x, x ∈ xs → decodeReq {} K x = none → decodeBatch {} K (.arr xs) = .error .invalidRequest) ∧
    (∀ xs x, x ∈ xs → (∀ kvs, x ≠ .obj kvs) → decodeBatch {} K (.arr xs) = .error .invalidRequest) := by
  have key : ∀ xs x, x ∈ xs → decodeReq {} K x = none → decodeBatch {} K (.arr xs) = .error .invalidRequest := by
    intro xs x hx hnone
    have : traverse (decodeReq {} K) xs = none := by
      induction xs with
      | nil => cases hx
      | cons a as ih =>
        simp only [traverse]
        rcases List.mem_cons.mp hx with h | h
        · subst h; simp [hnone]
        · cases decodeReq {} K a <;> simp [ih h]
    simp [decodeBatch, decodeReq, this]
  refine ⟨rfl, fun _ => rfl, fun _ => rfl, fun _ => rfl, by simp [decodeBatch, decodeReq, traverse], key, ?_⟩
  intro xs x hx hobj
  apply key xs x hx
  cases x <;> simp [decodeReq] at hobj ⊢

/-- a request object with a repeated or wrongly typed known member is rejected: `query` must be
    a string, `operationName` a string or null, `variables` and `extensions` an object or null. -/
theorem c23_malformed_member (K : Keys) (kvs : Members) :
    ((count K.query kvs > 1 ∨ count K.operationName kvs > 1 ∨ count K.variables kvs > 1 ∨
        count K.extensions kvs > 1) → decodeBatch {} K (.obj kvs) = .error .invalidRequest) ∧
    (∀ v, lookup K.query kvs = some v → (∀ s, v ≠ .str s) → decodeBatch {} K (.obj kvs) = .error .invalidRequest) ∧
    (∀ v, lookup K.operationName kvs = some v → v ≠ .null → (∀ s, v ≠ .str s) →
        decodeBatch {} K (.obj kvs) = .error .invalidRequest) ∧
    (∀ v, lookup K.variables kvs = some v → v ≠ .null → (∀ m, v ≠ .obj m) →
        decodeBatch {} K (.obj kvs) = .error .invalidRequest) ∧
    (∀ v, lookup K.extensions kvs = some v → v ≠ .null → (∀ m, v ≠ .obj m) →
        decodeBatch {} K (.obj kvs) = .error .invalidRequest) := by
  have red : decodeReqObj K kvs = none → decodeBatch {} K (.obj kvs) = .error .invalidRequest := by
    intro h; simp [decodeBatch, decodeReq, h]
  refine ⟨?_, ?_, ?_, ?_, ?_⟩
  · intro h
    apply red
    have : hasDup K kvs = true := by
      simp only [hasDup, Bool.or_eq_true, decide_eq_true_eq]
      rcases h with h | h | h | h <;> simp [h]
    simp [decodeReqObj, this]
  · intro v hv hs
    apply red
    have : fieldQuery (some v) = none := by cases v <;> simp [fieldQuery] at hs ⊢
    simp only [decodeReqObj, hv, this]
    split <;> rfl
  · intro v hv hn hs
    apply red
    have : fieldOperationName (some v) = none := by cases v <;> simp [fieldOperationName] at hn hs ⊢
    simp only [decodeReqObj, hv, this]
    split <;> try rfl
    split <;> simp_all
  · intro v hv hn hs
    apply red
    have : fieldMembers (some v) = none := by cases v <;> simp [fieldMembers, asMembers] at hn hs ⊢
    simp only [decodeReqObj, hv, this]
    split <;> try rfl
    split <;> simp_all
  · intro v hv hn hs
    apply red
    have : fieldMembers (some v) = none := by cases v <;> simp [fieldMembers, asMembers] at hn hs ⊢
    simp only [decodeReqObj, hv, this]
    split <;> try rfl
    split <;> simp_all

/-- GET: a repeated known parameter, or `variables`/`extensions` text that is not JSON or not an
    object (or null), is rejected with the matching request error. -/
theorem c23_malformed_get (K : Keys) (parse : Str → Option J) (ps : List (Str × Str)) :
    ((count K.query ps > 1 ∨ count K.operationName ps > 1 ∨ count K.variables ps > 1 ∨
        count K.extensions ps > 1) → decodeGet K parse ps = .error .queryString) ∧
    (hasDup K ps = false → ∀ t, lookup K.variables ps = some t →
        (parse t = none ∨ ∃ j, parse t = some j ∧ j ≠ .null ∧ ∀ m, j ≠ .obj m) →
        decodeGet K parse ps = .error .variables) ∧
    (hasDup K ps = false → ∀ t, lookup K.extensions ps = some t →
        (parse t = none ∨ ∃ j, parse t = some j ∧ j ≠ .null ∧ ∀ m, j ≠ .obj m) →
        (∃ m, getMembers parse .variables (lookup K.variables ps) = .ok m) →
        decodeGet K parse ps = .error .extensions) := by
  have bad : ∀ (e : Err) t, (parse t = none ∨ ∃ j, parse t = some j ∧ j ≠ .null ∧ ∀ m, j ≠ .obj m) →
      getMembers parse e (some t) = .error e := by
    intro e t h
    rcases h with h | ⟨j, hj, hn, ho⟩
    · simp [getMembers, h]
    · cases j <;> simp [getMembers, hj, asMembers] at hn ho ⊢
  refine ⟨?_, ?_, ?_⟩
  · intro h
    have : hasDup K ps = true := by
      simp only [hasDup, Bool.or_eq_true, decide_eq_true_eq]
      rcases h with h | h | h | h <;> simp [h]
    simp [decodeGet, this]
  · intro hd t ht h
    simp [decodeGet, hd, ht, bad _ t h]
  · intro hd t ht h ⟨m, hm⟩
    simp [decodeGet, hd, ht, hm, bad _ t h]

/-- members whose key is none of the four names are ignored, wherever they stand. -/
theorem c23_unknown_member_ignored (K : Keys) (pre post : Members) (k : Str) (v : J)
    (hk : k ≠ K.query ∧ k ≠ K.operationName ∧ k ≠ K.variables ∧ k ≠ K.extensions) :
    decodeReqObj K (pre ++ (k, v) :: post) = decodeReqObj K (pre ++ post) := by
  obtain ⟨h1, h2, h3, h4⟩ := hk
  have hc : ∀ k', k ≠ k' → count k' (pre ++ (k, v) :: post) = count k' (pre ++ post) := by
    intro k' h; simp [count, List.filter_append, List.filter_cons, h]
  have hl : ∀ k', k ≠ k' → lookup k' (pre ++ (k, v) :: post) = lookup k' (pre ++ post) := by
    intro k' h; simp [lookup, List.find?_append, List.find?_cons, h]
  simp [decodeReqObj, hasDup, hc _ h1, hc _ h2, hc _ h3, hc _ h4, hl _ h1, hl _ h2, hl _ h3, hl _ h4]

/-- a server without batch support (`receive_body`) answers a batch with "unsupported batch"
    and passes a single request through. -/
theorem c23_single_rejects_batch (D : Defects) (K : Keys) (hK : K.Distinct) (rs : List Req) (hne : rs ≠ []) (r : Req) :
    intoSingle (decodeBatch D K (encodeBatch K rs)) = .error .unsupportedBatch ∧
    intoSingle (decodeBatch D K (encodeJson K r)) = .ok r := by
  rw [c23_batch_roundtrip D K hK rs hne, c23_json_roundtrip D K hK r]
  exact ⟨rfl, rfl⟩

-- ------------------------------------------------------------------ source ties

/-- the members a `Request` / `RequestSerde` table stands for, given the key names -/
def jsonFieldsOf (K : Keys) : List AGV.Gen.RequestKeys.Field :=
  [⟨"query".toList, K.query, true, "String".toList⟩,
   ⟨"operation_name".toList, K.operationName, true, "Option<String>".toList⟩,
   ⟨"variables".toList, K.variables, true, "Variables".toList⟩,
   ⟨"extensions".toList, K.extensions, true, "Extensions".toList⟩]

def getFieldsOf (K : Keys) : List AGV.Gen.RequestKeys.Field :=
  [⟨"query".toList, K.query, true, "String".toList⟩,
   ⟨"operation_name".toList, K.operationName, false, "Option<String>".toList⟩,
   ⟨"variables".toList, K.variables, false, "Option<String>".toList⟩,
   ⟨"extensions".toList, K.extensions, false, "Option<String>".toList⟩]

/-- `struct Request` in src/request.rs reads exactly the model's JSON key table (names after
    `rename`/`rename_all`, defaults, types, declaration order, `serde(skip)` members left out). -/
theorem c23_src_json_keys : AGV.Gen.RequestKeys.jsonFields = jsonFieldsOf jsonKeys := by decide

/-- `struct RequestSerde` in `parse_query_string` is the model's GET table under one of the two
    settings of the toggle (pinned: `operation_name`; repaired: `operationName`). -/
theorem c23_src_get_keys : ∃ D : Defects, AGV.Gen.RequestKeys.getFields = getFieldsOf (getKeys D) := by
  first
    | exact ⟨{ getOperationNameSnakeCase := false }, by decide⟩
    | exact ⟨{ getOperationNameSnakeCase := true }, by decide⟩

/-- `enum BatchRequest` is untagged, tries `Single` before `Batch`, and `Batch` goes through the
    non-empty check. -/
theorem c23_src_batch_shape :
    AGV.Gen.RequestKeys.batchUntagged = true ∧
    AGV.Gen.RequestKeys.batchVariants = ["Single".toList, "Batch".toList] ∧
    AGV.Gen.RequestKeys.batchNonEmptyRule = true := by decide

-- ------------------------------------------------------------------ witnesses of the defect toggles

/-- pinned tree: over GET the standard `operationName` parameter is ignored, so the same request
    decodes differently than over JSON (`query={a}&operationName=Q`). -/
theorem c23_get_violated_by_snake_case :
    ∃ (parse : Str → Option J) (print : J → Str) (r : Req),
      parse (print (.obj r.variables)) = some (.obj r.variables) ∧
      parse (print (.obj r.extensions)) = some (.obj r.extensions) ∧
      decodeGet (getKeys { getOperationNameSnakeCase := true }) parse (encodeGet jsonKeys print r)
        = .ok { r with operationName := none } ∧
      AGV.Spec.Http.decodeGet parse (encodeGet jsonKeys print r) = .ok r ∧
      r.operationName ≠ none := by
  refine ⟨fun _ => some (.obj []), fun _ => [], ⟨"{a}".toList, some "Q".toList, [], []⟩, rfl, rfl, ?_, ?_, by simp⟩
  · simp [decodeGet, encodeGet, getKeys, jsonKeys, hasDup, count, lookup, List.filter, List.find?, getMembers,
      asMembers, kOperationNameSnake, AGV.Spec.Http.kQuery, AGV.Spec.Http.kOperationName,
      AGV.Spec.Http.kVariables, AGV.Spec.Http.kExtensions]
  · simp [AGV.Spec.Http.decodeGet, AGV.Spec.Http.member, AGV.Spec.Http.textMembers, AGV.Spec.Http.membersOf,
      encodeGet, jsonKeys, List.filter, AGV.Spec.Http.kQuery, AGV.Spec.Http.kOperationName,
      AGV.Spec.Http.kVariables, AGV.Spec.Http.kExtensions]

/-- pinned tree: the empty batch `[]` is accepted as a single request with an empty query. -/
theorem c23_empty_batch_violated_by_array_request :
    decodeBatch { requestAcceptsArray := true } jsonKeys (.arr []) = .ok (.single ⟨[], none, [], []⟩) ∧
    AGV.Spec.Http.decodeBody (.arr []) = .error .invalidRequest ∧
    decodeBatch { requestAcceptsArray := true } jsonKeys (.arr [.str "{a}".toList, .str "Q".toList])
      = .ok (.single ⟨"{a}".toList, some "Q".toList, [], []⟩) := by
  refine ⟨by simp [decodeBatch, decodeReq, decodeReqSeq, fieldQuery, fieldOperationName, fieldMembers], rfl, ?_⟩
  simp [decodeBatch, decodeReq, decodeReqSeq, fieldQuery, fieldOperationName, fieldMembers]

/-- pinned tree: an `operations` part typed `multipart/*` panics instead of being rejected. -/
theorem c23_multipart_violated_by_panic :
    decodeMultipart { opsMultipartTypePanics := true } jsonKeys [.ops (some "multipart/mixed".toList) (.obj []), .map]
      = .error .panic ∧
    AGV.Spec.Http.decodeMultipart [.ops (some "multipart/mixed".toList) (.obj []), .map] = .error .invalidRequest := by
  constructor <;> simp [decodeMultipart, decodeMultipartAux, AGV.Spec.Http.decodeMultipart,
    AGV.Spec.Http.decodeMultipartAux, AGV.Spec.Http.isMultipartType]

/-- the hypotheses of the round-trip theorems are satisfiable: the real key tables are distinct -/
example : jsonKeys.Distinct ∧ (getKeys { getOperationNameSnakeCase := true }).Distinct :=
  ⟨jsonKeys_distinct, getKeys_distinct _⟩

end AGV.Props.C23
