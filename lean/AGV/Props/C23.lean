/-
  C23 — all HTTP request encodings decode to the same request; batches keep order.
  Property theorems only (helper lemmas live in AGV/Lemmas/Http.lean).

  Round trips, for every request and every table of pairwise distinct key names
  OBLIGATION c23_get_roundtrip
  OBLIGATION c23_json_roundtrip
  OBLIGATION c23_batch_roundtrip
  OBLIGATION c23_multipart_roundtrip
  The property: one request, four transports, same decoded request (repaired decoders)
  OBLIGATION c23_same
  OBLIGATION c23_batch_order
  The decoders refine the reference semantics on every input (well-formed or not)
  OBLIGATION c23_body_refines_spec
  OBLIGATION c23_get_refines_spec
  OBLIGATION c23_multipart_refines_spec
  OBLIGATION c23_execute_refines_spec
  Malformed shapes are rejected; freedoms of the encoding do not matter
  OBLIGATION c23_malformed_body
  OBLIGATION c23_malformed_member
  OBLIGATION c23_malformed_get
  OBLIGATION c23_unknown_member_ignored
  OBLIGATION c23_single_rejects_batch
  Source ties (tables generated from src/request.rs and src/http/mod.rs)
  OBLIGATION c23_src_json_keys
  OBLIGATION c23_src_get_keys
  OBLIGATION c23_src_batch_shape
  The byte layer: UTF-8 at the transport boundary is strict, and identical for every transport
  OBLIGATION c23_utf8_roundtrip
  OBLIGATION c23_utf8_strict
  OBLIGATION c23_bytes_transport_agree
  OBLIGATION c23_bytes_lift
  OBLIGATION c23_bytes_same
  OBLIGATION c23_bytes_malformed_rejected
  OBLIGATION c23_bytes_body_refines_spec
  OBLIGATION c23_bytes_get_refines_spec
  OBLIGATION c23_bytes_multipart_refines_spec
  OBLIGATION c23_bytes_violated_by_text_reading
  OBLIGATION c23_get_violated_by_lossy_utf8
  Witnesses of the defect toggles
  OBLIGATION c23_get_violated_by_snake_case
  OBLIGATION c23_empty_batch_violated_by_array_request
  OBLIGATION c23_multipart_violated_by_panic
-/
import AGV.Lemmas.Http
import AGV.Lemmas.HttpBytes
import AGV.Gen.RequestKeys

namespace AGV.Props.C23
open AGV.Spec.Http (Str J Members Req BatchReq Err Part BatchResp)
open AGV.Model.Http AGV.Lemmas.Http

/-- GET: for every request, every table of distinct parameter names and every JSON printer/parser
    pair that round-trips (the library assumption), the parameters sent for `r` decode to `r`. -/
theorem c23_get_roundtrip (K : Keys) (hK : K.Distinct) (parse : Str → Option J) (print : J → Str)
    (hp : ∀ j, parse (print j) = some j) (r : Req) :
    decodeGet K parse (encodeGet K print r) = .ok r := by
  obtain ⟨⟨a, b, c, d, e, f⟩, ⟨a', b', c', d', e', f'⟩⟩ := Keys.Distinct.all hK
  obtain ⟨q, o, v, x⟩ := r
  cases o <;>
  simp [decodeGet, encodeGet, hasDup, count, lookup, List.filter, List.find?, getMembers, asMembers, hp, *]

/-- JSON body: the object sent for `r` decodes to the single request `r` — also with the pinned
    tree's array reading switched on (it does not interfere with objects). -/
theorem c23_json_roundtrip (D : Defects) (K : Keys) (hK : K.Distinct) (r : Req) :
    decodeBatch D K (encodeJson K r) = .ok (.single r) := by
  simp [decodeBatch, decodeReq_encode D K hK r]

/-- JSON batch: a non-empty array of request objects decodes to exactly these requests, in order. -/
theorem c23_batch_roundtrip (D : Defects) (K : Keys) (hK : K.Distinct) (rs : List Req) (hne : rs ≠ []) :
    decodeBatch D K (encodeBatch K rs) = .ok (.batch rs) := by
  have htr : traverse (decodeReq D K) (rs.map (encodeJson K)) = some rs :=
    traverse_map _ _ (decodeReq_encode D K hK) rs
  have hsingle : decodeReq D K (encodeBatch K rs) = none := by
    cases rs with
    | nil => exact absurd rfl hne
    | cons r rs =>
      obtain ⟨kvs, h1, _⟩ := decodeReqObj_encode K hK r
      cases hD : D.requestAcceptsArray <;>
      simp [encodeBatch, decodeReq, hD, decodeReqSeq, h1, fieldQuery]
  cases rs with
  | nil => exact absurd rfl hne
  | cons r rs' =>
    simp only [decodeBatch, hsingle]
    simp only [encodeBatch, List.map_cons] at htr ⊢
    rw [htr]
    simp

/-- multipart: `operations` part (any non-multipart content type) plus `map` part, either order. -/
theorem c23_multipart_roundtrip (D : Defects) (K : Keys) (hK : K.Distinct) (ct : Option Str)
    (hct : AGV.Spec.Http.isMultipartType ct = false) (r : Req) :
    decodeMultipart D K [.ops ct (encodeJson K r), .map] = .ok (.single r) ∧
    decodeMultipart D K [.map, .ops ct (encodeJson K r)] = .ok (.single r) ∧
    decodeMultipart D K [.other, .ops ct (encodeJson K r), .other, .map] = .ok (.single r) := by
  simp [decodeMultipart, decodeMultipartAux, hct, c23_json_roundtrip D K hK r]

/-- THE PROPERTY (repaired decoders, GraphQL-over-HTTP names): a request sent as GET parameters,
    as a JSON body, as a one-element batch member, or as the `operations` part of a multipart
    body decodes to the same query, operation name, variables and extensions. -/
theorem c23_same (parse : Str → Option J) (print : J → Str) (hp : ∀ j, parse (print j) = some j) (r : Req) :
    decodeGet (getKeys {}) parse (encodeGet jsonKeys print r) = .ok r ∧
    decodeBatch {} jsonKeys (encodeJson jsonKeys r) = .ok (.single r) ∧
    decodeBatch {} jsonKeys (encodeBatch jsonKeys [r]) = .ok (.batch [r]) ∧
    decodeMultipart {} jsonKeys [.ops none (encodeJson jsonKeys r), .map] = .ok (.single r) := by
  refine ⟨?_, c23_json_roundtrip {} _ jsonKeys_distinct r,
    c23_batch_roundtrip {} _ jsonKeys_distinct [r] (by simp),
    (c23_multipart_roundtrip {} _ jsonKeys_distinct none rfl r).1⟩
  have : getKeys {} = jsonKeys := rfl
  rw [this]
  exact c23_get_roundtrip _ jsonKeys_distinct parse print hp r

/-- batches keep order: the i-th response answers the i-th request of the body, and there are as
    many responses as requests. -/
theorem c23_batch_order {ρ : Type} (exec : Req → ρ) (D : Defects) (K : Keys) (hK : K.Distinct)
    (rs : List Req) (hne : rs ≠ []) :
    ∃ resps, (decodeBatch D K (encodeBatch K rs)).map (executeBatch exec) = .ok (.batch resps) ∧
      resps.length = rs.length ∧ ∀ i : Nat, resps[i]? = (rs[i]?).map exec := by
  refine ⟨rs.map exec, ?_, by simp, by simp⟩
  rw [c23_batch_roundtrip D K hK rs hne]
  rfl

-- ------------------------------------------------------------------ refinement of the reference semantics

theorem decodeReqObj_eq_spec (kvs : Members) :
    decodeReqObj jsonKeys kvs = AGV.Spec.Http.reqOfObject kvs := by
  simp only [decodeReqObj, AGV.Spec.Http.reqOfObject, member_eq, hasDup, jsonKeys]
  by_cases h1 : count AGV.Spec.Http.kQuery kvs > 1
  · simp [h1]
  by_cases h2 : count AGV.Spec.Http.kOperationName kvs > 1
  · simp [h1, h2]
  by_cases h3 : count AGV.Spec.Http.kVariables kvs > 1
  · simp [h1, h2, h3]
  by_cases h4 : count AGV.Spec.Http.kExtensions kvs > 1
  · simp [h1, h2, h3, h4]
  simp [h1, h2, h3, h4]
  have e1 : fieldQuery (lookup AGV.Spec.Http.kQuery kvs) = AGV.Spec.Http.queryOf (lookup AGV.Spec.Http.kQuery kvs) := by
    cases lookup AGV.Spec.Http.kQuery kvs with
    | none => rfl
    | some v => cases v <;> rfl
  have e2 : fieldOperationName (lookup AGV.Spec.Http.kOperationName kvs)
      = AGV.Spec.Http.operationNameOf (lookup AGV.Spec.Http.kOperationName kvs) := by
    cases lookup AGV.Spec.Http.kOperationName kvs with
    | none => rfl
    | some v => cases v <;> rfl
  have e3 : ∀ o : Option J, fieldMembers o = AGV.Spec.Http.membersOf o := by
    intro o
    cases o with
    | none => rfl
    | some v => cases v <;> rfl
  rw [e1, e2, e3, e3]
  cases AGV.Spec.Http.queryOf (lookup AGV.Spec.Http.kQuery kvs) <;> try rfl
  cases AGV.Spec.Http.operationNameOf (lookup AGV.Spec.Http.kOperationName kvs) <;> try rfl
  cases AGV.Spec.Http.membersOf (lookup AGV.Spec.Http.kVariables kvs) <;> try rfl
  cases AGV.Spec.Http.membersOf (lookup AGV.Spec.Http.kExtensions kvs) <;> rfl

theorem decodeReq_eq_spec : decodeReq {} jsonKeys = AGV.Spec.Http.reqOfJson := by
  funext j
  cases j <;> simp [decodeReq, AGV.Spec.Http.reqOfJson, decodeReqObj_eq_spec]

/-- JSON bodies: on EVERY document (well-formed or not) the repaired decoder returns what the
    reference semantics requires. -/
theorem c23_body_refines_spec (j : J) : decodeBatch {} jsonKeys j = AGV.Spec.Http.decodeBody j := by
  cases j with
  | obj kvs =>
    simp only [decodeBatch, decodeReq, AGV.Spec.Http.decodeBody, decodeReqObj_eq_spec]
    cases AGV.Spec.Http.reqOfObject kvs <;> rfl
  | arr xs =>
    cases xs with
    | nil => simp [decodeBatch, decodeReq, traverse, AGV.Spec.Http.decodeBody]
    | cons a as =>
      simp only [decodeBatch, decodeReq, AGV.Spec.Http.decodeBody, Bool.false_eq_true, if_false,
        decodeReq_eq_spec, traverse_eq_allSome]
      cases h : AGV.Spec.Http.allSome AGV.Spec.Http.reqOfJson (a :: as) with
      | none => rfl
      | some rs =>
        have := traverse_length _ _ _ ((traverse_eq_allSome _ _).trans h)
        cases rs with
        | nil => simp at this
        | cons r rs => rfl
  | null => rfl
  | bool b => rfl
  | num n => rfl
  | str s => rfl

/-- GET: same, for every list of parameter pairs and every JSON text parser. -/
theorem c23_get_refines_spec (parse : Str → Option J) (ps : List (Str × Str)) :
    decodeGet (getKeys {}) parse ps = AGV.Spec.Http.decodeGet parse ps := by
  have hk : getKeys {} = jsonKeys := rfl
  simp only [hk, decodeGet, AGV.Spec.Http.decodeGet, member_eq, hasDup, jsonKeys]
  have e : ∀ (er : Err) (o : Option Str), getMembers parse er o =
      match AGV.Spec.Http.textMembers parse o with | none => .error er | some m => .ok m := by
    intro er o
    cases o with
    | none => rfl
    | some t =>
      simp only [getMembers, AGV.Spec.Http.textMembers]
      cases parse t with
      | none => rfl
      | some j => cases j <;> rfl
  by_cases h1 : count AGV.Spec.Http.kQuery ps > 1
  · simp [h1]
  by_cases h2 : count AGV.Spec.Http.kOperationName ps > 1
  · simp [h1, h2]
  by_cases h3 : count AGV.Spec.Http.kVariables ps > 1
  · simp [h1, h2, h3]
  by_cases h4 : count AGV.Spec.Http.kExtensions ps > 1
  · simp [h1, h2, h3, h4]
  simp only [h1, h2, h3, h4, decide_false, Bool.or_self, Bool.false_eq_true, if_false, e]
  cases AGV.Spec.Http.textMembers parse (lookup AGV.Spec.Http.kVariables ps) <;> try rfl
  cases AGV.Spec.Http.textMembers parse (lookup AGV.Spec.Http.kExtensions ps) <;> rfl

theorem decodeMultipartAux_eq_spec (parts : List Part) (req : Option BatchReq) (m : Bool) :
    decodeMultipartAux {} jsonKeys parts req m = AGV.Spec.Http.decodeMultipartAux parts req m := by
  induction parts generalizing req m with
  | nil => cases req <;> cases m <;> rfl
  | cons p ps ih =>
    cases p with
    | ops ct j =>
      simp only [decodeMultipartAux, AGV.Spec.Http.decodeMultipartAux, c23_body_refines_spec]
      cases AGV.Spec.Http.isMultipartType ct
      · simp only [Bool.false_eq_true, if_false]
        cases AGV.Spec.Http.decodeBody j with
        | error e => rfl
        | ok r => exact ih _ _
      · rfl
    | map => simp only [decodeMultipartAux, AGV.Spec.Http.decodeMultipartAux]; exact ih _ _
    | other => simp only [decodeMultipartAux, AGV.Spec.Http.decodeMultipartAux]; exact ih _ _

/-- multipart: same, for every sequence of parts. -/
theorem c23_multipart_refines_spec (parts : List Part) :
    decodeMultipart {} jsonKeys parts = AGV.Spec.Http.decodeMultipart parts :=
  decodeMultipartAux_eq_spec parts none false

/-- batch execution is the reference one (`List.map`, order kept) for every executor. -/
theorem c23_execute_refines_spec {ρ : Type} (exec : Req → ρ) (b : BatchReq) :
    executeBatch exec b = AGV.Spec.Http.executeBatch exec b := by
  cases b <;> rfl

-- ------------------------------------------------------------------ malformed encodings

/-- bodies that are not a request object or a non-empty array of request objects are rejected
    (scalars, `null`, the empty array, an array holding anything but a decodable object). -/
theorem c23_malformed_body (K : Keys) :
    decodeBatch {} K .null = .error .invalidRequest ∧
    (∀ b, decodeBatch {} K (.bool b) = .error .invalidRequest) ∧
    (∀ n, decodeBatch {} K (.num n) = .error .invalidRequest) ∧
    (∀ s, decodeBatch {} K (.str s) = .error .invalidRequest) ∧
    decodeBatch {} K (.arr []) = .error .invalidRequest ∧
    (∀ xs x, x ∈ xs → decodeReq {} K x = none → decodeBatch {} K (.arr xs) = .error .invalidRequest) ∧
    (∀ xs x, x ∈ xs → (∀ kvs, x ≠ .obj kvs) → decodeBatch {} K (.arr xs) = .error .invalidRequest) := by
  have key : ∀ xs x, x ∈ xs → decodeReq {} K x = none → decodeBatch {} K (.arr xs) = .error .invalidRequest := by
    intro xs x hx hnone
    have : traverse (decodeReq {} K) xs = none := by
      induction xs with
      | nil => cases hx
      | cons a as ih =>
        simp only [traverse]
        rcases List.mem_cons.mp hx with h | h
        · subst h; simp [hnone]
        · cases decodeReq {} K a <;> simp [ih h]
    simp [decodeBatch, decodeReq, this]
  refine ⟨rfl, fun _ => rfl, fun _ => rfl, fun _ => rfl, by simp [decodeBatch, decodeReq, traverse], key, ?_⟩
  intro xs x hx hobj
  apply key xs x hx
  cases x <;> simp [decodeReq] at hobj ⊢

/-- a request object with a repeated or wrongly typed known member is rejected: `query` must be
    a string, `operationName` a string or null, `variables` and `extensions` an object or null. -/
theorem c23_malformed_member (K : Keys) (kvs : Members) :
    ((count K.query kvs > 1 ∨ count K.operationName kvs > 1 ∨ count K.variables kvs > 1 ∨
        count K.extensions kvs > 1) → decodeBatch {} K (.obj kvs) = .error .invalidRequest) ∧
    (∀ v, lookup K.query kvs = some v → (∀ s, v ≠ .str s) → decodeBatch {} K (.obj kvs) = .error .invalidRequest) ∧
    (∀ v, lookup K.operationName kvs = some v → v ≠ .null → (∀ s, v ≠ .str s) →
        decodeBatch {} K (.obj kvs) = .error .invalidRequest) ∧
    (∀ v, lookup K.variables kvs = some v → v ≠ .null → (∀ m, v ≠ .obj m) →
        decodeBatch {} K (.obj kvs) = .error .invalidRequest) ∧
    (∀ v, lookup K.extensions kvs = some v → v ≠ .null → (∀ m, v ≠ .obj m) →
        decodeBatch {} K (.obj kvs) = .error .invalidRequest) := by
  have red : decodeReqObj K kvs = none → decodeBatch {} K (.obj kvs) = .error .invalidRequest := by
    intro h; simp [decodeBatch, decodeReq, h]
  refine ⟨?_, ?_, ?_, ?_, ?_⟩
  · intro h
    apply red
    have : hasDup K kvs = true := by
      simp only [hasDup, Bool.or_eq_true, decide_eq_true_eq]
      rcases h with h | h | h | h <;> simp [h]
    simp [decodeReqObj, this]
  · intro v hv hs
    apply red
    have : fieldQuery (some v) = none := by cases v <;> simp [fieldQuery] at hs ⊢
    simp only [decodeReqObj, hv, this]
    split <;> rfl
  · intro v hv hn hs
    apply red
    have : fieldOperationName (some v) = none := by cases v <;> simp [fieldOperationName] at hn hs ⊢
    simp only [decodeReqObj, hv, this]
    split <;> try rfl
    split <;> simp_all
  · intro v hv hn hs
    apply red
    have : fieldMembers (some v) = none := by cases v <;> simp [fieldMembers, asMembers] at hn hs ⊢
    simp only [decodeReqObj, hv, this]
    split <;> try rfl
    split <;> simp_all
  · intro v hv hn hs
    apply red
    have : fieldMembers (some v) = none := by cases v <;> simp [fieldMembers, asMembers] at hn hs ⊢
    simp only [decodeReqObj, hv, this]
    split <;> try rfl
    split <;> simp_all

/-- GET: a repeated known parameter, or `variables`/`extensions` text that is not JSON or not an
    object (or null), is rejected with the matching request error. -/
theorem c23_malformed_get (K : Keys) (parse : Str → Option J) (ps : List (Str × Str)) :
    ((count K.query ps > 1 ∨ count K.operationName ps > 1 ∨ count K.variables ps > 1 ∨
        count K.extensions ps > 1) → decodeGet K parse ps = .error .queryString) ∧
    (hasDup K ps = false → ∀ t, lookup K.variables ps = some t →
        (parse t = none ∨ ∃ j, parse t = some j ∧ j ≠ .null ∧ ∀ m, j ≠ .obj m) →
        decodeGet K parse ps = .error .variables) ∧
    (hasDup K ps = false → ∀ t, lookup K.extensions ps = some t →
        (parse t = none ∨ ∃ j, parse t = some j ∧ j ≠ .null ∧ ∀ m, j ≠ .obj m) →
        (∃ m, getMembers parse .variables (lookup K.variables ps) = .ok m) →
        decodeGet K parse ps = .error .extensions) := by
  have bad : ∀ (e : Err) t, (parse t = none ∨ ∃ j, parse t = some j ∧ j ≠ .null ∧ ∀ m, j ≠ .obj m) →
      getMembers parse e (some t) = .error e := by
    intro e t h
    rcases h with h | ⟨j, hj, hn, ho⟩
    · simp [getMembers, h]
    · cases j <;> simp [getMembers, hj, asMembers] at hn ho ⊢
  refine ⟨?_, ?_, ?_⟩
  · intro h
    have : hasDup K ps = true := by
      simp only [hasDup, Bool.or_eq_true, decide_eq_true_eq]
      rcases h with h | h | h | h <;> simp [h]
    simp [decodeGet, this]
  · intro hd t ht h
    simp [decodeGet, hd, ht, bad _ t h]
  · intro hd t ht h ⟨m, hm⟩
    simp [decodeGet, hd, ht, hm, bad _ t h]

/-- members whose key is none of the four names are ignored, wherever they stand. -/
theorem c23_unknown_member_ignored (K : Keys) (pre post : Members) (k : Str) (v : J)
    (hk : k ≠ K.query ∧ k ≠ K.operationName ∧ k ≠ K.variables ∧ k ≠ K.extensions) :
    decodeReqObj K (pre ++ (k, v) :: post) = decodeReqObj K (pre ++ post) := by
  obtain ⟨h1, h2, h3, h4⟩ := hk
  have hc : ∀ k', k ≠ k' → count k' (pre ++ (k, v) :: post) = count k' (pre ++ post) := by
    intro k' h; simp [count, List.filter_append, List.filter_cons, h]
  have hl : ∀ k', k ≠ k' → lookup k' (pre ++ (k, v) :: post) = lookup k' (pre ++ post) := by
    intro k' h; simp [lookup, List.find?_append, List.find?_cons, h]
  simp [decodeReqObj, hasDup, hc _ h1, hc _ h2, hc _ h3, hc _ h4, hl _ h1, hl _ h2, hl _ h3, hl _ h4]

/-- a server without batch support (`receive_body`) answers a batch with "unsupported batch"
    and passes a single request through. -/
theorem c23_single_rejects_batch (D : Defects) (K : Keys) (hK : K.Distinct) (rs : List Req) (hne : rs ≠ []) (r : Req) :
    intoSingle (decodeBatch D K (encodeBatch K rs)) = .error .unsupportedBatch ∧
    intoSingle (decodeBatch D K (encodeJson K r)) = .ok r := by
  rw [c23_batch_roundtrip D K hK rs hne, c23_json_roundtrip D K hK r]
  exact ⟨rfl, rfl⟩

-- ------------------------------------------------------------------ source ties

/-- the members a `Request` / `RequestSerde` table stands for, given the key names -/
def jsonFieldsOf (K : Keys) : List AGV.Gen.RequestKeys.Field :=
  [⟨"query".toList, K.query, true, "String".toList⟩,
   ⟨"operation_name".toList, K.operationName, true, "Option<String>".toList⟩,
   ⟨"variables".toList, K.variables, true, "Variables".toList⟩,
   ⟨"extensions".toList, K.extensions, true, "Extensions".toList⟩]

def getFieldsOf (K : Keys) : List AGV.Gen.RequestKeys.Field :=
  [⟨"query".toList, K.query, true, "String".toList⟩,
   ⟨"operation_name".toList, K.operationName, false, "Option<String>".toList⟩,
   ⟨"variables".toList, K.variables, false, "Option<String>".toList⟩,
   ⟨"extensions".toList, K.extensions, false, "Option<String>".toList⟩]

/-- `struct Request` in src/request.rs reads exactly the model's JSON key table (names after
    `rename`/`rename_all`, defaults, types, declaration order, `serde(skip)` members left out). -/
theorem c23_src_json_keys : AGV.Gen.RequestKeys.jsonFields = jsonFieldsOf jsonKeys := by decide

/-- `struct RequestSerde` in `parse_query_string` is the model's GET table under one of the two
    settings of the toggle (pinned: `operation_name`; repaired: `operationName`). -/
theorem c23_src_get_keys : ∃ D : Defects, AGV.Gen.RequestKeys.getFields = getFieldsOf (getKeys D) := by
  first
    | exact ⟨{ getOperationNameSnakeCase := false }, by decide⟩
    | exact ⟨{ getOperationNameSnakeCase := true }, by decide⟩

/-- `enum BatchRequest` is untagged, tries `Single` before `Batch`, and `Batch` goes through the
    non-empty check. -/
theorem c23_src_batch_shape :
    AGV.Gen.RequestKeys.batchUntagged = true ∧
    AGV.Gen.RequestKeys.batchVariants = ["Single".toList, "Batch".toList] ∧
    AGV.Gen.RequestKeys.batchNonEmptyRule = true := by decide

-- ------------------------------------------------------------------ the byte layer

section Bytes
open AGV.Spec.Http (Bytes BPart utf8Decode utf8Encode)
open AGV.Lemmas.HttpBytes

/-- every sequence of scalar values survives the byte layer: encoding then strict decoding is the
    identity, so the text-level theorems above lose nothing at the transport boundary. -/
theorem c23_utf8_roundtrip (cs : List Char) : utf8Decode (utf8Encode cs) = some cs :=
  utf8Decode_encode cs

/-- strictness: the decoder accepts a byte list exactly when it IS the UTF-8 form of a text, and
    then returns that text — no overlong form, surrogate, value above U+10FFFF, stray or missing
    continuation byte is accepted, nothing is repaired, no byte order mark is dropped. -/
theorem c23_utf8_strict (bs : Bytes) (cs : List Char) : utf8Decode bs = some cs ↔ bs = utf8Encode cs :=
  utf8Decode_iff bs cs

/-- THE BYTE-LEVEL PROPERTY: on EVERY byte list the `operations` part of a multipart body (any
    non-multipart part content type — its charset parameter is not an input —, `map` part `{}`
    before or behind, other fields in between) decodes to exactly what the same bytes decode to
    as a JSON body: the same request(s), or the same refusal. -/
theorem c23_bytes_transport_agree (D : Defects) (K : Keys) (parse : Str → Option J) (ct : Option Str)
    (hct : AGV.Spec.Http.isMultipartType ct = false) (bs mb : Bytes)
    (hmap : ∃ t, utf8Decode mb = some t ∧ parse t = some (.obj [])) :
    decodeMultipartBytes D K parse [.ops ct bs, .map mb] = decodeBodyBytes D K parse bs ∧
    decodeMultipartBytes D K parse [.map mb, .ops ct bs] = decodeBodyBytes D K parse bs ∧
    decodeMultipartBytes D K parse [.other, .ops ct bs, .other, .map mb] = decodeBodyBytes D K parse bs := by
  obtain ⟨t, h1, h2⟩ := hmap
  refine ⟨?_, ?_, ?_⟩ <;>
  · simp only [decodeMultipartBytes, decodeMultipartBytesAux, hct, Bool.false_eq_true, if_false, h1, h2,
      filesMap, traverse]
    cases decodeBodyBytes D K parse bs <;> simp [decodeMultipartBytesAux, h1, h2, filesMap, traverse]

/-- the byte layer is transparent on encoded text: the bytes of a text decode like the text. -/
theorem c23_bytes_lift (D : Defects) (K : Keys) (parse : Str → Option J) (t : Str) :
    decodeBodyBytes D K parse (utf8Encode t) =
      (match parse t with | none => .error .invalidRequest | some j => decodeBatch D K j) := by
  simp only [decodeBodyBytes, c23_utf8_roundtrip]
  cases parse t <;> rfl

theorem getPair_eq_spec : getPair {} = AGV.Spec.Http.utf8Pair := by
  funext p
  simp only [getPair, AGV.Spec.Http.utf8Pair, getText, Bool.false_eq_true, if_false]
  cases utf8Decode p.1 <;> cases utf8Decode p.2 <;> rfl

theorem traverse_getPair_encode (ps : List (Str × Str)) :
    traverse (getPair {}) (ps.map (fun p => (utf8Encode p.1, utf8Encode p.2))) = some ps := by
  induction ps with
  | nil => rfl
  | cons p ps ih =>
    simp only [List.map_cons, traverse, getPair_eq_spec, AGV.Spec.Http.utf8Pair, c23_utf8_roundtrip] at ih ⊢
    rw [ih]

/-- THE PROPERTY, from bytes (repaired decoders): the UTF-8 bytes of the GET parameters, of the
    JSON body, of a batch and of the `operations` part sent for a request all decode to that
    request, for every request text (arbitrary scalar values) and every JSON printer/parser pair. -/
theorem c23_bytes_same (parse : Str → Option J) (print : J → Str) (hp : ∀ j, parse (print j) = some j) (r : Req) :
    decodeGetBytes {} (getKeys {}) parse (encodeGetBytes jsonKeys print r) = .ok r ∧
    decodeBodyBytes {} jsonKeys parse (utf8Encode (print (encodeJson jsonKeys r))) = .ok (.single r) ∧
    decodeBodyBytes {} jsonKeys parse (utf8Encode (print (encodeBatch jsonKeys [r]))) = .ok (.batch [r]) ∧
    decodeMultipartBytes {} jsonKeys parse
      [.ops none (utf8Encode (print (encodeJson jsonKeys r))), .map (utf8Encode (print (.obj [])))] = .ok (.single r) := by
  obtain ⟨h1, h2, h3, _⟩ := c23_same parse print hp r
  have hb : decodeBodyBytes {} jsonKeys parse (utf8Encode (print (encodeJson jsonKeys r))) = .ok (.single r) := by
    rw [c23_bytes_lift, hp]; exact h2
  refine ⟨?_, hb, ?_, ?_⟩
  · simp only [decodeGetBytes, encodeGetBytes]
    rw [traverse_getPair_encode]
    exact h1
  · rw [c23_bytes_lift, hp]; exact h3
  · rw [(c23_bytes_transport_agree {} jsonKeys parse none rfl _ _
      ⟨print (.obj []), c23_utf8_roundtrip _, hp _⟩).1]
    exact hb

/-- malformed encodings are rejected with a request error by every transport: bytes that are not
    UTF-8 as a body / batch / `operations` part, as the `map` part, or as a GET key or value. -/
theorem c23_bytes_malformed_rejected (K : Keys) (parse : Str → Option J) (bs : Bytes) (h : utf8Decode bs = none) :
    decodeBodyBytes {} K parse bs = .error .invalidRequest ∧
    (∀ ct rest, AGV.Spec.Http.isMultipartType ct = false →
      decodeMultipartBytes {} K parse (.ops ct bs :: rest) = .error .invalidRequest) ∧
    (∀ rest, decodeMultipartBytes {} K parse (.map bs :: rest) = .error .invalidFilesMap) ∧
    (∀ pre post other, decodeGetBytes {} K parse (pre ++ (bs, other) :: post) = .error .queryString) ∧
    (∀ pre post other, decodeGetBytes {} K parse (pre ++ (other, bs) :: post) = .error .queryString) := by
  have hb : decodeBodyBytes {} K parse bs = .error .invalidRequest := by simp [decodeBodyBytes, h]
  have hg : ∀ (pre post : List (Bytes × Bytes)) (p : Bytes × Bytes), getPair {} p = none →
      decodeGetBytes {} K parse (pre ++ p :: post) = .error .queryString := by
    intro pre post p hp
    have : traverse (getPair {}) (pre ++ p :: post) = none := by
      induction pre with
      | nil => simp only [List.nil_append, traverse, hp]
      | cons a as ih =>
        simp only [List.cons_append, traverse, ih]
        split <;> rfl
    simp only [decodeGetBytes, this]
  refine ⟨hb, ?_, ?_, ?_, ?_⟩
  · intro ct rest hct
    simp [decodeMultipartBytes, decodeMultipartBytesAux, hct, hb]
  · intro rest
    simp [decodeMultipartBytes, decodeMultipartBytesAux, h]
  · intro pre post other
    apply hg
    simp [getPair, getText, h]
  · intro pre post other
    apply hg
    simp only [getPair, getText, Bool.false_eq_true, if_false, h]
    split <;> simp_all

/-- on EVERY byte list the body decoder is the reference one -/
theorem c23_bytes_body_refines_spec (parse : Str → Option J) (bs : Bytes) :
    decodeBodyBytes {} jsonKeys parse bs = AGV.Spec.Http.decodeBodyBytes parse bs := by
  simp only [decodeBodyBytes, AGV.Spec.Http.decodeBodyBytes, c23_body_refines_spec]
  cases utf8Decode bs with
  | none => rfl
  | some t => cases parse t <;> rfl

/-- on EVERY list of percent-decoded byte pairs the repaired GET decoder is the reference one -/
theorem c23_bytes_get_refines_spec (parse : Str → Option J) (ps : List (Bytes × Bytes)) :
    decodeGetBytes {} (getKeys {}) parse ps = AGV.Spec.Http.decodeGetBytes parse ps := by
  simp only [decodeGetBytes, AGV.Spec.Http.decodeGetBytes, traverse_eq_allSome, c23_get_refines_spec, getPair_eq_spec]
  cases AGV.Spec.Http.allSome AGV.Spec.Http.utf8Pair ps <;> rfl

theorem filesMap_eq_spec (j : J) : filesMap j = AGV.Spec.Http.filesMapOf j := by
  cases j <;> try rfl
  rename_i kvs
  simp only [filesMap, AGV.Spec.Http.filesMapOf, traverse_eq_allSome]
  congr 1
  funext p
  cases p.2 <;> try rfl
  rename_i xs
  simp only []
  cases AGV.Spec.Http.allSome (fun (x : J) => match x with | .str s => some s | _ => none) xs <;> rfl

theorem decodeMultipartBytesAux_eq_spec (parse : Str → Option J) (parts : List BPart) (req : Option BatchReq)
    (m : Option (List (Str × List Str))) :
    decodeMultipartBytesAux {} jsonKeys parse parts req m = AGV.Spec.Http.decodeMultipartBytesAux parse parts req m := by
  induction parts generalizing req m with
  | nil => cases req <;> cases m <;> rfl
  | cons p ps ih =>
    cases p with
    | ops ct bs =>
      simp only [decodeMultipartBytesAux, AGV.Spec.Http.decodeMultipartBytesAux, c23_bytes_body_refines_spec]
      cases AGV.Spec.Http.isMultipartType ct
      · simp only [Bool.false_eq_true, if_false]
        cases AGV.Spec.Http.decodeBodyBytes parse bs with
        | error e => rfl
        | ok r => exact ih _ _
      · rfl
    | map bs =>
      simp only [decodeMultipartBytesAux, AGV.Spec.Http.decodeMultipartBytesAux, filesMap_eq_spec]
      cases utf8Decode bs with
      | none => rfl
      | some t =>
        cases hp : parse t with
        | none => simp [hp]
        | some j =>
          cases hf : AGV.Spec.Http.filesMapOf j with
          | none => simp [hp, hf]
          | some mm => simp [hp, hf]; exact ih _ _
    | other => simp only [decodeMultipartBytesAux, AGV.Spec.Http.decodeMultipartBytesAux]; exact ih _ _

/-- on EVERY sequence of byte parts the multipart decoder is the reference one -/
theorem c23_bytes_multipart_refines_spec (parse : Str → Option J) (parts : List BPart) :
    decodeMultipartBytes {} jsonKeys parse parts = AGV.Spec.Http.decodeMultipartBytes parse parts :=
  decodeMultipartBytesAux_eq_spec parse parts none none

/-- the request text `{"query":"?"}` with one arbitrary character `?` in the query (characters
    given by their code points) -/
def witnessText (c : Char) : Str :=
  [0x7B, 0x22, 0x71, 0x75, 0x65, 0x72, 0x79, 0x22, 0x3A, 0x22].map Char.ofNat ++ [c] ++ [0x22, 0x7D].map Char.ofNat

/-- the text `{}` -/
def emptyObjText : Str := [0x7B, 0x7D].map Char.ofNat

/-- a JSON parser that knows the texts of the witnesses: `{"query":"�"}` and `{}` -/
def witnessParse (t : Str) : Option J :=
  if t = witnessText (Char.ofNat 0xFFFD) then some (.obj [(AGV.Spec.Http.kQuery, .str [Char.ofNat 0xFFFD])])
  else if t = emptyObjText then some (.obj [])
  else none

/-- the bytes `{"query":"` FF `"}`: not UTF-8 -/
def witnessBytes : Bytes :=
  [0x7B, 0x22, 0x71, 0x75, 0x65, 0x72, 0x79, 0x22, 0x3A, 0x22, 0xFF, 0x22, 0x7D]

theorem decodeBatch_query_only (s : Str) :
    decodeBatch {} jsonKeys (.obj [(AGV.Spec.Http.kQuery, .str s)]) = .ok (.single ⟨s, none, [], []⟩) := by
  simp [decodeBatch, decodeReq, decodeReqObj, hasDup, count, lookup, jsonKeys, fieldQuery, fieldOperationName,
    fieldMembers, AGV.Spec.Http.kQuery, AGV.Spec.Http.kOperationName, AGV.Spec.Http.kVariables,
    AGV.Spec.Http.kExtensions]

theorem decodeBatch_empty_obj : decodeBatch {} jsonKeys (.obj []) = .ok (.single ⟨[], none, [], []⟩) := by
  simp [decodeBatch, decodeReq, decodeReqObj, hasDup, count, lookup, fieldQuery, fieldOperationName, fieldMembers]

/-- what the byte-level agreement excludes (the variant reading the `operations` part as text,
    `Field::text()`): it ACCEPTS bytes that are not UTF-8 — as a request whose query is U+FFFD —
    and a document behind a byte order mark, both of which the body decoder refuses. -/
theorem c23_bytes_violated_by_text_reading :
    decodeBodyBytes {} jsonKeys witnessParse witnessBytes = .error .invalidRequest ∧
    decodeBodyBytesAsText {} jsonKeys witnessParse witnessBytes
      = .ok (.single ⟨[Char.ofNat 0xFFFD], none, [], []⟩) ∧
    decodeBodyBytes {} jsonKeys witnessParse [0xEF, 0xBB, 0xBF, 0x7B, 0x7D] = .error .invalidRequest ∧
    decodeBodyBytesAsText {} jsonKeys witnessParse [0xEF, 0xBB, 0xBF, 0x7B, 0x7D]
      = .ok (.single ⟨[], none, [], []⟩) := by
  have w1 : utf8DecodeLossy witnessBytes = witnessText (Char.ofNat 0xFFFD) := by
    simp [witnessBytes, utf8DecodeLossy, utf8DecodeLossyN, AGV.Spec.Http.utf8Step, witnessText]
  have w2 : witnessParse (witnessText (Char.ofNat 0xFFFD))
      = some (.obj [(AGV.Spec.Http.kQuery, .str [Char.ofNat 0xFFFD])]) := by
    simp [witnessParse]
  have w3 : utf8Decode witnessBytes = none := by
    simp [witnessBytes, utf8Decode, AGV.Spec.Http.utf8DecodeN, AGV.Spec.Http.utf8Step]
  have w4 : utf8Decode [0xEF, 0xBB, 0xBF, 0x7B, 0x7D] = some (Char.ofNat 0xFEFF :: emptyObjText) := by
    simp [utf8Decode, AGV.Spec.Http.utf8DecodeN, AGV.Spec.Http.utf8Step, AGV.Spec.Http.inRange, emptyObjText]
  have w5 : witnessParse (Char.ofNat 0xFEFF :: emptyObjText) = none := by
    simp [witnessParse, witnessText, emptyObjText]
  have w6 : utf8DecodeLossy [0x7B, 0x7D] = emptyObjText := by
    simp [utf8DecodeLossy, utf8DecodeLossyN, AGV.Spec.Http.utf8Step, emptyObjText]
  have w7 : witnessParse emptyObjText = some (.obj []) := by
    simp [witnessParse, witnessText, emptyObjText]
  refine ⟨?_, ?_, ?_, ?_⟩
  · simp only [decodeBodyBytes, w3]
  · have : decodeBodyBytesAsText {} jsonKeys witnessParse witnessBytes
        = (match witnessParse (utf8DecodeLossy witnessBytes) with
           | none => .error .invalidRequest
           | some j => decodeBatch {} jsonKeys j) := rfl
    rw [this, w1, w2]
    exact decodeBatch_query_only _
  · simp only [decodeBodyBytes, w4, w5]
  · have : decodeBodyBytesAsText {} jsonKeys witnessParse [0xEF, 0xBB, 0xBF, 0x7B, 0x7D]
        = (match witnessParse (utf8DecodeLossy [0x7B, 0x7D]) with
           | none => .error .invalidRequest
           | some j => decodeBatch {} jsonKeys j) := rfl
    rw [this, w6, w7]
    exact decodeBatch_empty_obj

/-- pinned tree: the GET decoder repairs instead of refusing — `query=%FF` decodes to the query
    U+FFFD, while the reference semantics (and the JSON body with the same byte) refuses. -/
theorem c23_get_violated_by_lossy_utf8 :
    decodeGetBytes { getLossyUtf8 := true } (getKeys { getLossyUtf8 := true }) witnessParse
        [(utf8Encode AGV.Spec.Http.kQuery, [0xFF])]
      = .ok ⟨[Char.ofNat 0xFFFD], none, [], []⟩ ∧
    AGV.Spec.Http.decodeGetBytes witnessParse [(utf8Encode AGV.Spec.Http.kQuery, [0xFF])] = .error .queryString ∧
    decodeGetBytes {} (getKeys {}) witnessParse [(utf8Encode AGV.Spec.Http.kQuery, [0xFF])] = .error .queryString := by
  have l1 : utf8DecodeLossy [0xFF] = [Char.ofNat 0xFFFD] := by
    simp [utf8DecodeLossy, utf8DecodeLossyN, AGV.Spec.Http.utf8Step]
  have l2 : utf8Decode [0xFF] = none := by
    simp [utf8Decode, AGV.Spec.Http.utf8DecodeN, AGV.Spec.Http.utf8Step]
  have l3 : utf8DecodeLossy (utf8Encode AGV.Spec.Http.kQuery) = AGV.Spec.Http.kQuery := by
    simp [utf8DecodeLossy, utf8DecodeLossyN, AGV.Spec.Http.utf8Step, utf8Encode, AGV.Spec.Http.utf8EncodeN,
      AGV.Spec.Http.utf8EncodeCharN, AGV.Spec.Http.kQuery]
  have hspec : AGV.Spec.Http.decodeGetBytes witnessParse [(utf8Encode AGV.Spec.Http.kQuery, [0xFF])]
      = .error .queryString := by
    simp [AGV.Spec.Http.decodeGetBytes, AGV.Spec.Http.allSome, AGV.Spec.Http.utf8Pair, l2]
  refine ⟨?_, hspec, ?_⟩
  · simp only [decodeGetBytes, traverse, getPair, getText, l1, l3, if_true]
    simp [decodeGet, getKeys, jsonKeys, hasDup, count, lookup,
      getMembers, AGV.Spec.Http.kQuery, AGV.Spec.Http.kOperationName, AGV.Spec.Http.kVariables,
      AGV.Spec.Http.kExtensions]
  · rw [c23_bytes_get_refines_spec]; exact hspec

end Bytes

-- ------------------------------------------------------------------ witnesses of the defect toggles

/-- pinned tree: over GET the standard `operationName` parameter is ignored, so the same request
    decodes differently than over JSON (`query={a}&operationName=Q`). -/
theorem c23_get_violated_by_snake_case :
    ∃ (parse : Str → Option J) (print : J → Str) (r : Req),
      parse (print (.obj r.variables)) = some (.obj r.variables) ∧
      parse (print (.obj r.extensions)) = some (.obj r.extensions) ∧
      decodeGet (getKeys { getOperationNameSnakeCase := true }) parse (encodeGet jsonKeys print r)
        = .ok { r with operationName := none } ∧
      AGV.Spec.Http.decodeGet parse (encodeGet jsonKeys print r) = .ok r ∧
      r.operationName ≠ none := by
  refine ⟨fun _ => some (.obj []), fun _ => [], ⟨"{a}".toList, some "Q".toList, [], []⟩, rfl, rfl, ?_, ?_, by simp⟩
  · simp [decodeGet, encodeGet, getKeys, jsonKeys, hasDup, count, lookup, List.filter, List.find?, getMembers,
      asMembers, kOperationNameSnake, AGV.Spec.Http.kQuery, AGV.Spec.Http.kOperationName,
      AGV.Spec.Http.kVariables, AGV.Spec.Http.kExtensions]
  · simp [AGV.Spec.Http.decodeGet, AGV.Spec.Http.member, AGV.Spec.Http.textMembers, AGV.Spec.Http.membersOf,
      encodeGet, jsonKeys, List.filter, AGV.Spec.Http.kQuery, AGV.Spec.Http.kOperationName,
      AGV.Spec.Http.kVariables, AGV.Spec.Http.kExtensions]

/-- pinned tree: the empty batch `[]` is accepted as a single request with an empty query. -/
theorem c23_empty_batch_violated_by_array_request :
    decodeBatch { requestAcceptsArray := true } jsonKeys (.arr []) = .ok (.single ⟨[], none, [], []⟩) ∧
    AGV.Spec.Http.decodeBody (.arr []) = .error .invalidRequest ∧
    decodeBatch { requestAcceptsArray := true } jsonKeys (.arr [.str "{a}".toList, .str "Q".toList])
      = .ok (.single ⟨"{a}".toList, some "Q".toList, [], []⟩) := by
  refine ⟨by simp [decodeBatch, decodeReq, decodeReqSeq, fieldQuery, fieldOperationName, fieldMembers], rfl, ?_⟩
  simp [decodeBatch, decodeReq, decodeReqSeq, fieldQuery, fieldOperationName, fieldMembers]

/-- pinned tree: an `operations` part typed `multipart/*` panics instead of being rejected. -/
theorem c23_multipart_violated_by_panic :
    decodeMultipart { opsMultipartTypePanics := true } jsonKeys [.ops (some "multipart/mixed".toList) (.obj []), .map]
      = .error .panic ∧
    AGV.Spec.Http.decodeMultipart [.ops (some "multipart/mixed".toList) (.obj []), .map] = .error .invalidRequest := by
  constructor <;> simp [decodeMultipart, decodeMultipartAux, AGV.Spec.Http.decodeMultipart,
    AGV.Spec.Http.decodeMultipartAux, AGV.Spec.Http.isMultipartType]

/-- the hypotheses of the round-trip theorems are satisfiable: the real key tables are distinct -/
example : jsonKeys.Distinct ∧ (getKeys { getOperationNameSnakeCase := true }).Distinct :=
  ⟨jsonKeys_distinct, getKeys_distinct _⟩

end AGV.Props.C23
