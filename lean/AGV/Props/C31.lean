/-
  C31 — persisted queries execute only the document registered under the hash.
  Property theorems only (helper lemmas: AGV/Lemmas/PQ.lean).

  `Model.PQ.step H parse` mirrors `prepare_request` of src/extensions/apollo_persisted_queries.rs
  (+ the use of `parsed_query` in schema.rs).  Every theorem holds for EVERY hash function `H`
  (collisions included — nothing below relies on SHA-256 being injective), every parser `parse`,
  every hash and document type, every history of requests and cache evictions (`Act.forget`).

  OBLIGATION c31_inv
  OBLIGATION c31_exec
  OBLIGATION c31_exec_history
  OBLIGATION c31_hashonly
  OBLIGATION c31_frame
  OBLIGATION c31_registered_found
  OBLIGATION c31_plain_untouched
  OBLIGATION c31_accepted
  OBLIGATION c31_supported_version
-/
import AGV.Lemmas.PQ

namespace AGV.Props.C31
open AGV.Model.PQ AGV.Lemmas.PQ

section
variable {Hash Doc : Type} [DecidableEq Hash]

/-- Store invariant: after every history (from the empty store) every stored (h, doc) is the
    parse of some non-empty query text whose hash is h. -/
theorem c31_inv (H : Text → Hash) (parse : Text → Option Doc) (hist : List (Act Hash)) :
    ∀ h d, sGet h (after H parse [] hist) = some d → ∃ q, q ≠ [] ∧ H q = h ∧ parse q = some d :=
  inv_after H parse hist [] (inv_nil H parse)

/-- One request in a store satisfying the invariant: a request carrying the extension executes
    a document only if its version is 1 and the document is the parse of a text whose hash is
    the hash the request supplied. -/
theorem c31_exec (H : Text → Hash) (parse : Text → Option Doc) (s : Store Hash Doc) (hi : Inv H parse s)
    (q : Text) (v : Int) (h : Hash) (d : Doc)
    (hx : (step H parse s ⟨q, .pq v h⟩).2 = .exec d) :
    v = 1 ∧ ∃ q', H q' = h ∧ parse q' = some d := by
  by_cases hv : v = 1
  · refine ⟨hv, ?_⟩
    subst hv
    by_cases hq : q = []
    · subst hq
      cases hg : sGet h s with
      | none => simp [step, supportedVersion_eq, hg] at hx
      | some d' =>
        simp [step, supportedVersion_eq, hg] at hx
        subst hx
        obtain ⟨q', _, h1, h2⟩ := hi h d' hg
        exact ⟨q', h1, h2⟩
    · by_cases hh : h = H q
      · cases hp : parse q with
        | none => simp [step, supportedVersion_eq, hq, hh, hp] at hx
        | some d' =>
          simp [step, supportedVersion_eq, hq, hh, hp] at hx
          subst hx
          exact ⟨q, hh.symm, hp⟩
      · simp [step, supportedVersion_eq, hq, hh] at hx
  · simp [step, supportedVersion_eq, hv] at hx

/-- … hence after ANY history of requests and evictions. -/
theorem c31_exec_history (H : Text → Hash) (parse : Text → Option Doc) (hist : List (Act Hash))
    (q : Text) (v : Int) (h : Hash) (d : Doc)
    (hx : (step H parse (after H parse [] hist) ⟨q, .pq v h⟩).2 = .exec d) :
    v = 1 ∧ ∃ q', H q' = h ∧ parse q' = some d :=
  c31_exec H parse _ (inv_after H parse hist [] (inv_nil H parse)) q v h d hx

/-- A hash-only request (empty query, version 1) executes exactly what the store holds under
    the supplied hash, or fails with PersistedQueryNotFound when it holds nothing; the store is
    not changed. -/
theorem c31_hashonly (H : Text → Hash) (parse : Text → Option Doc) (s : Store Hash Doc) (h : Hash) :
    (step H parse s ⟨[], .pq 1 h⟩).1 = s ∧
      (step H parse s ⟨[], .pq 1 h⟩).2 =
        (match sGet h s with | some d => .exec d | none => .err .notFound) := by
  cases hg : sGet h s <;> simp [step, supportedVersion_eq, hg]

/-- Frame: a malformed payload, a version other than 1, or a query whose hash is not the
    supplied one changes nothing and executes nothing (the answer is an error). -/
theorem c31_frame (H : Text → Hash) (parse : Text → Option Doc) (s : Store Hash Doc) (r : Req Hash)
    (hr : r.ext = .bad ∨ (∃ v h, r.ext = .pq v h ∧ v ≠ 1) ∨
          (∃ h, r.ext = .pq 1 h ∧ r.query ≠ [] ∧ H r.query ≠ h)) :
    (step H parse s r).1 = s ∧ ∃ e, (step H parse s r).2 = .err e := by
  obtain ⟨q, ext⟩ := r
  rcases hr with hb | ⟨v, h, he, hv⟩ | ⟨h, he, hq, hh⟩
  · simp only at hb; subst hb; exact ⟨rfl, _, rfl⟩
  · simp only at he; subst he
    simp [step, supportedVersion_eq, hv]
  · simp only at he hq hh; subst he
    have : ¬ h = H q := fun e => hh e.symm
    simp [step, supportedVersion_eq, hq, this]

/-- A registration followed by any requests that are not registrations under the same hash —
    and no eviction of it — is found by a hash-only request: it executes the registered parse. -/
theorem c31_registered_found (H : Text → Hash) (parse : Text → Option Doc) (s : Store Hash Doc)
    (q : Text) (d : Doc) (hq : q ≠ []) (hp : parse q = some d) :
    let s' := (step H parse s ⟨q, .pq 1 (H q)⟩).1
    (step H parse s ⟨q, .pq 1 (H q)⟩).2 = .exec d ∧ (step H parse s' ⟨[], .pq 1 (H q)⟩).2 = .exec d := by
  simp [step, supportedVersion_eq, hq, hp, sGet_sPut_self]

/-- A request without the extension is passed through: its own text is parsed and executed and
    the store is not touched. -/
theorem c31_plain_untouched (H : Text → Hash) (parse : Text → Option Doc) (s : Store Hash Doc) (q : Text) :
    (step H parse s ⟨q, .none⟩).1 = s ∧
      (step H parse s ⟨q, .none⟩).2 = (match parse q with | some d => .exec d | none => .err .parse) := by
  cases hp : parse q <;> simp [step, hp]

/-- Whole histories against the reference acceptor of `Spec/PQ.lean` (registrations are the only
    state; a hash-only request runs the LATEST registration under its hash or fails NotFound;
    everything else is an error and registers nothing): every history of requests and evictions
    the model can produce is accepted. -/
theorem c31_accepted [DecidableEq Doc] (H : Text → Hash) (parse : Text → Option Doc) (hist : List (Act Hash)) :
    Spec.PQ.accepts H parse [] ((reqsOf hist).zip (run H parse [] hist)) = true :=
  run_accepted H parse hist [] [] rel_nil

end

/-- The version the source accepts (`if persisted_query.version != N`, generated) is 1. -/
theorem c31_supported_version : AGV.Gen.PersistedQueries.supportedVersion = 1 := supportedVersion_eq

/-- The hypotheses are satisfiable and the statements not vacuous: a colliding hash function
    (everything hashes to 0), two texts, register the first, register the second (replaces it),
    look up: the latest registration runs. -/
example :
    run (Hash := Nat) (Doc := Nat) (fun _ => 0) (fun q => some q.length) []
        [.req ⟨['a'], .pq 1 0⟩, .req ⟨['b', 'c'], .pq 1 0⟩, .req ⟨[], .pq 1 0⟩, .forget 0, .req ⟨[], .pq 1 0⟩,
         .req ⟨['x'], .pq 1 7⟩, .req ⟨['x'], .pq 2 0⟩, .req ⟨['x'], .bad⟩]
      = [.exec 1, .exec 2, .exec 2, .err .notFound, .err .mismatch, .err (.version 2), .err .invalid] := by
  decide

end AGV.Props.C31
