/-
  C16 — serde values convert to GraphQL values and back without loss.
  Property theorems only (helper lemmas live in AGV/Lemmas/Serde.lean).

  OBLIGATION c16_roundtrip
  OBLIGATION c16_null_under_option
  OBLIGATION c16_some_none_lost
  OBLIGATION c16_violated_by_null_under_option
  OBLIGATION c16_nonfinite_float
  OBLIGATION c16_wide_int_rejected
  OBLIGATION c16_char_rejected
  OBLIGATION c16_empty_tuple_variant
  OBLIGATION c16_exact
-/
import AGV.Lemmas.Serde
import AGV.Spec.Serde

namespace AGV.Props.C16
open AGV.Model.Serde AGV.Lemmas.Serde


/-- **Round trip.**  For every shape `τ` of the serde data model and every value `v` of that shape
    that contains none of the excluded classes, `to_value` succeeds and `from_value` returns `v`:
    the outcome is the one the property requires.  Holds for both variants of `serialize_char`. -/
theorem c16_roundtrip (D : Defects) (τ : STy) (v : SVal) (h : RoundTrippable D τ v) :
    AGV.Spec.Serde.Lossless v (roundTrip D τ v) := by
  obtain ⟨g, hg, hd⟩ := rt D τ v h
  simp [AGV.Spec.Serde.Lossless, roundTrip, hg, hd]

/-- the hypothesis of `c16_roundtrip` is satisfiable by a non-trivial value: a struct holding an
    enum struct variant, an `Option` that is `Some`, a map and a sequence of options -/
example : RoundTrippable Defects.pinned
    (.struct ["shape".toList, "opt".toList, "m".toList, "xs".toList]
      [.enum ["Nothing".toList, "Poly".toList] [.unit, .struct]
         [.prim .unit, .struct ["closed".toList, "n".toList] [.prim .bool, .prim .u64]],
       .opt (.opt (.prim .i32)), .map (.prim .f64), .seq (.opt (.prim .str))])
    (.tup [.var "Poly".toList (.tup [.bool true, .int 18446744073709551615]),
           .some (.some (.int (-5))), .map [("k".toList, .float 4609434218613702656)],
           .seq [.none, .some (.str "null".toList)]]) := by decide

/-! ### The classes excluded by `RoundTrippable`: each one really fails -/

/-- **Null under an option (general).**  Whenever a value serialises to `null`, wrapping it in
    `Some` loses it: `from_value` answers `None`. -/
theorem c16_null_under_option (D : Defects) (t : STy) (v : SVal) (h : ser D t v = some .null) :
    roundTrip D (.opt t) (.some v) = some (some .none) := by
  simp [roundTrip, ser, h, de]

/-- witnesses: `Some(None)`, `Some(())`, `Some(UnitStruct)`, `Some(Newtype(()))` and `Some(f64::INFINITY)`
    all come back as `None` -/
theorem c16_some_none_lost :
    roundTrip Defects.none (.opt (.opt (.prim .i32))) (.some .none) = some (some .none)
    ∧ roundTrip Defects.none (.opt (.prim .unit)) (.some .unit) = some (some .none)
    ∧ roundTrip Defects.none (.opt (.prim .ustruct)) (.some .unit) = some (some .none)
    ∧ roundTrip Defects.none (.opt (.newtype (.prim .unit))) (.some (.newtype .unit)) = some (some .none)
    ∧ roundTrip Defects.none (.opt (.prim .f64)) (.some (.float 0x7FF0000000000000)) = some (some .none) := by
  refine ⟨?_, ?_, ?_, ?_, ?_⟩ <;>
    exact c16_null_under_option _ _ _ (by simp [ser, serPrim, finiteBits])

theorem c16_violated_by_null_under_option :
    ∃ τ v, ¬ AGV.Spec.Serde.Lossless v (roundTrip Defects.none τ v) :=
  ⟨.opt (.opt (.prim .i32)), .some .none, by
    simp [AGV.Spec.Serde.Lossless, c16_some_none_lost.1]⟩

/-- **Non-finite floats (general).**  NaN and the infinities serialise to `null`, which no float
    target accepts: `from_value` fails. -/
theorem c16_nonfinite_float (D : Defects) (b : Nat) (h : finiteBits b = false) :
    roundTrip D (.prim .f64) (.float b) = some none ∧ roundTrip D (.prim .f32) (.float b) = some none := by
  simp [roundTrip, ser, serPrim, h, de, dePrim]

/-- `f64::INFINITY` is such a value -/
example : finiteBits 0x7FF0000000000000 = false := by decide

/-- **128-bit integers (general).**  `to_value` fails on every `i128`/`u128`. -/
theorem c16_wide_int_rejected (D : Defects) (n : Int) :
    roundTrip D (.prim .i128) (.int n) = none ∧ roundTrip D (.prim .u128) (.int n) = none := by
  simp [roundTrip, ser, serPrim, PTy.ser64]

/-- **char (general).**  On the pinned tree `to_value` fails on every `char`; once `serialize_char`
    emits a one-character string every `char` round-trips. -/
theorem c16_char_rejected (c : Char) :
    roundTrip Defects.pinned (.prim .char) (.char c) = none
    ∧ roundTrip Defects.none (.prim .char) (.char c) = some (some (.char c)) := by
  simp [roundTrip, ser, serPrim, Defects.pinned, Defects.none, de, dePrim]

/-- **Empty tuple variant.**  `enum E { Z() }`: `E::Z()` serialises to `{"Z": []}` and the
    sequence deserializer answers an empty list with `visit_unit`, which the variant's visitor
    rejects. -/
theorem c16_empty_tuple_variant (D : Defects) :
    roundTrip D (.enum [['Z']] [.tuple] [.tup []]) (.var ['Z'] (.tup [])) = some none := by
  have hs : ser D (.enum [['Z']] [.tuple] [.tup []]) (.var ['Z'] (.tup [])) =
      some (.obj [(['Z'], .list [])]) := by
    rw [ser, serVar.eq_def]; simp [serL]
  have hd : de (.enum [['Z']] [.tuple] [.tup []]) (.obj [(['Z'], .list [])]) = none := by
    rw [de]; simp only [enumParts]; rw [deVar.eq_def]; simp
  simp [roundTrip, hs, hd]

/-! ### Exactness: the excluded classes are exactly what is lost -/


/-- **Exactness.**  For a value of the shape (integers within their type, distinct keys and names)
    the outcome is the required one *if and only if* the value is `RoundTrippable`: the excluded
    classes are exactly the values that are lost or rejected. -/
theorem c16_exact (D : Defects) (τ : STy) (v : SVal) (hw : wellShaped τ v = true) :
    AGV.Spec.Serde.Lossless v (roundTrip D τ v) ↔ RoundTrippable D τ v := by
  constructor
  · intro h
    unfold AGV.Spec.Serde.Lossless roundTrip at h
    cases hg : ser D τ v with
    | none => simp [hg] at h
    | some g =>
      simp [hg] at h
      exact ex D τ v g hw hg h
  · exact c16_roundtrip D τ v

/-- a `RoundTrippable` value is in particular a value of the shape -/
example : wellShaped (.opt (.opt (.prim .i32))) (.some .none) = true
    ∧ ¬ RoundTrippable Defects.none (.opt (.opt (.prim .i32))) (.some .none) := by decide

end AGV.Props.C16
