/-
  C04 — merged fields resolve once; mutation root fields run one at a time in order.

  Statements are about the scheduler model (Model/Sched.lean); a schedule is a gate function.

  OBLIGATION c04_events_within_lifetime
  OBLIGATION c04_mutation_serial
  OBLIGATION c04_mutation_root_uses_serial_join
  OBLIGATION c04_once
  OBLIGATION c04_once_partial
  OBLIGATION c04_once_violated_by_perOccurrence
  OBLIGATION c04_once_repaired_on_witness
-/
import AGV.Lemmas.Sched
import AGV.Lemmas.SchedOnce

namespace AGV.Props.C04
open AGV.Core AGV.Model AGV.Model.Sched AGV.Lemmas.Sched AGV.Lemmas.SchedOnce
open AGV.Spec.Exec (FieldOcc selectOp)

/-- MERGED FIELDS RESOLVE ONCE — in the REPAIRED model (occurrences grouped by response key
    before execution; FALSE on the pinned tree, see `c04_once_violated_by_perOccurrence`): for every
    schedule, both executors (`ns`: nested selection sets serial or not), every other defect setting,
    schema, document, variables and world, no resolver is
    started twice for the same parent position (response path) and response key — also when
    joins are cancelled, in serial and parallel selection sets, through lists and fragments. -/
theorem c04_once (ns : Bool) (D : ExecStatic.Defects) (σ : Gate) (S : Schema) (d : Doc) (opName : Option String)
    (raw : List (String × GValue)) (w : World) (fuel : Nat) :
    (runWith ns D false σ S d opName raw w fuel).starts.Nodup := by
  unfold runWith
  split
  · simp [TRes.starts]
  · exact (resolveContainerT_inv _ (fun _ => True) (keysNodup_repaired _ rfl) _ _ _ _ _ _ _ _ trivial).1

/-- no selection set reachable from `root` (through fields, inline fragments and the document's
    fragments) collects a response key twice -/
def NoRepeatedKeys (g : Cfg) (root : List Sel) : Prop :=
  ∀ rt fuel st sels, Reach g.c.d root sels → ((ExecStatic.collect g.c rt fuel st sels).map (·.key)).Nodup

/-- The same for the executor AS IT IS (one future per occurrence, `perOccurrence = true`), for
    every schedule and every other defect setting, when the executed selection set repeats no
    response key: no resolver is started twice for a parent position and key, and every start
    lies at or below the position of the selection set. -/
theorem c04_once_partial (g : Cfg) (hp : g.perOccurrence = true) (root : List Sel) (hk : NoRepeatedKeys g root)
    (serial : Bool) (fuel : Nat) (st rt : String) (id : Nat) (path : List PathSeg) (s : Nat) :
    (resolveContainerT g serial fuel st rt id root path s).starts.Nodup ∧
    ∀ q ∈ (resolveContainerT g serial fuel st rt id root path s).starts, path <+: q.1 := by
  have hK : KeysNodupOn g (Reach g.c.d root) := by
    intro rt' fuel' st' sels hr
    simp only [occsOf, hp, if_true]
    exact ⟨hk rt' fuel' st' sels hr, collect_reach g.c root rt' fuel' st' sels hr⟩
  exact resolveContainerT_inv g _ hK fuel serial st rt id root path s Reach.refl

/-- the hypothesis of `c04_once_partial` is satisfiable: the selection set `{ inc }` -/
example (g : Cfg) : NoRepeatedKeys g [Sel.field none "inc" [] [] [] ⟨1, 12⟩] := by
  intro rt fuel st sels hr
  have hs : sels = [Sel.field none "inc" [] [] [] ⟨1, 12⟩] ∨ sels = [] := by
    induction hr with
    | refl => left; rfl
    | field _ hm ih =>
      rcases ih with rfl | rfl
      · simp only [List.mem_singleton, Sel.field.injEq] at hm
        right; exact hm.2.2.2.2.1
      · simp at hm
    | inline _ hm ih => rcases ih with rfl | rfl <;> simp at hm
    | spread _ hm _ ih => rcases ih with rfl | rfl <;> simp at hm
  rcases hs with rfl | rfl <;> cases fuel <;> simp [ExecStatic.collect]

/-- Every event of a (sub-)execution — in particular every resolver start and end below a
    field — happens between the round in which the execution is started and the round in which
    it completes: for every schedule and every defect setting. -/
theorem c04_events_within_lifetime (g : Cfg) (serial : Bool) (fuel : Nat) (st rt : String) (id : Nat) (sels : List Sel)
    (path : List PathSeg) (s : Nat) :
    let r := resolveContainerT g serial fuel st rt id sels path s
    s ≤ r.fin ∧ ∀ e ∈ r.evs, s ≤ e.1 ∧ e.1 ≤ r.fin :=
  resolveContainerT_bnd g fuel serial st rt id sels path s

/-- The field futures of a selection set, in collection order. -/
def fieldFutures (g : Cfg) (fuel : Nat) (st rt : String) (id : Nat) (sels : List Sel) (path : List PathSeg) : List (Nat → TRes) :=
  (occsOf g rt (fuel + 1) st sels).map (fun occ => runFieldT g (resolveContainerT g g.nestedSerial fuel) rt id path occ)

/-- MUTATION ROOT FIELDS RUN ONE AT A TIME, IN ORDER — for every schedule (gate function), every
    defect setting, schema, document and world.  The trace of a serially executed selection set
    is the concatenation of the traces of its field futures in document order
    (`serialRuns`: each started in the round in which its predecessor COMPLETED, none after the
    first failure), and for i < j every event of field i's subtree (its resolver's start and
    end, all nested resolvers, captured errors) happens no later than the completion round of
    field i, which is no later than any event — in particular the resolver start — of field j. -/
theorem c04_mutation_serial (g : Cfg) (fuel : Nat) (st rt : String) (id : Nat) (sels : List Sel) (path : List PathSeg) (s : Nat) :
    let fs := fieldFutures g fuel st rt id sels path
    (resolveContainerT g true (fuel + 1) st rt id sels path s).evs = ((serialRuns s fs).map (·.evs)).flatten ∧
    (serialRuns s fs).Pairwise (fun a b => ∀ x ∈ a.evs, ∀ y ∈ b.evs, x.1 ≤ a.fin ∧ a.fin ≤ y.1) := by
  intro fs
  have hb : ∀ f ∈ fs, ∀ s, Bnd s (f s) := by
    intro f hf s'
    simp only [fs, fieldFutures, List.mem_map] at hf
    obtain ⟨occ, _, rfl⟩ := hf
    exact runFieldT_bnd g _ (fun a b i ss p t => resolveContainerT_bnd g fuel g.nestedSerial a b i ss p t) _ _ _ _ _
  refine ⟨?_, serialRuns_pairwise fs hb s⟩
  simp only [resolveContainerT, if_true]
  rw [← joinSer_evs]
  unfold ofJoin
  split <;> rfl

/-- …and the root selection set of a mutation IS executed by the serial join (a query's by the
    parallel one). -/
theorem c04_mutation_root_uses_serial_join (ns : Bool) (D : ExecStatic.Defects) (perOcc : Bool) (σ : Gate) (S : Schema) (d : Doc)
    (opName : Option String) (raw : List (String × GValue)) (w : World) (fuel : Nat) (op : OpDef)
    (hop : selectOp d opName = some op) (hm : op.ty = .mutation) :
    ∃ (c : ExecStatic.Ctx) (sels : List Sel),
      runWith ns D perOcc σ S d opName raw w fuel =
        resolveContainerT { c := c, perOccurrence := perOcc, gate := σ, nestedSerial := ns } true fuel
          (S.mutation.getD "") (S.mutation.getD "") 0 sels [] 0 := by
  simp only [runWith, hop, hm]
  exact ⟨_, _, rfl⟩

-- ------------------------------------------------------------------ witness (also corpus/C04)

def p1 : Pos := ⟨1, 12⟩
def p2 : Pos := ⟨1, 16⟩
def S0 : Schema := { query := "Query", mutation := some "Mutation", types := [
  { name := "Query", kind := .object, fields := [{ name := "num", ty := .named "Int", args := [] }] },
  { name := "Mutation", kind := .object, fields := [{ name := "inc", ty := .named "Int", args := [] }] },
  { name := "Int", kind := .scalar }] }
def w0 : World := { entries := [((0, "inc"), .leaf (.int 1))] }
/-- `mutation { inc inc }` -/
def doc0 : Doc := { ops := [{ ty := .mutation, name := none, vars := [], dirs := [], sels := [Sel.field none "inc" [] [] [] p1, Sel.field none "inc" [] [] [] p2] }], frags := [] }
def sched0 : Gate := fun _ _ _ => 0

/-- `mutation { inc inc }`: the pinned executor creates one future per occurrence and merges
    afterwards — the resolver (the side effect) runs twice for one response key. -/
theorem c04_once_violated_by_perOccurrence :
    (run ExecStatic.Defects.none true sched0 S0 doc0 none [] w0 5).starts = [([], "inc"), ([], "inc")] ∧
    (run ExecStatic.Defects.none true sched0 S0 doc0 none [] w0 5).val = some (.obj [("inc", .int 1)]) := by
  refine ⟨by rfl, by rfl⟩

/-- the repaired model (occurrences grouped by response key first) runs it once -/
theorem c04_once_repaired_on_witness :
    (run ExecStatic.Defects.none false sched0 S0 doc0 none [] w0 5).starts = [([], "inc")] ∧
    (run ExecStatic.Defects.none false sched0 S0 doc0 none [] w0 5).val = some (.obj [("inc", .int 1)]) := by
  refine ⟨by rfl, by rfl⟩

end AGV.Props.C04
