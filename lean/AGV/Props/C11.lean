/-
  C11 — request checking work is polynomial in the document size.
  Property theorems only (helper lemmas live in AGV/Lemmas/Cost.lean).

  OBLIGATION c11_blowup
  OBLIGATION c11_blowup_exceeds_bound
  OBLIGATION c11_poly
  OBLIGATION c11_poly_spec
  OBLIGATION c11_overlap_poly
  OBLIGATION c11_poly_partial
  OBLIGATION c11_pinned_upper
  OBLIGATION c11_poly_norepeat_anynames
  OBLIGATION c11_poly_norepeat
-/
import AGV.Lemmas.Cost

namespace AGV.Props.C11
open AGV.Core AGV.Model.Cost AGV.Spec.Cost AGV.Lemmas.Cost

/-- The property is FALSE of the pinned walkers, for every size: the chain
    `{ ...F0 }  fragment F0 { ...F1 ...F1 } … fragment Fn { a }` (any injective naming `nm` of the
    fragments) has `3n + 4` syntax nodes, passes the recursion check whenever `n < recLimit`
    (n ≤ 31 under the default limit of 32) and the directive check under every configuration,
    and the pinned checks then perform at least `2^n` selection visits. -/
theorem c11_blowup (nm : Nat → String) (hinj : ∀ a b, nm a = nm b → a = b) (n : Nat) (c : Config)
    (hn : n + 1 ≤ c.recLimit) :
    size (chain nm n) = 3 * n + 4 ∧ (run pinned c (chain nm n)).1 = .done ∧
      2 ^ n ≤ visits pinned c (chain nm n) := by
  refine ⟨size_chain nm n, ?_⟩
  have h := run_of_pass pinned c (chain nm n) (depth_chain_ok nm hinj n c hn)
    (fun lim _ => dirs_chain_ok nm hinj n c lim)
  refine ⟨h.1, ?_⟩
  have hi := inline_chain nm hinj n c hn
  have hv : (run pinned c (chain nm n)).2.selInline ≤ visits pinned c (chain nm n) := by
    simp only [visits, Counters.visits]; omega
  rw [h.2] at hv
  simp only [inlinePass, pinned] at hv
  exact Nat.le_trans hi hv

/-- … and from 11 links on (a document of 37 syntax nodes) that is more than the polynomial the
    specification allows, in every configuration that lets the chain through. -/
theorem c11_blowup_exceeds_bound (nm : Nat → String) (hinj : ∀ a b, nm a = nm b → a = b) (n : Nat)
    (c : Config) (hn : n + 1 ≤ c.recLimit) (h11 : 11 ≤ n) :
    visitBound c.strict (chain nm n) < visits pinned c (chain nm n) := by
  have h1 := visitBound_chain_le nm n c.strict
  have h2 := chainBound_lt_pow n h11
  have h3 := (c11_blowup nm hinj n c hn).2.2
  omega

/-- The repaired cost model (every walker enters each fragment at most once) is linear per pass:
    for EVERY document and configuration the selection visits are at most `passes * size`. -/
theorem c11_poly (c : Config) (d : Doc) : visits {} c d ≤ passes c.strict * size d := by
  have hL := limitMemo_le d
  have hI := inlinePassMemo_le c d
  have hN := normalPass_le_size c d
  unfold visits run
  cases hs : c.strict <;> cases hmd : c.maxDirs <;>
    simp only [passes, inlinePass, Counters.visits, modes_strict, modes_fast] <;>
    (repeat' split) <;> simp_all <;> omega

/-- … hence inside the specification's polynomial `(size + 1) * (numFragments + 1) * passes`. -/
theorem c11_poly_spec (c : Config) (d : Doc) : visits {} c d ≤ visitBound c.strict d := by
  have h := c11_poly c d
  have h2 : passes c.strict * size d ≤ visitBound c.strict d := by
    simp only [visitBound]
    rw [Nat.mul_comm (passes c.strict)]
    apply Nat.mul_le_mul_right
    calc size d ≤ size d + 1 := Nat.le_succ _
      _ = (size d + 1) * 1 := (Nat.mul_one _).symm
      _ ≤ (size d + 1) * (numFragments d + 1) := Nat.mul_le_mul_left _ (by omega)
  omega

/-- `OverlappingFieldsCanBeMerged` of the PINNED code is polynomial for every document: it is run
    from every selection set of the normal pass, but each run enters a fragment at most once
    (its `visited` set), so it looks at no more than `2 * size^2` selections. -/
theorem c11_overlap_poly (c : Config) (d : Doc) : (overlapWork c d).1 ≤ overlapBound d := by
  have h := overlapWork_le c d
  have e : size d * (2 * size d) = 2 * size d * size d := by
    rw [Nat.mul_comm (size d) (2 * size d)]
  simp only [overlapBound]
  omega

/-- Partial result for the PINNED walkers: the blow-up needs nested fragments.  When no fragment
    definition spreads a fragment (operations may spread every fragment as often as they like) the
    pinned checks stay quadratic: at most `passes * size * (size + 1)` selection visits. -/
theorem c11_poly_partial (c : Config) (d : Doc) (hf : FlatFragments d) :
    visits pinned c d ≤ passes c.strict * (size d * (1 + size d)) := by
  have hq := flat_walk_le_quadratic d
  have hI := inlinePassPinned_flat c d hf
  have hD := depthPinned_flat c d hf
  have hN := normalPass_le_size c d
  have hA : size d ≤ size d * (1 + size d) := Nat.le_mul_of_pos_right _ (by omega)
  cases hmd : c.maxDirs with
  | none =>
    generalize size d * (1 + size d) = A at *
    generalize opsSels d.ops * (1 + fragsSels d.frags) = B at *
    unfold visits run
    cases hs : c.strict <;>
      simp only [passes, inlinePass, pinned, Counters.visits, modes_strict, modes_fast] <;>
      (repeat' split) <;> simp_all <;> omega
  | some lim =>
    have hM := dirsPinned_flat c lim d hf
    generalize size d * (1 + size d) = A at *
    generalize opsSels d.ops * (1 + fragsSels d.frags) = B at *
    unfold visits run
    cases hs : c.strict <;>
      simp only [passes, inlinePass, pinned, Counters.visits, modes_strict, modes_fast] <;>
      (repeat' split) <;> simp_all <;> omega

example : FlatFragments
    { ops := [{ ty := .query, name := none, vars := [], dirs := [],
                sels := [.spread "S" [] pos0, .spread "S" [] pos0, .field none "q" [] [] [.spread "S" [] pos0] pos0] }],
      frags := [{ name := "S", cond := "Query", dirs := [], sels := [.field none "a" [] [] [] pos0] }] } := by
  intro f hf
  simp only [List.mem_singleton] at hf
  subst hf
  rfl

/-- The sharper statement of the plan, for the PINNED (re-walking) walkers: in a document in which
    no fragment name is spread twice — counting every spread in every operation and every
    fragment definition — each fragment body is walked at most once per pass, at every nesting
    depth, so the pinned checks perform at most `passes * size` selection visits (the bound of the
    repaired walkers, `c11_poly`).  Fragment definitions may be nested arbitrarily, may be unused,
    may even share a name (the first one wins, as in `Doc.frag?`). -/
theorem c11_poly_norepeat_anynames (c : Config) (d : Doc)
    (h : ((d.ops.map fun o => spreadNames o.sels) ++ (d.frags.map fun f => spreadNames f.sels)).flatten.Nodup) :
    visits pinned c d ≤ passes c.strict * size d := by
  have hI := inlinePassPinned_norepeat c d h
  have hD := depthPinned_norepeat c d h
  have hN := normalPass_le_size c d
  cases hmd : c.maxDirs with
  | none =>
    unfold visits run
    cases hs : c.strict <;>
      simp only [passes, inlinePass, pinned, Counters.visits, modes_strict, modes_fast] <;>
      (repeat' split) <;> simp_all <;> omega
  | some lim =>
    have hM := dirsPinned_norepeat c lim d h
    unfold visits run
    cases hs : c.strict <;>
      simp only [passes, inlinePass, pinned, Counters.visits, modes_strict, modes_fast] <;>
      (repeat' split) <;> simp_all <;> omega

/-- … in the form announced in the plan (fragment names distinct). -/
theorem c11_poly_norepeat :
  ∀ (c : Config) (d : Doc),
    (d.frags.map (·.name)).Nodup →
    ((d.ops.map fun o => spreadNames o.sels) ++ (d.frags.map fun f => spreadNames f.sels)).flatten.Nodup →
    visits pinned c d ≤ passes c.strict * size d :=
  fun c d _ h => c11_poly_norepeat_anynames c d h

/-- the hypotheses are satisfiable by a document with NESTED fragments (outside `c11_poly_partial`):
    `{ ...A x { ...C } }  fragment A { ...B }  fragment B { b }  fragment C { c }` -/
example :
    let d : Doc :=
      { ops := [{ ty := .query, name := none, vars := [], dirs := [],
                  sels := [.spread "A" [] pos0, .field none "x" [] [] [.spread "C" [] pos0] pos0] }],
        frags := [{ name := "A", cond := "Query", dirs := [], sels := [.spread "B" [] pos0] },
                  { name := "B", cond := "Query", dirs := [], sels := [.field none "b" [] [] [] pos0] },
                  { name := "C", cond := "Query", dirs := [], sels := [.field none "c" [] [] [] pos0] }] }
    (d.frags.map (·.name)).Nodup ∧
    ((d.ops.map fun o => spreadNames o.sels) ++ (d.frags.map fun f => spreadNames f.sels)).flatten.Nodup ∧
    ¬ FlatFragments d := by
  refine ⟨by decide, by decide, ?_⟩
  intro h
  have := h _ (List.mem_cons_self)
  revert this
  decide

/-- the hypothesis of `c11_blowup` is satisfiable: `a`, `aa`, `aaa`, … is an injective naming -/
example : ∀ a b : Nat, String.ofList (List.replicate (a + 1) 'a') = String.ofList (List.replicate (b + 1) 'a') → a = b := by
  intro a b h
  have := congrArg String.length h
  simpa using this

/-- What IS true of the pinned walkers for every document: the recursion limit caps the fragment
    nesting, so the visits are below `passes * size * (1 + size)^(recLimit + 2)` — a polynomial
    only for a fixed limit, of degree `recLimit + 3` (35 with the default limit), and by
    `c11_blowup` the exponent really grows with the limit. -/
theorem c11_pinned_upper (c : Config) (d : Doc) :
    visits pinned c d ≤ passes c.strict * (size d * (1 + size d) ^ (c.recLimit + 2)) := by
  have hI := Nat.le_trans (inlinePassPinned_fan c d) (fan_walk_le c d (by omega))
  have hD := Nat.le_trans (depthPinned_fan c d) (fan_walk_le c d (Nat.le_refl _))
  have hN := normalPass_le_size c d
  have hA : size d ≤ size d * (1 + size d) ^ (c.recLimit + 2) :=
    Nat.le_mul_of_pos_right _ (Nat.pow_pos (by omega))
  cases hmd : c.maxDirs with
  | none =>
    generalize size d * (1 + size d) ^ (c.recLimit + 2) = A at *
    unfold visits run
    cases hs : c.strict <;>
      simp only [passes, inlinePass, pinned, Counters.visits, modes_strict, modes_fast] <;>
      (repeat' split) <;> simp_all <;> omega
  | some lim =>
    have hM := Nat.le_trans (dirsPinned_fan c lim d) (fan_walk_le c d (by omega))
    generalize size d * (1 + size d) ^ (c.recLimit + 2) = A at *
    unfold visits run
    cases hs : c.strict <;>
      simp only [passes, inlinePass, pinned, Counters.visits, modes_strict, modes_fast] <;>
      (repeat' split) <;> simp_all <;> omega

end AGV.Props.C11
