/-
  C11 — request checking work is polynomial in the document size.
  Property theorems only (helper lemmas live in AGV/Lemmas/Cost.lean).

  OBLIGATION c11_blowup
  OBLIGATION c11_blowup_exceeds_bound
  OBLIGATION c11_poly
  OBLIGATION c11_poly_spec
  OBLIGATION c11_overlap_poly
  OBLIGATION c11_poly_partial
  OBLIGATION c11_pinned_upper
  OBLIGATION c11_poly_norepeat_anynames
  OBLIGATION c11_poly_norepeat
  OBLIGATION c11_value_checks_linear
  OBLIGATION c11_value_checks_doc
  OBLIGATION c11_value_recheck_exponential
  OBLIGATION c11_value_recheck_exceeds_bound
-/
import AGV.Lemmas.Cost
import AGV.Lemmas.CostValue

namespace AGV.Props.C11
open AGV.Core AGV.Model.Cost AGV.Spec.Cost AGV.Lemmas.Cost

/-- The property is FALSE of the pinned walkers, for every size: the chain
    `{ ...F0 }  fragment F0 { ...F1 ...F1 } … fragment Fn { a }` (any injective naming `nm` of the
    fragments) has `3n + 4` syntax nodes, passes the recursion check whenever `n < recLimit`
    (n ≤ 31 under the default limit of 32) and the directive check under every configuration,
    and the pinned checks then perform at least `2^n` selection visits. -/
theorem c11_blowup (nm : Nat → String) (hinj : ∀ a b, nm a = nm b → a = b) (n : Nat) (c : Config)
    (hn : n + 1 ≤ c.recLimit) :
    size (chain nm n) = 3 * n + 4 ∧ (run pinned c (chain nm n)).1 = .done ∧
      2 ^ n ≤ visits pinned c (chain nm n) := by
  refine ⟨size_chain nm n, ?_⟩
  have h := run_of_pass pinned c (chain nm n) (depth_chain_ok nm hinj n c hn)
    (fun lim _ => dirs_chain_ok nm hinj n c lim)
  refine ⟨h.1, ?_⟩
  have hi := inline_chain nm hinj n c hn
  have hv : (run pinned c (chain nm n)).2.selInline ≤ visits pinned c (chain nm n) := by
    simp only [visits, Counters.visits]; omega
  rw [h.2] at hv
  simp only [inlinePass, pinned] at hv
  exact Nat.le_trans hi hv

/-- … and from 11 links on (a document of 37 syntax nodes) that is more than the polynomial the
    specification allows, in every configuration that lets the chain through. -/
theorem c11_blowup_exceeds_bound (nm : Nat → String) (hinj : ∀ a b, nm a = nm b → a = b) (n : Nat)
    (c : Config) (hn : n + 1 ≤ c.recLimit) (h11 : 11 ≤ n) :
    visitBound c.strict (chain nm n) < visits pinned c (chain nm n) := by
  have h1 := visitBound_chain_le nm n c.strict
  have h2 := chainBound_lt_pow n h11
  have h3 := (c11_blowup nm hinj n c hn).2.2
  omega

/-- The repaired cost model (every walker enters each fragment at most once) is linear per pass:
    for EVERY document and configuration the selection visits are at most `passes * size`. -/
theorem c11_poly (c : Config) (d : Doc) : visits {} c d ≤ passes c.strict * size d := by
  have hL := limitMemo_le d
  have hI := inlinePassMemo_le c d
  have hN := normalPass_le_size c d
  unfold visits run
  cases hs : c.strict <;> cases hmd : c.maxDirs <;>
    simp only [passes, inlinePass, Counters.visits, modes_strict, modes_fast] <;>
    (repeat' split) <;> simp_all <;> omega

/-- … hence inside the specification's polynomial `(size + 1) * (numFragments + 1) * passes`. -/
theorem c11_poly_spec (c : Config) (d : Doc) : visits {} c d ≤ visitBound c.strict d := by
  have h := c11_poly c d
  have h2 : passes c.strict * size d ≤ visitBound c.strict d := by
    simp only [visitBound]
    rw [Nat.mul_comm (passes c.strict)]
    apply Nat.mul_le_mul_right
    calc size d ≤ size d + 1 := Nat.le_succ _
      _ = (size d + 1) * 1 := (Nat.mul_one _).symm
      _ ≤ (size d + 1) * (numFragments d + 1) := Nat.mul_le_mul_left _ (by omega)
  omega

/-- `OverlappingFieldsCanBeMerged` of the PINNED code is polynomial for every document: it is run
    from every selection set of the normal pass, but each run enters a fragment at most once
    (its `visited` set), so it looks at no more than `2 * size^2` selections. -/
theorem c11_overlap_poly (c : Config) (d : Doc) : (overlapWork c d).1 ≤ overlapBound d := by
  have h := overlapWork_le c d
  have e : size d * (2 * size d) = 2 * size d * size d := by
    rw [Nat.mul_comm (size d) (2 * size d)]
  simp only [overlapBound]
  omega

/-- Partial result for the PINNED walkers: the blow-up needs nested fragments.  When no fragment
    definition spreads a fragment (operations may spread every fragment as often as they like) the
    pinned checks stay quadratic: at most `passes * size * (size + 1)` selection visits. -/
theorem c11_poly_partial (c : Config) (d : Doc) (hf : FlatFragments d) :
    visits pinned c d ≤ passes c.strict * (size d * (1 + size d)) := by
  have hq := flat_walk_le_quadratic d
  have hI := inlinePassPinned_flat c d hf
  have hD := depthPinned_flat c d hf
  have hN := normalPass_le_size c d
  have hA : size d ≤ size d * (1 + size d) := Nat.le_mul_of_pos_right _ (by omega)
  cases hmd : c.maxDirs with
  | none =>
    generalize size d * (1 + size d) = A at *
    generalize opsSels d.ops * (1 + fragsSels d.frags) = B at *
    unfold visits run
    cases hs : c.strict <;>
      simp only [passes, inlinePass, pinned, Counters.visits, modes_strict, modes_fast] <;>
      (repeat' split) <;> simp_all <;> omega
  | some lim =>
    have hM := dirsPinned_flat c lim d hf
    generalize size d * (1 + size d) = A at *
    generalize opsSels d.ops * (1 + fragsSels d.frags) = B at *
    unfold visits run
    cases hs : c.strict <;>
      simp only [passes, inlinePass, pinned, Counters.visits, modes_strict, modes_fast] <;>
      (repeat' split) <;> simp_all <;> omega

example : FlatFragments
    { ops := [{ ty := .query, name := none, vars := [], dirs := [],
                sels := [.spread "S" [] pos0, .spread "S" [] pos0, .field none "q" [] [] [.spread "S" [] pos0] pos0] }],
      frags := [{ name := "S", cond := "Query", dirs := [], sels := [.field none "a" [] [] [] pos0] }] } := by
  intro f hf
  simp only [List.mem_singleton] at hf
  subst hf
  rfl

/-- The sharper statement of the plan, for the PINNED (re-walking) walkers: in a document in which
    no fragment name is spread twice — counting every spread in every operation and every
    fragment definition — each fragment body is walked at most once per pass, at every nesting
    depth, so the pinned checks perform at most `passes * size` selection visits (the bound of the
    repaired walkers, `c11_poly`).  Fragment definitions may be nested arbitrarily, may be unused,
    may even share a name (the first one wins, as in `Doc.frag?`). -/
theorem c11_poly_norepeat_anynames (c : Config) (d : Doc)
    (h : ((d.ops.map fun o => spreadNames o.sels) ++ (d.frags.map fun f => spreadNames f.sels)).flatten.Nodup) :
    visits pinned c d ≤ passes c.strict * size d := by
  have hI := inlinePassPinned_norepeat c d h
  have hD := depthPinned_norepeat c d h
  have hN := normalPass_le_size c d
  cases hmd : c.maxDirs with
  | none =>
    unfold visits run
    cases hs : c.strict <;>
      simp only [passes, inlinePass, pinned, Counters.visits, modes_strict, modes_fast] <;>
      (repeat' split) <;> simp_all <;> omega
  | some lim =>
    have hM := dirsPinned_norepeat c lim d h
    unfold visits run
    cases hs : c.strict <;>
      simp only [passes, inlinePass, pinned, Counters.visits, modes_strict, modes_fast] <;>
      (repeat' split) <;> simp_all <;> omega

/-- … in the form announced in the plan (fragment names distinct). -/
theorem c11_poly_norepeat :
  ∀ (c : Config) (d : Doc),
    (d.frags.map (·.name)).Nodup →
    ((d.ops.map fun o => spreadNames o.sels) ++ (d.frags.map fun f => spreadNames f.sels)).flatten.Nodup →
    visits pinned c d ≤ passes c.strict * size d :=
  fun c d _ h => c11_poly_norepeat_anynames c d h

/-- the hypotheses are satisfiable by a document with NESTED fragments (outside `c11_poly_partial`):
    `{ ...A x { ...C } }  fragment A { ...B }  fragment B { b }  fragment C { c }` -/
example :
    let d : Doc :=
      { ops := [{ ty := .query, name := none, vars := [], dirs := [],
                  sels := [.spread "A" [] pos0, .field none "x" [] [] [.spread "C" [] pos0] pos0] }],
        frags := [{ name := "A", cond := "Query", dirs := [], sels := [.spread "B" [] pos0] },
                  { name := "B", cond := "Query", dirs := [], sels := [.field none "b" [] [] [] pos0] },
                  { name := "C", cond := "Query", dirs := [], sels := [.field none "c" [] [] [] pos0] }] }
    (d.frags.map (·.name)).Nodup ∧
    ((d.ops.map fun o => spreadNames o.sels) ++ (d.frags.map fun f => spreadNames f.sels)).flatten.Nodup ∧
    ¬ FlatFragments d := by
  refine ⟨by decide, by decide, ?_⟩
  intro h
  have := h _ (List.mem_cons_self)
  revert this
  decide

/-- the hypothesis of `c11_blowup` is satisfiable: `a`, `aa`, `aaa`, … is an injective naming -/
example : ∀ a b : Nat, String.ofList (List.replicate (a + 1) 'a') = String.ofList (List.replicate (b + 1) 'a') → a = b := by
  intro a b h
  have := congrArg String.length h
  simpa using this

/-- What IS true of the pinned walkers for every document: the recursion limit caps the fragment
    nesting, so the visits are below `passes * size * (1 + size)^(recLimit + 2)` — a polynomial
    only for a fixed limit, of degree `recLimit + 3` (35 with the default limit), and by
    `c11_blowup` the exponent really grows with the limit. -/
theorem c11_pinned_upper (c : Config) (d : Doc) :
    visits pinned c d ≤ passes c.strict * (size d * (1 + size d) ^ (c.recLimit + 2)) := by
  have hI := Nat.le_trans (inlinePassPinned_fan c d) (fan_walk_le c d (by omega))
  have hD := Nat.le_trans (depthPinned_fan c d) (fan_walk_le c d (Nat.le_refl _))
  have hN := normalPass_le_size c d
  have hA : size d ≤ size d * (1 + size d) ^ (c.recLimit + 2) :=
    Nat.le_mul_of_pos_right _ (Nat.pow_pos (by omega))
  cases hmd : c.maxDirs with
  | none =>
    generalize size d * (1 + size d) ^ (c.recLimit + 2) = A at *
    unfold visits run
    cases hs : c.strict <;>
      simp only [passes, inlinePass, pinned, Counters.visits, modes_strict, modes_fast] <;>
      (repeat' split) <;> simp_all <;> omega
  | some lim =>
    have hM := Nat.le_trans (dirsPinned_fan c lim d) (fan_walk_le c d (by omega))
    generalize size d * (1 + size d) ^ (c.recLimit + 2) = A at *
    unfold visits run
    cases hs : c.strict <;>
      simp only [passes, inlinePass, pinned, Counters.visits, modes_strict, modes_fast] <;>
      (repeat' split) <;> simp_all <;> omega

-- ------------------------------------------------------------------ input-value checking

section values
open AGV.Model.CostValue AGV.Lemmas.CostValue

/-- `is_valid_input_value` is linear in the value: for EVERY schema (whose input objects declare
    each field name once — the registry keeps them in a map), type and value, the number of calls
    is at most `c * size(value)` with `c = 1 + max(layers of the type, layers of any input type the
    schema mentions)` (layers = list / non-null wrappers; `[[Int!]]!` has 4): every node of the value
    is looked at once per layer of the type it is checked against. -/
theorem c11_value_checks_linear (S : VSchema) (hS : InputsNodup S) (t : TypeRef) (v : GValue) :
    valueChecks S t v ≤ (1 + max (wraps t) (schemaWraps S)) * gsize v ∧
      valueChecks S t v ≤ valueBound (schemaWraps S) (wraps t) v := by
  have h := vc_le_bound S hS (max (wraps t) (schemaWraps S))
    (Nat.le_trans (inputsWraps_le S) (Nat.le_max_right _ _)) v t (Nat.le_max_left _ _)
  exact ⟨h, h⟩

/-- a schema with a recursive input object (list field, required field, enum) for the examples -/
def exS : VSchema :=
  { base := { types := [{ name := "Int", kind := .scalar }, { name := "Color", kind := .enum, values := ["RED", "GREEN"] },
                        { name := "Filter", kind := .input }, { name := "Query", kind := .object }],
              query := "Query" },
    dirs := [],
    inputs := [{ name := "Filter", oneof := false,
                 fields := [{ name := "and", ty := .list (.nonNull (.named "Filter")), default := none },
                            { name := "eq", ty := .nonNull (.named "Int"), default := none },
                            { name := "c", ty := .named "Color", default := none }] }] }

/-- the hypothesis is satisfiable, and the count is what the real control flow gives:
    `{and: [{eq: 1}, {eq: "x", c: RED}, {eq: 3}], eq: 2}` against `Filter!` — 2 calls for the outer
    object (`Filter!`, `Filter`), 1 for the list, 2 + 2 for `{eq: 1}`, 2 + 2 for the invalid second
    element (its `c` is never reached), nothing for the third element nor for the outer `eq` -/
example : InputsNodup exS ∧
    vc {} exS (.obj [("and", .list [.obj [("eq", .int 1)], .obj [("eq", .str "x"), ("c", .enum "RED")], .obj [("eq", .int 3)]]),
                     ("eq", .int 2)]) (.nonNull (.named "Filter")) = (11, false) := by
  refine ⟨?_, by decide⟩
  intro i hi
  simp only [exS, List.mem_singleton] at hi
  subst hi
  decide

/-- … hence the value checks of EVERY request (all argument values with the request's variables
    substituted, all variable defaults, all walks of the mode) are at most
    `passes * (1 + L) * (value nodes of the request)`, `L` = the most layers of any input type of
    the schema or variable type of the document: polynomial (at most quadratic) in the request. -/
theorem c11_value_checks_doc (S : VSchema) (hS : InputsNodup S) (strict : Bool) (r : Req) (d : Doc) :
    valueTotal {} S strict r d ≤ passes strict * valueBoundDoc S r.vars d := by
  have h := valueTotal_le S hS strict r d
  have hp : 1 ≤ passes strict := by unfold passes; split <;> omega
  calc valueTotal {} S strict r d ≤ 1 * valueBoundDoc S r.vars d := by omega
    _ ≤ passes strict * valueBoundDoc S r.vars d := Nat.mul_le_mul_right _ hp

/-- A variant that checks the first invalid element of a list twice (find its index, then check it
    again for the message — a seeded change, NOT the pinned tree) is exponential: on
    `[[…[null]…]]` (d levels, d + 1 value nodes) against `[[…[T!]…]]`, for every schema, type name
    and d, it makes at least `2^d` calls, where the real control flow makes `d + 1`. -/
theorem c11_value_recheck_exponential (S : VSchema) (n : String) (d : Nat) :
    gsize (nest d) = d + 1 ∧ wraps (lists d (.nonNull (.named n))) = d + 1 ∧
      valueChecks S (lists d (.nonNull (.named n))) (nest d) = d + 1 ∧
      2 ^ d ≤ valueChecksRecheck S (lists d (.nonNull (.named n))) (nest d) := by
  refine ⟨?_, ?_, ?_, (recheck_nest S n d).2⟩
  · induction d with
    | zero => simp [nest, gsize]
    | succ d ih => simp only [nest, gsize, gsizeList, ih]; omega
  · induction d with
    | zero => simp [lists, wraps]
    | succ d ih => simp only [lists, wraps, ih]; omega
  · simp only [valueChecks, real_nest S n d]

theorem pow_gt_quadratic (k : Nat) : (k + 8) * (k + 7) < 2 ^ (k + 6) ∧ 2 * (k + 8) ≤ 2 ^ (k + 6) := by
  induction k with
  | zero => decide
  | succ k ih =>
    have e : 2 ^ (k + 1 + 6) = 2 ^ (k + 6) + 2 ^ (k + 6) := by
      rw [show k + 1 + 6 = (k + 6) + 1 from by omega, Nat.pow_succ]; omega
    have e2 : (k + 1 + 8) * (k + 1 + 7) = (k + 8) * (k + 7) + 2 * (k + 8) := by
      simp only [Nat.add_mul, Nat.mul_add]; omega
    rw [e, e2]
    omega

/-- … which leaves the bound of `c11_value_checks_linear` from 6 levels on, in every schema with
    no deeper input type: the check reports it as a violation, not only as a lost correspondence. -/
theorem c11_value_recheck_exceeds_bound (S : VSchema) (n : String) (d : Nat) (h6 : 6 ≤ d)
    (hW : schemaWraps S ≤ d + 1) :
    valueBound (schemaWraps S) (wraps (lists d (.nonNull (.named n)))) (nest d)
      < valueChecksRecheck S (lists d (.nonNull (.named n))) (nest d) := by
  have h := c11_value_recheck_exponential S n d
  obtain ⟨k, rfl⟩ : ∃ k, d = k + 6 := ⟨d - 6, by omega⟩
  have hp := (pow_gt_quadratic k).1
  simp only [valueBound, h.1, h.2.1, Nat.max_eq_left hW]
  have e : (1 + (k + 6 + 1)) * (k + 6 + 1) = (k + 8) * (k + 7) := by
    rw [show 1 + (k + 6 + 1) = k + 8 from by omega, show k + 6 + 1 = k + 7 from by omega]
  rw [e]
  exact Nat.lt_of_lt_of_le hp h.2.2.2

end values

end AGV.Props.C11
