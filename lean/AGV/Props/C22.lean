/-
  C22 — look-ahead and selection views list every sub-field that will be resolved.
  Property theorems only (lemmas: AGV/Lemmas/Lookahead.lean).

  OBLIGATION c22_complete
  OBLIGATION c22_complete_log
  OBLIGATION c22_complete_run
  OBLIGATION c22_pruned
  OBLIGATION c22_pruned_field
  OBLIGATION c22_lookahead_eq_selection
  OBLIGATION c22_lookahead_field_eq
  OBLIGATION c22_args_agree
  OBLIGATION c22_source_walk
  OBLIGATION c22_skip_default_witness
  OBLIGATION c22_overlisting_example
-/
import AGV.Lemmas.Lookahead
import AGV.Gen.ViewWalk

namespace AGV.Props.C22
open AGV.Core AGV.Model.Lookahead AGV.Spec.Lookahead AGV.Lemmas.Lookahead
open AGV.Model.ExecStatic (Defects resolveContainer prune skipVars)
open AGV.Spec.Exec (FieldOcc excluded coerceVars)

/-- COMPLETENESS, one level.  Whatever the runtime object type `rt` of the value a resolver
    returns (and whatever static type `st` it is resolved through), every field future the
    executor creates for the resolver's sub-selection `sels` — response key, field name,
    argument list, own sub-selection, source position — is one of the fields the selection view
    hands out, in the same order and multiplicity, and the look-ahead for its name exists and
    contains it.  No hypothesis on schema, document or fuel. -/
theorem c22_complete (c : Model.ExecStatic.Ctx) (rt st : String) (fuel : Nat) (sels : List Sel) :
    ((Model.ExecStatic.collect c rt fuel st sels).map occCore).Sublist ((selFields c.d fuel sels).map nodeCore) ∧
    ∀ occ ∈ Model.ExecStatic.collect c rt fuel st sels,
      ∃ n ∈ selFields c.d fuel sels,
        (n.key = occ.key ∧ n.name = occ.name ∧ n.args = occ.args ∧ n.sels = occ.sels ∧ n.pos = occ.pos) ∧
        n ∈ Model.Lookahead.filter c.d occ.name fuel sels ∧
        laExists (Model.Lookahead.filter c.d occ.name fuel sels) = true := by
  refine ⟨collect_sublist c rt fuel st sels, ?_⟩
  intro occ hocc
  obtain ⟨n, hn, h⟩ := collect_listed c rt fuel st sels occ hocc
  have hmem : n ∈ Model.Lookahead.filter c.d occ.name fuel sels := by
    rw [filter_eq]; simp [hn, h.2.1]
  refine ⟨n, hn, h, hmem, ?_⟩
  cases hl : Model.Lookahead.filter c.d occ.name fuel sels with
  | nil => rw [hl] at hmem; simp at hmem
  | cons x xs => simp [laExists]

/-- COMPLETENESS, all levels.  Every resolver invocation the executor model logs while executing
    the sub-selection `sels` of a field (on any object, at any depth, under any defect toggles of
    the executor) is a field that the views reach from `sels`: same field name, same response key. -/
theorem c22_complete_log (c : Model.ExecStatic.Ctx) (fuel : Nat) (st rt : String) (id : Nat) (sels : List Sel)
    (path : List PathSeg) (inv : Inv) (h : inv ∈ (resolveContainer c fuel st rt id sels path).log) :
    ∃ n ∈ deep c.d fuel sels, n.name = inv.field ∧ n.key = inv.key :=
  log_covered c fuel st rt id sels path inv h

/-- … in particular for a whole request: everything `ExecStatic.run` logs is reachable through the
    views over the document that `prepare_request` leaves (pruned fragments, pruned operation). -/
theorem c22_complete_run (D : Defects) (S : Schema) (d : Doc) (opName : Option String) (raw : List (String × GValue))
    (w : World) (fuel : Nat) (op : OpDef) (hop : AGV.Spec.Exec.selectOp d opName = some op) (inv : Inv)
    (h : inv ∈ (Model.ExecStatic.run D S d opName raw w fuel).log) :
    ∃ n ∈ deep { ops := d.ops, frags := (prunedDoc D d op raw fuel).frags } fuel
        (prune (skipVars D op.vars raw) fuel op.sels),
      n.name = inv.field ∧ n.key = inv.key := by
  unfold Model.ExecStatic.run at h
  rw [hop] at h
  exact log_covered _ fuel _ _ 0 _ [] inv h

/-- PRUNING.  With the repaired `remove_skipped_selection` (variable defaults applied: the
    variables it consults are the coerced ones), the selection view of ANY selection set of the
    pruned document is, field by field (alias, name, arguments, position), a sub-list of what the
    specification leaves visible — nothing that @skip/@include exclude under the specification's
    evaluation is listed, at any nesting of inline fragments and fragment spreads. -/
theorem c22_pruned (d : Doc) (op : OpDef) (raw : List (String × GValue)) (fuel : Nat) (k m : Nat) (sels : List Sel)
    (hk : k ≤ m) (hk' : k ≤ fuel + 1) :
    let vars := coerceVars op.vars raw
    ((selFields (prunedDoc Defects.none d op raw fuel) k (prune vars m sels)).map shownCore).Sublist
      ((visible vars d k sels).map shownCore) := by
  intro vars
  apply pruned_sublist d (prunedDoc Defects.none d op raw fuel) vars fuel _ k m sels hk hk'
  intro n
  simp only [prunedDoc, skipVars, Defects.none, Doc.frag?, List.find?_map]
  rfl

/-- PRUNING, pointwise: a field (or fragment) that the specification excludes contributes nothing
    to either view of the enclosing field. -/
theorem c22_pruned_field (d' : Doc) (vars : List (String × GValue)) (k m : Nat) (s : Sel) (rest : List Sel)
    (hex : excluded vars (dirsOf s) = true) (name : String) :
    selFields d' k (prune vars (m + 1) (s :: rest)) = selFields d' k (prune vars (m + 1) rest) ∧
    Model.Lookahead.filter d' name k (prune vars (m + 1) (s :: rest)) =
      Model.Lookahead.filter d' name k (prune vars (m + 1) rest) := by
  have hs : Model.ExecStatic.isSkipped vars (Model.ExecStatic.selDirs s) = true := by
    have hd : dirsOf s = Model.ExecStatic.selDirs s := by cases s <;> rfl
    rw [← hd]; exact excluded_isSkipped vars _ hex
  have hp : prune vars (m + 1) (s :: rest) = prune vars (m + 1) rest := by
    simp [prune, hs]
  rw [hp]; exact ⟨rfl, rfl⟩

/-- THE TWO VIEWS AGREE.  `Lookahead::field(name)` on a field is exactly the selection view
    restricted to that name (aliases ignored), same order; `exists` says whether it is non-empty. -/
theorem c22_lookahead_eq_selection (d : Doc) (fuel : Nat) (node : Node) (name : String) :
    laField d fuel [node] name = (selFields d fuel node.sels).filter (fun n => n.name = name) ∧
    (laExists (laField d fuel [node] name) = true ↔ ∃ n ∈ selFields d fuel node.sels, n.name = name) := by
  have h : laField d fuel [node] name = (selFields d fuel node.sels).filter (fun n => n.name = name) := by
    simp [laField, filter_eq]
  refine ⟨h, ?_⟩
  rw [h, laExists]
  constructor
  · intro hne
    cases hl : (selFields d fuel node.sels).filter (fun n => n.name = name) with
    | nil => rw [hl] at hne; simp at hne
    | cons x xs =>
      have hx : x ∈ (selFields d fuel node.sels).filter (fun n => n.name = name) := by rw [hl]; simp
      rw [List.mem_filter] at hx
      exact ⟨x, hx.1, by simpa using hx.2⟩
  · rintro ⟨n, hn, hname⟩
    have hx : n ∈ (selFields d fuel node.sels).filter (fun n => n.name = name) := by
      rw [List.mem_filter]; exact ⟨hn, by simpa using hname⟩
    cases hl : (selFields d fuel node.sels).filter (fun n => n.name = name) with
    | nil => rw [hl] at hx; simp at hx
    | cons x xs => simp

/-- … and a chained `.field(a).field(b)` (a look-ahead covering several fields, e.g. the same
    field selected twice) is the concatenation of the restricted selection views of those fields. -/
theorem c22_lookahead_field_eq (d : Doc) (fuel : Nat) (fields : List Node) (name : String) :
    laField d fuel fields name =
      (fields.map (fun f => (selFields d fuel f.sels).filter (fun n => n.name = name))).flatten := by
  simp [laField, filter_eq]

/-- RESOLVED ARGUMENTS.  For a field whose argument names are distinct, the value the resolver
    function receives for its parameter `a` (`get_param_value`) is the value `arguments()` lists
    for `a`; when `a` is not listed, the argument was either not written (declared default) or
    written with a variable that has no value (nothing). -/
theorem c22_args_agree (vars : List (String × GValue)) (dflt : Option GValue) (args : List (String × DValue))
    (a : String) (hnd : (args.map (·.1)).Nodup) :
    paramValue vars dflt args a =
      match (resolvedArgs vars args).find? (·.1 = a) with
      | some p => some p.2
      | none => if args.any (·.1 = a) then none else dflt := by
  induction args with
  | nil => simp [paramValue, resolvedArgs]
  | cons p ps ih =>
    have hnd' : (ps.map (·.1)).Nodup := (List.nodup_cons.mp (by simpa using hnd)).2
    have hnot : p.1 ∉ ps.map (·.1) := (List.nodup_cons.mp (by simpa using hnd)).1
    have ih' := ih hnd'
    by_cases hp : p.1 = a
    · -- the argument is `p`; no later argument has the same name
      have hnone : (resolvedArgs vars ps).find? (·.1 = a) = none := by
        rw [List.find?_eq_none]
        intro q hq
        simp only [resolvedArgs, List.mem_filterMap] at hq
        obtain ⟨r, hr, hq⟩ := hq
        cases hs : subst vars r.2 with
        | none => simp [hs] at hq
        | some v =>
          simp [hs] at hq
          subst hq
          simp only [decide_eq_true_eq]
          intro hra
          exact hnot (List.mem_map.mpr ⟨r, hr, by rw [hra, hp]⟩)
      cases hs : subst vars p.2 with
      | none =>
        have : resolvedArgs vars (p :: ps) = resolvedArgs vars ps := by simp [resolvedArgs, hs]
        rw [this, hnone]
        simp [paramValue, hp, hs]
      | some v =>
        have : resolvedArgs vars (p :: ps) = (p.1, v) :: resolvedArgs vars ps := by simp [resolvedArgs, hs]
        rw [this]
        simp [paramValue, hp, hs]
    · have h1 : paramValue vars dflt (p :: ps) a = paramValue vars dflt ps a := by
        simp [paramValue, hp]
      have h2 : (resolvedArgs vars (p :: ps)).find? (·.1 = a) = (resolvedArgs vars ps).find? (·.1 = a) := by
        cases hs : subst vars p.2 with
        | none => simp [resolvedArgs, hs]
        | some v => simp [resolvedArgs, hs, hp]
      have hd : decide (p.1 = a) = false := by simp [hp]
      rw [h1, h2, ih', List.any_cons, hd, Bool.false_or]

/-- the hypothesis of `c22_args_agree` on a real argument list: `pick(x: $i, xs: [1, $j], any: {k: $j})`
    with `i = 2` and `j` without a value — `x` is listed as 2, the list keeps a null slot, the object
    drops the entry -/
example :
    (([("x", DValue.var "i"), ("xs", .list [.int 1, .var "j"]), ("any", .obj [("k", .var "j")])] :
        List (String × DValue)).map (·.1)).Nodup ∧
    resolvedArgs [("i", .int 2)] [("x", .var "i"), ("xs", .list [.int 1, .var "j"]), ("any", .obj [("k", .var "j")]), ("n", .var "j")] =
      [("x", .int 2), ("xs", .list [.int 1, .null]), ("any", .obj [])] := by
  constructor
  · decide
  · rfl

/-- SOURCE TIE (table extracted from src/look_ahead.rs, src/context.rs, src/schema.rs on every run).
    Both walks of the real code have exactly the three arms the model has — a field is yielded,
    an inline fragment and a (found) fragment spread are descended into — none of them looks at a
    type condition, and pruning happens on all fragments and the operation before the environment
    the views read from is built.  A change of any arm flips an entry of the generated table and
    this obligation fails. -/
theorem c22_source_walk :
    (∀ arms ∈ [AGV.Gen.ViewWalk.filterArms, AGV.Gen.ViewWalk.iterArms],
      arms.length = 3 ∧
      (∀ k ∈ ["Field", "InlineFragment", "FragmentSpread"], k ∈ arms.map (·.1)) ∧
      (∀ a ∈ arms, a.2.2 = false ∧ (a.2.1 = true ↔ a.1 ≠ "Field"))) ∧
    AGV.Gen.ViewWalk.prunedBeforeEnv = true := by
  decide

-- ------------------------------------------------------------------ witnesses

def p (c : Nat) : Pos := ⟨1, c⟩
def selA : Sel := .field none "a" [] [{ name := "skip", args := [("if", .var "s")] }] [] (p 40)
def selB : Sel := .field none "b" [] [] [] (p 60)
def selObj : Sel := .field none "obj" [] [] [selA, selB] (p 30)
def varS : VarDef := { name := "s", ty := .named "Boolean", default := some (.bool true) }
def opW : OpDef := { ty := .query, name := none, vars := [varS], dirs := [], sels := [selObj] }
def docW : Doc := { ops := [opW], frags := [] }

def viewNames (D : Defects) : Option (List String) :=
  (findNodeDoc (prunedDoc D docW opW [] 10) 10 (p 30)).map
    (fun n => (selFields (prunedDoc D docW opW [] 10) 10 n.sels).map (·.name))

/-- `query($s: Boolean = true) { obj { a @skip(if: $s) b } }`, `s` not supplied: the pinned
    `remove_skipped_selection` ignored the default, so the resolver of `obj` saw `a` in its views
    although the specification excludes it; repaired, it sees only `b`. -/
theorem c22_skip_default_witness :
    viewNames { skipIgnoresVarDefault := true } = some ["a", "b"] ∧
    viewNames Defects.none = some ["b"] ∧
    (visible (coerceVars opW.vars []) docW 10 [selA, selB]).map (·.name) = ["b"] := by
  refine ⟨?_, ?_, ?_⟩ <;> rfl

def S1 : Schema := { query := "Query", types := [
  { name := "Query", kind := .object, fields := [{ name := "i", ty := .named "I", args := [] }] },
  { name := "I", kind := .interface, fields := [{ name := "id", ty := .named "Int", args := [] }] },
  { name := "A", kind := .object, implements := ["I"], fields := [{ name := "id", ty := .named "Int", args := [] }, { name := "x", ty := .named "Int", args := [] }] },
  { name := "B", kind := .object, implements := ["I"], fields := [{ name := "id", ty := .named "Int", args := [] }, { name := "y", ty := .named "Int", args := [] }] },
  { name := "Int", kind := .scalar }] }
def selsI : List Sel := [.inline (some "A") [] [.field none "x" [] [] [] (p 20)] (p 10), .inline (some "B") [] [.field none "y" [] [] [] (p 40)] (p 30)]
def cI : Model.ExecStatic.Ctx := { D := Defects.none, S := S1, d := { ops := [], frags := [] }, vars := [], w := { entries := [] } }

/-- the inclusion of `c22_complete` is proper: `i { ... on A { x } ... on B { y } }` — the views
    list both `x` and `y` (type conditions are not evaluated before the object exists), the
    executor resolves only the one that fits the runtime type. -/
theorem c22_overlisting_example :
    (selFields cI.d 5 selsI).map (·.name) = ["x", "y"] ∧
    (Model.ExecStatic.collect cI "A" 5 "I" selsI).map (·.name) = ["x"] ∧
    (Model.ExecStatic.collect cI "B" 5 "I" selsI).map (·.name) = ["y"] := by
  refine ⟨?_, ?_, ?_⟩ <;> rfl

end AGV.Props.C22
