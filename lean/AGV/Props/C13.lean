/-
  C13 — the parser accepts exactly GraphQL documents and builds the tree they denote.
  Property theorems only (helper lemmas live in AGV/Lemmas/ParseC13.lean).

  The whole-language statement `c13_full` (model parser = specification parser on every text) is
  proved; the three-way differential testing (real parser, PEG model + tree builder, independent
  specification parser) ties the model to the code.  The rule-by-rule results it is assembled from
  are obligations of their own.

  OBLIGATION c13_type
  OBLIGATION c13_type_parse_type
  OBLIGATION c13_block_lines
  OBLIGATION c13_grammar_is_source
  OBLIGATION c13_block_violated_by_blockEscapeKept
  OBLIGATION c13_block_violated_by_shortBlankLineKept
  OBLIGATION c13_number_violated_by_intAsFloat
  OBLIGATION c13_number_violated_by_floatDoubleRounding
  OBLIGATION c13_full_violated_by_numberDigitFollow
  OBLIGATION c13_block
  OBLIGATION c13_unique
  OBLIGATION c13_depth_accept
  OBLIGATION c13_depth_within
  OBLIGATION c13_depth
  OBLIGATION c13_depth_unrestricted_false
  OBLIGATION c13_depth_hyp_of_parse
  OBLIGATION c13_depth_hyp_of_parse_pinned
  OBLIGATION c13_number
  OBLIGATION c13_number_any_fuel
  OBLIGATION c13_number_pinned
  OBLIGATION c13_number_pinned_vs_spec
  OBLIGATION c13_full_violated_by_emptyStringBeforeQuote
  OBLIGATION c13_tokens
  OBLIGATION c13_ignored
  OBLIGATION c13_name
  OBLIGATION c13_punctuator
  OBLIGATION c13_spread
  OBLIGATION c13_keyword
  OBLIGATION c13_keyword_compound
  OBLIGATION c13_number_token
  OBLIGATION c13_string_token
  OBLIGATION c13_value_partial
  OBLIGATION c13_arguments_partial
  OBLIGATION c13_value_complete
  OBLIGATION c13_directives_partial
  OBLIGATION c13_directives_spec
  OBLIGATION c13_type_partial
  OBLIGATION c13_variable_definitions_partial
  OBLIGATION c13_selection_set_partial
  OBLIGATION c13_definition_partial
  OBLIGATION c13_document_partial
  OBLIGATION c13_full
-/
import AGV.Lemmas.ParseC13
import AGV.Lemmas.ParseC13Unique
import AGV.Lemmas.ParseC13Depth
import AGV.Lemmas.ParseC13Block
import AGV.Lemmas.ParseC13Number
import AGV.Lemmas.ParseC13PairsWf
import AGV.Lemmas.PegC13TokSpec
import AGV.Lemmas.PegC13SpecFin
import AGV.Lemmas.PegC13Full

namespace AGV.Props.C13
open AGV.Model.BuildAst AGV.Core.PAst AGV.Lemmas.ParseC13

/-- `Type::new` reads back every printed type reference: for every type whose names are names
    (non-empty, not starting with `[`, without `!`), at any sufficient fuel. -/
theorem c13_type (t : PType) (h : WfType t) (f : Nat) (hf : typeDepth t < f) :
    typeNew f (printType t) = some t :=
  typeNew_print t h f hf

/-- … in particular with the fuel `parse_type` of the model uses (text length + 1). -/
theorem c13_type_parse_type (t : PType) (h : WfType t) :
    typeNew ((printType t).length + 1) (printType t) = some t :=
  typeNew_print t h _ (typeDepth_lt_length t)

example : WfType (.listOf (.named ['I', 'n', 't'] false) true) := by
  refine ⟨⟨'I', ['n', 't'], rfl, by decide⟩, ?_⟩
  intro c hc; simp at hc; rcases hc with rfl | rfl | rfl <;> decide

/-- `block_string_value` splits the raw text into the lines the specification's
    `BlockStringValue()` works on (`\r\n`, `\r`, `\n` each end a line), for every text. -/
theorem c13_block_lines (raw : List Char) : splitLines raw = AGV.Spec.Lex.lines [] raw :=
  splitLines_eq_lines raw

/-- with every toggle on, the grammar interpreted by the model is the generated translation of
    `graphql.pest`, unpatched -/
theorem c13_grammar_is_source : grammarFor Defects.pinned = AGV.Gen.Grammar.grammar := rfl

-- ------------------------------------------------------------------ the specification side of components

/-- what the specification says a block string with raw content `raw` denotes -/
def specBlock (raw : List Char) : Option (List Char) :=
  match AGV.Spec.Lex.lexBlock (raw ++ ['"', '"', '"']) with
  | some (v, []) => some (AGV.Spec.Lex.blockStringValue v)
  | _ => none

/-- is this the float with the given bit pattern? -/
def isFloat (r : Except PErr PValue) (bits : Nat) : Bool :=
  match r with
  | .ok (.float b) => b == bits
  | _ => false

def isInt (r : Except PErr PValue) (i : Int) : Bool :=
  match r with
  | .ok (.int j) => i == j
  | _ => false

-- ------------------------------------------------------------------ witnesses of the defect toggles

/-- `\"""` is kept verbatim: `x\"""y` -/
theorem c13_block_violated_by_blockEscapeKept :
    ∃ raw, some (blockStringValue { blockEscapeKept := true } raw) ≠ specBlock raw ∧
           some (blockStringValue {} raw) = specBlock raw :=
  ⟨['x', '\\', '"', '"', '"', 'y'], by decide, by decide⟩

/-- a whitespace-only line shorter than the common indent keeps its blanks -/
theorem c13_block_violated_by_shortBlankLineKept :
    ∃ raw, some (blockStringValue { shortBlankLineKept := true } raw) ≠ specBlock raw ∧
           some (blockStringValue {} raw) = specBlock raw :=
  ⟨['\n', ' ', ' ', ' ', ' ', 'a', '\n', ' ', ' ', '\n', ' ', ' ', ' ', ' ', 'b', '\n'], by decide, by decide⟩

/-- `-0` is an IntValue denoting 0; the pinned conversion returns the float -0.0 -/
theorem c13_number_violated_by_intAsFloat :
    isFloat (parseNumber { intAsFloat := true } ['-', '0']) 0x8000000000000000 = true ∧
    isInt (parseNumber {} ['-', '0']) 0 = true := by
  constructor <;> decide

/-- `9007199254740993.0`: nearest double is 9007199254740992, serde_json's two roundings give …994 -/
theorem c13_number_violated_by_floatDoubleRounding :
    isFloat (parseNumber { floatDoubleRounding := true } "9007199254740993.0".toList) 4845873199050653697 = true ∧
    isFloat (parseNumber {} "9007199254740993.0".toList) 4845873199050653696 = true := by
  constructor <;> decide

/-- the specification rejects `{a(b:[01])}` (a number followed by a digit is no token) -/
theorem c13_full_violated_by_numberDigitFollow :
    AGV.Spec.Lex.lexNumber ['0', '1', ']'] = none ∧
    (match AGV.Model.Peg.eval AGV.Gen.Grammar.grammar 40 {} (.ident "number") 0 ['0', '1', ']'] with
     | .ok p _ _ => p == 1
     | _ => false) = true := by
  constructor <;> decide

/-- `{a(b:["""" ""])}`: four quotes open a block string that is never closed, so the text is no
    token sequence; the `string` rule without the guard `!"\"\"\""` before its plain alternative (the
    tree before cf2b035, toggle on) falls back to that alternative and reads three empty strings; the
    guarded rule (the generated grammar now, toggle off) rejects. -/
theorem c13_full_violated_by_emptyStringBeforeQuote :
    AGV.Spec.Parse.parseDocument {} "{a(b:[\"\"\"\" \"\"])}".toList = none ∧
    (match parseQuery { emptyStringBeforeQuote := true } "{a(b:[\"\"\"\" \"\"])}".toList with
     | .ok _ => true | .error _ => false) = true ∧
    (match parseQuery {} "{a(b:[\"\"\"\" \"\"])}".toList with
     | .ok _ => true | .error _ => false) = false := by
  refine ⟨?_, ?_, ?_⟩ <;> decide

-- ------------------------------------------------------------------ components

/-- `block_string_value` without its two defects is `BlockStringValue()` on every raw text that
    is the content of a block string (the specification's lexer reads `raw"""` as one block string
    ending at the final quotes): `\"""` unescaping, line split, common indent, removal of leading
    and trailing blank lines. -/
theorem c13_block :
    ∀ raw : List Char, specBlock raw ≠ none → some (blockStringValue {} raw) = specBlock raw := by
  intro raw h
  have e : blockStringValue {} raw = blockStringValue { blockEscapeKept := true } (unescapeTriple raw) := rfl
  unfold specBlock at h ⊢
  split
  · rename_i v hv
    rw [e, blockPipeline_eq, lexBlock_unescape raw v hv]
  · rename_i hn
    split at h
    · rename_i v hv; exact absurd hv (hn v)
    · exact absurd rfl h

example : specBlock "\n    a\\\"\"\"\n  \n      b\n  ".toList ≠ none := by decide

/-- The repaired `number` rule (`!(name_start | ASCII_DIGIT | ".")`), run by the pest interpreter
    over the generated grammar with every repair applied, accepts exactly the specification's
    number tokens (IntValue / FloatValue, longest match, look-ahead restriction) and leaves the
    same rest — for every input, at the fuel `parse_query` uses. -/
theorem c13_number :
    ∀ s : List Char,
    (match AGV.Model.Peg.eval (grammarFor Defects.none) (AGV.Model.Peg.fuelFor s) {} (.ident "number") 0 s with
     | .ok _ rest _ => some rest
     | _ => none) =
    (AGV.Spec.Lex.lexNumber s).map (·.2) := by
  intro s
  rw [← AGV.Lemmas.PegC13.number_patched s (AGV.Model.Peg.fuelFor s)
    (by unfold AGV.Model.Peg.fuelFor; omega) {} 0]
  cases AGV.Model.Peg.eval (grammarFor Defects.none) (AGV.Model.Peg.fuelFor s) {} (.ident "number") 0 s <;> rfl

/-- … and at any fuel ≥ length + 20, in any context, at any position (never out of fuel). -/
theorem c13_number_any_fuel (s : List Char) (f : Nat) (hf : s.length + 20 ≤ f)
    (c : AGV.Model.Peg.Ctx) (p : Nat) :
    AGV.Lemmas.PegC13.resRest (AGV.Model.Peg.eval (grammarFor Defects.none) f c (.ident "number") p s) =
      (AGV.Spec.Lex.lexNumber s).map (·.2) :=
  AGV.Lemmas.PegC13.number_patched s f hf c p

/-- The pinned `number` rule (`!name_start` only), exactly: it matches the longest
    `-? (0 | [1-9][0-9]*) (. [0-9]+)? ([eE] [+-]? [0-9]+)?` prefix (`tokenSpec`, PEG-free) and
    accepts iff the rest does not begin with a letter or `_` (`numberSpec nsSpec`). -/
theorem c13_number_pinned (s : List Char) (f : Nat) (hf : s.length + 20 ≤ f)
    (c : AGV.Model.Peg.Ctx) (p : Nat) :
    AGV.Lemmas.PegC13.resRest (AGV.Model.Peg.eval AGV.Gen.Grammar.grammar f c (.ident "number") p s) =
      AGV.Lemmas.PegC13.numberSpec AGV.Lemmas.PegC13.nsSpec s :=
  AGV.Lemmas.PegC13.number_pinned s f hf c p

/-- The specification's number tokens are exactly the pinned rule's matches whose rest does not
    begin with a Digit or `.` — so the pinned grammar accepts every number token, and the extra
    inputs it accepts are precisely `01`, `1.`, `1.5.2`, … (a token followed by a Digit or `.`). -/
theorem c13_number_pinned_vs_spec (s : List Char) :
    (AGV.Spec.Lex.lexNumber s).map (·.2) =
      (AGV.Lemmas.PegC13.numberSpec AGV.Lemmas.PegC13.nsSpec s).filter AGV.Lemmas.PegC13.noDigitDot := by
  rw [← AGV.Lemmas.PegC13.numberSpec_eq_lex, AGV.Lemmas.PegC13.patched_eq_pinned_filter]

example : AGV.Lemmas.PegC13.numberSpec AGV.Lemmas.PegC13.nsSpec "-12.5e+3,x".toList = some ",x".toList := by decide
example : AGV.Lemmas.PegC13.numberSpec AGV.Lemmas.PegC13.nsSpec "01]".toList = some "1]".toList := by decide

/-- The uniqueness loop of `parse_query` decides exactly the document-level rules (operation
    names unique, a lone anonymous operation, fragment names unique, at least one operation) and
    builds the document the specification builds, for every list of definitions. -/
theorem c13_unique :
    ∀ defs : List PDef,
    (match collectDefs defs with | .ok d => some d | .error _ => none) =
    (if AGV.Spec.Parse.validDefs {} defs then AGV.Spec.Parse.mkDoc defs else none) := by
  intro defs
  rw [← collectDefs_spec defs]
  cases collectDefs defs <;> rfl

/-- Accepted ⇒ at most `lim` selection sets nest below the top-level one: for every pair tree. -/
theorem c13_depth_accept (env : Env) (f lim : Nat) (p : AGV.Model.Peg.Pair) (ss : List PSel) :
    buildSelSet env f lim p = .ok ss → AGV.Spec.Parse.selDepth f ss ≤ lim :=
  buildSelSet_depth_le env f lim p ss

/-- … in particular a document accepted by `parse_query` nests at most `MAX_RECURSION_DEPTH`
    (read from executable.rs) selection sets below each top-level one. -/
theorem c13_depth_accept_max (env : Env) (f : Nat) (p : AGV.Model.Peg.Pair) (ss : List PSel) :
    buildSelSet env f maxDepth p = .ok ss →
    AGV.Spec.Parse.selDepth f ss ≤ AGV.Gen.ParserLimits.maxRecursionDepth :=
  buildSelSet_depth_le env f maxDepth p ss

/-- A tree within the limit is never rejected for depth: on pair trees in which every
    `selection_set` pair has an inner pair (what `selection_set = { "{" ~ selection+ ~ "}" }`
    emits), a result obtained under any limit `lim'` whose nesting is ≤ `lim` is also the result
    under `lim`. -/
theorem c13_depth_within (env : Env) (f lim lim' : Nat) (p : AGV.Model.Peg.Pair) (ss : List PSel)
    (wf : SetsNonEmpty p) :
    buildSelSet env f lim' p = .ok ss → AGV.Spec.Parse.selDepth f ss ≤ lim →
    buildSelSet env f lim p = .ok ss :=
  buildSelSet_within_limit env f lim lim' p ss wf

/-- the pair tree of `{a{b}}` satisfies the hypothesis -/
example : SetsNonEmpty
    (.mk "selection_set" 0 6 [.mk "selection" 1 5 [.mk "field" 1 5 [.mk "name" 1 2 [],
      .mk "selection_set" 2 5 [.mk "selection" 3 4 [.mk "field" 3 4 [.mk "name" 3 4 []]]]]]]) := by
  repeat (first | (refine .mk _ _ _ _ (by simp) ?_; intro q hq; simp at hq; try subst hq) | (rcases hq with rfl | rfl))

/-- The depth limit, both directions (the statement as first written, with the hypothesis on the
    pair tree the second half needs — see `c13_depth_unrestricted_false`). -/
theorem c13_depth :
    ∀ (env : Env) (f lim : Nat) (p : AGV.Model.Peg.Pair) (ss : List PSel),
    (buildSelSet env f lim p = .ok ss → AGV.Spec.Parse.selDepth f ss ≤ lim) ∧
    (SetsNonEmpty p → ∀ lim', buildSelSet env f lim' p = .ok ss → AGV.Spec.Parse.selDepth f ss ≤ lim →
      buildSelSet env f lim p = .ok ss) :=
  fun env f lim p ss =>
    ⟨buildSelSet_depth_le env f lim p ss, fun wf lim' => buildSelSet_within_limit env f lim lim' p ss wf⟩

/-- The hypothesis of `c13_depth_within` holds for every pair the interpreter emits from the
    repaired grammar (any expression, context, fuel, input), hence — `SetsNonEmpty` being
    hereditary (`SetsNonEmpty.inner`) — for every pair the tree builder descends into. -/
theorem c13_depth_hyp_of_parse (f : Nat) (c : AGV.Model.Peg.Ctx) (e : AGV.Model.Peg.Expr) (p : Nat)
    (s : List Char) (p' : Nat) (s' : List Char) (ps : List AGV.Model.Peg.Pair)
    (h : AGV.Model.Peg.eval (grammarFor Defects.none) f c e p s = .ok p' s' ps) :
    ∀ q ∈ ps, SetsNonEmpty q :=
  pairs_wf_none f c e p s p' s' ps h

/-- … and from the pinned grammar. -/
theorem c13_depth_hyp_of_parse_pinned (f : Nat) (c : AGV.Model.Peg.Ctx) (e : AGV.Model.Peg.Expr) (p : Nat)
    (s : List Char) (p' : Nat) (s' : List Char) (ps : List AGV.Model.Peg.Pair)
    (h : AGV.Model.Peg.eval AGV.Gen.Grammar.grammar f c e p s = .ok p' s' ps) :
    ∀ q ∈ ps, SetsNonEmpty q :=
  pairs_wf_pinned f c e p s p' s' ps h

-- ------------------------------------------------------------------ token-level refinement (towards c13_full)

section Tokens
open AGV.Lemmas.PegX AGV.Model.Peg AGV.Spec.Lex

/-- The specification's lexer as a total stream: `toks s` lists the tokens of `s` and ends in the
    impossible token `bad` where no token can be read; `tokens s` is `toks s` when `bad` does not
    occur and fails otherwise; `toks` is computed token by token after skipping Ignored tokens. -/
theorem c13_tokens (s : List Char) :
    (bad ∉ toks s → tokens s = some (toks s)) ∧ (bad ∈ toks s → tokens s = none) ∧
    (skipI s = [] → toks s = []) ∧
    (∀ c t tok rest, skipI s = c :: t → lexToken (c :: t) = some (tok, rest) → toks s = tok :: toks rest) ∧
    (∀ c t, skipI s = c :: t → lexToken (c :: t) = none → toks s = [bad]) :=
  ⟨tokens_some s, tokens_none s, toks_nil, fun _ _ _ _ h1 h2 => toks_cons h1 h2, fun _ _ h1 h2 => toks_bad h1 h2⟩

/-- pest's implicit skipping (`WHITESPACE* ~ (COMMENT ~ WHITESPACE*)*`, run atomically, as between
    the elements of every sequence and repetition of a non-atomic rule) on ANY text: it consumes a
    prefix, emits nothing, stops exactly where the specification's Ignored tokens (UnicodeBOM,
    WhiteSpace, LineTerminator, Comma, Comment) end (`skipI`, the skipping loop of `lexAll`), and
    what it consumed is invisible to the specification's lexer. -/
theorem c13_ignored (c : Ctx) (hc : c.atom = .atomic) (p : Nat) (s : List Char) (f : Nat)
    (hf : 2 * s.length + 17 ≤ f) :
    eval (grammarFor Defects.none) f c skipExpr p s = .ok (p + (s.length - (skipI s).length)) (skipI s) [] ∧
      TokStart (skipI s) ∧ toks (skipI s) = toks s ∧ tokens (skipI s) = tokens s ∧
      ∃ pre, s = pre ++ skipI s :=
  skip_spec c hc p s f hf

example : skipI " ,\t#c\n\r\n x #d".toList = "x #d".toList := by decide

/-- The `name` rule on ANY text, in any context, at any position: it matches iff the
    specification's lexer reads a Name token there, consumes exactly that token, and emits one
    `name` pair spanning it (none inside atomic rules and lookaheads). -/
theorem c13_name (c : Ctx) (p : Nat) (s : List Char) (f : Nat) (hf : s.length + 8 ≤ f) :
    eval (grammarFor Defects.none) f c (.ident "name") p s =
      (match lexToken s with
       | some (.name n, rest) =>
         .ok (p + n.length) rest (if emits c then [Pair.mk "name" p (p + n.length) []] else [])
       | _ => .fail) :=
  name_spec c p s f hf

/-- A one-character literal that is a Punctuator (`! $ & ( ) : = @ [ ] { | }`), in any grammar and
    context: it matches iff the specification's next token is that Punctuator, leaving the same rest. -/
theorem c13_punctuator (g : Grammar) (c : Ctx) (x : Char) (hx : isPunct x = true) (p : Nat) (s : List Char)
    (f : Nat) (hf : 1 ≤ f) :
    eval g f c (.str [x]) p s =
      (match lexToken s with
       | some (.punct y, rest) => if y = x then .ok (p + 1) rest [] else .fail
       | _ => .fail) := by
  rw [punct_spec g c x hx p s f hf, punctTok]
  cases lexToken s with
  | none => rfl
  | some y =>
    obtain ⟨tok, rest⟩ := y
    cases tok with
    | punct y => by_cases e : y = x <;> simp [resOf, e]
    | _ => rfl

example : isPunct '{' = true := by decide

/-- `"..."` matches iff the next token is the spread Punctuator. -/
theorem c13_spread (g : Grammar) (c : Ctx) (p : Nat) (s : List Char) (f : Nat) (hf : 1 ≤ f) :
    eval g f c (.str ['.', '.', '.']) p s =
      (match lexToken s with
       | some (.spread, rest) => .ok (p + 3) rest []
       | _ => .fail) := by
  rw [spread_spec g c p s f hf, spreadTok]
  cases lexToken s with
  | none => rfl
  | some y => obtain ⟨tok, rest⟩ := y; cases tok <;> rfl

/-- A keyword literal of the repaired grammar (`&kw_x ~ "x"` for `query`, `mutation`,
    `subscription`, `fragment`, `on`, `true`, `false`, `null`) in a non-atomic rule, at the start of
    a token: it matches iff the specification's next token is the Name `x` (so `queryfoo` is not
    `query`), leaving the same rest. -/
theorem c13_keyword (x : List Char) (hx : x ∈ kwList) (c : Ctx) (hc : c.atom = .non) (p : Nat) (s : List Char)
    (hs : TokStart s) (f : Nat) (hf : 2 * s.length + 19 ≤ f) :
    eval (grammarFor Defects.none) f c (.seq (.pos (.ident (kwRuleName x))) (.str x)) p s =
      (match lexToken s with
       | some (.name n, rest) => if n = x then .ok (p + x.length) rest [] else .fail
       | _ => .fail) := by
  rw [keyword_spec x hx c hc p s hs f hf, kwTok]
  cases lexToken s with
  | none => rfl
  | some y =>
    obtain ⟨tok, rest⟩ := y
    cases tok with
    | name n => by_cases e : n = x <;> simp [resOf, e]
    | _ => rfl

example : "fragment".toList ∈ kwList ∧ TokStart "fragment F on T{a}".toList :=
  ⟨by decide, tokStart_cons (by decide) (by decide)⟩

/-- … and inside a compound-atomic rule (the `!(boolean | null)` guard of `enum_value`), anywhere. -/
theorem c13_keyword_compound (x : List Char) (hx : x ∈ kwList) (c : Ctx) (hc : c.atom ≠ .non) (p : Nat)
    (s : List Char) (f : Nat) (hf : 10 ≤ f) :
    eval (grammarFor Defects.none) f c (.seq (.pos (.ident (kwRuleName x))) (.str x)) p s =
      (match lexToken s with
       | some (.name n, rest) => if n = x then .ok (p + x.length) rest [] else .fail
       | _ => .fail) := by
  rw [keyword_spec_tight x hx c hc p s f hf, kwTok]
  cases lexToken s with
  | none => rfl
  | some y =>
    obtain ⟨tok, rest⟩ := y
    cases tok with
    | name n => by_cases e : n = x <;> simp [resOf, e]
    | _ => rfl

/-- The repaired `number` rule, exactly (positions and pairs included), on ANY text in any context:
    it matches iff the specification's next token is an IntValue or FloatValue, consumes exactly
    that token and emits one `number` pair spanning it. -/
theorem c13_number_token (c : Ctx) (p : Nat) (s : List Char) (f : Nat) (hf : s.length + 21 ≤ f) :
    eval (grammarFor Defects.none) f c (.ident "number") p s =
      (match lexToken s with
       | some (.int n d, rest) =>
         .ok (p + (s.length - rest.length)) rest
           (if emits c then [Pair.mk "number" p (p + (s.length - rest.length)) []] else [])
       | some (.float n i fr e x, rest) =>
         .ok (p + (s.length - rest.length)) rest
           (if emits c then [Pair.mk "number" p (p + (s.length - rest.length)) []] else [])
       | _ => .fail) := by
  rw [number_spec c p s f hf, numberSpecRes, numTok]
  cases lexToken s with
  | none => rfl
  | some y => obtain ⟨tok, rest⟩ := y; cases tok <;> rfl

/-- The repaired `string` rule (block strings and quoted strings) on ANY text, where pairs are
    emitted: it matches iff the specification's next token is a StringValue, leaves the same rest,
    emits `string[content]`, and the tree builder (`parse_value` on a `value` pair holding it)
    computes exactly the token's value — escapes decoded, `BlockStringValue()` applied; otherwise
    the rule fails.  `pre` is the text before the token (pairs carry absolute positions). -/
theorem c13_string_token (pre s : List Char) (c : Ctx) (hl : c.look = false) (hna : c.atom ≠ .atomic) (f : Nat)
    (hf : s.length + 22 ≤ f) :
    match lexToken s with
    | some (.str v, rest) =>
      ∃ q, eval (grammarFor Defects.none) f c (.ident "string") pre.length s =
          .ok (pre.length + (s.length - rest.length)) rest
            [Pair.mk "string" pre.length (pre.length + (s.length - rest.length)) [q]] ∧
        buildValue ⟨Defects.none, (pre ++ s).toArray⟩ 1
          (Pair.mk "value" pre.length (pre.length + (s.length - rest.length))
            [Pair.mk "string" pre.length (pre.length + (s.length - rest.length)) [q]]) = .ok (.str v)
    | _ => eval (grammarFor Defects.none) f c (.ident "string") pre.length s = .fail := by
  have h := string_spec pre s c hl hna f hf
  unfold strTok at h
  cases hl : lexToken s with
  | none => rw [hl] at h; exact h
  | some y =>
    obtain ⟨tok, rest⟩ := y
    rw [hl] at h
    cases tok <;> exact h

/-- The `value` (`const = false`) and `const_value` (`const = true`) productions — variables,
    numbers, strings, booleans, null, enum values, lists and objects of any nesting — on EVERY text
    `t` that begins a token, as part of any document `s₀` at offset `q`: the interpreter over the
    repaired grammar accepts exactly when the specification's `pValue` reads a `Value[Const]` from
    the token stream (`toks t`, total: a lexical error is the token `bad`), it leaves the text whose
    tokens are the specification's remaining tokens, emits one pair starting at `q`, and from that
    pair the tree builder (`parse_value`) computes the specification's value (object literals as
    the `IndexMap` they are stored in: `normV`), float literals included (correctly rounded
    double) — the last for values none of whose float literals denotes the infinite double
    (`finV`; the parser reports a number error for those); with fuel `24·length + 60`
    (`parse_query` provides `24·length + 400`).  Partial in one respect: the specification is taken
    without its finiteness check (`finiteFloats := false`): the specification rejects a value with
    an infinite float, the interpreter accepts it and the tree builder then fails. -/
theorem c13_value_partial (const : Bool) (s₀ : List Char) (q : Nat) (t : List Char)
    (hat : ∃ pre, s₀ = pre ++ t ∧ pre.length = q) (ht : TokStart t) (f : Nat) (hf : 24 * t.length + 60 ≤ f) :
    match AGV.Spec.Parse.pValue { finiteFloats := false } const ((toks t).length + 1) (toks t) with
    | some (v, ts') =>
      ∃ s' pr, eval (grammarFor Defects.none) f {} (.ident (if const then "const_value" else "value")) q t =
          .ok (q + (t.length - s'.length)) s' [pr] ∧
        toks s' = ts' ∧ s'.length < t.length ∧ pr.start = q ∧
        (finV v = true → ∀ bf, s₀.length - q < bf →
          buildValue ⟨Defects.none, s₀.toArray⟩ bf pr = .ok (normV v))
    | none => eval (grammarFor Defects.none) f {} (.ident (if const then "const_value" else "value")) q t = .fail := by
  have key : ∀ F : ValFam, IsFam F →
      match AGV.Lemmas.SpecVal.pV P' F.const (toks t) with
      | some (v, ts') =>
        ∃ s' pr, eval (grammarFor Defects.none) f {} (.ident F.vName) q t = .ok (q + (t.length - s'.length)) s' [pr] ∧
          toks s' = ts' ∧ s'.length < t.length ∧ pr.start = q ∧
          (finV v = true → ∀ bf, s₀.length - q < bf →
            buildValue ⟨Defects.none, s₀.toArray⟩ bf pr = .ok (normV v))
      | none => eval (grammarFor Defects.none) f {} (.ident F.vName) q t = .fail := by
    intro F hF
    obtain ⟨r, hr, hg⟩ := value_main F hF t.length t q (Nat.le_refl _) ht
    have hg' := hg s₀ hat
    cases hp : AGV.Lemmas.SpecVal.pV P' F.const (toks t) with
    | none => simp only []; rw [← hg'.fail hp]; exact hr f hf
    | some x =>
      obtain ⟨v, ts'⟩ := x
      obtain ⟨s', pr, e, h1, h2, -, h3, h4⟩ := hg'.ok hp
      simp only []
      refine ⟨s', pr, by rw [← e]; exact hr f hf, h1, h2, h3, fun hnf bf hbf => ?_⟩
      exact (h4 bf (by rw [h3]; exact hbf)).trans (expV_fin hnf)
  cases const with
  | false => exact key famV (Or.inl rfl)
  | true => exact key famC (Or.inr rfl)

/-- a non-trivial instance of the hypotheses: a nested constant value inside an argument list -/
example : (∃ pre, "{a(b:[1, {c: \"x\", d: [true null E]}])}".toList = pre ++ "[1, {c: \"x\", d: [true null E]}])}".toList ∧
    pre.length = 5) ∧ TokStart "[1, {c: \"x\", d: [true null E]}])}".toList :=
  ⟨⟨"{a(b:".toList, by decide, by decide⟩, tokStart_cons (by decide) (by decide)⟩

/-- what the specification reads as `Arguments[Const]` (not optional): `(` `Argument+` `)` -/
def specArguments (const : Bool) (ts : List AGV.Spec.Lex.Tok) :
    Option (List (AGV.Core.PAst.Name × PValue) × List AGV.Spec.Lex.Tok) :=
  match ts with
  | .punct '(' :: r => AGV.Spec.Parse.pArgList { finiteFloats := false } const (r.length + 1) r
  | _ => none

theorem specArguments_eq (const : Bool) (ts : List AGV.Spec.Lex.Tok) : specArguments const ts = pArgsV const ts := by
  unfold specArguments pArgsV
  split
  · simp [closeTok]; rfl
  · rename_i hne
    rw [closeTok_none (fun r e => hne r e)]

/-- The `arguments` / `const_arguments` productions (`"(" ~ argument+ ~ ")"`, each argument
    `name ":" value`) on EVERY text that begins a token: the interpreter accepts exactly when the
    specification's `pArgList` (as called by `pOptArgs` after `(`) reads an argument list, leaves
    the text with the specification's remaining tokens, and `parse_arguments` computes the
    specification's list of (name, value) from the emitted pair (for values without an infinite
    float literal, `finFs`; specification without its finiteness check, as in `c13_value_partial`).
    Fuel `24·length + 40`. -/
theorem c13_arguments_partial (const : Bool) (s₀ : List Char) (q : Nat) (t : List Char)
    (hat : ∃ pre, s₀ = pre ++ t ∧ pre.length = q) (ht : TokStart t) (f : Nat) (hf : 24 * t.length + 40 ≤ f) :
    match specArguments const (toks t) with
    | some (as, ts') =>
      ∃ s' pr, eval (grammarFor Defects.none) f {} (.ident (if const then "const_arguments" else "arguments")) q t =
          .ok (q + (t.length - s'.length)) s' [pr] ∧
        toks s' = ts' ∧ s'.length < t.length ∧ pr.start = q ∧
        (finFs as = true → buildArgs ⟨Defects.none, s₀.toArray⟩ pr = .ok (normFs as))
    | none =>
      eval (grammarFor Defects.none) f {} (.ident (if const then "const_arguments" else "arguments")) q t = .fail := by
  have key : ∀ F : ValFam, IsFam F →
      match pArgsV F.const (toks t) with
      | some (as, ts') =>
        ∃ s' pr, eval (grammarFor Defects.none) f {} (.ident (asName F)) q t = .ok (q + (t.length - s'.length)) s' [pr] ∧
          toks s' = ts' ∧ s'.length < t.length ∧ pr.start = q ∧
          (finFs as = true → buildArgs ⟨Defects.none, s₀.toArray⟩ pr = .ok (normFs as))
      | none => eval (grammarFor Defects.none) f {} (.ident (asName F)) q t = .fail := by
    intro F hF
    obtain ⟨r, hr, hg⟩ := args_main F hF q t ht
    have hg' := hg s₀ hat
    unfold GoodArgs at hg'
    cases hp : pArgsV F.const (toks t) with
    | none => rw [hp] at hg'; simp only []; rw [← hg']; exact hr f hf
    | some x =>
      obtain ⟨as, ts'⟩ := x
      rw [hp] at hg'
      obtain ⟨s', pr, e, h1, h2, -, h3, h4⟩ := hg'
      simp only []
      exact ⟨s', pr, by rw [← e]; exact hr f hf, h1, h2, h3, fun hnf => h4.trans (expFs_fin hnf)⟩
  rw [specArguments_eq]
  cases const with
  | false => exact key famV (Or.inl rfl)
  | true => exact key famC (Or.inr rfl)

example : TokStart "(a: 1, b: [$v \"s\"] c:{d:E})@x".toList := tokStart_cons (by decide) (by decide)

/-- Completeness of the value productions against the specification with its documented
    parameters (finite floats only): whenever the specification reads a `Value[Const]` `v` at the
    head of the token stream of `t`, the interpreter accepts, leaves the text with the
    specification's remaining tokens, and the tree builder computes `v` (stored form) from the
    emitted pair — every kind of value, floats included, any nesting, no further hypothesis. -/
theorem c13_value_complete (const : Bool) (s₀ : List Char) (q : Nat) (t : List Char)
    (hat : ∃ pre, s₀ = pre ++ t ∧ pre.length = q) (ht : TokStart t) (f : Nat) (hf : 24 * t.length + 60 ≤ f)
    (v : PValue) (ts' : List AGV.Spec.Lex.Tok)
    (h : AGV.Spec.Parse.pValue {} const ((toks t).length + 1) (toks t) = some (v, ts')) :
    ∃ s' pr, eval (grammarFor Defects.none) f {} (.ident (if const then "const_value" else "value")) q t =
        .ok (q + (t.length - s'.length)) s' [pr] ∧
      toks s' = ts' ∧ s'.length < t.length ∧ pr.start = q ∧
      ∀ bf, s₀.length - q < bf → buildValue ⟨Defects.none, s₀.toArray⟩ bf pr = .ok (normV v) := by
  obtain ⟨h1, h2⟩ := pValue_fin (P := {}) rfl h
  have hp := c13_value_partial const s₀ q t hat ht f hf
  have e : ({ finiteFloats := false } : AGV.Spec.Parse.Params) = P' := rfl
  rw [e, h1] at hp
  obtain ⟨s', pr, a1, a2, a3, a4, a5⟩ := hp
  exact ⟨s', pr, a1, a2, a3, a4, a5 h2⟩

end Tokens

-- ------------------------------------------------------------------ rule by rule (towards c13_full)

section Rules
open AGV.Lemmas.PegX AGV.Model.Peg AGV.Spec.Lex AGV.Spec.Parse

/-- what a reading lemma of `Lemmas/PegC13Comb.lean` says, spelled out for one text and one fuel -/
theorem reads_explicit {α : Type} {L : Nat} {e : Expr} {B : Nat} {qf : Sim α} {Bd : Bld α} (h : Reads L e B qf Bd)
    (s₀ : List Char) (q : Nat) (t : List Char) (hL : t.length < L) (hat : ∃ pre, s₀ = pre ++ t ∧ pre.length = q)
    (ht : TokStart t) (f : Nat) (hf : 24 * t.length + B ≤ f) :
    match qf (toks t) with
    | some (a, ts') =>
      ∃ s' ps, eval (grammarFor Defects.none) f {} e q t = .ok (q + (t.length - s'.length)) s' ps ∧ toks s' = ts' ∧
        Bd s₀ ps a
    | none => eval (grammarFor Defects.none) f {} e q t = .fail := by
  obtain ⟨r, hE, hO⟩ := h q t hL ht
  have ho := hO s₀ hat
  cases hq : qf (toks t) with
  | none => simp only []; rw [← ho.isFail hq]; exact hE f hf
  | some x =>
    obtain ⟨a, ts'⟩ := x
    obtain ⟨s', ps, e1, h1, -, h3⟩ := ho.isOk hq
    simp only []
    exact ⟨s', ps, by rw [← e1]; exact hE f hf, h1, h3⟩

/-- The `directives` / `const_directives` rules (`directive+`, each `"@" ~ name ~ arguments?`) on EVERY
    text that begins a token: the interpreter does what the token-level PEG reader `qDirectives` does
    on the specification's tokens (a `(` that opens no argument list is left for what follows), and
    `parse_directive` over the emitted pair returns the directives read, in stored form — or the
    number error when an argument contains an infinite float literal.  Fuel `24·length + 52`. -/
theorem c13_directives_partial (const : Bool) (s₀ : List Char) (q : Nat) (t : List Char)
    (hat : ∃ pre, s₀ = pre ++ t ∧ pre.length = q) (ht : TokStart t) (f : Nat) (hf : 24 * t.length + 52 ≤ f) :
    match qDirectives const (toks t) with
    | some (ds, ts') =>
      ∃ s' pr, eval (grammarFor Defects.none) f {} (.ident (if const then "const_directives" else "directives")) q t =
          .ok (q + (t.length - s'.length)) s' [pr] ∧
        toks s' = ts' ∧ pr.rule = (if const then "const_directives" else "directives") ∧
        pr.inner.mapM (buildDirective ⟨Defects.none, s₀.toArray⟩) =
          (if finDs ds then .ok (normDs ds) else .error .number)
    | none =>
      eval (grammarFor Defects.none) f {} (.ident (if const then "const_directives" else "directives")) q t = .fail := by
  have key : ∀ F : ValFam, IsFam F →
      match qDirectives F.const (toks t) with
      | some (ds, ts') =>
        ∃ s' pr, eval (grammarFor Defects.none) f {} (.ident (dsName F)) q t = .ok (q + (t.length - s'.length)) s' [pr] ∧
          toks s' = ts' ∧ pr.rule = dsName F ∧
          pr.inner.mapM (buildDirective ⟨Defects.none, s₀.toArray⟩) = (if finDs ds then .ok (normDs ds) else .error .number)
      | none => eval (grammarFor Defects.none) f {} (.ident (dsName F)) q t = .fail := by
    intro F hF
    have h := reads_explicit (reads_directives F hF (t.length + 1)) s₀ q t (Nat.lt_succ_self _) hat ht f hf
    cases hq : qDirectives F.const (toks t) with
    | none => rw [hq] at h; exact h
    | some x =>
      obtain ⟨ds, ts'⟩ := x
      rw [hq] at h
      obtain ⟨s', ps, e1, e2, pr, rfl, e3, e4⟩ := h
      exact ⟨s', pr, e1, e2, e3, e4⟩
  cases const with
  | false => exact key famV (Or.inl rfl)
  | true => exact key famC (Or.inr rfl)

example : TokStart "@skip(if: $v) @x(a: [1 2.5]) {b}".toList := tokStart_cons (by decide) (by decide)

/-- `Directives[Const]?` of the specification against `directives?` as the PEG reads it
    (`qOptDirs`: zero or more `qDirective`s): the two outcomes are equal, or both are failures-to-be —
    `none`, or a success whose rest begins with `(` or `@`, on which every continuation in the
    grammar and in the specification fails. -/
theorem c13_directives_spec (const : Bool) (ts : List Tok) :
    Agree (HeadIn ['(', '@']) (qOptDirs const ts) (pDirs { finiteFloats := false } const ts) :=
  optDirs_agree const ts

/-- The repaired (non-atomic) `type_` rule on EVERY text that begins a token, for the toggle-free
    model (the pinned atomic rule rejects inner whitespace: finding C13-type-inner-ws): the
    interpreter accepts exactly when the specification's `pType` reads a Type from the tokens, leaves
    the text with the remaining tokens, and `parse_type` computes that type from the emitted pair. -/
theorem c13_type_partial (s₀ : List Char) (q : Nat) (t : List Char)
    (hat : ∃ pre, s₀ = pre ++ t ∧ pre.length = q) (ht : TokStart t) (f : Nat) (hf : 24 * t.length + 40 ≤ f) :
    match pType ((toks t).length + 1) (toks t) with
    | some (ty, ts') =>
      ∃ s' pr, eval (grammarFor Defects.none) f {} (.ident "type_") q t = .ok (q + (t.length - s'.length)) s' [pr] ∧
        toks s' = ts' ∧ buildType ⟨Defects.none, s₀.toArray⟩ pr = .ok ty
    | none => eval (grammarFor Defects.none) f {} (.ident "type_") q t = .fail := by
  have hlen := toks_length_le t.length t (Nat.le_refl _)
  have h := reads_explicit (reads_type (t.length + 1)) s₀ q t (Nat.lt_succ_self _) hat ht f hf
  rw [type_agree (toks t).length (toks t) (Nat.le_refl _) (t.length + 1) ((toks t).length + 1) (by omega)
    (Nat.lt_succ_self _)] at h
  cases hq : pType ((toks t).length + 1) (toks t) with
  | none => rw [hq] at h; exact h
  | some x =>
    obtain ⟨ty, ts'⟩ := x
    rw [hq] at h
    obtain ⟨s', ps, e1, e2, pr, rfl, -, e4⟩ := h
    refine ⟨s', pr, e1, e2, ?_⟩
    have hd : AGV.Lemmas.ParseC13.typeDepth ty + ts'.length < (toks t).length := by
      rw [← type_agree (toks t).length (toks t) (Nat.le_refl _) (t.length + 1) ((toks t).length + 1) (by omega)
        (Nat.lt_succ_self _)] at hq
      exact qType_depth _ _ _ _ hq
    obtain ⟨pre, rfl, rfl⟩ := hat
    have := e4 (fuelOf (envOf (pre ++ t))) (by simp [fuelOf, envOf]; omega)
    simpa [buildType, envOf, Defects.none] using this

example : TokStart "[ [Int !] ] ! = 1".toList := tokStart_cons (by decide) (by decide)

/-- The `variable_definitions` rule (`"(" ~ variable_definition+ ~ ")"`, each
    `variable ":" type_ default_value? const_directives?` — the repaired order) on EVERY text that
    begins a token: the interpreter accepts exactly when the text starts with `(` and the
    specification's `pVarDefs` reads `VariableDefinition+ )` after it, leaves the same tokens, and
    `parse_variable_definition` over the emitted pair returns the definitions in stored form (or the
    number error for an infinite float literal). -/
theorem c13_variable_definitions_partial (s₀ : List Char) (q : Nat) (t : List Char)
    (hat : ∃ pre, s₀ = pre ++ t ∧ pre.length = q) (ht : TokStart t) (f : Nat) (hf : 24 * t.length + 80 ≤ f) :
    match pOptVars (toks t), closeTok '(' (toks t) with
    | some (vds, ts'), some _ =>
      ∃ s' pr, eval (grammarFor Defects.none) f {} (.ident "variable_definitions") q t =
          .ok (q + (t.length - s'.length)) s' [pr] ∧
        toks s' = ts' ∧ pr.rule = "variable_definitions" ∧
        pr.inner.mapM (buildVarDef ⟨Defects.none, s₀.toArray⟩) =
          (if vds.all finVD then .ok (vds.map normVD) else .error .number)
    | _, _ => eval (grammarFor Defects.none) f {} (.ident "variable_definitions") q t = .fail := by
  have hlen := toks_length_le t.length t (Nat.le_refl _)
  have h := reads_explicit (reads_vardefs (t.length + 1)) s₀ q t (Nat.lt_succ_self _) hat ht f hf
  cases hc : closeTok '(' (toks t) with
  | none =>
    have e1 : qVarDefs (t.length + 1) (toks t) = none := by
      unfold qVarDefs
      rw [tMap_eq, tSeq_of_none (by rw [tPunct_eq, hc]; rfl)]; rfl
    rw [e1] at h
    cases pOptVars (toks t) <;> exact h
  | some r =>
    have e := closeTok_some hc
    rw [e] at h hlen ⊢
    simp only [List.length_cons] at hlen
    rw [qVarDefs_at, vardefs_agree r.length r (Nat.le_refl _) (t.length + 1) (r.length + 1) (by omega)
      (Nat.lt_succ_self _)] at h
    have e2 : pOptVars (.punct '(' :: r) = pVarDefs { finiteFloats := false } (r.length + 1) r := rfl
    rw [e2]
    cases hp : pVarDefs { finiteFloats := false } (r.length + 1) r with
    | none => rw [show pVarDefs P' (r.length + 1) r = none from hp] at h; exact h
    | some x =>
      obtain ⟨vds, ts'⟩ := x
      rw [show pVarDefs P' (r.length + 1) r = some (vds, ts') from hp] at h
      obtain ⟨s', ps, e1, e2, pr, rfl, e3, e4⟩ := h
      exact ⟨s', pr, e1, e2, e3, e4⟩

example : TokStart "($a: Int = 1 @d, $b: [T!]!) {f}".toList := tokStart_cons (by decide) (by decide)

/-- The `selection_set` rule (fields with aliases, arguments, directives and nested sets; fragment
    spreads; inline fragments — any nesting) on EVERY text that begins a token: the interpreter
    accepts exactly when the specification's `pSelectionSet` reads a SelectionSet from the tokens,
    leaves the text with the remaining tokens, and `parse_selection_set` over the emitted pair, at any
    sufficient fuel and under any depth limit `lim`, returns the selections in stored form when no
    float literal is infinite and the nesting is within `lim`, and an error otherwise. -/
theorem c13_selection_set_partial (s₀ : List Char) (q : Nat) (t : List Char)
    (hat : ∃ pre, s₀ = pre ++ t ∧ pre.length = q) (ht : TokStart t) (f : Nat) (hf : 24 * t.length + 100 ≤ f) :
    match pSelectionSet { finiteFloats := false } (toks t) with
    | some (ss, ts') =>
      ∃ s' pr, eval (grammarFor Defects.none) f {} (.ident "selection_set") q t =
          .ok (q + (t.length - s'.length)) s' [pr] ∧
        toks s' = ts' ∧ pr.rule = "selection_set" ∧
        ∀ bf lim, dSels ss < bf →
          Exp (buildSelSet ⟨Defects.none, s₀.toArray⟩ bf lim pr) (finSels ss && decide (dSels ss ≤ lim)) (normSels ss)
    | none => eval (grammarFor Defects.none) f {} (.ident "selection_set") q t = .fail := by
  have hlen := toks_length_le t.length t (Nat.le_refl _)
  have h := reads_explicit (reads_selSet (t.length + 1)) s₀ q t (Nat.lt_succ_self _) hat ht f hf
  rw [selSet_agree (t.length + 1) (toks t) (by omega)] at h
  cases hq : pSelectionSet { finiteFloats := false } (toks t) with
  | none => rw [show pSelectionSet P' (toks t) = none from hq] at h; exact h
  | some x =>
    obtain ⟨ss, ts'⟩ := x
    rw [show pSelectionSet P' (toks t) = some (ss, ts') from hq] at h
    obtain ⟨s', ps, e1, e2, pr, rfl, e3, -, e4⟩ := h
    exact ⟨s', pr, e1, e2, e3, e4⟩

example : TokStart "{ a: b(x: 1) @d { c ...F ... on T { d } } }".toList := tokStart_cons (by decide) (by decide)

/-- The `executable_definition` rule (operation definitions — anonymous or with operation type, name,
    variable definitions, directives — and fragment definitions) on EVERY text that begins a token:
    the interpreter accepts exactly when the specification's `pDefinition` reads a definition, leaves
    the text with the remaining tokens, and `parse_definition_item` returns it in stored form when it
    has no infinite float literal and nests at most `MAX_RECURSION_DEPTH` levels, an error otherwise. -/
theorem c13_definition_partial (s₀ : List Char) (q : Nat) (t : List Char)
    (hat : ∃ pre, s₀ = pre ++ t ∧ pre.length = q) (ht : TokStart t) (f : Nat) (hf : 24 * t.length + 120 ≤ f) :
    match pDefinition { finiteFloats := false } (toks t) with
    | some (d, ts') =>
      ∃ s' pr, eval (grammarFor Defects.none) f {} (.ident "executable_definition") q t =
          .ok (q + (t.length - s'.length)) s' [pr] ∧
        toks s' = ts' ∧
        Exp (buildDefinition ⟨Defects.none, s₀.toArray⟩ pr) (finDef d && decide (dDef d ≤ maxDepth)) (normDef d)
    | none => eval (grammarFor Defects.none) f {} (.ident "executable_definition") q t = .fail := by
  have hlen := toks_length_le t.length t (Nat.le_refl _)
  have h := reads_explicit (reads_definition (t.length + 1)) s₀ q t (Nat.lt_succ_self _) hat ht f hf
  rw [def_agree (t.length + 1) (toks t) (by omega)] at h
  cases hq : pDefinition { finiteFloats := false } (toks t) with
  | none => rw [show pDefinition P' (toks t) = none from hq] at h; exact h
  | some x =>
    obtain ⟨d, ts'⟩ := x
    rw [show pDefinition P' (toks t) = some (d, ts') from hq] at h
    obtain ⟨s', ps, e1, e2, pr, rfl, -, e4⟩ := h
    exact ⟨s', pr, e1, e2, e4⟩

example : TokStart "query Q($v: Int = 1) @d { a } fragment F on T { b }".toList := tokStart_cons (by decide) (by decide)

/-- `parse_query` on EVERY text against the specification's `pDefinitions` on the token stream (total:
    a lexical error is the token `bad`, which no definition consumes; the specification taken without
    its finiteness check, which — like the depth limit — is a condition on the finished tree): a
    syntax error exactly when `pDefinitions` fails; otherwise the uniqueness loop runs on the
    definitions read, in stored form, when none has an infinite float literal or nests too deep, and
    the result is an error when one does. -/
theorem c13_document_partial (s : List Char) :
    match pDefinitions { finiteFloats := false } ((toks s).length + 1) (toks s) with
    | none => parseQuery Defects.none s = .error .syntax
    | some defs =>
      (defs.all okDef = true → parseQuery Defects.none s = collectDefs (defs.map normDef)) ∧
      (defs.all okDef = false → ∃ e, parseQuery Defects.none s = .error e) := by
  have hlen := toks_length_le s.length s (Nat.le_refl _)
  have h := parseQuery_peg s
  rw [qDocument_agree (toks s) (s.length + 1) (by omega)] at h
  cases hp : pDefinitions { finiteFloats := false } ((toks s).length + 1) (toks s) with
  | none => rw [show pDefinitions P' ((toks s).length + 1) (toks s) = none from hp] at h; exact h
  | some defs => rw [show pDefinitions P' ((toks s).length + 1) (toks s) = some defs from hp] at h; exact h
end Rules

-- ------------------------------------------------------------------ the whole property

/-- The whole property: for every source text, the model with no defect (the PEG interpreter over the
    repaired grammar + the tree builder + the uniqueness loop) and the specification (lexer +
    recursive-descent parser of the October 2021 grammar for executable documents, with its
    documented parameters: finite floats, at most 64 nested selection sets, at least one operation)
    agree on acceptance and on the tree, as printed canonically (an object literal as the `IndexMap`
    it is stored in).  Assembled from `c13_document_partial` (interpreter and tree builder against
    the token-level readers, readers against `pDefinitions`), the specification-side facts (the
    finiteness and depth checks are conditions on the finished tree; a lexical error is never
    consumed) and the printer's blindness to the stored form. -/
theorem c13_full :
    ∀ s : List Char,
    (match parseQuery Defects.none s with
     | .ok d => some (sResult (.ok d))
     | .error _ => none) =
    (AGV.Spec.Parse.parseDocument {} s).map (fun d => sResult (.ok d)) :=
  AGV.Lemmas.PegX.full

/-- The statement without the hypothesis (as it stood under OPEN) … -/
def c13_depth_unrestricted : Prop :=
  ∀ (env : Env) (f lim : Nat) (p : AGV.Model.Peg.Pair) (ss : List PSel),
    (buildSelSet env f lim p = .ok ss → AGV.Spec.Parse.selDepth f ss ≤ lim) ∧
    (∀ lim', buildSelSet env f lim' p = .ok ss → AGV.Spec.Parse.selDepth f ss ≤ lim →
      buildSelSet env f lim p = .ok ss)

/-- … is FALSE of the model, for a pair tree the grammar cannot produce: a field whose
    `selection_set` pair has no inner pair builds `a` with an empty (= absent) sub-selection, which
    `selDepth` counts as a leaf (depth 0), but the builder has already spent one level on it and
    reports `depth` at limit 0.  The model follows executable.rs here (the check precedes the
    descent); the statement needed the grammar's guarantee `selection+`. -/
theorem c13_depth_unrestricted_false : ¬ c13_depth_unrestricted := by
  intro h
  have h2 := (h ⟨{}, #[]⟩ 2 0 badSet [.field none [] [] [] []]).2 1 bad_ok (by decide)
  rw [bad_err] at h2
  cases h2

end AGV.Props.C13
