/-
  C20 — the response cache policy is never looser than the data it contains.

  OBLIGATION c20_monoid
  OBLIGATION c20_merge_tightens
  OBLIGATION c20_policy_bounds_visited
  OBLIGATION c20_batch_bounds_items
  OBLIGATION c20_exact_visited
  OBLIGATION c20_batch_exact
  OBLIGATION c20_abstract_set_covers_runtime_types
  OBLIGATION c20_abstract_field_covers_runtime_types
  OBLIGATION c20_sound_partial
  OBLIGATION c20_witness_abstract
  OBLIGATION c20_witness_spread
  OBLIGATION c20_inclusion
  OBLIGATION c20_sound
  OBLIGATION c20_exact
  OBLIGATION c20_sound_unconditional_false
  OBLIGATION c20_exact_unconditional_false
  OBLIGATION c20_hypotheses_needed
  OBLIGATION c20_declared_table_wf
  OBLIGATION c20_sound_declared
  OBLIGATION c20_exact_declared
  OBLIGATION c20_witness_concrete_hint_lost
  OBLIGATION c20_witness_merged_own_hint

  `c20_sound` and `c20_exact` were first written down without hypotheses (kept below as
  `c20_sound_unconditional`, `c20_exact_unconditional`); in that form they are FALSE of the model
  and the spec (`c20_sound_unconditional_false`, `c20_exact_unconditional_false`,
  `c20_hypotheses_needed`): the reference execution and the visitor only agree on documents that
  passed validation.  The theorems carry the hypotheses as explicit predicates
  (Lemmas/CacheReach.lean):
    `WfSchema S`  type names unique; union members are object types; a field of a possible runtime
                  type returns a subtype of what the abstract type declares for it (covariance)
    `WfDoc S d`   every operation has an object root type and a non-empty selection set; in every
                  operation and fragment definition: fields exist on their parent type
                  (FieldsOnCorrectType), composite fields have a selection set (ScalarLeafs), the
                  response key determines the field name (the part of
                  OverlappingFieldsCanBeMerged that execution relies on when it merges equally
                  keyed fields)
  No acyclicity hypothesis and no fuel bound on the document are needed: the visitor fuel `M` is
  existentially quantified after the fuel `n` of the reference execution (`c20_sound`), resp. is
  the unfolding depth `n` of `objOnly` (`c20_exact`).
-/
import AGV.Lemmas.Cache
import AGV.Lemmas.CacheCombine
import AGV.Lemmas.CacheReach
import AGV.Lemmas.CacheExact
import AGV.Model.CacheDecl
import AGV.Gen.C20Decl

namespace AGV.Props.C20
open AGV.Core AGV.Core.Cache AGV.Model.CacheControl AGV.Spec.Cache AGV.Spec.Exec AGV.Lemmas.Cache

/-- Combining policies does not depend on order or grouping: `merge` (arms taken from the source)
    is commutative, associative and idempotent for ALL integers, `CacheControl::default()`
    (public, max_age 0) is its neutral element, and max_age −1 (no-cache) is absorbing. -/
theorem c20_monoid :
    (∀ a b : CC, merge a b = merge b a) ∧
    (∀ a b c : CC, merge (merge a b) c = merge a (merge b c)) ∧
    (∀ a : CC, merge a a = a) ∧
    (∀ a : CC, merge CC.default a = a ∧ merge a CC.default = a) ∧
    (∀ a b : CC, a.maxAge = -1 → (merge a b).maxAge = -1 ∧ (merge b a).maxAge = -1) ∧
    (∀ a b : CC, a.isPublic = false → (merge a b).isPublic = false ∧ (merge b a).isPublic = false) := by
  refine ⟨merge_comm, merge_assoc, merge_idem, fun a => ⟨merge_default_left a, merge_default_right a⟩, ?_, ?_⟩
  · intro a b h
    have h1 : (merge a b).maxAge = -1 := by
      simp only [merge, Gen.CacheMerge.mergeAge]; repeat' split
      all_goals omega
    exact ⟨h1, by rw [merge_comm]; exact h1⟩
  · intro a b h
    simp [merge, Gen.CacheMerge.mergePublic, h]

/-- merging never loosens: the result is no looser than both arguments, and stays no looser
    than anything an argument already was no looser than -/
theorem c20_merge_tightens (a b h : CC) :
    noLooser (merge a b) a ∧ noLooser (merge a b) b ∧ (noLooser a h → noLooser (merge a b) h) :=
  ⟨merge_noLooser_left a b, merge_noLooser_right a b, noLooser_merge_of_noLooser a b h⟩

/-- For every schema, hint table, document, fuel and defect setting: the computed policy is no
    looser than the hint of every type / field the visitor merged. -/
theorem c20_policy_bounds_visited (D : Defects) (S : Schema) (H : Hints) (d : Doc) (fuel : Nat) (k : Key)
    (hk : k ∈ visitDoc D S d fuel) : noLooser (policy D S H d fuel) (hintOf H k) :=
  foldHints_noLooser H _ k hk

/-- `BatchResponse::cache_control` is no looser than any item, hence than anything an item bounds -/
theorem c20_batch_bounds_items (items : List CC) (c h : CC) (hc : c ∈ items) (hh : noLooser c h) :
    noLooser (batchPolicy items) h := by
  unfold batchPolicy
  generalize CC.default = acc
  induction items generalizing acc with
  | nil => cases hc
  | cons x xs ih =>
    simp only [List.foldl_cons]
    rcases List.mem_cons.mp hc with rfl | hc'
    · have : noLooser (merge acc c) h := by rw [merge_comm]; exact noLooser_merge_of_noLooser c acc h hh
      clear ih hc
      generalize merge acc c = a at this
      induction xs generalizing a with
      | nil => simpa using this
      | cons y ys ih2 => simp only [List.foldl_cons]; exact ih2 _ (noLooser_merge_of_noLooser _ _ _ this)
    · exact ih hc' _

/-- "it equals exactly that combination": for well-formed hints (max_age ≥ -1) the computed policy
    is exactly the specification's combination (private if any, no-cache if any, else the least
    positive max-age) of the hints of the types and fields the visitor touched — for every schema,
    document, fuel and defect setting. -/
theorem c20_exact_visited (D : Defects) (S : Schema) (H : Hints) (d : Doc) (fuel : Nat)
    (hv : ∀ p ∈ H, -1 ≤ p.2.maxAge) :
    policy D S H d fuel = combine ((visitDoc D S d fuel).map (hintOf H)) :=
  foldHints_eq_combine H _ hv

/-- `BatchResponse::cache_control` of a batch is exactly the combination of its items -/
theorem c20_batch_exact (items : List CC) (hv : ∀ c ∈ items, -1 ≤ c.maxAge) :
    batchPolicy items = combine items :=
  foldl_merge_eq_combine items hv

/-- Repaired visitor, entering a selection set whose static type is `t`: the object hint of every
    possible runtime type of `t` is merged (for an object type: its own). -/
theorem c20_abstract_set_covers_runtime_types (S : Schema) (t rt : String) (h : rt ∈ S.possibleTypes t) :
    (⟨rt, none⟩ : Key) ∈ enterSet {} S (some t) := by
  unfold Schema.possibleTypes at h
  unfold enterSet Schema.kindOf
  cases hf : S.find? t with
  | none => simp [hf] at h
  | some td =>
    simp only [hf] at h
    cases hk : td.kind <;> simp_all [Schema.possibleTypes]

/-- Repaired visitor, entering field `f` with static parent type `t`: the hint of `f` in every
    possible runtime type of `t` that has the field is merged. -/
theorem c20_abstract_field_covers_runtime_types (S : Schema) (t rt f : String) (fd : FieldDef)
    (h : rt ∈ S.possibleTypes t) (hf : S.field? rt f = some fd) :
    (⟨rt, some f⟩ : Key) ∈ enterField {} S (some t) f := by
  unfold enterField
  have h0 := h
  unfold Schema.possibleTypes at h
  cases hft : S.find? t with
  | none => simp [hft] at h
  | some td =>
    simp only [hft] at h
    cases hk : td.kind
    case object =>
      simp only [hk, List.mem_singleton] at h
      subst h
      simp [hf]
    case interface =>
      have : isAbstract S t = true := by simp [isAbstract, Schema.kindOf, hft, hk]
      simp only [this, List.mem_append]
      right
      simp only [Bool.false_or, Bool.not_true, Bool.false_eq_true, if_false, List.mem_filterMap]
      exact ⟨rt, h0, by simp [hf]⟩
    case union =>
      have : isAbstract S t = true := by simp [isAbstract, Schema.kindOf, hft, hk]
      simp only [this, List.mem_append]
      right
      simp only [Bool.false_or, Bool.not_true, Bool.false_eq_true, if_false, List.mem_filterMap]
      exact ⟨rt, h0, by simp [hf]⟩
    all_goals simp [hk] at h

/-- Soundness, reduced to the traversal inclusion: whenever everything the response can contain
    (any world, every runtime type — `reachRequest`) is among the keys the repaired visitor
    merges, the policy is no looser than the hint of every such type and field. -/
theorem c20_sound_partial (S : Schema) (H : Hints) (d : Doc) (opName : Option String)
    (raw : List (String × GValue)) (n m : Nat)
    (hincl : ∀ k ∈ reachRequest S d opName raw n, k ∈ visitDoc {} S d m) :
    ∀ k ∈ reachRequest S d opName raw n, noLooser (policy {} S H d m) (hintOf H k) :=
  fun k hk => c20_policy_bounds_visited {} S H d m k (hincl k hk)

/-- The traversal inclusion reach ⊆ visited.  For a well-formed schema (`WfSchema`: unique type
    names, union members are object types, interface fields covariant in the implementors) and a
    well-formed document (`WfDoc`: every operation has an object root type and a non-empty
    selection set; in every operation and fragment definition fields exist on their parent type,
    composite fields have a selection set, and the response key determines the field name):
    beyond some fuel `M` the repaired visitor merges every object type and field that the
    reference execution of the selected operation can put into the response — any variable
    values, any world, every possible runtime type, any fuel `n` of the reference execution.
    No acyclicity hypothesis is needed: `M` may depend on `n`. -/
theorem c20_inclusion (S : Schema) (d : Doc) (opName : Option String) (raw : List (String × GValue)) (n : Nat)
    (hS : WfSchema S) (hd : WfDoc S d) :
    ∃ M, ∀ m ≥ M, ∀ k ∈ reachRequest S d opName raw n, k ∈ visitDoc {} S d m :=
  exists_common_fuel {} S d _ (reachRequest_visited hS hd opName raw n)

/-- Soundness: for a well-formed schema and document the policy computed by the repaired visitor
    (any fuel beyond some `M`) is no looser than the hint of ANY object type or field whose data the
    response can contain. -/
theorem c20_sound (S : Schema) (H : Hints) (d : Doc) (opName : Option String) (raw : List (String × GValue))
    (n : Nat) (hS : WfSchema S) (hd : WfDoc S d) :
    ∃ M, ∀ m ≥ M, ∀ k ∈ reachRequest S d opName raw n, noLooser (policy {} S H d m) (hintOf H k) := by
  obtain ⟨M, hM⟩ := c20_inclusion S d opName raw n hS hd
  exact ⟨M, fun m hm => c20_sound_partial S H d opName raw n m (hM m hm)⟩

/-- the statement without the well-formedness hypotheses (as it was first written down) -/
def c20_sound_unconditional : Prop :=
  ∀ (S : Schema) (H : Hints) (d : Doc) (opName : Option String) (raw : List (String × GValue)) (n : Nat),
    ∃ M, ∀ m ≥ M, ∀ k ∈ reachRequest S d opName raw n, noLooser (policy {} S H d m) (hintOf H k)

/-- Exactness: for a well-formed schema and a well-formed document that is a single operation with
    selections only on object types and no @skip/@include (`objOnly`, unfolding depth at most `n`),
    from fuel `n` on the policy EQUALS the combination (private if any, no-cache if any, else the
    least positive max-age) of the hints of exactly the object types and fields the response can
    contain.  The repaired visitor and the reference execution (`reachRequest`, same fuel) reach
    the same set of keys (`visited_iff_reach`). -/
theorem c20_exact (S : Schema) (H : Hints) (d : Doc) (raw : List (String × GValue)) (n : Nat)
    (hS : WfSchema S) (hd : WfDoc S d) (hoo : objOnly S d n = true) (hv : ∀ p ∈ H, -1 ≤ p.2.maxAge) :
    ∃ M, ∀ m ≥ M, policy {} S H d m = combine ((reachRequest S d none raw m).map (hintOf H)) := by
  refine ⟨n, fun m hm => ?_⟩
  rw [c20_exact_visited {} S H d m hv]
  apply combine_congr
  intro x
  simp only [List.mem_map]
  constructor
  · rintro ⟨k, hk, rfl⟩; exact ⟨k, (visited_iff_reach hS hd hoo raw hm k).1 hk, rfl⟩
  · rintro ⟨k, hk, rfl⟩; exact ⟨k, (visited_iff_reach hS hd hoo raw hm k).2 hk, rfl⟩

/-- the statement without the well-formedness hypotheses (as it was first written down) -/
def c20_exact_unconditional : Prop :=
  ∀ (S : Schema) (H : Hints) (d : Doc) (raw : List (String × GValue)) (n : Nat),
    objOnly S d n = true → (∀ p ∈ H, -1 ≤ p.2.maxAge) →
    ∃ M, ∀ m ≥ M, policy {} S H d m = combine ((reachRequest S d none raw m).map (hintOf H))

-- ------------------------------------------------------------------ witnesses of the pinned defects

def exS : Schema :=
  { query := "Query"
    types := [
      { name := "Query", kind := .object, fields := [⟨"i", .named "I", []⟩, ⟨"u", .named "U", []⟩] },
      { name := "A", kind := .object, implements := ["I"], fields := [⟨"x", .nonNull (.named "Int"), []⟩] },
      { name := "B", kind := .object, implements := ["I"], fields := [⟨"x", .nonNull (.named "Int"), []⟩] },
      { name := "C", kind := .object, fields := [⟨"a", .named "A", []⟩] },
      { name := "I", kind := .interface, fields := [⟨"x", .nonNull (.named "Int"), []⟩] },
      { name := "U", kind := .union, members := ["A", "C"] },
      { name := "Int", kind := .scalar }] }

def exH : Hints := [(⟨"A", none⟩, ⟨false, 0⟩), (⟨"B", none⟩, ⟨true, 10⟩), (⟨"A", some "x"⟩, ⟨false, 20⟩)]

/-- `{ i { x } }` -/
def exDoc1 : Doc :=
  { ops := [{ ty := .query, name := none, vars := [], dirs := [],
              sels := [.field none "i" [] [] [.field none "x" [] [] [] ⟨1, 7⟩] ⟨1, 3⟩] }], frags := [] }

/-- `{ u { ...F } } fragment F on C { a { x } }` -/
def exDoc2 : Doc :=
  { ops := [{ ty := .query, name := none, vars := [], dirs := [],
              sels := [.field none "u" [] [] [.spread "F" [] ⟨1, 7⟩] ⟨1, 3⟩] }],
    frags := [{ name := "F", cond := "C", dirs := [], sels := [.field none "a" [] [] [.field none "x" [] [] [] ⟨1, 40⟩] ⟨1, 36⟩] }] }

/-- pinned tree: the private object `A` behind the interface-typed field `i` is in the data
    (`reachRequest`), the policy is public without max-age; the repaired visitor is sound here -/
theorem c20_witness_abstract :
    (⟨"A", none⟩ : Key) ∈ reachRequest exS exDoc1 none [] 6 ∧
    policy { abstractTypeIgnoresImplementors := true } exS exH exDoc1 6 = ⟨true, 0⟩ ∧
    ¬ noLooser (policy { abstractTypeIgnoresImplementors := true } exS exH exDoc1 6) (hintOf exH ⟨"A", none⟩) ∧
    policy {} exS exH exDoc1 6 = ⟨false, 10⟩ := by
  refine ⟨by decide, by decide, by decide, by decide⟩

/-- pinned tree: `A.x` (private, 20) selected through a named fragment on `C` spread in a
    union-typed selection set is in the data; with `spreadKeepsParentType` its hint is lost even
    when abstract types are handled; the repaired visitor finds it -/
theorem c20_witness_spread :
    (⟨"A", some "x"⟩ : Key) ∈ reachRequest exS exDoc2 none [] 6 ∧
    ¬ noLooser (policy { spreadKeepsParentType := true } exS exH exDoc2 6) (hintOf exH ⟨"A", some "x"⟩) ∧
    noLooser (policy {} exS exH exDoc2 6) (hintOf exH ⟨"A", some "x"⟩) := by
  refine ⟨by decide, by decide, by decide⟩

/-- the hypothesis of `c20_exact_visited` holds for a non-trivial table -/
example : ∀ p ∈ exH, -1 ≤ p.2.maxAge := by decide

-- ------------------------------------------------------------------ the hypotheses are needed, and satisfiable

/-- `WfSchema` holds for the example schema (interface `I` = {A, B}, union `U` = {A, C}) -/
example : WfSchema exS := ⟨by decide, by decide, by decide⟩

/-- `WfDoc` holds for `{ i { x } }` and for `{ u { ...F } } fragment F on C { a { x } }` -/
example : WfDoc exS exDoc1 := ⟨id, by decide, by decide⟩
example : WfDoc exS exDoc2 := ⟨id, by decide, by decide⟩

def exS6 : Schema :=
  { query := "Query"
    types := [
      { name := "Query", kind := .object, fields := [⟨"c", .named "C", []⟩] },
      { name := "C", kind := .object, fields := [⟨"a", .list (.named "A"), []⟩, ⟨"n", .named "Int", []⟩] },
      { name := "A", kind := .object, fields := [⟨"x", .nonNull (.named "Int"), []⟩] },
      { name := "Int", kind := .scalar }] }

/-- `{ c { ...F a { x } ... on C { n } } } fragment F on C { k: a { ...G } ...G2 } fragment G on A { x __typename }
    fragment G2 on C { ...on C { n } }` -/
def exDoc6 : Doc :=
  { ops := [{ ty := .query, name := none, vars := [], dirs := [],
              sels := [.field none "c" [] [] [.spread "F" [] ⟨1, 7⟩,
                                              .field none "a" [] [] [.field none "x" [] [] [] ⟨1, 18⟩] ⟨1, 14⟩,
                                              .inline (some "C") [] [.field none "n" [] [] [] ⟨1, 35⟩] ⟨1, 24⟩] ⟨1, 3⟩] }],
    frags := [{ name := "F", cond := "C", dirs := [],
                sels := [.field (some "k") "a" [] [] [.spread "G" [] ⟨2, 30⟩] ⟨2, 20⟩, .spread "G2" [] ⟨2, 40⟩] },
              { name := "G", cond := "A", dirs := [],
                sels := [.field none "x" [] [] [] ⟨3, 20⟩, .field none "__typename" [] [] [] ⟨3, 22⟩] },
              { name := "G2", cond := "C", dirs := [],
                sels := [.inline (some "C") [] [.field none "n" [] [] [] ⟨4, 30⟩] ⟨4, 20⟩] }] }

/-- the hypotheses of `c20_exact` hold for a document with an alias, named fragments (one nested in
    another) and an inline fragment -/
example : WfSchema exS6 ∧ WfDoc exS6 exDoc6 ∧ objOnly exS6 exDoc6 5 = true :=
  ⟨⟨by decide, by decide, by decide⟩, ⟨fun s => if s = "k" then "a" else s, by decide, by decide⟩, by decide⟩

def s0 : Schema := { query := "Query", types := [{ name := "Query", kind := .object }] }
/-- a query operation with an empty selection set -/
def d0 : Doc := { ops := [{ ty := .query, name := none, vars := [], dirs := [], sels := [] }], frags := [] }
def h0 : Hints := [(⟨"Query", none⟩, ⟨false, 0⟩)]

theorem policy_d0 (m : Nat) : policy {} s0 h0 d0 m = CC.default := by
  simp [policy, visitDoc, d0, rootOf, visitSet_nil, foldHints]

/-- Without the hypotheses the statements are false (so they are not what is claimed): the
    reference execution puts the root object into the response even for an empty selection set,
    which the visitor never enters.  (`WfDoc` excludes it: `op.sels ≠ []`.) -/
theorem c20_sound_unconditional_false : ¬ c20_sound_unconditional := by
  intro h
  obtain ⟨M, hM⟩ := h s0 h0 d0 none [] 1
  have := hM M (Nat.le_refl _) ⟨"Query", none⟩ (by decide)
  rw [policy_d0] at this
  revert this
  decide

theorem c20_exact_unconditional_false : ¬ c20_exact_unconditional := by
  intro h
  obtain ⟨M, hM⟩ := h s0 h0 d0 [] 1 (by decide) (by decide)
  have := hM (M + 1) (Nat.le_succ _)
  rw [policy_d0] at this
  have hr : reachRequest s0 d0 none [] (M + 1) = [⟨"Query", none⟩] := rfl
  rw [hr] at this
  revert this
  decide

def exS3 : Schema :=
  { query := "Query"
    types := [
      { name := "Query", kind := .object, fields := [⟨"x", .named "X", []⟩, ⟨"y", .named "Y", []⟩] },
      { name := "X", kind := .object, fields := [⟨"p", .named "Int", []⟩, ⟨"q", .named "Int", []⟩] },
      { name := "Y", kind := .object, fields := [⟨"q", .named "Int", []⟩] },
      { name := "Int", kind := .scalar }] }

/-- `{ k: x { p } k: y { q } }` -/
def exDoc3 : Doc :=
  { ops := [{ ty := .query, name := none, vars := [], dirs := [],
              sels := [.field (some "k") "x" [] [] [.field none "p" [] [] [] ⟨1, 10⟩] ⟨1, 3⟩,
                       .field (some "k") "y" [] [] [.field none "q" [] [] [] ⟨1, 22⟩] ⟨1, 15⟩] }], frags := [] }

/-- `{ u { a { x } } }`: `a` is not a field of the union `U` -/
def exDoc4 : Doc :=
  { ops := [{ ty := .query, name := none, vars := [], dirs := [],
              sels := [.field none "u" [] [] [.field none "a" [] [] [.field none "x" [] [] [] ⟨1, 11⟩] ⟨1, 7⟩] ⟨1, 3⟩] }],
    frags := [] }

/-- `{ i }`: a composite field without a selection set -/
def exDoc5 : Doc :=
  { ops := [{ ty := .query, name := none, vars := [], dirs := [], sels := [.field none "i" [] [] [] ⟨1, 3⟩] }],
    frags := [] }

/-- Each document rule in `WfDoc` is needed (the real server rejects these documents in validation,
    before a policy is computed).  Equal response keys with different field names: execution runs
    the first field with the MERGED selection set, so `X.q` is in the data although `q` was written
    under `y : Y`.  A field that does not exist on its (abstract) parent type: the visitor loses
    the type below it.  A composite field without selection set: the visitor never enters it. -/
theorem c20_hypotheses_needed :
    (WfSchema exS3 ∧ (⟨"X", some "q"⟩ : Key) ∈ reachRequest exS3 exDoc3 none [] 6 ∧
      ¬ noLooser (policy {} exS3 [(⟨"X", some "q"⟩, ⟨false, 0⟩)] exDoc3 6) ⟨false, 0⟩) ∧
    ((⟨"A", some "x"⟩ : Key) ∈ reachRequest exS exDoc4 none [] 6 ∧
      ¬ noLooser (policy {} exS exH exDoc4 6) (hintOf exH ⟨"A", some "x"⟩)) ∧
    ((⟨"A", none⟩ : Key) ∈ reachRequest exS exDoc5 none [] 6 ∧
      ¬ noLooser (policy {} exS exH exDoc5 6) (hintOf exH ⟨"A", none⟩)) := by
  refine ⟨⟨⟨by decide, by decide, by decide⟩, by decide, by decide⟩, ⟨by decide, by decide⟩, ⟨by decide, by decide⟩⟩

-- ------------------------------------------------------------------ the declared tables of the harness

/-!  The correspondence compares the real responses with the hints DECLARED in the harness source
     (hand-written tables next to the derive attributes; Gen/C20Decl.lean is generated from them and
     the judge refuses every case whose schema or table is not one of these constants).  The
     hypotheses `c20_sound` / `c20_exact` make about schema and hint table hold for every one of
     them, so the theorems apply to exactly what is compared. -/

open AGV.Gen.C20Decl in
theorem wf_vSchema : WfSchema vSchema := ⟨by decide, by decide, by decide⟩

open AGV.Gen.C20Decl in
theorem wf_zooSchema : WfSchema zooSchema := ⟨by decide, by decide, by decide⟩

/-- Every schema variant of the harness (v0..v3, the declaration zoo) is a well-formed schema and
    every declared hint has max_age ≥ -1: the hypotheses of `c20_sound` and `c20_exact` on schema
    and hint table. -/
theorem c20_declared_table_wf (tag : String) (S : Schema) (H : Hints) (parts : List (String × CC))
    (h : Gen.C20Decl.variant? tag = some (S, H, parts)) :
    WfSchema S ∧ (∀ p ∈ H, -1 ≤ p.2.maxAge) := by
  unfold Gen.C20Decl.variant? at h
  split at h <;> first
    | (cases h; exact ⟨wf_vSchema, by decide⟩)
    | (cases h; exact ⟨wf_zooSchema, by decide⟩)
    | cases h

/-- `c20_sound` for what the harness compares: for every schema variant with its DECLARED hint
    table and every well-formed document, the policy of the repaired visitor is no looser than the
    declared hint of any object type or field the response can contain. -/
theorem c20_sound_declared (tag : String) (S : Schema) (H : Hints) (parts : List (String × CC))
    (h : Gen.C20Decl.variant? tag = some (S, H, parts))
    (d : Doc) (opName : Option String) (raw : List (String × GValue)) (n : Nat) (hd : WfDoc S d) :
    ∃ M, ∀ m ≥ M, ∀ k ∈ reachRequest S d opName raw n, noLooser (policy {} S H d m) (hintOf H k) :=
  c20_sound S H d opName raw n (c20_declared_table_wf tag S H parts h).1 hd

/-- `c20_exact` for what the harness compares -/
theorem c20_exact_declared (tag : String) (S : Schema) (H : Hints) (parts : List (String × CC))
    (h : Gen.C20Decl.variant? tag = some (S, H, parts))
    (d : Doc) (raw : List (String × GValue)) (n : Nat) (hd : WfDoc S d) (hoo : objOnly S d n = true) :
    ∃ M, ∀ m ≥ M, policy {} S H d m = combine ((reachRequest S d none raw m).map (hintOf H)) :=
  c20_exact S H d raw n (c20_declared_table_wf tag S H parts h).1 hd hoo (c20_declared_table_wf tag S H parts h).2

/-- `{ gsoa { x } }` on the zoo: `gsoa : GsOa!`, a concrete instantiation of a generic SimpleObject
    declared `cache_control(private, max_age = 20)` -/
def zooDocGs : Doc :=
  { ops := [{ ty := .query, name := none, vars := [], dirs := [],
              sels := [.field none "gsoa" [] [] [.field none "x" [] [] [] ⟨1, 10⟩] ⟨1, 3⟩] }], frags := [] }

/-- the zoo table with the object-level hint of the concrete type `GsOa` lost (registered with the
    default policy) -/
def zooHintsLost : Hints := Gen.C20Decl.zooHints.filter (fun p => p.1 ≠ ⟨"GsOa", none⟩)

/-- Why registry and declaration are compared: if a derive macro registers the concrete
    instantiation `GsOa` with the default policy instead of its declared hint, the policy computed
    for `{ gsoa { x } }` (public, max-age 900) is looser than the declared hint of `GsOa`
    (private, 20), whose data the response contains; over the declared table it is not. -/
theorem c20_witness_concrete_hint_lost :
    WfDoc Gen.C20Decl.zooSchema zooDocGs ∧
    (⟨"GsOa", none⟩ : Key) ∈ reachRequest Gen.C20Decl.zooSchema zooDocGs none [] 6 ∧
    hintOf Gen.C20Decl.zooHints ⟨"GsOa", none⟩ = ⟨false, 20⟩ ∧
    policy {} Gen.C20Decl.zooSchema zooHintsLost zooDocGs 6 = ⟨true, 900⟩ ∧
    ¬ noLooser (policy {} Gen.C20Decl.zooSchema zooHintsLost zooDocGs 6) (hintOf Gen.C20Decl.zooHints ⟨"GsOa", none⟩) ∧
    noLooser (policy {} Gen.C20Decl.zooSchema Gen.C20Decl.zooHints zooDocGs 6) (hintOf Gen.C20Decl.zooHints ⟨"GsOa", none⟩) := by
  refine ⟨⟨id, by decide, by decide⟩, by decide, by decide, by decide, by decide, by decide⟩

/-- `{ mo { p2n } }` on the zoo: `Mo` is `#[derive(MergedObject)] #[graphql(cache_control(private))]`
    of parts declared max_age 70 and 80 -/
def zooDocMo : Doc :=
  { ops := [{ ty := .query, name := none, vars := [], dirs := [],
              sels := [.field none "mo" [] [] [.field none "p2n" [] [] [] ⟨1, 8⟩] ⟨1, 3⟩] }], frags := [] }

/-- pinned tree: `#[derive(MergedObject)]` never uses the merged object's own `cache_control(..)`;
    the table it registers gives `{ mo { p2n } }` the policy (public, 70) although `Mo` is declared
    private; registering what is declared (toggle off = the declared table itself) is sound here -/
theorem c20_witness_merged_own_hint :
    (⟨"Mo", none⟩ : Key) ∈ reachRequest Gen.C20Decl.zooSchema zooDocMo none [] 6 ∧
    hintOf Gen.C20Decl.zooHints ⟨"Mo", none⟩ = ⟨false, 70⟩ ∧
    policy {} Gen.C20Decl.zooSchema
      (Model.CacheDecl.registered { mergedOwnHintIgnored := true } Gen.C20Decl.zooHints Gen.C20Decl.zooParts) zooDocMo 6 = ⟨true, 70⟩ ∧
    ¬ noLooser (policy {} Gen.C20Decl.zooSchema
      (Model.CacheDecl.registered { mergedOwnHintIgnored := true } Gen.C20Decl.zooHints Gen.C20Decl.zooParts) zooDocMo 6)
      (hintOf Gen.C20Decl.zooHints ⟨"Mo", none⟩) ∧
    (∀ H parts, Model.CacheDecl.registered {} H parts = H) ∧
    policy {} Gen.C20Decl.zooSchema Gen.C20Decl.zooHints zooDocMo 6 = ⟨false, 70⟩ := by
  refine ⟨by decide, by decide, by decide, by decide, fun _ _ => rfl, by decide⟩


end AGV.Props.C20
