/-
  C32 — connection cursors round-trip and pagination arguments are checked.
  Property theorems only (helper lemmas: AGV/Lemmas/Cursor.lean).

  OBLIGATION c32_int_decode_iff
  OBLIGATION c32_int_roundtrip
  OBLIGATION c32_int_decode_in_range
  OBLIGATION c32_int_noncanonical_accepted
  OBLIGATION c32_int_error_kinds
  OBLIGATION c32_bool
  OBLIGATION c32_char
  OBLIGATION c32_string
  OBLIGATION c32_base64
  OBLIGATION c32_base64_canonical
  OBLIGATION c32_opaque
  OBLIGATION c32_opaque_decode_iff
  OBLIGATION c32_query_refines
  OBLIGATION c32_query_rejects_iff
  OBLIGATION c32_query_error_no_call
  OBLIGATION c32_pageinfo
  OBLIGATION c32_pageinfo_decodes
  OBLIGATION c32_src_int_types
  OBLIGATION c32_src_query_checks
  OPEN c32_float_roundtrip
-/
import AGV.Lemmas.Cursor
import AGV.Gen.CursorFacts

namespace AGV.Props.C32
open AGV.Digits AGV.Model.Cursor AGV.Lemmas.Cursor
open AGV.Spec.Cursor (InRange splitSign readDigits)

-- ------------------------------------------------------------------ integer cursors

/-- Decision logic of the integer decoders, all twelve types at once (any signedness and
    width): the model of Rust's checked digit loop accepts a string with value `n` exactly when
    the reference syntax does — optional `+` (any type) or `-` (signed types only), at least
    one ASCII digit, nothing else (no blanks, no `_`, no other scripts' digits), value in the
    type's range.  Leading zeros, `+5` and `-0` are accepted; `-5` for an unsigned type, ``,
    `+`, `-` and ` 5` are not. -/
theorem c32_int_decode_iff (t : IntTy) (s : List Char) (n : Int) :
    decodeInt t s = .ok n ↔ AGV.Spec.Cursor.decodeInt t.signed t.bits s = some n := by
  unfold decodeInt AGV.Spec.Cursor.decodeInt
  split
  · simp [splitSign, readDigits]
  · simp [splitSign, readDigits]
  · cases hs : t.signed <;> simp [splitSign, readDigits]
  · -- '+' :: r
    rename_i r hne
    simp only [splitSign]
    rw [pos_path, spec_digits]
    simp only [Bool.false_eq_true, if_false]
    rw [inRange_nonneg]
    constructor
    · rintro ⟨h1, h2, h3⟩
      refine ⟨?_, h1, h2, h3⟩
      intro e; subst e; exact hne rfl
    · rintro ⟨_, h1, h2, h3⟩; exact ⟨h1, h2, h3⟩
  · -- '-' :: r
    rename_i r hne
    cases hs : t.signed
    · simp only [Bool.false_eq_true, if_false, splitSign]
      rw [pos_path]
      constructor
      · rintro ⟨h1, _, _⟩
        simp [isDigit] at h1
      · intro h; cases h
    · simp only [if_true, splitSign]
      rw [neg_path, spec_digits]
      simp only [if_true]
      have := inRange_neg t (parseNat r) hs
      rw [hs] at this
      rw [this]
      constructor
      · rintro ⟨h1, h2, h3⟩
        refine ⟨?_, h1, h2, h3⟩
        intro e; subst e; exact hne rfl
      · rintro ⟨_, h1, h2, h3⟩; exact ⟨h1, h2, h3⟩
  · -- no sign
    rename_i c r h1 h2 h3 h4
    have hsplit : splitSign t.signed (c :: r) = some (false, c :: r) := by
      unfold splitSign
      split
      · rename_i r' heq
        injection heq with hc hr; subst hc; subst hr
        by_cases hr : r = []
        · subst hr; exact absurd rfl (fun e => h1 e rfl)
        · simp_all
      · rename_i r' heq
        injection heq with hc hr; subst hc; subst hr
        by_cases hr : r = []
        · subst hr; exact absurd rfl (fun e => h2 e rfl)
        · simp_all
      · rfl
    rw [hsplit]
    simp only
    rw [pos_path, spec_digits]
    simp only [Bool.false_eq_true, if_false]
    rw [inRange_nonneg]
    constructor
    · rintro ⟨h1, h2, h3⟩; exact ⟨by simp, h1, h2, h3⟩
    · rintro ⟨_, h1, h2, h3⟩; exact ⟨h1, h2, h3⟩

/-- Round trip: every value of every integer type decodes from its printed form. -/
theorem c32_int_roundtrip (t : IntTy) (n : Int) (h : InRange t.signed t.bits n) :
    decodeInt t (encodeInt n) = .ok n :=
  (c32_int_decode_iff t _ n).2 (spec_decode_encode t.signed t.bits n h)

/-- the hypothesis of `c32_int_roundtrip` is satisfiable at the boundaries -/
example : InRange true 8 (-128) ∧ InRange true 8 127 ∧ InRange false 8 255 ∧ ¬ InRange false 8 256 ∧
    ¬ InRange true 8 128 ∧ ¬ InRange false 64 (-1) := by decide

/-- Rejection outside the range: whatever the decoder returns is a value of the type, so the
    printed form of an out-of-range integer (e.g. a `u64` cursor handed to an `i32` field) is
    an error, never a wrapped value. -/
theorem c32_int_decode_in_range (t : IntTy) (s : List Char) (n : Int) (h : decodeInt t s = .ok n) :
    InRange t.signed t.bits n := by
  have h' := (c32_int_decode_iff t s n).1 h
  unfold AGV.Spec.Cursor.decodeInt at h'
  split at h'
  · cases h'
  · exact ((spec_digits _ _ _ _ _).1 h').2.2.2 ▸ ((spec_digits _ _ _ _ _).1 h').2.2.1

/-- Decoding is not injective (the code accepts non-canonical spellings): recorded so that the
    model is pinned to what `str::parse` does. -/
theorem c32_int_noncanonical_accepted :
    decodeInt ⟨true, 32⟩ ['+', '5'] = .ok 5 ∧ decodeInt ⟨false, 8⟩ ['+', '5'] = .ok 5 ∧
    decodeInt ⟨true, 8⟩ ['-', '0'] = .ok 0 ∧ decodeInt ⟨false, 8⟩ ['0', '0', '0', '7'] = .ok 7 ∧
    decodeInt ⟨false, 8⟩ ['-', '0'] = .error .invalid ∧ decodeInt ⟨true, 8⟩ [' ', '5'] = .error .invalid ∧
    decodeInt ⟨true, 8⟩ ['1', '2', '8'] = .error .posOverflow ∧
    decodeInt ⟨true, 8⟩ ['-', '1', '2', '9'] = .error .negOverflow ∧
    decodeInt ⟨true, 8⟩ ['-', '1', '2', '8'] = .ok (-128) ∧
    decodeInt ⟨false, 8⟩ ['9', '9', '9', 'x'] = .error .posOverflow ∧
    decodeInt ⟨false, 8⟩ ['2', '5', 'x'] = .error .invalid ∧ decodeInt ⟨true, 8⟩ [] = .error .empty := by
  decide

/-- which error kind can come out of which branch -/
theorem c32_int_error_kinds (t : IntTy) (s : List Char) (e : IntErr) (h : decodeInt t s = .error e) :
    (e = .empty ↔ s = []) ∧ (e = .negOverflow → t.signed = true ∧ s.head? = some '-') := by
  unfold decodeInt at h
  split at h
  · injection h with h; subst h; simp
  · injection h with h; subst h; simp
  · injection h with h; subst h; simp
  · cases h' : accum t.maxMag .posOverflow 0 _ with
    | ok v => rw [h'] at h; cases h
    | error e' =>
      rw [h'] at h; injection h with h; subst h
      have := accum_error_kind _ _ _ _ _ h'
      rcases this with rfl | rfl <;> simp
  · split at h
    · rename_i hs
      cases h' : accum t.minMag .negOverflow 0 _ with
      | ok v => rw [h'] at h; cases h
      | error e' =>
        rw [h'] at h; injection h with h; subst h
        have := accum_error_kind _ _ _ _ _ h'
        rcases this with rfl | rfl <;> simp [hs]
    · cases h' : accum t.maxMag .posOverflow 0 _ with
      | ok v => rw [h'] at h; cases h
      | error e' =>
        rw [h'] at h; injection h with h; subst h
        have := accum_error_kind _ _ _ _ _ h'
        rcases this with rfl | rfl <;> simp
  · cases h' : accum t.maxMag .posOverflow 0 _ with
    | ok v => rw [h'] at h; cases h
    | error e' =>
      rw [h'] at h; injection h with h; subst h
      have := accum_error_kind _ _ _ _ _ h'
      rcases this with rfl | rfl <;> simp

-- ------------------------------------------------------------------ bool, char, String / ID

theorem c32_bool (b : Bool) (s : List Char) :
    decodeBool (encodeBool b) = some b ∧ (decodeBool s = some b ↔ s = encodeBool b) := by
  cases b
  · refine ⟨by simp [decodeBool, encodeBool], ?_⟩
    simp only [decodeBool, encodeBool]
    by_cases h1 : s = ['t', 'r', 'u', 'e']
    · subst h1; simp
    · by_cases h2 : s = ['f', 'a', 'l', 's', 'e'] <;> simp [h1, h2]
  · refine ⟨by simp [decodeBool, encodeBool], ?_⟩
    simp only [decodeBool, encodeBool]
    by_cases h1 : s = ['t', 'r', 'u', 'e']
    · subst h1; simp
    · by_cases h2 : s = ['f', 'a', 'l', 's', 'e']
      · subst h2; simp
      · simp [h1, h2]

theorem c32_char (c : Char) (s : List Char) :
    decodeChar (encodeChar c) = .ok c ∧ (decodeChar s = .ok c ↔ s = encodeChar c) := by
  refine ⟨rfl, ?_⟩
  match s with
  | [] => simp [decodeChar, encodeChar]
  | [d] => simp [decodeChar, encodeChar]
  | _ :: _ :: _ => simp [decodeChar, encodeChar]

theorem c32_string (s : List Char) : decodeString (encodeString s) = s := rfl

-- ------------------------------------------------------------------ base64 and OpaqueCursor

/-- `URL_SAFE_NO_PAD`: decoding the encoding of ANY byte string returns it. -/
theorem c32_base64 (bs : List Nat) (h : ∀ b ∈ bs, b < 256) : b64decode (b64encode bs) = some bs :=
  b64_roundtrip bs h

example : ∀ b ∈ [0, 255, 62, 63, 128], b < 256 := by decide

/-- The decoder accepts nothing but canonical encodings: a decodable string IS the encoding of
    the bytes it decodes to (so padding, foreign symbols, a dangling symbol and stray trailing
    bits are all rejected), and only bytes come out. -/
theorem c32_base64_canonical (s : List Char) (bs : List Nat) (h : b64decode s = some bs) :
    b64encode bs = s ∧ ∀ b ∈ bs, b < 256 :=
  b64_canonical s bs h

/-- Opaque cursors round-trip for every payload type whose JSON printer/parser pair does
    (`parse (print j) = some j`; the JSON layer is serde_json, assumed). -/
theorem c32_opaque {J : Type} (print : J → List Nat) (parse : List Nat → Option J)
    (hbytes : ∀ j, ∀ b ∈ print j, b < 256) (hrt : ∀ j, parse (print j) = some j) (j : J) :
    decodeOpaque parse (encodeOpaque print j) = .ok j := by
  simp [decodeOpaque, encodeOpaque, b64_roundtrip _ (hbytes j), hrt]

/-- … and a string decodes to `j` only if it is the base64 text of bytes that parse to `j`. -/
theorem c32_opaque_decode_iff {J : Type} (parse : List Nat → Option J) (s : List Char) (j : J) :
    decodeOpaque parse s = .ok j ↔
      ∃ bs, (∀ b ∈ bs, b < 256) ∧ s = b64encode bs ∧ parse bs = some j := by
  unfold decodeOpaque
  constructor
  · intro h
    cases hb : b64decode s with
    | none => simp [hb] at h
    | some bs =>
      obtain ⟨h1, h2⟩ := b64_canonical s bs hb
      cases hp : parse bs with
      | none => simp [hb, hp] at h
      | some j' =>
        simp [hb, hp] at h
        exact ⟨bs, h2, h1.symm, by rw [hp, h]⟩
  · rintro ⟨bs, h1, rfl, h3⟩
    simp [b64_roundtrip bs h1, h3]

-- ------------------------------------------------------------------ query / query_with

/-- Refinement of the reference behaviour on EVERY argument combination, for every cursor
    decoder: when the reference says *rejected* the helper returns an error and the closure
    trace is empty; when it says *called a b f l* the closure is invoked exactly once, with
    exactly these decoded values, and its result is returned. -/
theorem c32_query_refines {C E R : Type} (dec : List Char → Except E C) (after before : Option (List Char))
    (first last : Option Int) (f : Args C → R) :
    match AGV.Spec.Cursor.query (fun s => okOf (dec s)) after before first last with
    | .rejected => (∃ e, queryWith dec after before first last f = ([], .error e))
    | .called a b fi la =>
      queryWith dec after before first last f = ([⟨a, b, fi, la⟩], .ok (f ⟨a, b, fi, la⟩)) := by
  cases first with
  | some fi =>
    by_cases hf : fi < 0
    · simp [AGV.Spec.Cursor.query, queryWith, checkArgs, hf]
    · cases last with
      | some la =>
        by_cases hl : la < 0
        · simp [AGV.Spec.Cursor.query, queryWith, checkArgs, checkArgs.checkLast, hf, hl]
        · cases after with
          | none => cases before with
            | none => simp [AGV.Spec.Cursor.query, queryWith, checkArgs, checkArgs.checkLast, checkArgs.checkCursors, decodeOpt, AGV.Spec.Cursor.decOpt, hf, hl]
            | some b => cases hb : dec b <;> simp [AGV.Spec.Cursor.query, queryWith, checkArgs, checkArgs.checkLast, checkArgs.checkCursors, decodeOpt, AGV.Spec.Cursor.decOpt, okOf, hf, hl, hb]
          | some a => cases ha : dec a <;> cases before with
            | none => simp [AGV.Spec.Cursor.query, queryWith, checkArgs, checkArgs.checkLast, checkArgs.checkCursors, decodeOpt, AGV.Spec.Cursor.decOpt, okOf, hf, hl, ha]
            | some b => cases hb : dec b <;> simp [AGV.Spec.Cursor.query, queryWith, checkArgs, checkArgs.checkLast, checkArgs.checkCursors, decodeOpt, AGV.Spec.Cursor.decOpt, okOf, hf, hl, ha, hb]
      | none =>
        cases after with
          | none => cases before with
            | none => simp [AGV.Spec.Cursor.query, queryWith, checkArgs, checkArgs.checkLast, checkArgs.checkCursors, decodeOpt, AGV.Spec.Cursor.decOpt, hf]
            | some b => cases hb : dec b <;> simp [AGV.Spec.Cursor.query, queryWith, checkArgs, checkArgs.checkLast, checkArgs.checkCursors, decodeOpt, AGV.Spec.Cursor.decOpt, okOf, hf, hb]
          | some a => cases ha : dec a <;> cases before with
            | none => simp [AGV.Spec.Cursor.query, queryWith, checkArgs, checkArgs.checkLast, checkArgs.checkCursors, decodeOpt, AGV.Spec.Cursor.decOpt, okOf, hf, ha]
            | some b => cases hb : dec b <;> simp [AGV.Spec.Cursor.query, queryWith, checkArgs, checkArgs.checkLast, checkArgs.checkCursors, decodeOpt, AGV.Spec.Cursor.decOpt, okOf, hf, ha, hb]
  | none =>
    cases last with
      | some la =>
        by_cases hl : la < 0
        · simp [AGV.Spec.Cursor.query, queryWith, checkArgs, checkArgs.checkLast, hl]
        · cases after with
          | none => cases before with
            | none => simp [AGV.Spec.Cursor.query, queryWith, checkArgs, checkArgs.checkLast, checkArgs.checkCursors, decodeOpt, AGV.Spec.Cursor.decOpt, hl]
            | some b => cases hb : dec b <;> simp [AGV.Spec.Cursor.query, queryWith, checkArgs, checkArgs.checkLast, checkArgs.checkCursors, decodeOpt, AGV.Spec.Cursor.decOpt, okOf, hl, hb]
          | some a => cases ha : dec a <;> cases before with
            | none => simp [AGV.Spec.Cursor.query, queryWith, checkArgs, checkArgs.checkLast, checkArgs.checkCursors, decodeOpt, AGV.Spec.Cursor.decOpt, okOf, hl, ha]
            | some b => cases hb : dec b <;> simp [AGV.Spec.Cursor.query, queryWith, checkArgs, checkArgs.checkLast, checkArgs.checkCursors, decodeOpt, AGV.Spec.Cursor.decOpt, okOf, hl, ha, hb]
      | none =>
        cases after with
          | none => cases before with
            | none => simp [AGV.Spec.Cursor.query, queryWith, checkArgs, checkArgs.checkLast, checkArgs.checkCursors, decodeOpt, AGV.Spec.Cursor.decOpt]
            | some b => cases hb : dec b <;> simp [AGV.Spec.Cursor.query, queryWith, checkArgs, checkArgs.checkLast, checkArgs.checkCursors, decodeOpt, AGV.Spec.Cursor.decOpt, okOf, hb]
          | some a => cases ha : dec a <;> cases before with
            | none => simp [AGV.Spec.Cursor.query, queryWith, checkArgs, checkArgs.checkLast, checkArgs.checkCursors, decodeOpt, AGV.Spec.Cursor.decOpt, okOf, ha]
            | some b => cases hb : dec b <;> simp [AGV.Spec.Cursor.query, queryWith, checkArgs, checkArgs.checkLast, checkArgs.checkCursors, decodeOpt, AGV.Spec.Cursor.decOpt, okOf, ha, hb]

/-- Decision logic: an error is returned exactly when `first` or `last` is negative or a
    supplied cursor does not decode. -/
theorem c32_query_rejects_iff {C E R : Type} (dec : List Char → Except E C) (after before : Option (List Char))
    (first last : Option Int) (f : Args C → R) :
    (∃ e, (queryWith dec after before first last f).2 = .error e) ↔
      ((∃ n, first = some n ∧ n < 0) ∨ (∃ n, last = some n ∧ n < 0) ∨
       (∃ s, before = some s ∧ okOf (dec s) = none) ∨ (∃ s, after = some s ∧ okOf (dec s) = none)) := by
  have key := c32_query_refines dec after before first last f
  cases first with
  | some fi =>
    by_cases hf : fi < 0
    · simp [queryWith, checkArgs, hf]
    · cases last with
      | some la =>
        by_cases hl : la < 0
        · simp [queryWith, checkArgs, checkArgs.checkLast, hf, hl]
        · cases after with
          | none => cases before with
            | none => simp [queryWith, checkArgs, checkArgs.checkLast, checkArgs.checkCursors, decodeOpt, hf, hl]
            | some b => cases hb : dec b <;> simp [queryWith, checkArgs, checkArgs.checkLast, checkArgs.checkCursors, decodeOpt, okOf, hf, hl, hb]
          | some a => cases ha : dec a <;> cases before with
            | none => simp [queryWith, checkArgs, checkArgs.checkLast, checkArgs.checkCursors, decodeOpt, okOf, hf, hl, ha]
            | some b => cases hb : dec b <;> simp [queryWith, checkArgs, checkArgs.checkLast, checkArgs.checkCursors, decodeOpt, okOf, hf, hl, ha, hb]
      | none =>
        cases after with
          | none => cases before with
            | none => simp [queryWith, checkArgs, checkArgs.checkLast, checkArgs.checkCursors, decodeOpt, hf]
            | some b => cases hb : dec b <;> simp [queryWith, checkArgs, checkArgs.checkLast, checkArgs.checkCursors, decodeOpt, okOf, hf, hb]
          | some a => cases ha : dec a <;> cases before with
            | none => simp [queryWith, checkArgs, checkArgs.checkLast, checkArgs.checkCursors, decodeOpt, okOf, hf, ha]
            | some b => cases hb : dec b <;> simp [queryWith, checkArgs, checkArgs.checkLast, checkArgs.checkCursors, decodeOpt, okOf, hf, ha, hb]
  | none =>
    cases last with
      | some la =>
        by_cases hl : la < 0
        · simp [queryWith, checkArgs, checkArgs.checkLast, hl]
        · cases after with
          | none => cases before with
            | none => simp [queryWith, checkArgs, checkArgs.checkLast, checkArgs.checkCursors, decodeOpt, hl]
            | some b => cases hb : dec b <;> simp [queryWith, checkArgs, checkArgs.checkLast, checkArgs.checkCursors, decodeOpt, okOf, hl, hb]
          | some a => cases ha : dec a <;> cases before with
            | none => simp [queryWith, checkArgs, checkArgs.checkLast, checkArgs.checkCursors, decodeOpt, okOf, hl, ha]
            | some b => cases hb : dec b <;> simp [queryWith, checkArgs, checkArgs.checkLast, checkArgs.checkCursors, decodeOpt, okOf, hl, ha, hb]
      | none =>
        cases after with
          | none => cases before with
            | none => simp [queryWith, checkArgs, checkArgs.checkLast, checkArgs.checkCursors, decodeOpt]
            | some b => cases hb : dec b <;> simp [queryWith, checkArgs, checkArgs.checkLast, checkArgs.checkCursors, decodeOpt, okOf, hb]
          | some a => cases ha : dec a <;> cases before with
            | none => simp [queryWith, checkArgs, checkArgs.checkLast, checkArgs.checkCursors, decodeOpt, okOf, ha]
            | some b => cases hb : dec b <;> simp [queryWith, checkArgs, checkArgs.checkLast, checkArgs.checkCursors, decodeOpt, okOf, ha, hb]

/-- An error is returned BEFORE the closure is called: the trace of closure calls is empty. -/
theorem c32_query_error_no_call {C E R : Type} (dec : List Char → Except E C) (after before : Option (List Char))
    (first last : Option Int) (f : Args C → R) (e : QErr E)
    (h : (queryWith dec after before first last f).2 = .error e) :
    (queryWith dec after before first last f).1 = [] := by
  unfold queryWith at h ⊢
  split
  · rfl
  · rename_i a ha; rw [ha] at h; cases h

-- ------------------------------------------------------------------ page info

/-- `pageInfo.startCursor` / `endCursor` are the encodings of the first / last edge cursor,
    i.e. exactly the `cursor` fields the first / last edge prints, and absent without edges. -/
theorem c32_pageinfo {C : Type} (enc : C → List Char) (c : Conn C) :
    ((pageInfo enc c).startCursor, (pageInfo enc c).endCursor) = AGV.Spec.Cursor.pageCursors enc c.edges ∧
    (pageInfo enc c).startCursor = (edgeCursors enc c).head? ∧
    (pageInfo enc c).endCursor = (edgeCursors enc c).getLast? := by
  refine ⟨?_, ?_, ?_⟩
  · unfold pageInfo AGV.Spec.Cursor.pageCursors
    cases h : c.edges with
    | nil => simp
    | cons e es => simp [List.getLast?_eq_some_getLast]
  · simp [pageInfo, edgeCursors]
  · simp [pageInfo, edgeCursors]

/-- With a round-tripping cursor type the client gets the first / last edge's cursor back
    from the page info. -/
theorem c32_pageinfo_decodes {C E : Type} (enc : C → List Char) (dec : List Char → Except E C)
    (hrt : ∀ x, dec (enc x) = .ok x) (c : Conn C) (e : C) (es : List C) (h : c.edges = e :: es) :
    (pageInfo enc c).startCursor.map dec = some (.ok e) ∧
    (pageInfo enc c).endCursor.map dec = some (.ok ((e :: es).getLast (by simp))) := by
  simp [pageInfo, h, hrt, List.getLast?_eq_some_getLast]

example : (pageInfo encodeString ⟨[['a'], ['b', 'c'], ['d']], true, false⟩).startCursor = some ['a'] ∧
    (pageInfo encodeString ⟨[['a'], ['b', 'c'], ['d']], true, false⟩).endCursor = some ['d'] := by decide

-- ------------------------------------------------------------------ source-derived facts

/-- the model's table of integer cursor types is the list in the `cursor_type_int_impl!`
    invocation -/
theorem c32_src_int_types : AGV.Gen.CursorFacts.intTypes = intTypes.map (·.1) := by decide

/-- `query_with` checks first, last, before, after in this order (the model's `checkArgs`
    has the same order), calls the closure with (after, before, first, last), and both
    `page_info` resolvers take the first and the last edge. -/
theorem c32_src_query_checks :
    AGV.Gen.CursorFacts.checks.map (·.1) = ["first", "last", "before", "after"] ∧
    AGV.Gen.CursorFacts.closureArgs = ["after", "before", "first", "last"] ∧
    AGV.Gen.CursorFacts.pageInfoEdges = [("first", "last"), ("first", "last")] := by decide

-- ------------------------------------------------------------------ open

/-- Float cursors: Rust's `f32`/`f64` `to_string` (shortest round-trip digits) and `parse`
    (correctly rounded) are std behaviour and are not modelled; the round trip (bit-exact, NaN
    to NaN) is checked differentially only. -/
def c32_float_roundtrip : Prop :=
  ∀ (toString : Nat → List Char) (parse : List Char → Option Nat) (bits : Nat), parse (toString bits) = some bits

end AGV.Props.C32
