/-
  C28 — DataLoader delivers correct batched results under every interleaving.
  Property theorems only (helper lemmas live in AGV/Lemmas/Loader.lean).  All statements are
  about the scheduler model `AGV.Model.Loader` and quantify over EVERY configuration
  (`max`, cache factory, initial cache) and EVERY finite action sequence (loads, first polls of
  spawned tasks, timer expiries, loader answers incl. errors/partial/extra maps, cancellations,
  cache switches and cache operations, drains) — i.e. every interleaving.

  OBLIGATION c28_inv
  OBLIGATION c28_batch
  OBLIGATION c28_max_const
  OBLIGATION c28_result
  OBLIGATION c28_result_lookup
  OBLIGATION c28_split_disjoint
  OBLIGATION c28_load_split
  OBLIGATION c28_live

  `c28_live`: after `drain` from any reachable state no request is still waiting.  Proof (lemmas
  in AGV/Lemmas/Loader.lean, section "liveness of `drain`"): a second invariant `Inv2` (request ids
  are used once; every waiting request sits in the pending queue or among the waiters of a task
  that is in flight or is a not-yet-polled ImmediateLoad) holds in every reachable state; each of
  the three folds of `drainStep` establishes its postcondition (after running: no task is fresh;
  after firing: none waits for its timer, hence by `c28_inv` the queue is empty; after answering:
  every task has finished), so by `Inv2` nobody can still be waiting.
-/
import AGV.Lemmas.Loader

namespace AGV.Props.C28
open AGV.Model.Loader AGV.Lemmas.Loader

/-- Pending-queue invariant after every action sequence: the pending key set has no duplicate,
    it is exactly the union of the pending requests' key sets, it is empty or strictly smaller
    than `max_batch_size`, and whenever it is non-empty a `StartFetch` task that has not yet
    taken the queue is outstanding (so the queue cannot be stranded). -/
theorem c28_inv (max delay : Nat) (hasCache : Bool) (feed : KV) (acts : List Act) :
    let s := runAll (init max delay hasCache feed) acts
    s.keys.Nodup ∧ (∀ k, k ∈ s.keys ↔ ∃ p ∈ s.pending, k ∈ p.keys) ∧
    (s.keys = [] ∨ s.keys.length < max) ∧
    (s.keys ≠ [] → ∃ t ∈ s.tasks, t.fetch = true ∧ (t.phase = .fresh ∨ t.phase = .timer)) := by
  intro s
  have hi : Inv s := runAll_inv acts _ (init_inv max delay hasCache feed)
  have hm : s.max = max := by
    show (runAll _ acts).max = max
    rw [runAll_max, init_max]
  exact ⟨hi.nodup, hi.union, hm ▸ hi.bound, hi.timer⟩

/-- Every batch (the key list of every task, which is what `Loader::load` receives when the task
    reaches it): no key twice; exactly the union of the key sets of the requests that joined it
    (each such set being the request's keys that were not served from the cache, see
    `c28_load_split`); and its size is at most `max - 1` plus the key set of one of the requests
    in it, i.e. it exceeds `max` by less than the size of a single request. -/
theorem c28_batch (max delay : Nat) (hasCache : Bool) (feed : KV) (acts : List Act) :
    ∀ t ∈ (runAll (init max delay hasCache feed) acts).tasks,
      t.keys.Nodup ∧ (∀ k, k ∈ t.keys ↔ ∃ p ∈ t.waiters, k ∈ p.keys) ∧
      (t.keys = [] ∨ ∃ p ∈ t.waiters, t.keys.length ≤ max - 1 + p.keys.length) := by
  intro t ht
  have hi : Inv (runAll (init max delay hasCache feed) acts) := runAll_inv acts _ (init_inv max delay hasCache feed)
  have hm : (runAll (init max delay hasCache feed) acts).max = max := by rw [runAll_max, init_max]
  have := hi.tasks t ht
  rw [hm] at this
  exact ⟨this.1, this.2.1, this.2.2.2⟩

/-- `max_batch_size` never changes -/
theorem c28_max_const (max delay : Nat) (hasCache : Bool) (feed : KV) (acts : List Act) :
    (runAll (init max delay hasCache feed) acts).max = max := by
  rw [runAll_max, init_max]


/-- Fan-out: in every reachable state, every event produced by the step "the loader answers
    batch `i` with `resp`" is a delivery to a waiter `p` of exactly that batch: the loader's error
    if it failed, otherwise the map `waiterResult vals p` characterised by `c28_result_lookup`. -/
theorem c28_result (max delay : Nat) (hasCache : Bool) (feed : KV) (acts : List Act)
    (i : Nat) (resp : Resp) (e : Ev)
    (h : e ∈ (step (runAll (init max delay hasCache feed) acts) (.done i resp)).out) :
    ∃ t, (runAll (init max delay hasCache feed) acts).tasks[i]? = some t ∧ t.phase = .flight ∧
      ∃ p ∈ t.waiters, PendOK p ∧
        match resp.values t.keys with
        | .ok vals => e = .ok p.rid (waiterResult vals p)
        | .error er => e = .err p.rid er := by
  have hi : Inv (runAll (init max delay hasCache feed) acts) := runAll_inv acts _ (init_inv max delay hasCache feed)
  rcases doneStep_out _ i resp e h with h0 | ⟨t, ht, hph, p, hp, he⟩
  · cases h0
  · refine ⟨t, ht, hph, p, hp, (hi.tasks t (List.mem_of_getElem? ht)).2.2.1 p hp, ?_⟩
    cases hv : resp.values t.keys with
    | ok vals => rw [hv] at he; exact he
    | error er => rw [hv] at he; exact he

/-- The map a waiter receives holds, for each key of its uncached key set, exactly what the loader
    returned for that key (nothing if the loader returned nothing) and, for every other key, exactly
    the value that was found in the cache when the request was issued. -/
theorem c28_result_lookup (vals : KV) (p : Pend) (hp : PendOK p) (k : Key) :
    (waiterResult vals p).lookup k = if k ∈ p.keys then vals.lookup k else p.cached.lookup k :=
  waiterResult_lookup vals p hp k

/-- The cache split of a request: the uncached key set has no duplicate and none of its keys is
    in the cached part. -/
theorem c28_split_disjoint (s : St) (ks : List Key) :
    (split s ks).1.Nodup ∧ ∀ k ∈ (split s ks).1, (split s ks).2.lookup k = none :=
  split_ok s ks

/-- Every requested key is either put into the request's uncached key set — which `c28_inv` /
    `c28_batch` carry into exactly one batch handed to the loader — (and the cache, if it was
    consulted, had no value for it), or it is served from the cache with exactly the value the
    cache holds (only possible when neither cache switch is off). -/
theorem c28_load_split (s : St) (ks : List Key) (k : Key) (hk : k ∈ ks) :
    (k ∈ (split s ks).1 ∧ (s.disType = false ∧ s.disAll = false → s.cache.lookup k = none)) ∨
    (k ∉ (split s ks).1 ∧ s.disType = false ∧ s.disAll = false ∧
      (s.cache.lookup k).isSome ∧ (split s ks).2.lookup k = s.cache.lookup k) :=
  split_complete s ks k hk

/-- Liveness: from every reachable state, `drain` (first poll of every spawned task, every timer
    elapses, every batch is answered) completes every load that was not cancelled: no request is
    left waiting. -/
theorem c28_live (max delay : Nat) (hasCache : Bool) (feed : KV) (acts : List Act) :
    (step (runAll (init max delay hasCache feed) acts) .drain).waitingReqs = [] := by
  have h1 : Inv (runAll (init max delay hasCache feed) acts) :=
    runAll_inv acts _ (init_inv max delay hasCache feed)
  have h2 : Inv2 (runAll (init max delay hasCache feed) acts) :=
    runAll_inv2 acts _ (init_inv max delay hasCache feed) (init_inv2 max delay hasCache feed)
  exact drainStep_no_waiting (Inv.congr (by rfl) h1) (Inv2.congr (by rfl) h2)

/-- `c28_live` is not vacuous: before the drain three requests are waiting (two in an unpolled
    ImmediateLoad, one in the queue behind a timer) and a fourth, also in the queue, was cancelled -/
example :
    let s := runAll (init 2 1 false []) [.load 0 [1], .load 1 [2, 3], .load 2 [4], .load 3 [4], .cancel 3]
    s.waitingReqs = [0, 1, 2] ∧ s.pending.map (·.rid) = [2, 3] ∧ (step s .drain).waitingReqs = [] := by
  decide

/-- the hypothesis of `c28_result` is satisfiable: answering a batch of two requests produces two deliveries -/
example : (step (runAll (init 2 1 false []) [.load 0 [1], .load 1 [2], .run 1]) (.done 1 (.okall 100))).out.length = 2 := by
  decide

end AGV.Props.C28
