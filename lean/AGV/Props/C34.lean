/-
  C34 — the GraphiQL page embeds its configuration verbatim and safely.
  Property theorems only (helper lemmas: AGV/Lemmas/Graphiql.lean).

  OBLIGATION c34_verbatim
  OBLIGATION c34_contained
  OBLIGATION c34_title
  OBLIGATION c34_page
  OBLIGATION c34_members
  OBLIGATION c34_violated_by_missingComma
  OBLIGATION c34_violated_by_entitiesInScript
  OBLIGATION c34_violated_by_backslashRaw
  OBLIGATION c34_violated_by_controlsRaw
  OBLIGATION c34_pinned_changes_value_silently
  OBLIGATION c34_src_table
  OBLIGATION c34_src_positions
-/
import AGV.Lemmas.Graphiql

namespace AGV.Props.C34
open AGV.Model.Graphiql AGV.Spec.JsString AGV.Lemmas.Graphiql

/-- Verbatim: for EVERY string `x` (any Unicode text, any length) configured at a script
    position, the literal the repaired renderer writes is evaluated by the page — HTML
    preprocessing of the script text, then ECMA-262 string-literal evaluation in module code —
    to exactly `x` (as UTF-16). -/
theorem c34_verbatim (table : Table) (x : List Char) :
    scriptValue (renderScript table Defects.none x) = some (utf16 x) := by
  unfold scriptValue htmlPre
  rw [htmlPre_id _ (fun c hc => by
    have := mem_render table x c hc
    exact ⟨this.2.2.1, this.2.2.2.2.1⟩)]
  exact eval_render table x _ (Nat.le_refl _)

/-- Contained: the written literal body is lexically one literal (no unescaped quote, no raw
    line terminator, no backslash left over before the closing quote), contains no quote, no
    `<` (hence neither `</script` in any case nor `<!--`), no LF, CR, U+2028, U+2029, U+0000. -/
theorem c34_contained (table : Table) (x : List Char) :
    literalClosed (renderScript table Defects.none x) = true ∧
    scriptSafe (renderScript table Defects.none x) = true ∧
    ∀ c ∈ renderScript table Defects.none x,
      c ≠ '\'' ∧ c ≠ '\n' ∧ c ≠ '\r' ∧ c ≠ '<' ∧ c.toNat ≠ 0 ∧ c.toNat ≠ 0x2028 ∧ c.toNat ≠ 0x2029 := by
  refine ⟨literalClosed_render table x, ?_, fun c hc => mem_render table x c hc⟩
  exact scriptSafe_of_no_lt _ (fun h => (mem_render table x _ h).2.2.2.1 rfl)

/-- Title (HTML text in <title>, askama's escaper with the table read from the vendored
    source): character-reference decoding gives back the configured title, and the written
    text contains no `<`, so it cannot end the element. -/
theorem c34_title (x : List Char) :
    htmlDecode (renderTitle AGV.Gen.AskamaEscape.table (some x)) = x ∧
    '<' ∉ renderTitle AGV.Gen.AskamaEscape.table (some x) :=
  ⟨decode_escape x _ (Nat.le_refl _), no_lt_in_escape x⟩

/-- The whole configuration: every configured position of the repaired page satisfies the two
    statements above (endpoint, subscription endpoint, every header and connection-parameter
    key and value). -/
theorem c34_page (c : Config) :
    let p := render AGV.Gen.AskamaEscape.table Defects.none c
    let good (body x : List Char) := scriptValue body = some (utf16 x) ∧ literalClosed body = true ∧ scriptSafe body = true
    good p.endpoint c.endpoint ∧
    (∀ s, c.subscription = some s → ∃ b, p.subscription = some b ∧ good b s) ∧
    (c.subscription = none → p.subscription = none) ∧
    p.headers.length = c.headers.length ∧ p.wsParams.length = c.wsParams.length ∧
    (∀ kv ∈ p.headers.zip c.headers, good kv.1.1 kv.2.1 ∧ good kv.1.2 kv.2.2) ∧
    (∀ kv ∈ p.wsParams.zip c.wsParams, good kv.1.1 kv.2.1 ∧ good kv.1.2 kv.2.2) := by
  intro p good
  have g : ∀ x, good (renderScript AGV.Gen.AskamaEscape.table Defects.none x) x := fun x =>
    ⟨c34_verbatim _ x, (c34_contained _ x).1, (c34_contained _ x).2.1⟩
  have maps : ∀ l : List (List Char × List Char),
      ∀ kv ∈ (l.map (fun kv => (renderScript AGV.Gen.AskamaEscape.table Defects.none kv.1,
                           renderScript AGV.Gen.AskamaEscape.table Defects.none kv.2))).zip l,
        good kv.1.1 kv.2.1 ∧ good kv.1.2 kv.2.2 := by
    intro l
    induction l with
    | nil => intro kv h; simp at h
    | cons a l ih =>
      intro kv h
      simp only [List.map_cons, List.zip_cons_cons, List.mem_cons] at h
      rcases h with rfl | h
      · exact ⟨g a.1, g a.2⟩
      · exact ih kv h
  refine ⟨g _, ?_, ?_, by simp [p, render], by simp [p, render], maps _, maps _⟩
  · intro s hs; exact ⟨_, by simp [p, render, hs], g s⟩
  · intro hs; simp [p, render, hs]

/-- The object literal handed to `createGraphiQLFetcher` is syntactically an object literal for
    every configuration: each property but the last is followed by a comma. -/
theorem c34_members (c : Config) : wellSeparated (members Defects.none c) = true := by
  unfold members Defects.none
  cases c.subscription.isSome <;> cases c.headers.isEmpty <;> cases c.wsParams.isEmpty <;> simp [wellSeparated]

-- ------------------------------------------------------------------ the pinned tree's defects

/-- headers and connection parameters together: `headers: {…}` is directly followed by
    `wsConnectionParams: {…}` — a SyntaxError, the page's script does not run at all -/
theorem c34_violated_by_missingComma :
    ∃ c : Config, wellSeparated (members { missingComma := true } c) = false :=
  ⟨{ endpoint := ['/'], subscription := none, title := none,
     headers := [(['a'], ['b'])], wsParams := [(['c'], ['d'])] }, by decide⟩


/-- `&` (likewise `'`, `"`, `<`, `>`) is written as an HTML character reference inside the
    script; JavaScript does not decode it: the page talks to `/q?a=1&#38;b=2`. -/
theorem c34_violated_by_entitiesInScript :
    ∃ x, scriptValue (renderScript AGV.Gen.AskamaEscape.table { entitiesInScript := true } x) ≠ some (utf16 x) :=
  ⟨['a', '&', 'b'], by decide⟩

/-- a backslash is copied: at the end of the value it swallows the closing quote (the literal
    is not closed) -/
theorem c34_violated_by_backslashRaw :
    ∃ x, literalClosed (renderScript AGV.Gen.AskamaEscape.table { backslashRaw := true } x) = false ∧
      scriptValue (renderScript AGV.Gen.AskamaEscape.table { backslashRaw := true } x) ≠ some (utf16 x) :=
  ⟨['C', ':', '\\'], by decide⟩

/-- a raw line feed ends the literal (syntax error: the page does not load) -/
theorem c34_violated_by_controlsRaw :
    ∃ x, literalClosed (renderScript AGV.Gen.AskamaEscape.table { controlsRaw := true } x) = false ∧
      scriptValue (renderScript AGV.Gen.AskamaEscape.table { controlsRaw := true } x) = none :=
  ⟨['a', '\n', 'b'], by decide⟩

/-- … and the pinned renderer can also change a value without any syntax error: `\n` typed as
    two characters reaches the server as a line feed. -/
theorem c34_pinned_changes_value_silently :
    scriptValue (renderScript AGV.Gen.AskamaEscape.table Defects.pinned ['a', '\\', 'n']) = some [97, 10] ∧
    utf16 ['a', '\\', 'n'] = [97, 92, 110] := by decide

-- ------------------------------------------------------------------ source-derived facts

/-- the escaper's table (vendored askama, version of Cargo.lock): exactly `" & ' < >`, each
    replaced by `&#` + its two decimal digits + `;` -/
theorem c34_src_table :
    AGV.Gen.AskamaEscape.table.map (·.1) = jsSpecials ∧
    ∀ p ∈ AGV.Gen.AskamaEscape.table,
      p.2 = ['&', '#', Char.ofNat (48 + p.1.toNat / 10), Char.ofNat (48 + p.1.toNat % 10), ';'] := by decide

/-- the template's expressions: the title inside <title>; endpoint, subscription endpoint and
    both key/value pairs directly inside single quotes in a script — the positions the model
    renders (`version` inside the import map and the fixed `credentials` keyword are not part
    of the statement) -/
theorem c34_src_positions :
    AGV.Gen.AskamaEscape.positions.filter (fun p => p.1 ≠ "version" ∧ p.1 ≠ "credentials") =
      [("title", "title", "html"), ("endpoint", "sq", "script"), ("subscription_endpoint", "sq", "script"),
       ("key", "sq", "script"), ("value", "sq", "script"), ("key", "sq", "script"), ("value", "sq", "script")] := by
  decide

end AGV.Props.C34
