/-
  C15 — values print as GraphQL literals and convert to JSON without loss.
  Property theorems only (helper lemmas live in AGV/Lemmas/Print.lean, AGV/Lemmas/Literal.lean,
  AGV/Util/Digits.lean).

  OBLIGATION c15_string
  OBLIGATION c15_string_spec
  OBLIGATION c15_int
  OBLIGATION c15_value
  OBLIGATION c15_value_in_context
  OBLIGATION c15_json
  OBLIGATION c15_json_enum_free
  OBLIGATION c15_source_control_arm
  OBLIGATION c15_string_violated_by_decimal_escape
  OBLIGATION c15_value_violated_by_decimal_escape
  OBLIGATION c15_string_lexer_refines_spec
  OBLIGATION c15_string_token_refines_spec
  OPEN c15_float_text_round_trip

  Floats are opaque tokens in the model: `c15_value` covers them as far as token placement and
  re-lexing go; that the token the number printer writes denotes the same double when read back
  (`c15_float_text_round_trip`) is not expressible here and is checked differentially only — and
  is violated by the pinned tree (finding C15-float-text-lossy).
-/
import AGV.Lemmas.Literal

namespace AGV.Props.C15
open AGV.Digits AGV.Core AGV.Model.Print AGV.Model.Json AGV.Spec.Literal AGV.Lemmas.Print AGV.Lemmas.Literal

/-- String round trip, for ALL strings (every sequence of Unicode scalar values) and whatever
    follows the token: the text `write_quoted` prints (repaired printer: hex escapes), read by
    the model of the parser's string rule (`string_character*` scan, then `string_value`), is the
    original string, and the token ends exactly where the printer stopped. -/
theorem c15_string (s rest : List Char) :
    lexStringToken (writeQuoted Defects.none s ++ rest) = some (s, rest) := by
  simp [lexStringToken, writeQuoted, lexQuoted, Defects.radix, Defects.none, List.append_assoc,
    scanStr_writeBody, stringValue_writeBody]

/-- The same against the reference reading of a StringValue (GraphQL escape semantics), which is
    written independently of the model of the parser. -/
theorem c15_string_spec (s rest : List Char) :
    ∃ body, writeQuoted Defects.none s = '"' :: body ++ ['"'] ∧
      lexString (body ++ '"' :: rest) = some (s, rest) :=
  ⟨writeBody 16 s, rfl, lexString_writeBody s rest⟩

/-- Integers (no bound): the decimal text printed for `i` is an IntValue token and denotes `i`. -/
theorem c15_int (i : Int) :
    isIntTok (intDigits i) = true ∧ parseInt (intDigits i) = i ∧ parseValue (print Defects.none (.int i)) = some (.int i) := by
  refine ⟨isIntTok_intDigits i, parseInt_intDigits i, ?_⟩
  have h := parseVal_print (.int i) (by simp [wellFormed]) ((print Defects.none (.int i)).length + 1) []
    (by omega) delim_nil
  have hs : skipWs (print Defects.none (.int i)) = print Defects.none (.int i) := by
    apply skipWs_head
    obtain ⟨c, r, e, h1, _⟩ := print_start (.int i) (by simp [wellFormed])
    exact ⟨c, r, e, h1⟩
  simp only [List.append_nil] at h
  simp [parseValue, hs, h, skipWs]

/-- Value round trip: for every well-formed value (any nesting, any strings, any integers, enum
    values and keys that are Names, float tokens that are FloatValue tokens) the printed literal,
    read by the reference reading of GraphQL literals, is the value itself.  No size bound. -/
theorem c15_value (x : LValue) (h : wellFormed x = true) :
    parseValue (print Defects.none x) = some x := by
  have hp := parseVal_print x h ((print Defects.none x).length + 1) [] (by omega) delim_nil
  have hs : skipWs (print Defects.none x) = print Defects.none x := by
    apply skipWs_head
    obtain ⟨c, r, e, h1, _⟩ := print_start x h
    exact ⟨c, r, e, h1⟩
  simp only [List.append_nil] at hp
  simp [parseValue, hs, hp, skipWs]

/-- … and the literal can be embedded: followed by any text that does not continue its last
    token (for instance `)`, `,`, `]`, `}` or white space), exactly the literal is consumed. -/
theorem c15_value_in_context (x : LValue) (h : wellFormed x = true) (rest : List Char) (hd : Delim rest) :
    parseVal ((print Defects.none x).length + 1) (print Defects.none x ++ rest) = some (x, rest) :=
  parseVal_print x h _ rest (by omega) hd

/-- JSON round trip: serialising any value and deserialising the result gives the value back
    with every enum replaced by the string of its name (no hypothesis on the value). -/
theorem c15_json : ∀ x : LValue, fromJson (toJson x) = enumsAsStrings x
  | .null => by simp [toJson, fromJson, enumsAsStrings]
  | .int _ => by simp [toJson, fromJson, enumsAsStrings]
  | .float _ => by simp [toJson, fromJson, enumsAsStrings]
  | .str _ => by simp [toJson, fromJson, enumsAsStrings]
  | .bool _ => by simp [toJson, fromJson, enumsAsStrings]
  | .enum _ => by simp [toJson, fromJson, enumsAsStrings]
  | .list xs => by
    simp only [toJson, fromJson, enumsAsStrings, List.map_map]
    congr 1
    apply List.map_congr_left
    intro y hy
    exact c15_json y
  | .obj fs => by
    simp only [toJson, fromJson, enumsAsStrings, List.map_map]
    congr 1
    apply List.map_congr_left
    intro kv hkv
    simp only [Function.comp]
    rw [c15_json kv.2]
termination_by x => sizeOf x
decreasing_by
  · have := List.sizeOf_lt_of_mem hy; simp; omega
  · have := List.sizeOf_lt_of_mem hkv
    have : sizeOf kv.2 < sizeOf kv := by cases kv; simp; omega
    simp; omega

/-- … hence without any loss when the value contains no enum. -/
theorem c15_json_enum_free (x : LValue) (h : enumsAsStrings x = x) : fromJson (toJson x) = x := by
  rw [c15_json, h]

/-- Source tie: the control-character arm extracted from `write_quoted` is the `\u` + 4 digits
    form of the model, in one of the two radices the model's toggle distinguishes (lower case).
    (The literal escape arms are used by the model directly: `c15_string` is proved about the
    extracted table.) -/
theorem c15_source_control_arm :
    Gen.WriteQuoted.controlPrefix = ['\\', 'u'] ∧ Gen.WriteQuoted.controlWidth = 4 ∧
    Gen.WriteQuoted.controlUpper = false ∧
    (Gen.WriteQuoted.controlRadix = ({ decimalUnicodeEscape := true } : Defects).radix ∨
     Gen.WriteQuoted.controlRadix = Defects.none.radix) := by
  decide

/-- Witness of the pinned tree's defect: with the decimal `\u` escape the one-character string
    U+001B is printed as `"'"`, which the parser reads as an apostrophe. -/
theorem c15_string_violated_by_decimal_escape :
    ∃ s, lexStringToken (writeQuoted { decimalUnicodeEscape := true } s) ≠ some (s, []) := by
  refine ⟨[Char.ofNat 27], ?_⟩
  have : lexStringToken (writeQuoted { decimalUnicodeEscape := true } [Char.ofNat 27]) = some (['\''], []) := by
    decide
  rw [this]; decide

/-- The same witness at the level of `c15_value` (a well-formed value that does not come back). -/
theorem c15_value_violated_by_decimal_escape :
    ∃ x, wellFormed x = true ∧ parseValue (print { decimalUnicodeEscape := true } x) ≠ some x := by
  refine ⟨.str [Char.ofNat 27], by simp [wellFormed], ?_⟩
  intro h
  have h2 : (match parseValue (print { decimalUnicodeEscape := true } (.str [Char.ofNat 27])) with
      | some (.str s) => s
      | _ => []) = ['\''] := by
    rw [print]; decide
  rw [h] at h2
  revert h2; decide

/-- the hypotheses of `c15_value` are satisfiable by a non-trivial value:
    `{a: [1, "x\u001b", RED, 1.5e3], true: null}` -/
example : wellFormed (.obj [("a".toList, .list [.int 1, .str ['x', Char.ofNat 27], .enum "RED".toList,
    .float "1.5e3".toList]), ("true".toList, .null)]) = true := by
  simp [wellFormed, isName, nameStart, nameChar, isAlpha, isDigit, isFloatTok, isIntTok, intBodyOk, spanP,
    isExp, digits1, numChar, headIs]

/-- The model of the parser's string rule (grammar scan `string_character*` up to the closing
    quote, then `string_value` on the raw content) agrees with the reference reading of a
    StringValue on EVERY text after the opening quote, not only on printed text: the same texts
    are accepted, with the same decoded string and the same rest.  In particular `string_value`
    never reaches one of its panicking arms on content the grammar let through. -/
theorem c15_string_lexer_refines_spec : ∀ cs : List Char, lexString cs = lexQuoted cs :=
  lexString_eq_lexQuoted

/-- … hence at the token level: wherever the reference reading of a value sees a (non-block)
    string literal, it reads what the model of the parser reads. -/
theorem c15_string_token_refines_spec (f : Nat) (r : List Char) (hb : isBlockStart r = false) :
    parseVal (f + 1) ('"' :: r) = (lexStringToken ('"' :: r)).map (fun p => (.str p.1, p.2)) := by
  have hq : ('"' = '[') = False := by decide
  have hq2 : ('"' = '{') = False := by decide
  simp only [parseVal, lexStringToken, hq, hq2, if_false, if_true, hb, Bool.false_eq_true,
    lexString_eq_lexQuoted]
  cases lexQuoted r with
  | none => rfl
  | some p => rfl

/-- OPEN (not expressible in the model, floats being opaque tokens): the text the number printer
    writes for a double is read back as the same double.  Differential only; violated by the
    pinned tree (finding C15-float-text-lossy).  Recorded as the shape of the missing statement
    over an abstract printer `show` and reader `read`. -/
def c15_float_text_round_trip : Prop :=
  ∀ (F : Type) (shw : F → List Char) (read : List Char → Option F), ∀ x : F, read (shw x) = some x

end AGV.Props.C15
