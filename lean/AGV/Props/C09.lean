/-
  C09 — strict validation rejects exactly the documents the GraphQL spec calls invalid.

  Per-rule equivalences PROVED (toggle-free model `strictErrors S {} …` = reference rule, for all
  schemas / documents; `c09_rule_*`, hypothesis where stated: every operation has a root type):
    walker "not configured"      = operation type not served                      (no hypothesis)
    KnownFragmentNames           = 5.5.2.1 Fragment Spread Target Defined
    UniqueVariableNames          = 5.8.1 Variable Uniqueness
    UniqueArgumentNames          = 5.4.2 Argument Uniqueness
    KnownDirectives              = 5.7.1 Directives Are Defined + 5.7.2 Directives Are In Valid Locations
    DirectivesUnique             = 5.7.3 Directives Are Unique Per Location
    KnownTypeNames               = 5.5.1.2 Fragment Spread Type Existence + "variable type exists"
    VariablesAreInputTypes       = 5.8.2 Variables Are Input Types (with the variable half of KnownTypeNames)
    UploadFile                   = the documented Upload restriction               (no hypothesis)
    parser uniqueness checks     = 5.2.1.1, 5.2.2.1, 5.5.1.1                       (no hypothesis)
  `c09_partial`: restricted to these, rejected ↔ invalid, with no hypothesis at all.
  Type-dependent rules PROVED for well-formed registries (`SchemaWF`: String not composite, no field
  called `__typename`, output fields not of input-object type, root types composite):
    ProvidedNonNullArguments     = 5.4.2.1 Required Arguments
    FieldsOnCorrectType + ScalarLeafs + FragmentsOnCompositeTypes
                                 = 5.3.1 Field Selections + 5.3.3 Leaf Field Selections + 5.5.1.3 Fragments
                                   On Composite Types  (as a block only; documents with `docOK`: no
                                   sub-selection below `__typename`)
    PossibleFragmentSpreads      = 5.5.2.3 Fragment Spread Is Possible  (on top of the block; abstract types
                                   have at least one possible type)
  `c09_partial_typed`: with these hypotheses, rejected ↔ invalid restricted to 13 of the 22 rule structs
  (+ walker + parser checks) and 18 of the 28 reference rules.
  Graph rules PROVED under `GraphHyp` (the parser's three uniqueness checks passed, every operation
  has a root type) — Lemmas/ValidateGraph*.lean: the three fuelled worklist searches (`closure`,
  `fragReach`, the model's `reach`) compute reachability, the scope table of the walk is one record
  per fragment / operation:
    NoFragmentCycles             = 5.5.2.2 Fragment Spreads Must Not Form Cycles   (+ the parser's recursion guard ⇒ 5.5.2.2)
    NoUnusedFragments            = 5.5.1.4 Fragments Must Be Used
    NoUndefinedVariables         = 5.8.3 All Variable Uses Defined
    NoUnusedVariables            = 5.8.4 All Variables Used
    VariableInAllowedPosition    = 5.8.5 All Variable Usages Are Allowed  (well-formed registry)
  `c09_partial_graph`: rejected ↔ invalid restricted to 18 of the 22 rule structs (+ walker + all four
  parser checks) and 23 of the 28 reference rules, variables allowed everywhere.
  The remaining rules:
    KnownArgumentNames           = 5.4.1 Argument Names
    DefaultValuesOfCorrectType   = default-value half of 5.6  (relative to `DefaultsAgree`)
    ArgumentsOfCorrectType       = argument half of 5.6  (variables anywhere; relative to `ArgLiteralsAgree`)
    is_valid_input_value         = 5.6.1 on constants and on literals with variables, without repeated object
                                   keys, in registries with scalar built-ins and defined input objects
                                   (`c09_rule_is_valid_input_value`, `c09_rule_is_valid_input_literal`,
                                   Lemmas/ValidateLiterals.lean) — which discharges the two `…Agree` hypotheses
                                   (`c09_literals_agree`, `c09_wf_of_schema`)
    the three missing rules      = 5.3.2, 5.2.3.1, 6.1.2  (`c09_rule_repaired`, by construction of `repairedErrors`)
    OverlappingFieldsCanBeMerged ⇒ 5.3.2 Field Selection Merging  (SOUND, Lemmas/ValidateOverlap.lean; that it
                                   is not complete is the open finding C09-overlap-keyed-by-condition)
  Four behaviours of the rule code that the previous proof pass had to exclude by hypotheses (they were
  hard-wired in the model) are now defects with toggles — on in the pinned model, off in the repaired
  one — each replayed on the real code (corpus/C09/main-rule_defects.case) and with a witness theorem:
    overlapUntypedInlineKeyedNone  a condition-less inline fragment is filed under `None`: a VALID document
                                   is rejected (`c09_witness_overlap_untyped_inline`, finding
                                   C09-overlap-untyped-inline)
    nullDefaultCounts              `$v: Int = null` counts as "has a default" (`c09_witness_null_default`,
                                   finding C09-null-default-counts, latent behind C09-input-value-not-forwarded)
    knownArgsStale                 KnownArgumentNames keeps `current_args` at a field it does not know, and
                                   does not know `__typename` (`c09_witness_typename_arguments`, finding
                                   C09-known-args-stale; for `__typename` latent behind C09-typename-not-visited)
    argsJudgedAfterSubstitution    ArgumentsOfCorrectType substitutes variable values and judges the result as
                                   a constant: an argument with an unsupplied variable is not judged
                                   (`c09_witness_variable_in_list`, finding
                                   C06-literal-unchecked-beside-unsupplied-variable, `also` C09); the repaired
                                   model judges literals by 5.6.1 and variable values by 6.1.2, so an enum
                                   value supplied as a string stays accepted when the string LITERAL is no
                                   longer (`c09_witness_enum_variable`)
  `c09_corrected_wf` (PROVED): under `C09WF` — well-formed registry, no sub-selection below `__typename`,
  `is_valid_input_value` agrees with 5.6.1 on the values that occur (true where no object literal repeats a
  key) — the repaired pipeline rejects exactly the requests the reference validator calls invalid: all 22
  rule structs, all 28 reference rules, variables / condition-less inline fragments / `null` defaults /
  arguments at `__typename` and at unknown fields included.

  DYNAMIC SCHEMAS (the quantifier says "against static and dynamic schemas"): `c09_corrected_wf` is stated
  over an abstract registry description, so it covers every registry satisfying its hypotheses;
  `c09_dynamic_schema_wf` shows the registry of the harness schema built with `async_graphql::dynamic`
  (Model/ValidateDynSchema.lean, generated from the dump of the real registry; the judge compares every
  case of stream `dynamic` with it) satisfies the registry hypotheses, `c09_dynamic_corrected` is the
  equivalence instantiated there (document hypotheses only), `c09_dynamic_example` a valid and an invalid
  document using what is particular to that flavour (a custom scalar registered without validator,
  directives the dynamic API cannot register).

  THE `is_subscription` FLAG.  `visit_selection` recognises a subscription root only by the flag
  `MetaType::Object { is_subscription }` of the current type — set by the `#[Subscription]` macro, by
  `#[derive(MergedSubscription)]` (derive/src/merged_subscription.rs) and by `dynamic::Subscription`, never
  compared with `registry.subscription_type`.  The model goes by the DUMPED flags (`VSchema.subFlag`), the
  reference validator by the operation type.  `SchemaWF` now demands `flagWF` (the flagged types are exactly
  the type `subscription_type` names): `c09_flag_is_root` (then the walker's test is the test by name),
  `c09_typename_at_subscription_root` (the PINNED walker — `typenameNotVisited` on, any other toggles —
  rejects every request with `__typename` at a subscription root: direct, aliased, beside a real field, through
  inline fragments without condition / on the root type, in a fragment on the root type; and the reference
  validator calls such an operation invalid, 5.2.3.1).  `c09_corrected_wf` itself does not consult the flag
  (the repaired walker visits `__typename` like a field and 5.2.3.1 is the reference rule), it carries the
  hypothesis through `SchemaWF` only.  `c09_static_schemas_wf`: the THREE dumped variants of the static
  harness schema (Model/ValidateStaticSchemas.lean: plain, with `ifdef`, with MergedObject /
  MergedSubscription roots; the judge compares every case's dump with them) satisfy all registry hypotheses,
  `flagWF` included, by evaluation; `c09_static_corrected` instantiates the equivalence there.
  `c09_witness_subscription_flag_off`: the merged registry with the flag taken off (what a
  `MergedSubscription` derive writing `is_subscription: false` registers) fails `flagWF`, the pinned model
  ACCEPTS `subscription { __typename }` and four more shapes there, the reference validator calls them
  invalid, and with the flag restored the model rejects — no listed finding is about flags, the judge reports
  such a case as a violation.

  The statements that were OPEN are FALSE of the model as stated and are refuted by witnesses
  (`c09_refuted`, `c09_rule_equivalences_refuted`, `c09_corrected_refuted`);
  `c09_rule_equivalences_served` is the corrected, proved form of the second, `c09_corrected_wf` of the
  first and third (`c09_corrected` is refuted by an object literal that repeats a key:
  `c09_counterexample_repeated_key`).
  Two earlier counterexamples are no longer counterexamples of the toggle-free model:
  the `ifdef` exemption of FieldsOnCorrectType is a defect of the pinned tree (toggle
  `ifdefSkipsUnknownField`, finding C09-ifdef-skips-unknown-field, `c09_witness_ifdef`), and the
  reference validator now judges variable DEFAULT values as the literals they are (§5.6.1: an enum
  default needs an enum token), so the string default for an enum variable is one more witness of
  `enumAcceptsString` (`c09_witness_enum_default`).

  OBLIGATION c09_dispatch
  OBLIGATION c09_dispatch_exact
  OBLIGATION c09_dispatch_pinned_witness
  OBLIGATION c09_strict_rules_known
  OBLIGATION c09_fast_rules_subset
  OBLIGATION c09_kind_table
  OBLIGATION c09_located
  OBLIGATION c09_before_exec_pre
  OBLIGATION c09_rule_variable_subtype
  OBLIGATION c09_subtype_defect_witness
  OBLIGATION c09_witness_input_value_not_forwarded
  OBLIGATION c09_witness_typename_not_visited
  OBLIGATION c09_witness_overlap
  OBLIGATION c09_witness_single_root
  OBLIGATION c09_witness_input_object_literal
  OBLIGATION c09_witness_enum_string
  OBLIGATION c09_witness_int_range
  OBLIGATION c09_witness_location_default
  OBLIGATION c09_repaired_accepts_valid_example
  OBLIGATION c09_rule_not_configured
  OBLIGATION c09_rule_known_fragment_names
  OBLIGATION c09_rule_unique_variable_names
  OBLIGATION c09_rule_unique_argument_names
  OBLIGATION c09_rule_known_directives
  OBLIGATION c09_rule_directives_unique
  OBLIGATION c09_rule_known_type_names
  OBLIGATION c09_rule_variables_are_input_types
  OBLIGATION c09_rule_upload_file
  OBLIGATION c09_rule_pre_checks
  OBLIGATION c09_partial
  OBLIGATION c09_rule_provided_non_null_arguments
  OBLIGATION c09_rule_fields_leafs_composites
  OBLIGATION c09_rule_possible_fragment_spreads
  OBLIGATION c09_partial_typed
  OBLIGATION c09_witness_schema_wellformed
  OBLIGATION c09_witness_schema_abstract_inhabited
  OBLIGATION c09_witness_two_operations
  OBLIGATION c09_witness_ifdef
  OBLIGATION c09_witness_enum_default
  OBLIGATION c09_default_literal_enum
  OBLIGATION c09_refuted
  OBLIGATION c09_rule_equivalences_refuted
  OBLIGATION c09_rule_equivalences_served
  OBLIGATION c09_rule_no_fragment_cycles
  OBLIGATION c09_rule_no_unused_fragments
  OBLIGATION c09_rule_no_undefined_variables
  OBLIGATION c09_rule_no_unused_variables
  OBLIGATION c09_rule_recursion_guard
  OBLIGATION c09_rule_variables_in_allowed_position
  OBLIGATION c09_rule_known_argument_names
  OBLIGATION c09_values_of_correct_type_split
  OBLIGATION c09_rule_default_values
  OBLIGATION c09_rule_arguments_of_correct_type
  OBLIGATION c09_rule_repaired
  OBLIGATION c09_rule_overlapping_fields_sound
  OBLIGATION c09_witness_overlap_untyped_inline
  OBLIGATION c09_witness_null_default
  OBLIGATION c09_witness_typename_arguments
  OBLIGATION c09_witness_variable_in_list
  OBLIGATION c09_witness_enum_variable
  OBLIGATION c09_counterexample_repeated_key
  OBLIGATION c09_counterexample_hyp
  OBLIGATION c09_corrected_refuted
  OBLIGATION c09_corrected_wf
  OBLIGATION c09_wf_example
  OBLIGATION c09_partial_graph
  OBLIGATION c09_rule_is_valid_input_value
  OBLIGATION c09_rule_is_valid_input_literal
  OBLIGATION c09_literals_agree
  OBLIGATION c09_wf_of_schema
  OBLIGATION c09_dynamic_schema_wf
  OBLIGATION c09_dynamic_corrected
  OBLIGATION c09_dynamic_example
  OBLIGATION c09_flag_is_root
  OBLIGATION c09_typename_at_subscription_root
  OBLIGATION c09_static_schemas_wf
  OBLIGATION c09_static_corrected
  OBLIGATION c09_typename_at_root_example
  OBLIGATION c09_witness_subscription_flag_off
-/
import AGV.Model.Validate
import AGV.Spec.Validate
import AGV.Gen.Rules
import AGV.Lemmas.ValidateLiterals
import AGV.Model.ValidateDynSchema
import AGV.Model.ValidateStaticSchemas
import AGV.Lemmas.ValidateSubRoot

namespace AGV.Props.C09
open AGV.Core AGV.Model.Validate
open AGV.Gen.Rules (strictRules fastChain callbacksOf forwardedByCons callbacks messages)

-- ------------------------------------------------------------------ source-derived: dispatch

def callbacksOfRule (r : String) : List String :=
  match callbacksOf.find? (·.1 = r) with
  | some p => p.2
  | none => []

/-- the two callbacks the pinned `VisitorCons` is known not to forward -/
def inputValueCallbacks : List String := ["enter_input_value", "exit_input_value"]

/-- Every callback a strict-mode rule overrides reaches the rule through the composite visitor,
    EXCEPT possibly the two input-value callbacks (finding C09-input-value-not-forwarded).  Holds on
    the pinned and on the repaired tree; any other dropped callback breaks it. -/
theorem c09_dispatch :
    ∀ r ∈ strictRules, ∀ c ∈ callbacksOfRule r, c ∈ forwardedByCons ∨ c ∈ inputValueCallbacks := by
  decide

/-- is the composite visitor of THIS tree complete for the input-value callbacks? -/
def inputValueForwarded : Bool := inputValueCallbacks.all (fun c => forwardedByCons.contains c)

/-- The dispatch obligation proper, `∀ r ∈ strictRules, callbacksOf r ⊆ forwardedByCons`, holds
    exactly when the two input-value callbacks are forwarded. -/
theorem c09_dispatch_exact :
    (∀ r ∈ strictRules, ∀ c ∈ callbacksOfRule r, c ∈ forwardedByCons) ↔ inputValueForwarded = true := by
  decide

/-- On a tree that does not forward them, a strict-mode rule is deaf to one of its callbacks —
    and that rule is `VariableInAllowedPosition`, the only one overriding `enter_input_value`. -/
theorem c09_dispatch_pinned_witness :
    inputValueForwarded = false →
      "VariableInAllowedPosition" ∈ strictRules ∧
      "enter_input_value" ∈ callbacksOfRule "VariableInAllowedPosition" ∧
      "enter_input_value" ∉ forwardedByCons ∧
      ∀ r ∈ strictRules, "enter_input_value" ∈ callbacksOfRule r → r = "VariableInAllowedPosition" := by
  decide

/-- every rule `check_rules` installs in strict mode is a rule struct with a callback table, every
    callback it overrides is declared by `trait Visitor`, and the model implements that rule -/
def modelledRules : List String :=
  ["ArgumentsOfCorrectType", "DefaultValuesOfCorrectType", "FieldsOnCorrectType", "FragmentsOnCompositeTypes",
   "KnownArgumentNames", "NoFragmentCycles", "KnownFragmentNames", "KnownTypeNames", "NoUndefinedVariables",
   "NoUnusedFragments", "NoUnusedVariables", "UniqueArgumentNames", "UniqueVariableNames", "VariablesAreInputTypes",
   "VariableInAllowedPosition", "ScalarLeafs", "PossibleFragmentSpreads", "ProvidedNonNullArguments",
   "KnownDirectives", "DirectivesUnique", "OverlappingFieldsCanBeMerged", "UploadFile"]

theorem c09_strict_rules_known :
    strictRules = modelledRules ∧
    (∀ r ∈ strictRules, (callbacksOf.find? (·.1 = r)).isSome) ∧
    (∀ p ∈ callbacksOf, ∀ c ∈ p.2, c ∈ callbacks) := by
  decide

/-- fast mode runs a subset of the strict rules (plus the calculators) -/
theorem c09_fast_rules_subset : ∀ p ∈ fastChain, p.1 = "rules" → p.2 ∈ strictRules := by decide

-- ------------------------------------------------------------------ source-derived: messages and locations

/-- Every message kind of the model is a row of the table extracted from the `report_error` /
    `RuleError::new` calls: same rule struct, and the call passes at least one location. -/
theorem c09_kind_table (k : Model.Validate.Kind) (h : k ≠ .repaired) :
    ∃ row, messages[k.idx]? = some row ∧ row.1 = k.rule ∧ row.2.2 ≥ 1 := by
  cases k <;> first | (exact absurd rfl h) | decide

/-- every report in the rule files and in the walker carries at least one location -/
theorem c09_located : ∀ row ∈ messages, row.2.2 ≥ 1 := by decide

/-- a request rejected before validation (parser, recursion guard) never reaches the rules, and a
    request the model rejects is not accepted: the outcome is a function of the two error lists -/
theorem c09_before_exec_pre (S : VSchema) (D : Defects) (d : Doc) (vars : List (String × GValue)) (o : Option String) :
    (checkRules S D d vars o).isRejected = true ↔
      (preErrors d ≠ [] ∨ strictErrors S D d vars o ++ repairedErrors S D d vars o ≠ []) := by
  unfold checkRules
  cases h1 : preErrors d with
  | nil =>
    cases h2 : strictErrors S D d vars o ++ repairedErrors S D d vars o with
    | nil => simp [Outcome.isRejected]
    | cons a as => simp [Outcome.isRejected]
  | cons a as => simp [Outcome.isRejected]

-- ------------------------------------------------------------------ rule equivalences (model = spec)

/-- `MetaTypeName::is_subtype` with the (List, NonNull) arm restored is exactly the specification's
    AreTypesCompatible(variableType, locationType). -/
theorem c09_rule_variable_subtype (pos var : TypeRef) :
    isSubtype {} pos var = Spec.Validate.typesCompatible var pos := by
  induction pos generalizing var with
  | named p =>
    induction var with
    | named v => simp only [isSubtype, Spec.Validate.typesCompatible]; exact BEq.comm
    | list v _ => simp [isSubtype, Spec.Validate.typesCompatible]
    | nonNull v ih => simp [isSubtype, Spec.Validate.typesCompatible, ih]
  | list p ihp =>
    induction var with
    | named v => simp [isSubtype, Spec.Validate.typesCompatible]
    | list v _ => simp [isSubtype, Spec.Validate.typesCompatible, ihp]
    | nonNull v ih => simp [isSubtype, Spec.Validate.typesCompatible, ih]
  | nonNull p ihp =>
    cases var with
    | named v => simp [isSubtype, Spec.Validate.typesCompatible]
    | list v => simp [isSubtype, Spec.Validate.typesCompatible]
    | nonNull v => simp [isSubtype, Spec.Validate.typesCompatible, ihp]

/-- the pinned `is_subtype` refuses a `[Int]!` variable where `[Int]` is expected -/
theorem c09_subtype_defect_witness :
    isSubtype { subtypeListNonNull := true } (.list (.named "Int")) (.nonNull (.list (.named "Int"))) = false ∧
    Spec.Validate.typesCompatible (.nonNull (.list (.named "Int"))) (.list (.named "Int")) = true := by
  decide

-- ------------------------------------------------------------------ a small schema for the witnesses

def ty (n : String) (k : Core.Kind) (fs : List FieldDef := []) (ms : List String := []) (vs : List String := []) : TypeDef :=
  { name := n, kind := k, fields := fs, members := ms, values := vs }

def S0 : VSchema :=
  { base :=
      { types :=
          [ty "Query" .object
             [{ name := "n", ty := .named "Int", args := [{ name := "x", ty := .nonNull (.named "Int"), default := none }] },
              { name := "def", ty := .named "Int", args := [{ name := "x", ty := .nonNull (.named "Int"), default := some (.int 7) }] },
              { name := "one", ty := .named "Int", args := [{ name := "o", ty := .nonNull (.named "One"), default := none }] },
              { name := "color", ty := .named "Int", args := [{ name := "c", ty := .nonNull (.named "Color"), default := none }] },
              { name := "pet", ty := .named "Pet", args := [] }],
           ty "Dog" .object [{ name := "id", ty := .nonNull (.named "ID"), args := [] }, { name := "name", ty := .named "String", args := [] }],
           ty "Cat" .object [{ name := "id", ty := .nonNull (.named "ID"), args := [] }, { name := "name", ty := .named "String", args := [] }],
           ty "Pet" .union [] ["Cat", "Dog"],
           ty "Sub" .object [{ name := "names", ty := .named "String", args := [] }],
           ty "Color" .enum [] [] ["RED"],
           ty "One" .input,
           ty "Int" .scalar, ty "String" .scalar, ty "ID" .scalar, ty "Boolean" .scalar],
        query := "Query", mutation := none, subscription := some "Sub" },
    dirs := [{ name := "skip", repeatable := false, locs := ["FIELD", "FRAGMENT_SPREAD", "INLINE_FRAGMENT"],
               args := [{ name := "if", ty := .nonNull (.named "Boolean"), default := none }] }],
    inputs := [{ name := "One", oneof := true, fields := [{ name := "a", ty := .named "Int", default := none }] }],
    subFlag := ["Sub"] }

def p0 : Core.Pos := { line := 0, col := 0 }
def fld (n : String) (args : List (String × DValue) := []) (sels : List Sel := []) (al : Option String := none) (ds : List Dir := []) : Sel :=
  .field al n args ds sels p0
def q (vars : List VarDef) (sels : List Sel) : Doc := { ops := [{ ty := .query, name := none, vars := vars, dirs := [], sels := sels }], frags := [] }

def rejects (D : Defects) (d : Doc) (vars : List (String × GValue) := []) : Bool := (checkRules S0 D d vars none).isRejected
def specInvalid (d : Doc) (vars : List (String × GValue) := []) : Bool := !(Spec.Validate.violations {} S0 d vars none).isEmpty

/-- `query($v: String){ n(x: $v) }` — accepted when the input-value callbacks are dropped -/
def dVarPos : Doc := q [{ name := "v", ty := .named "String", default := none }] [fld "n" [("x", .var "v")]]
theorem c09_witness_input_value_not_forwarded :
    rejects { inputValueNotForwarded := true } dVarPos = false ∧ rejects {} dVarPos = true ∧ specInvalid dVarPos = true := by
  decide +kernel

/-- `{ __typename @nope }` -/
def dTypename : Doc := q [] [fld "__typename" [] [] none [{ name := "nope", args := [] }]]
theorem c09_witness_typename_not_visited :
    rejects { typenameNotVisited := true } dTypename = false ∧ rejects {} dTypename = true ∧ specInvalid dTypename = true := by
  decide

/-- `{ pet { ... on Dog { k: id } ... on Cat { k: name } } }` — `ID!` against `String` -/
def dOverlap : Doc :=
  q [] [fld "pet" [] [.inline (some "Dog") [] [fld "id" [] [] (some "k")] p0, .inline (some "Cat") [] [fld "name" [] [] (some "k")] p0]]
theorem c09_witness_overlap :
    rejects { overlapKeyedByCondition := true } dOverlap = false ∧ rejects {} dOverlap = true ∧ specInvalid dOverlap = true := by
  decide

/-- `subscription { names second: names }` -/
def dSub : Doc := { ops := [{ ty := .subscription, name := none, vars := [], dirs := [], sels := [fld "names", fld "names" [] [] (some "second")] }], frags := [] }
theorem c09_witness_single_root :
    rejects { noSingleRootSubscription := true } dSub = false ∧ rejects {} dSub = true ∧ specInvalid dSub = true := by
  decide

/-- `{ one(o: "s") }` -/
def dInputLit : Doc := q [] [fld "one" [("o", .str "s")]]
theorem c09_witness_input_object_literal :
    rejects { inputObjectAnyValue := true } dInputLit = false ∧ rejects {} dInputLit = true ∧ specInvalid dInputLit = true := by
  decide +kernel

/-- `{ color(c: "RED") }` -/
def dEnumStr : Doc := q [] [fld "color" [("c", .str "RED")]]
theorem c09_witness_enum_string :
    rejects { enumAcceptsString := true } dEnumStr = false ∧ rejects {} dEnumStr = true ∧ specInvalid dEnumStr = true := by
  decide +kernel

/-- `{ n(x: 3000000000) }` -/
def dIntRange : Doc := q [] [fld "n" [("x", .int 3000000000)]]
theorem c09_witness_int_range :
    rejects { intRangeNotChecked := true } dIntRange = false ∧ rejects {} dIntRange = true ∧ specInvalid dIntRange = true := by
  decide +kernel

/-- `query($v: Int){ def(x: $v) }` where `x: Int! = 7`: allowed by the specification (the location
    has a default), refused by a `VariableInAllowedPosition` that ignores it -/
def dLocDefault : Doc := q [{ name := "v", ty := .named "Int", default := none }] [fld "def" [("x", .var "v")]]
theorem c09_witness_location_default :
    rejects { locationDefaultIgnored := true } dLocDefault = true ∧ rejects {} dLocDefault = false ∧ specInvalid dLocDefault = false := by
  decide +kernel

/-- non-trivial input for the positive direction: a valid document with a variable, a directive
    and an inline fragment is accepted by the repaired model and valid by the reference -/
def dValid : Doc :=
  q [{ name := "v", ty := .nonNull (.named "Int"), default := none }, { name := "b", ty := .nonNull (.named "Boolean"), default := none }]
    [fld "n" [("x", .var "v")], fld "pet" [] [.inline (some "Dog") [{ name := "skip", args := [("if", .var "b")] }] [fld "id"] p0, fld "__typename"]]
theorem c09_repaired_accepts_valid_example :
    rejects {} dValid [("v", .int 1), ("b", .bool true)] = false ∧ specInvalid dValid [("v", .int 1), ("b", .bool true)] = false := by
  decide +kernel

-- ------------------------------------------------------------------ per-rule equivalences over the walk (toggle-free model)

section rules
open AGV.Lemmas.ValidateRules AGV.Lemmas.ValidateWalk
open AGV.Spec.Validate
variable (S : VSchema) (d : Doc) (vars : List (String × GValue)) (o : Option String)

theorem served_of (hs : violates_OperationTypeExists S d = false) : Served S d := (served_iff S d).mpr hs

/-- the walker's own report: an operation whose root type the schema does not have -/
theorem c09_rule_not_configured :
    Kind.notConfigured ∈ strictErrors S {} d vars o ↔ violates_OperationTypeExists S d = true := by
  rw [strict_stateless S d vars o _ (by decide)]; exact rule_not_configured S d

/-- KnownFragmentNames = §5.5.2.1 Fragment Spread Target Defined -/
theorem c09_rule_known_fragment_names (hs : violates_OperationTypeExists S d = false) :
    Kind.unknownFragment ∈ strictErrors S {} d vars o ↔ violates_FragmentSpreadTargetDefined d = true := by
  rw [strict_stateless S d vars o _ (by decide)]; exact rule_known_fragment_names S d (served_of S d hs)

/-- UniqueVariableNames = §5.8.1 Variable Uniqueness -/
theorem c09_rule_unique_variable_names (hs : violates_OperationTypeExists S d = false) :
    Kind.dupVar ∈ strictErrors S {} d vars o ↔ violates_VariableUniqueness d = true := by
  rw [strict_dupVar, rule_unique_variable_names S d (served_of S d hs)]; simp

/-- UniqueArgumentNames = §5.4.2 Argument Uniqueness -/
theorem c09_rule_unique_argument_names (hs : violates_OperationTypeExists S d = false) :
    Kind.dupArg ∈ strictErrors S {} d vars o ↔ violates_ArgumentUniqueness S d = true := by
  rw [strict_dupArg, rule_unique_argument_names S d (served_of S d hs)]; simp

/-- KnownDirectives = §5.7.1 Directives Are Defined + §5.7.2 Directives Are In Valid Locations -/
theorem c09_rule_known_directives (hs : violates_OperationTypeExists S d = false) :
    (Kind.unknownDirective ∈ strictErrors S {} d vars o ↔ violates_DirectivesAreDefined S d = true)
    ∧ (Kind.dirMisplaced ∈ strictErrors S {} d vars o ↔ violates_DirectivesInValidLocations S d = true) := by
  constructor
  · rw [strict_knownDirs S d vars o _ (Or.inl rfl)]; exact rule_known_directives_defined S d (served_of S d hs)
  · rw [strict_knownDirs S d vars o _ (Or.inr rfl)]; exact rule_known_directives_location S d (served_of S d hs)

/-- DirectivesUnique = §5.7.3 Directives Are Unique Per Location -/
theorem c09_rule_directives_unique (hs : violates_OperationTypeExists S d = false) :
    Kind.dupDirective ∈ strictErrors S {} d vars o ↔ violates_DirectivesUniquePerLocation S d = true := by
  rw [strict_stateless S d vars o _ (by decide)]; exact rule_directives_unique S d (served_of S d hs)

/-- KnownTypeNames = §5.5.1.2 Fragment Spread Type Existence + "the type of a variable exists" -/
theorem c09_rule_known_type_names (hs : violates_OperationTypeExists S d = false) :
    Kind.unknownType ∈ strictErrors S {} d vars o ↔
      (violates_FragmentSpreadTypeExistence S d = true ∨ ∃ op ∈ d.ops, ∃ v ∈ op.vars, S.exists? v.ty.base = false) := by
  rw [strict_stateless S d vars o _ (by decide)]; exact rule_known_type_names S d (served_of S d hs)

/-- VariablesAreInputTypes (with the variable half of KnownTypeNames) = §5.8.2 Variables Are Input Types -/
theorem c09_rule_variables_are_input_types (hs : violates_OperationTypeExists S d = false) :
    (Kind.varNonInput ∈ strictErrors S {} d vars o ∨ ∃ op ∈ d.ops, ∃ v ∈ op.vars, S.exists? v.ty.base = false) ↔
      violates_VariablesAreInputTypes S d = true := by
  rw [strict_stateless S d vars o _ (by decide)]; exact rule_variables_are_input_types S d (served_of S d hs)

/-- UploadFile = the documented restriction, in schemas that have an `Upload` type -/
theorem c09_rule_upload_file :
    Kind.upload ∈ strictErrors S {} d vars o ↔
      (S.exists? "Upload" = true ∧ violates_UploadOnlyInMutations {} d = true) := by
  rw [strict_stateless S d vars o _ (by decide)]; exact rule_upload S d

/-- the parser's uniqueness checks = §5.2.1.1, §5.2.2.1, §5.5.1.1 (reported one at a time, in this order) -/
theorem c09_rule_pre_checks :
    (PreKind.dupOperation ∈ preErrors d ↔ violates_OperationNameUniqueness d = true)
    ∧ (PreKind.multipleAnonymous ∈ preErrors d ↔
        (violates_OperationNameUniqueness d = false ∧ violates_LoneAnonymousOperation d = true))
    ∧ (PreKind.dupFragment ∈ preErrors d ↔
        (violates_OperationNameUniqueness d = false ∧ violates_LoneAnonymousOperation d = false
          ∧ violates_FragmentNameUniqueness d = true)) :=
  ⟨pre_dupOperation d, pre_multipleAnonymous d, pre_dupFragment d⟩

/-- ProvidedNonNullArguments = §5.4.2.1 Required Arguments (well-formed registry) -/
theorem c09_rule_provided_non_null_arguments (hW : SchemaWF S) (hs : violates_OperationTypeExists S d = false) :
    (Kind.fieldArgMissing ∈ strictErrors S {} d vars o ∨ Kind.dirArgMissing ∈ strictErrors S {} d vars o) ↔
      violates_RequiredArguments S d = true := by
  rw [strict_stateless S d vars o _ (by decide), strict_stateless S d vars o _ (by decide)]
  exact rule_provided_non_null_arguments S d hW.block.typed (served_of S d hs) (hW.roots d).exist

/-- FieldsOnCorrectType + ScalarLeafs + FragmentsOnCompositeTypes
    = §5.3.1 Field Selections + §5.3.3 Leaf Field Selections + §5.5.1.3 Fragments On Composite Types.
    The three only correspond as a block (e.g. `__typename` below a scalar is §5.3.1 for the reference
    and `ScalarLeafs` for the implementation); well-formed registry, no sub-selection below
    `__typename`. -/
theorem c09_rule_fields_leafs_composites (hW : SchemaWF S) (hD : docOK d = true)
    (hs : violates_OperationTypeExists S d = false) :
    (Kind.unknownField ∈ strictErrors S {} d vars o ∨ Kind.leafWithSel ∈ strictErrors S {} d vars o
      ∨ Kind.compositeNoSel ∈ strictErrors S {} d vars o ∨ Kind.fragNonComposite ∈ strictErrors S {} d vars o
      ∨ Kind.inlineNonComposite ∈ strictErrors S {} d vars o) ↔
    (violates_FieldSelections S d = true ∨ violates_LeafFieldSelections S d = true
      ∨ violates_FragmentsOnCompositeTypes S d = true) := by
  rw [strict_stateless S d vars o _ (by decide), strict_stateless S d vars o _ (by decide),
    strict_stateless S d vars o _ (by decide), strict_stateless S d vars o _ (by decide),
    strict_stateless S d vars o _ (by decide)]
  exact rule_block S d hW.block (served_of S d hs) (hW.roots d) (docOK_selOK d hD)

/-- PossibleFragmentSpreads = §5.5.2.3 Fragment Spread Is Possible, on top of the block (the rule
    presupposes composite types on both sides, which is what the block rules establish); abstract
    types with at least one possible type -/
theorem c09_rule_possible_fragment_spreads (hW : SchemaWF S) (hA : AbstractInhabited S) (hD : docOK d = true)
    (hs : violates_OperationTypeExists S d = false) :
    ((Kind.unknownField ∈ strictErrors S {} d vars o ∨ Kind.leafWithSel ∈ strictErrors S {} d vars o
      ∨ Kind.compositeNoSel ∈ strictErrors S {} d vars o ∨ Kind.fragNonComposite ∈ strictErrors S {} d vars o
      ∨ Kind.inlineNonComposite ∈ strictErrors S {} d vars o)
      ∨ (Kind.spreadImpossible ∈ strictErrors S {} d vars o ∨ Kind.inlineImpossible ∈ strictErrors S {} d vars o)) ↔
    ((violates_FieldSelections S d = true ∨ violates_LeafFieldSelections S d = true
      ∨ violates_FragmentsOnCompositeTypes S d = true) ∨ violates_FragmentSpreadIsPossible S d = true) := by
  rw [strict_stateless S d vars o _ (by decide), strict_stateless S d vars o _ (by decide),
    strict_stateless S d vars o _ (by decide), strict_stateless S d vars o _ (by decide),
    strict_stateless S d vars o _ (by decide), strict_stateless S d vars o _ (by decide),
    strict_stateless S d vars o _ (by decide)]
  exact rule_block_spreads S d hW.block hA (served_of S d hs) (hW.roots d) (docOK_selOK d hD)

-- the rules proved so far, on both sides

/-- message kinds of the rules proved above -/
def provedKinds : List Model.Validate.Kind :=
  [.notConfigured, .unknownFragment, .dupVar, .dupArg, .unknownDirective, .dirMisplaced, .dupDirective, .unknownType,
   .unknownTypeDefault, .varNonInput, .upload]
def provedPre : List PreKind := [.dupOperation, .multipleAnonymous, .dupFragment]
/-- the reference rules they correspond to -/
def provedRules : List String :=
  ["5.2.1.1 Operation Name Uniqueness", "5.2.2.1 Lone Anonymous Operation", "5.5.1.1 Fragment Name Uniqueness",
   "operation type not served", "5.5.2.1 Fragment Spread Target Defined", "5.8.1 Variable Uniqueness",
   "5.4.2 Argument Uniqueness", "5.7.1 Directives Are Defined", "5.7.2 Directives Are In Valid Locations",
   "5.7.3 Directives Are Unique Per Location", "5.5.1.2 Fragment Spread Type Existence", "5.8.2 Variables Are Input Types",
   "async-graphql: Upload only in mutations"]

/-- PARTIAL c09: restricted to the rules proved (8 rule structs of `check_rules`, the walker's own
    report and the parser's three uniqueness checks on one side, 13 reference rules on the other),
    the repaired pipeline rejects exactly the invalid requests — for every schema, document,
    variables and operation name, no hypotheses. -/
theorem c09_partial :
    ((∃ k ∈ preErrors d, k ∈ provedPre) ∨ (∃ k ∈ strictErrors S {} d vars o, k ∈ provedKinds)) ↔
      (∃ r ∈ violations {} S d vars o, r ∈ provedRules) := by
  have hV : (∃ r ∈ violations {} S d vars o, r ∈ provedRules) ↔
      (violates_OperationNameUniqueness d = true ∨ violates_LoneAnonymousOperation d = true
        ∨ violates_FragmentNameUniqueness d = true ∨ violates_OperationTypeExists S d = true
        ∨ violates_FragmentSpreadTargetDefined d = true ∨ violates_VariableUniqueness d = true
        ∨ violates_ArgumentUniqueness S d = true ∨ violates_DirectivesAreDefined S d = true
        ∨ violates_DirectivesInValidLocations S d = true ∨ violates_DirectivesUniquePerLocation S d = true
        ∨ violates_FragmentSpreadTypeExistence S d = true ∨ violates_VariablesAreInputTypes S d = true
        ∨ violates_UploadOnlyInMutations {} d = true) := by
    constructor
    · rintro ⟨r, hr, hp⟩
      rw [mem_violations] at hr
      simp only [provedRules, List.mem_cons, List.not_mem_nil, or_false] at hp
      rcases hp with rfl | rfl | rfl | rfl | rfl | rfl | rfl | rfl | rfl | rfl | rfl | rfl | rfl <;> simp at hr <;> simp [hr]
    · intro h
      rcases h with h | h | h | h | h | h | h | h | h | h | h | h | h
      · exact ⟨"5.2.1.1 Operation Name Uniqueness", (mem_violations ..).mpr (by simp [h]), by decide⟩
      · exact ⟨"5.2.2.1 Lone Anonymous Operation", (mem_violations ..).mpr (by simp [h]), by decide⟩
      · exact ⟨"5.5.1.1 Fragment Name Uniqueness", (mem_violations ..).mpr (by simp [h]), by decide⟩
      · exact ⟨"operation type not served", (mem_violations ..).mpr (by simp [h]), by decide⟩
      · exact ⟨"5.5.2.1 Fragment Spread Target Defined", (mem_violations ..).mpr (by simp [h]), by decide⟩
      · exact ⟨"5.8.1 Variable Uniqueness", (mem_violations ..).mpr (by simp [h]), by decide⟩
      · exact ⟨"5.4.2 Argument Uniqueness", (mem_violations ..).mpr (by simp [h]), by decide⟩
      · exact ⟨"5.7.1 Directives Are Defined", (mem_violations ..).mpr (by simp [h]), by decide⟩
      · exact ⟨"5.7.2 Directives Are In Valid Locations", (mem_violations ..).mpr (by simp [h]), by decide⟩
      · exact ⟨"5.7.3 Directives Are Unique Per Location", (mem_violations ..).mpr (by simp [h]), by decide⟩
      · exact ⟨"5.5.1.2 Fragment Spread Type Existence", (mem_violations ..).mpr (by simp [h]), by decide⟩
      · exact ⟨"5.8.2 Variables Are Input Types", (mem_violations ..).mpr (by simp [h]), by decide⟩
      · exact ⟨"async-graphql: Upload only in mutations", (mem_violations ..).mpr (by simp [h]), by decide⟩
  rw [hV]
  have hpre := c09_rule_pre_checks d
  by_cases hOT : violates_OperationTypeExists S d = true
  · -- an unserved operation: both sides hold
    constructor
    · intro _; exact Or.inr (Or.inr (Or.inr (Or.inl hOT)))
    · intro _; exact Or.inr ⟨.notConfigured, (c09_rule_not_configured S d vars o).mpr hOT, by decide⟩
  · have hs : violates_OperationTypeExists S d = false := by simpa using hOT
    have hvt : (∃ op ∈ d.ops, ∃ v ∈ op.vars, S.exists? v.ty.base = false) → violates_VariablesAreInputTypes S d = true :=
      fun h => (c09_rule_variables_are_input_types S d vars o hs).mp (Or.inr h)
    constructor
    · rintro (⟨k, hk, hp⟩ | ⟨k, hk, hp⟩)
      · simp only [provedPre, List.mem_cons, List.not_mem_nil, or_false] at hp
        rcases hp with rfl | rfl | rfl
        · exact Or.inl (hpre.1.mp hk)
        · exact Or.inr (Or.inl (hpre.2.1.mp hk).2)
        · exact Or.inr (Or.inr (Or.inl (hpre.2.2.mp hk).2.2))
      · simp only [provedKinds, List.mem_cons, List.not_mem_nil, or_false] at hp
        rcases hp with rfl | rfl | rfl | rfl | rfl | rfl | rfl | rfl | rfl | rfl | rfl
        · exact absurd ((c09_rule_not_configured S d vars o).mp hk) hOT
        · exact Or.inr (Or.inr (Or.inr (Or.inr (Or.inl ((c09_rule_known_fragment_names S d vars o hs).mp hk)))))
        · exact Or.inr (Or.inr (Or.inr (Or.inr (Or.inr (Or.inl ((c09_rule_unique_variable_names S d vars o hs).mp hk))))))
        · exact Or.inr (Or.inr (Or.inr (Or.inr (Or.inr (Or.inr (Or.inl ((c09_rule_unique_argument_names S d vars o hs).mp hk)))))))
        · exact Or.inr (Or.inr (Or.inr (Or.inr (Or.inr (Or.inr (Or.inr (Or.inl ((c09_rule_known_directives S d vars o hs).1.mp hk))))))))
        · exact Or.inr (Or.inr (Or.inr (Or.inr (Or.inr (Or.inr (Or.inr (Or.inr (Or.inl ((c09_rule_known_directives S d vars o hs).2.mp hk)))))))))
        · exact Or.inr (Or.inr (Or.inr (Or.inr (Or.inr (Or.inr (Or.inr (Or.inr (Or.inr (Or.inl ((c09_rule_directives_unique S d vars o hs).mp hk))))))))))
        · rcases (c09_rule_known_type_names S d vars o hs).mp hk with h | h
          · exact Or.inr (Or.inr (Or.inr (Or.inr (Or.inr (Or.inr (Or.inr (Or.inr (Or.inr (Or.inr (Or.inl h))))))))))
          · exact Or.inr (Or.inr (Or.inr (Or.inr (Or.inr (Or.inr (Or.inr (Or.inr (Or.inr (Or.inr (Or.inr (Or.inl (hvt h))))))))))))
        · have h := unknownTypeDefault_imp S d (served_of S d hs) ((strict_stateless S d vars o _ (by decide)).mp hk)
          exact Or.inr (Or.inr (Or.inr (Or.inr (Or.inr (Or.inr (Or.inr (Or.inr (Or.inr (Or.inr (Or.inr (Or.inl (hvt h))))))))))))
        · have h := (c09_rule_variables_are_input_types S d vars o hs).mp (Or.inl hk)
          exact Or.inr (Or.inr (Or.inr (Or.inr (Or.inr (Or.inr (Or.inr (Or.inr (Or.inr (Or.inr (Or.inr (Or.inl h)))))))))))
        · have h := ((c09_rule_upload_file S d vars o).mp hk).2
          exact Or.inr (Or.inr (Or.inr (Or.inr (Or.inr (Or.inr (Or.inr (Or.inr (Or.inr (Or.inr (Or.inr (Or.inr h)))))))))))
    · intro h
      have strict : ∀ k, k ∈ strictErrors S {} d vars o → k ∈ provedKinds →
          (∃ k ∈ preErrors d, k ∈ provedPre) ∨ (∃ k ∈ strictErrors S {} d vars o, k ∈ provedKinds) :=
        fun k hk hp => Or.inr ⟨k, hk, hp⟩
      have unknownTy : (∃ op ∈ d.ops, ∃ v ∈ op.vars, S.exists? v.ty.base = false) →
          (∃ k ∈ preErrors d, k ∈ provedPre) ∨ (∃ k ∈ strictErrors S {} d vars o, k ∈ provedKinds) :=
        fun h => strict _ ((c09_rule_known_type_names S d vars o hs).mpr (Or.inr h)) (by decide)
      rcases h with h | h | h | h | h | h | h | h | h | h | h | h | h
      · exact Or.inl ⟨_, hpre.1.mpr h, by simp [provedPre]⟩
      · cases h1 : violates_OperationNameUniqueness d
        · exact Or.inl ⟨_, hpre.2.1.mpr ⟨h1, h⟩, by simp [provedPre]⟩
        · exact Or.inl ⟨_, hpre.1.mpr h1, by simp [provedPre]⟩
      · cases h1 : violates_OperationNameUniqueness d
        · cases h2 : violates_LoneAnonymousOperation d
          · exact Or.inl ⟨_, hpre.2.2.mpr ⟨h1, h2, h⟩, by simp [provedPre]⟩
          · exact Or.inl ⟨_, hpre.2.1.mpr ⟨h1, h2⟩, by simp [provedPre]⟩
        · exact Or.inl ⟨_, hpre.1.mpr h1, by simp [provedPre]⟩
      · exact absurd h hOT
      · exact strict _ ((c09_rule_known_fragment_names S d vars o hs).mpr h) (by decide)
      · exact strict _ ((c09_rule_unique_variable_names S d vars o hs).mpr h) (by decide)
      · exact strict _ ((c09_rule_unique_argument_names S d vars o hs).mpr h) (by decide)
      · exact strict _ ((c09_rule_known_directives S d vars o hs).1.mpr h) (by decide)
      · exact strict _ ((c09_rule_known_directives S d vars o hs).2.mpr h) (by decide)
      · exact strict _ ((c09_rule_directives_unique S d vars o hs).mpr h) (by decide)
      · exact strict _ ((c09_rule_known_type_names S d vars o hs).mpr (Or.inl h)) (by decide)
      · rcases (c09_rule_variables_are_input_types S d vars o hs).mpr h with h | h
        · exact strict _ h (by decide)
        · exact unknownTy h
      · cases hU : S.exists? "Upload"
        · apply unknownTy
          simp only [violates_UploadOnlyInMutations, Bool.and_eq_true, List.any_eq_true, decide_eq_true_eq] at h
          obtain ⟨_, op, hop, _, v, hv, hb⟩ := h
          exact ⟨op, hop, v, hv, hb ▸ hU⟩
        · exact strict _ ((c09_rule_upload_file S d vars o).mpr ⟨hU, h⟩) (by decide)

/-- the kinds and reference rules added by the type-dependent theorems -/
def typedKinds : List Model.Validate.Kind :=
  [.fieldArgMissing, .dirArgMissing, .unknownField, .leafWithSel, .compositeNoSel, .fragNonComposite, .inlineNonComposite,
   .spreadImpossible, .inlineImpossible]
def typedRules : List String :=
  ["5.4.2.1 Required Arguments", "5.3.1 Field Selections", "5.3.3 Leaf Field Selections", "5.5.1.3 Fragments On Composite Types",
   "5.5.2.3 Fragment Spread Is Possible"]

/-- PARTIAL c09, second stage: for well-formed registries and documents without sub-selections
    below `__typename`, the equivalence extends to 13 of the 22 rule
    structs (+ walker + parser checks) against 18 of the 28 reference rules. -/
theorem c09_partial_typed (hW : SchemaWF S) (hA : AbstractInhabited S) (hD : docOK d = true) :
    ((∃ k ∈ preErrors d, k ∈ provedPre) ∨ (∃ k ∈ strictErrors S {} d vars o, k ∈ provedKinds ++ typedKinds)) ↔
      (∃ r ∈ violations {} S d vars o, r ∈ provedRules ++ typedRules) := by
  have h0 := c09_partial S d vars o
  by_cases hOT : violates_OperationTypeExists S d = true
  · constructor
    · intro _
      exact ⟨"operation type not served", (mem_violations ..).mpr (by simp [hOT]), by decide⟩
    · intro _
      exact Or.inr ⟨.notConfigured, (c09_rule_not_configured S d vars o).mpr hOT, by decide⟩
  · have hs : violates_OperationTypeExists S d = false := by simpa using hOT
    have hA1 := c09_rule_provided_non_null_arguments S d vars o hW hs
    have hB1 := c09_rule_possible_fragment_spreads S d vars o hW hA hD hs
    have hK : (∃ k ∈ strictErrors S {} d vars o, k ∈ typedKinds) ↔
        (violates_RequiredArguments S d = true ∨ ((violates_FieldSelections S d = true ∨ violates_LeafFieldSelections S d = true
          ∨ violates_FragmentsOnCompositeTypes S d = true) ∨ violates_FragmentSpreadIsPossible S d = true)) := by
      rw [← hA1, ← hB1]
      simp only [typedKinds, List.mem_cons, List.not_mem_nil, or_false]
      constructor
      · rintro ⟨k, hk, (rfl | rfl | rfl | rfl | rfl | rfl | rfl | rfl | rfl)⟩
        · exact Or.inl (Or.inl hk)
        · exact Or.inl (Or.inr hk)
        · exact Or.inr (Or.inl (Or.inl hk))
        · exact Or.inr (Or.inl (Or.inr (Or.inl hk)))
        · exact Or.inr (Or.inl (Or.inr (Or.inr (Or.inl hk))))
        · exact Or.inr (Or.inl (Or.inr (Or.inr (Or.inr (Or.inl hk)))))
        · exact Or.inr (Or.inl (Or.inr (Or.inr (Or.inr (Or.inr hk)))))
        · exact Or.inr (Or.inr (Or.inl hk))
        · exact Or.inr (Or.inr (Or.inr hk))
      · rintro ((h | h) | ((h | h | h | h | h) | (h | h)))
        · exact ⟨_, h, Or.inl rfl⟩
        · exact ⟨_, h, Or.inr (Or.inl rfl)⟩
        · exact ⟨_, h, Or.inr (Or.inr (Or.inl rfl))⟩
        · exact ⟨_, h, Or.inr (Or.inr (Or.inr (Or.inl rfl)))⟩
        · exact ⟨_, h, Or.inr (Or.inr (Or.inr (Or.inr (Or.inl rfl))))⟩
        · exact ⟨_, h, Or.inr (Or.inr (Or.inr (Or.inr (Or.inr (Or.inl rfl)))))⟩
        · exact ⟨_, h, Or.inr (Or.inr (Or.inr (Or.inr (Or.inr (Or.inr (Or.inl rfl))))))⟩
        · exact ⟨_, h, Or.inr (Or.inr (Or.inr (Or.inr (Or.inr (Or.inr (Or.inr (Or.inl rfl)))))))⟩
        · exact ⟨_, h, Or.inr (Or.inr (Or.inr (Or.inr (Or.inr (Or.inr (Or.inr (Or.inr rfl)))))))⟩
    have hR : (∃ r ∈ violations {} S d vars o, r ∈ typedRules) ↔
        (violates_RequiredArguments S d = true ∨ ((violates_FieldSelections S d = true ∨ violates_LeafFieldSelections S d = true
          ∨ violates_FragmentsOnCompositeTypes S d = true) ∨ violates_FragmentSpreadIsPossible S d = true)) := by
      constructor
      · rintro ⟨r, hr, hp⟩
        rw [mem_violations] at hr
        simp only [typedRules, List.mem_cons, List.not_mem_nil, or_false] at hp
        rcases hp with rfl | rfl | rfl | rfl | rfl <;> simp at hr <;> simp [hr]
      · rintro (h | ((h | h | h) | h))
        · exact ⟨"5.4.2.1 Required Arguments", (mem_violations ..).mpr (by simp [h]), by decide⟩
        · exact ⟨"5.3.1 Field Selections", (mem_violations ..).mpr (by simp [h]), by decide⟩
        · exact ⟨"5.3.3 Leaf Field Selections", (mem_violations ..).mpr (by simp [h]), by decide⟩
        · exact ⟨"5.5.1.3 Fragments On Composite Types", (mem_violations ..).mpr (by simp [h]), by decide⟩
        · exact ⟨"5.5.2.3 Fragment Spread Is Possible", (mem_violations ..).mpr (by simp [h]), by decide⟩
    have split1 : (∃ k ∈ strictErrors S {} d vars o, k ∈ provedKinds ++ typedKinds) ↔
        ((∃ k ∈ strictErrors S {} d vars o, k ∈ provedKinds) ∨ (∃ k ∈ strictErrors S {} d vars o, k ∈ typedKinds)) := by
      simp only [List.mem_append]
      constructor
      · rintro ⟨k, hk, h | h⟩
        · exact Or.inl ⟨k, hk, h⟩
        · exact Or.inr ⟨k, hk, h⟩
      · rintro (⟨k, hk, h⟩ | ⟨k, hk, h⟩)
        · exact ⟨k, hk, Or.inl h⟩
        · exact ⟨k, hk, Or.inr h⟩
    have split2 : (∃ r ∈ violations {} S d vars o, r ∈ provedRules ++ typedRules) ↔
        ((∃ r ∈ violations {} S d vars o, r ∈ provedRules) ∨ (∃ r ∈ violations {} S d vars o, r ∈ typedRules)) := by
      simp only [List.mem_append]
      constructor
      · rintro ⟨k, hk, h | h⟩
        · exact Or.inl ⟨k, hk, h⟩
        · exact Or.inr ⟨k, hk, h⟩
      · rintro (⟨k, hk, h⟩ | ⟨k, hk, h⟩)
        · exact ⟨k, hk, Or.inl h⟩
        · exact ⟨k, hk, Or.inr h⟩
    rw [split1, split2, ← or_assoc, h0, hK, hR]

end rules

/-- the hypothesis of the per-rule theorems holds of the non-trivial valid example, and of documents the rules fire on -/
example : Spec.Validate.violates_OperationTypeExists S0 dValid = false ∧ Spec.Validate.violates_OperationTypeExists S0 dTypename = false
    ∧ Spec.Validate.violates_OperationTypeExists S0 dSub = false := by decide

open AGV.Lemmas.ValidateRules in
/-- the witness schema is a well-formed registry -/
theorem c09_witness_schema_wellformed : SchemaWF S0 where
  stringNotComposite := by decide
  noTypenameField := by decide
  fieldsOutput := by decide
  rootsComposite := by intro t r h; cases t <;> simp [rootOf, S0] at h <;> subst h <;> decide
  flags := by decide

open AGV.Lemmas.ValidateRules in
/-- the hypotheses of the type-dependent theorems hold of the non-trivial valid example and of the
    documents of the witnesses (`dOverlap`: inline fragments below a union) -/
example : docOK dValid = true ∧ docOK dOverlap = true ∧ docOK dVarPos = true := by decide

open AGV.Lemmas.ValidateRules in
/-- the union of the witness schema has possible types -/
theorem c09_witness_schema_abstract_inhabited : AbstractInhabited S0 := by
  unfold AbstractInhabited; decide

-- ------------------------------------------------------------------ the two original open statements are false

/-- the property as first stated: the repaired pipeline rejects exactly the invalid requests -/
def c09 : Prop :=
  ∀ (S : VSchema) (d : Doc) (vars : List (String × GValue)) (o : Option String),
    (checkRules S {} d vars o).isRejected = true ↔ ¬ Spec.Validate.Valid {} S d vars o

/-- per-rule equivalences as first stated (no hypothesis on the operations' root types) -/
def c09_rule_equivalences : Prop :=
  ∀ (S : VSchema) (d : Doc),
    ((events S {} d).any (fun e => (stateless S {} d e).contains .unknownFragment) = Spec.Validate.violates_FragmentSpreadTargetDefined d)
    ∧ ((ruleUniqueVars [] (events S {} d)).isEmpty = !Spec.Validate.violates_VariableUniqueness d)

def namedOp (n : String) (vars : List VarDef) (sels : List Sel) : OpDef := { ty := .query, name := some n, vars := vars, dirs := [], sels := sels }

/-- `query A($v: Int){ def(x: $v) }  query B { pet { __typename } }`, variables `{"v": "bad"}`, no
    operation name: the pinned `ArgumentsOfCorrectType` substitutes the supplied variables into EVERY
    operation that is not deselected by name and reports the string; the reference validator coerces
    the variables of the selected operation only, and none is selected.  One more witness of
    `argsJudgedAfterSubstitution`: the repaired rule judges the argument as written. -/
def dTwoOps : Doc :=
  { ops := [namedOp "A" [{ name := "v", ty := .named "Int", default := none }] [fld "def" [("x", .var "v")]],
            namedOp "B" [] [fld "pet" [] [fld "__typename"]]], frags := [] }

theorem c09_witness_two_operations :
    rejects { argsJudgedAfterSubstitution := true } dTwoOps [("v", .str "bad")] = true
    ∧ rejects {} dTwoOps [("v", .str "bad")] = false ∧ specInvalid dTwoOps [("v", .str "bad")] = false := by
  decide +kernel

/-- a schema with a user-defined directive called `ifdef` on fields -/
def Sifdef : VSchema := { S0 with dirs := S0.dirs ++ [{ name := "ifdef", repeatable := false, locs := ["FIELD"], args := [] }] }
/-- `{ nope @ifdef }`: the pinned `FieldsOnCorrectType` skips every field carrying a directive NAMED
    `ifdef` (src/validation/rules/fields_on_correct_type.rs:28-32), so an unknown field is accepted
    when the schema registers a directive of that name -/
def dIfdef : Doc := q [] [fld "nope" [] [] none [{ name := "ifdef", args := [] }]]

/-- witness of `ifdefSkipsUnknownField`: the pinned model accepts, the repaired model rejects,
    and the reference validator reports exactly §5.3.1 -/
theorem c09_witness_ifdef :
    (checkRules Sifdef { ifdefSkipsUnknownField := true } dIfdef [] none).isRejected = false
    ∧ (checkRules Sifdef {} dIfdef [] none).isRejected = true
    ∧ Spec.Validate.violations {} Sifdef dIfdef [] none = ["5.3.1 Field Selections"] := by
  decide +kernel

/-- the same document with a KNOWN field is valid for everybody: the directive itself is legal -/
example :
    (checkRules Sifdef { ifdefSkipsUnknownField := true } (q [] [fld "pet" [] [fld "__typename"] none [{ name := "ifdef", args := [] }]]) [] none).isRejected = false
    ∧ Spec.Validate.violations {} Sifdef (q [] [fld "pet" [] [fld "__typename"] none [{ name := "ifdef", args := [] }]]) [] none = [] := by
  decide +kernel

/-- `query($c: Color! = "RED"){ color(c: $c) }`: a default value is a literal of the document, so
    §5.6.1 wants an enum token; the repaired model (`is_valid_input_value` on the default) and the
    reference validator refuse the string, the pinned `is_valid_input_value` takes it -/
def dEnumDefault : Doc := q [{ name := "c", ty := .nonNull (.named "Color"), default := some (.str "RED") }] [fld "color" [("c", .var "c")]]

theorem c09_witness_enum_default :
    rejects { enumAcceptsString := true } dEnumDefault = false ∧ rejects {} dEnumDefault = true
    ∧ specInvalid dEnumDefault = true := by
  decide +kernel

/-- The reference validator on enum-typed defaults, for every schema and every default: a string or
    any other non-enum, non-null constant is refused, an enum token is accepted exactly when it is a
    value of the type — while the SAME string supplied as a variable VALUE coerces (§3.9 input
    coercion of enums takes the name as a string in the transport format). -/
theorem c09_default_literal_enum (S : VSchema) (n : String) (td : TypeDef)
    (ht : Spec.Validate.tyDef S n = some td) (hk : td.kind = .enum) (e : String) :
    Spec.Validate.litOk S Spec.Validate.valueFuel (.named n) (Spec.Validate.litOf (.str e)) = false
    ∧ Spec.Validate.litOk S Spec.Validate.valueFuel (.named n) (Spec.Validate.litOf (.enum e)) = td.values.contains e
    ∧ Spec.Validate.coerceOk S Spec.Validate.valueFuel (.named n) (.str e) = td.values.contains e := by
  have hkind : Spec.Validate.kindIs S n .enum = true := by simp [Spec.Validate.kindIs, ht, hk]
  refine ⟨?_, ?_, ?_⟩ <;>
    simp [Spec.Validate.litOk, Spec.Validate.coerceOk, Spec.Validate.litOf, Spec.Validate.valueFuel, hkind, ht]

/-- `mutation($a: Int, $a: Int){ ...Nope }` against a schema without a mutation type: the walker
    reports "not configured" and does not descend, so neither rule sees the operation -/
def dUnserved : Doc :=
  { ops := [{ ty := .mutation, name := none, vars := [{ name := "a", ty := .named "Int", default := none }, { name := "a", ty := .named "Int", default := none }],
              dirs := [], sels := [.spread "Nope" [] p0] }], frags := [] }

/-- `c09_rule_equivalences` is FALSE of the model: both conjuncts fail on an operation whose root
    type the schema does not have. -/
theorem c09_rule_equivalences_refuted : ¬ c09_rule_equivalences := by
  intro h
  have h1 := (h S0 dUnserved).1
  revert h1
  decide +kernel

section
open AGV.Lemmas.ValidateRules AGV.Lemmas.ValidateWalk

/-- the corrected statement: the two equivalences hold for every schema and every document all
    of whose operations have a root type in the schema -/
theorem c09_rule_equivalences_served (S : VSchema) (d : Doc) (hs : Spec.Validate.violates_OperationTypeExists S d = false) :
    ((events S {} d).any (fun e => (stateless S {} d e).contains .unknownFragment) = Spec.Validate.violates_FragmentSpreadTargetDefined d)
    ∧ ((ruleUniqueVars [] (events S {} d)).isEmpty = !Spec.Validate.violates_VariableUniqueness d) := by
  have hS := served_of S d hs
  constructor
  · rw [Bool.eq_iff_iff, ← rule_known_fragment_names S d hS]
    simp [List.mem_flatMap]
  · have h := rule_unique_variable_names S d hS
    cases hv : Spec.Validate.violates_VariableUniqueness d
    · simp only [Bool.not_false, List.isEmpty_iff]
      apply List.eq_nil_iff_forall_not_mem.mpr
      intro k hk
      simpa [hv] using (h k).mp hk
    · simp only [Bool.not_true, List.isEmpty_eq_false_iff]
      intro hnil
      have := (h .dupVar).mpr ⟨rfl, hv⟩
      simp [hnil] at this
end

-- ------------------------------------------------------------------ OPEN

/-- what the counterexample and the per-rule analysis show must be excluded -/
structure C09Hyp (S : VSchema) (d : Doc) (vars : List (String × GValue)) (o : Option String) : Prop where
  /-- the request selects an operation (else `ArgumentsOfCorrectType` judges the variables of all of them) -/
  selected : (Spec.Validate.selectedOp d o).isSome = true
  /-- defaults of variable definitions: `is_valid_input_value` and §5.6.1 agree on them (the
      implementation does not look for repeated input-object field names) -/
  defaults : ∀ op ∈ d.ops, ∀ v ∈ op.vars, ∀ dv, v.default = some dv →
    validInput S {} valueFuel v.ty dv = Spec.Validate.litOk S Spec.Validate.valueFuel v.ty (Spec.Validate.litOf dv)
  /-- registry well-formedness: root types are object types of the schema -/
  roots : ∀ t r, Spec.Validate.rootType S t = some r → Spec.Validate.kindIs S r .object = true
  /-- field types exist and are output types; `String` is a scalar -/
  fields : ∀ t ∈ S.base.types, ∀ f ∈ t.fields, S.exists? f.ty.base = true ∧ Spec.Validate.kindIs S f.ty.base .input = false
  string : Spec.Validate.kindIs S "String" .scalar = true
  /-- every input-object type has its definition in `inputs`, and members of abstract types are object types -/
  inputs : ∀ t ∈ S.base.types, t.kind = .input → (S.input? t.name).isSome = true
  members : ∀ t ∈ S.base.types, ∀ m ∈ t.members, Spec.Validate.kindIs S m .object = true

/-- the corrected form of `c09` as first conjectured.  FALSE of the model (`c09_corrected_refuted`):
    the exclusions of `C09Hyp` are not enough; `c09_corrected_wf` is the statement that holds. -/
def c09_corrected : Prop :=
  ∀ (S : VSchema) (d : Doc) (vars : List (String × GValue)) (o : Option String), C09Hyp S d vars o →
    ((checkRules S {} d vars o).isRejected = true ↔ ¬ Spec.Validate.Valid {} S d vars o)

/-- the exclusions are satisfiable: the witness schema with the non-trivial valid example -/
example : C09Hyp S0 dValid [("v", .int 1), ("b", .bool true)] none where
  selected := by decide
  defaults := by simp [dValid, q]
  roots := by intro t r h; cases t <;> simp [Spec.Validate.rootType, S0] at h <;> subst h <;> decide
  fields := by decide
  string := by decide
  inputs := by decide
  members := by decide

-- ------------------------------------------------------------------ the remaining rules

section rules2
open AGV.Lemmas.ValidateRules AGV.Lemmas.ValidateWalk AGV.Lemmas.ValidateGraph AGV.Lemmas.ValidateSpecNodes
open AGV.Spec.Validate
variable (S : VSchema) (d : Doc) (vars : List (String × GValue)) (o : Option String)

/-- what the graph rules presuppose, from the reference rules: §5.2.1.1, §5.2.2.1, §5.5.1.1 hold
    (the parser checks them before validation) and every operation has a root type -/
theorem graphHyp_of (h1 : violates_OperationNameUniqueness d = false) (h2 : violates_LoneAnonymousOperation d = false)
    (h3 : violates_FragmentNameUniqueness d = false) (hs : violates_OperationTypeExists S d = false) : GraphHyp S d :=
  ⟨h1, h2, h3, served_of S d hs⟩

/-- NoFragmentCycles = §5.5.2.2 Fragment Spreads Must Not Form Cycles -/
theorem c09_rule_no_fragment_cycles (hG : GraphHyp S d) :
    Kind.cycle ∈ strictErrors S {} d vars o ↔ violates_FragmentSpreadsMustNotFormCycles d = true := by
  rw [strict_cycle, scopeTable_events S d hG.nodup, rule_no_fragment_cycles S d hG]; simp

/-- NoUnusedFragments = §5.5.1.4 Fragments Must Be Used -/
theorem c09_rule_no_unused_fragments (hG : GraphHyp S d) :
    Kind.unusedFragment ∈ strictErrors S {} d vars o ↔ violates_FragmentsMustBeUsed d = true := by
  rw [strict_unusedFragment, scopeTable_events S d hG.nodup, rule_no_unused_fragments S d hG]; simp

/-- NoUndefinedVariables = §5.8.3 All Variable Uses Defined -/
theorem c09_rule_no_undefined_variables (hG : GraphHyp S d) :
    (Kind.undefVarOp ∈ strictErrors S {} d vars o ∨ Kind.undefVar ∈ strictErrors S {} d vars o) ↔
      violates_AllVariableUsesDefined d = true := by
  rw [strict_undefVar S d vars o _ (Or.inl rfl), strict_undefVar S d vars o _ (Or.inr rfl), scopeTable_events S d hG.nodup,
    ← rule_no_undefined_variables S d hG]
  constructor
  · rintro (h | h)
    · exact ⟨_, h, Or.inl rfl⟩
    · exact ⟨_, h, Or.inr rfl⟩
  · rintro ⟨k, hk, rfl | rfl⟩
    · exact Or.inl hk
    · exact Or.inr hk

/-- NoUnusedVariables = §5.8.4 All Variables Used -/
theorem c09_rule_no_unused_variables (hG : GraphHyp S d) :
    (Kind.unusedVarOp ∈ strictErrors S {} d vars o ∨ Kind.unusedVar ∈ strictErrors S {} d vars o) ↔
      violates_AllVariablesUsed d = true := by
  rw [strict_unusedVar S d vars o _ (Or.inl rfl), strict_unusedVar S d vars o _ (Or.inr rfl), scopeTable_events S d hG.nodup,
    ← rule_no_unused_variables S d hG]
  constructor
  · rintro (h | h)
    · exact ⟨_, h, Or.inl rfl⟩
    · exact ⟨_, h, Or.inr rfl⟩
  · rintro ⟨k, hk, rfl | rfl⟩
    · exact Or.inl hk
    · exact Or.inr hk

/-- the recursion guard that runs before validation fires only on a fragment cycle (§5.5.2.2) -/
theorem c09_rule_recursion_guard (h : PreKind.recursionDepth ∈ preErrors d) :
    violates_FragmentSpreadsMustNotFormCycles d = true := pre_recursionDepth d h

/-- VariableInAllowedPosition = §5.8.5 All Variable Usages Are Allowed (well-formed registry; the
    repaired rule does not count the literal `null` as a default, see `c09_witness_null_default`) -/
theorem c09_rule_variables_in_allowed_position (hG : GraphHyp S d) (hW : SchemaWF S) :
    Kind.varPosition ∈ strictErrors S {} d vars o ↔ violates_AllVariableUsagesAllowed S d = true := by
  rw [strict_varPosition, scopeTable_events S d hG.nodup]
  exact rule_variables_in_allowed_position S d hG hW.block.typed (hW.roots d).exist

/-- KnownArgumentNames = §5.4.1 Argument Names (the repaired rule resets `current_args` at a field the
    parent type does not have and knows `__typename`, see `c09_witness_typename_arguments`) -/
theorem c09_rule_known_argument_names (hW : SchemaWF S) (hs : violates_OperationTypeExists S d = false) :
    (Kind.unknownArgField ∈ strictErrors S {} d vars o ∨ Kind.unknownArgDir ∈ strictErrors S {} d vars o) ↔
      violates_ArgumentNames S d = true := by
  rw [strict_knownArgs S d vars o _ (Or.inr rfl), strict_knownArgs S d vars o _ (Or.inl rfl)]
  exact rule_known_argument_names S d hW.block.typed hW.block.stringNotComposite (served_of S d hs) (hW.roots d).exist

/-- §5.6 Values Of Correct Type = its argument half or its default-value half -/
theorem c09_values_of_correct_type_split :
    violates_ValuesOfCorrectType S d = ((argSites S d).any (siteBadValue S) || d.ops.any (fun o => o.vars.any (varBadDefault S))) :=
  valuesOfCorrectType_eq S d

/-- DefaultValuesOfCorrectType = the default-value half of §5.6, up to variables of unknown type
    (reported by KnownTypeNames / §5.8.2), where `is_valid_input_value` and §5.6.1 agree on the defaults -/
theorem c09_rule_default_values (hs : violates_OperationTypeExists S d = false) (hD : DefaultsAgree S d) :
    (Kind.invalidDefault ∈ strictErrors S {} d vars o ∨ ∃ op ∈ d.ops, ∃ v ∈ op.vars, S.exists? v.ty.base = false) ↔
      (d.ops.any (fun o => o.vars.any (varBadDefault S)) = true ∨ ∃ op ∈ d.ops, ∃ v ∈ op.vars, S.exists? v.ty.base = false) := by
  rw [strict_stateless S d vars o _ (by decide)]
  exact rule_default_values S d (served_of S d hs) hD

/-- ArgumentsOfCorrectType = the argument half of §5.6 (the repaired rule judges the argument as
    written, a variable being acceptable anywhere, see `c09_witness_variable_in_list`), where
    `is_valid_input_value` over literals and §5.6.1 agree on the arguments that occur -/
theorem c09_rule_arguments_of_correct_type (hW : SchemaWF S) (hs : violates_OperationTypeExists S d = false)
    (hA : ArgLiteralsAgree S d) :
    Kind.argInvalid ∈ strictErrors S {} d vars o ↔ (argSites S d).any (siteBadValue S) = true := by
  rw [strict_argInvalid]
  exact rule_arguments_of_correct_type S d vars o hW.block.typed (served_of S d hs) (hW.roots d).exist hA

/-- the three reference rules the pinned tree has no (working) rule for are what a repaired
    implementation reports in addition: §5.3.2, §5.2.3.1, §6.1.2 -/
theorem c09_rule_repaired :
    Kind.repaired ∈ repairedErrors S {} d vars o ↔
      (violates_FieldSelectionMerging S d = true ∨ violates_SingleRootField d (closureFuel d) = true
        ∨ violates_VariableValues S d vars o = true) := by
  unfold repairedErrors
  simp only [List.mem_append]
  cases violates_FieldSelectionMerging S d <;> cases violates_SingleRootField d (closureFuel d)
    <;> cases violates_VariableValues S d vars o <;> simp

/-- OverlappingFieldsCanBeMerged is SOUND for §5.3.2 Field Selection Merging (the repaired rule files
    the fields of a condition-less inline fragment under the enclosing `on_type`, see
    `c09_witness_overlap_untyped_inline`); that it is not complete is the open finding
    C09-overlap-keyed-by-condition, and what a repaired implementation adds is `c09_rule_repaired` -/
theorem c09_rule_overlapping_fields_sound (hs : violates_OperationTypeExists S d = false)
    (k : Model.Validate.Kind)
    (hk : k = .conflictFields ∨ k = .conflictArgsLen ∨ k = .conflictArgsVal) (h : k ∈ strictErrors S {} d vars o) :
    violates_FieldSelectionMerging S d = true :=
  AGV.Lemmas.ValidateOverlap.overlap_sound S d (served_of S d hs) k ((strict_overlap S d vars o k hk).mp h)

end rules2

open AGV.Lemmas.ValidateRules AGV.Lemmas.ValidateWalk AGV.Lemmas.ValidateGraph AGV.Lemmas.ValidateSpecNodes

-- ------------------------------------------------------------------ the four rule defects found by the proof work

/-- the witness schema with one more field on `Dog` and two more on `Query` -/
def S1 : VSchema := { S0 with base := { S0.base with types := S0.base.types.map (fun t =>
  if t.name = "Dog" then { t with fields := t.fields ++ [{ name := "nick", ty := .named "String", args := [] }] }
  else if t.name = "Query" then { t with fields := t.fields ++ [
     { name := "petx", ty := .named "Pet", args := [{ name := "x", ty := .named "Int", default := none }] },
     { name := "lst", ty := .named "Int", args := [{ name := "xs", ty := .list (.named "Int"), default := none }] }] }
  else t) } }

def rejects1 (D : Defects) (d : Doc) (vars : List (String × GValue) := []) : Bool := (checkRules S1 D d vars none).isRejected
def violations1 (d : Doc) (vars : List (String × GValue) := []) : List String := Spec.Validate.violations {} S1 d vars none

/-- `{ pet { ... on Dog { ... { k: nick } } ... on Cat { ... { k: name } } } }`: both fields are of
    type `String` and can never apply to the same object, so §5.3.2 allows them; the pinned
    `OverlappingFieldsCanBeMerged` keys an inline fragment WITHOUT type condition by `None`, finds
    two different fields under (None, "k") and reports a conflict: a VALID document is rejected
    (finding C09-overlap-untyped-inline).  Repaired: the enclosing `on_type` is kept. -/
def dOverlapUntyped : Doc :=
  q [] [fld "pet" [] [.inline (some "Dog") [] [.inline none [] [fld "nick" [] [] (some "k")] p0] p0,
                      .inline (some "Cat") [] [.inline none [] [fld "name" [] [] (some "k")] p0] p0]]

theorem c09_witness_overlap_untyped_inline :
    rejects1 { overlapUntypedInlineKeyedNone := true } dOverlapUntyped = true
    ∧ Kind.conflictFields ∈ strictErrors S1 { overlapUntypedInlineKeyedNone := true } dOverlapUntyped [] none
    ∧ rejects1 {} dOverlapUntyped = false ∧ violations1 dOverlapUntyped = [] := by
  decide +kernel

/-- `query($v: Int = null){ n(x: $v) }` (x: Int!): IsVariableUsageAllowed does not count a `null`
    default, the pinned `VariableInAllowedPosition` counts every default (finding
    C09-null-default-counts, latent behind C09-input-value-not-forwarded: shown here with the
    forwarding repaired) -/
def dNullDefault : Doc := q [{ name := "v", ty := .named "Int", default := some .null }] [fld "n" [("x", .var "v")]]
theorem c09_witness_null_default :
    rejects1 { nullDefaultCounts := true } dNullDefault = false ∧ rejects1 {} dNullDefault = true
    ∧ violations1 dNullDefault = ["5.8.5 All Variable Usages Are Allowed"]
    ∧ rejects1 Defects.pinned dNullDefault = false := by
  decide +kernel

/-- `{ __typename(x: 1) }` and `{ petx(x: 1) { __typename(x: 1) } }`: the pinned `KnownArgumentNames`
    looks the field up with `field_by_name`, which does not know `__typename`, and keeps the
    `current_args` it has: none at the top level, those of `petx` below it (finding
    C09-known-args-stale, for `__typename` latent behind C09-typename-not-visited: shown here with the
    walk of `__typename` repaired); `{ petx(x: 1) { nope(y: 1) } }`: on the pinned tree the unknown
    argument `y` is reported against `petx` -/
def dTypenameArg : Doc := q [] [fld "__typename" [("x", .int 1)]]
def dStaleArgs : Doc := q [] [fld "petx" [("x", .int 1)] [fld "__typename" [("x", .int 1)]]]
def dStaleMessage : Doc := q [] [fld "petx" [("x", .int 1)] [fld "nope" [("y", .int 1)]]]
theorem c09_witness_typename_arguments :
    rejects1 { knownArgsStale := true } dTypenameArg = false ∧ rejects1 {} dTypenameArg = true
    ∧ violations1 dTypenameArg = ["5.4.1 Argument Names"]
    ∧ rejects1 { knownArgsStale := true } dStaleArgs = false ∧ rejects1 {} dStaleArgs = true
    ∧ violations1 dStaleArgs = ["5.4.1 Argument Names"]
    ∧ Kind.unknownArgField ∈ strictErrors S1 Defects.pinned dStaleMessage [] none
    ∧ Kind.unknownArgField ∉ strictErrors S1 { Defects.pinned with knownArgsStale := false } dStaleMessage [] none
    ∧ violations1 dStaleMessage = ["5.3.1 Field Selections"] := by
  decide +kernel

/-- `query($v: Int){ lst(xs: [$v, "bad"]) }` without a value for `$v`: the pinned
    `ArgumentsOfCorrectType` judges the argument after substituting the supplied variables and gives
    up when one is missing (finding C06-literal-unchecked-beside-unsupplied-variable, `also` C09);
    repaired, it judges the literal as written -/
def dVarInList : Doc := q [{ name := "v", ty := .named "Int", default := none }] [fld "lst" [("xs", .list [.var "v", .str "bad"])]]
theorem c09_witness_variable_in_list :
    rejects1 Defects.pinned dVarInList = false
    ∧ rejects1 { Defects.pinned with argsJudgedAfterSubstitution := false } dVarInList = true
    ∧ rejects1 {} dVarInList = true ∧ violations1 dVarInList = ["5.6 Values Of Correct Type"] := by
  decide +kernel

/-- `query($c: Color!){ color(c: $c) }` with `{"c": "RED"}`: a variable VALUE for an enum arrives as a
    string (§3.9 input coercion).  The pinned tree accepts it (it accepts strings for enums
    everywhere); a repair of `enumAcceptsString` ALONE, keeping the substitution, would judge the
    value by the rule for literals and refuse a valid request; the repaired model judges literals by
    §5.6.1 and variable values by §6.1.2, and accepts — while the string LITERAL stays refused -/
def dEnumVar : Doc := q [{ name := "c", ty := .nonNull (.named "Color"), default := none }] [fld "color" [("c", .var "c")]]
theorem c09_witness_enum_variable :
    rejects1 Defects.pinned dEnumVar [("c", .str "RED")] = false
    ∧ rejects1 { argsJudgedAfterSubstitution := true } dEnumVar [("c", .str "RED")] = true
    ∧ rejects1 {} dEnumVar [("c", .str "RED")] = false ∧ violations1 dEnumVar [("c", .str "RED")] = []
    ∧ rejects1 {} dEnumStr = true ∧ rejects1 {} dEnumVar [("c", .int 3)] = true := by
  decide +kernel

/-- what still separates the repaired model from the reference validator under `C09Hyp`: an object
    literal that repeats a key — `{ one(o: {a: 1, a: 2}) }` against an ordinary input object —
    passes `is_valid_input_value` (it looks every declared field up once), §5.6.3 forbids it -/
def S2 : VSchema := { S1 with inputs := [{ name := "One", oneof := false, fields := [{ name := "a", ty := .named "Int", default := none }] }] }
def dRepeatedKey : Doc := q [] [fld "one" [("o", .obj [("a", .int 1), ("a", .int 2)])]]
theorem c09_counterexample_repeated_key :
    (checkRules S2 {} dRepeatedKey [] none).isRejected = false
    ∧ Spec.Validate.violations {} S2 dRepeatedKey [] none = ["5.6 Values Of Correct Type"] := by
  decide +kernel

/-- `S2` with that document satisfies every exclusion of `C09Hyp` -/
theorem c09_counterexample_hyp : C09Hyp S2 dRepeatedKey [] none where
  selected := by decide
  defaults := by simp [dRepeatedKey, q]
  roots := by intro t r h; cases t <;> simp [Spec.Validate.rootType, S2, S1, S0] at h <;> subst h <;> decide
  fields := by decide
  string := by decide
  inputs := by decide
  members := by decide

/-- `c09_corrected` is FALSE of the model: `is_valid_input_value` does not look for repeated keys. -/
theorem c09_corrected_refuted : ¬ c09_corrected := by
  intro h
  have h1 := (h S2 dRepeatedKey [] none c09_counterexample_hyp).mpr (by
    unfold Spec.Validate.Valid
    rw [c09_counterexample_repeated_key.2]; simp)
  rw [c09_counterexample_repeated_key.1] at h1
  cases h1

/-- `c09` (no hypothesis at all) is FALSE of the model for the same reason. -/
theorem c09_refuted : ¬ c09 := by
  intro h
  have h1 := (h S2 dRepeatedKey [] none).mpr (by
    unfold Spec.Validate.Valid
    rw [c09_counterexample_repeated_key.2]; simp)
  rw [c09_counterexample_repeated_key.1] at h1
  cases h1

section final
open AGV.Lemmas.ValidateRules AGV.Lemmas.ValidateWalk AGV.Lemmas.ValidateGraph AGV.Lemmas.ValidateSpecNodes
open AGV.Spec.Validate
variable (S : VSchema) (d : Doc) (vars : List (String × GValue)) (o : Option String)

/-- the hypotheses under which every rule of the toggle-free model has been tied to its reference
    rule: a well-formed registry, no sub-selection below `__typename`, and agreement of
    `is_valid_input_value` with §5.6.1 on the values that occur.  Variables, inline fragments without
    type condition, `null` defaults, arguments at `__typename` and at unknown fields are all covered. -/
structure C09WF (S : VSchema) (d : Doc) : Prop where
  /-- well-formed registry -/
  schema : SchemaWF S
  abstract : AbstractInhabited S
  /-- no sub-selection at `__typename` -/
  typenameSels : docOK d = true
  /-- `is_valid_input_value` and §5.6.1 agree on the arguments (variables anywhere) and on the default
      values of the document (they do where no object literal repeats a key: `c09_literals_agree`) -/
  literals : ArgLiteralsAgree S d
  defaults : DefaultsAgree S d

theorem exists_of_ne_nil {α} (l : List α) (h : l ≠ []) : ∃ x, x ∈ l := by
  cases l with
  | nil => exact absurd rfl h
  | cons x xs => exact ⟨x, List.mem_cons_self⟩

theorem not_valid_of (r : String) (h : r ∈ violations {} S d vars o) : ¬ Valid {} S d vars o := by
  intro hv; unfold Valid at hv; rw [hv] at h; cases h

theorem rejected_of_strict (k : Model.Validate.Kind) (h : k ∈ strictErrors S {} d vars o) :
    (checkRules S {} d vars o).isRejected = true := by
  rw [c09_before_exec_pre]
  right; intro hnil
  have : k ∈ strictErrors S {} d vars o ++ repairedErrors S {} d vars o := List.mem_append_left _ h
  rw [hnil] at this; cases this

theorem rejected_of_repaired (k : Model.Validate.Kind) (h : k ∈ repairedErrors S {} d vars o) :
    (checkRules S {} d vars o).isRejected = true := by
  rw [c09_before_exec_pre]
  right; intro hnil
  have : k ∈ strictErrors S {} d vars o ++ repairedErrors S {} d vars o := List.mem_append_right _ h
  rw [hnil] at this; cases this

theorem rejected_of_pre (k : PreKind) (h : k ∈ preErrors d) : (checkRules S {} d vars o).isRejected = true := by
  rw [c09_before_exec_pre]
  left; intro hnil; rw [hnil] at h; cases h

theorem repaired_only (k : Model.Validate.Kind) (h : k ∈ repairedErrors S {} d vars o) : k = .repaired := by
  unfold repairedErrors at h
  simp only [List.mem_append] at h
  rcases h with (h | h) | h <;> (split at h <;> simp_all)

theorem stateless_rest (k : Model.Validate.Kind) (h1 : k ∈ statelessKinds) (h2 : k ∉ provedKinds ++ typedKinds) :
    k = .invalidDefault := by
  cases k <;> simp_all [statelessKinds, provedKinds, typedKinds]

/-- THE CORRECTED STATEMENT, PROVED: under `C09WF` the repaired pipeline (parser checks, recursion
    guard, the 22 rules of `check_rules` as implemented, plus the three missing reference rules)
    rejects exactly the requests the reference validator calls invalid — for every schema, document,
    variables and operation name. -/
theorem c09_corrected_wf (H : C09WF S d) :
    (checkRules S {} d vars o).isRejected = true ↔ ¬ Valid {} S d vars o := by
  have hT := c09_partial_typed S d vars o H.schema H.abstract H.typenameSels
  have toSpec : ((∃ k ∈ preErrors d, k ∈ provedPre) ∨ (∃ k ∈ strictErrors S {} d vars o, k ∈ provedKinds ++ typedKinds)) →
      ¬ Valid {} S d vars o := by
    intro h; obtain ⟨r, hr, _⟩ := hT.mp h; exact not_valid_of S d vars o r hr
  have toModel : ∀ r, r ∈ violations {} S d vars o → r ∈ provedRules ++ typedRules →
      (checkRules S {} d vars o).isRejected = true := by
    intro r hr hp
    rcases hT.mpr ⟨r, hr, hp⟩ with ⟨k, hk, _⟩ | ⟨k, hk, _⟩
    · exact rejected_of_pre S d vars o k hk
    · exact rejected_of_strict S d vars o k hk
  have both : ∀ r, r ∈ violations {} S d vars o → r ∈ provedRules ++ typedRules →
      ((checkRules S {} d vars o).isRejected = true ↔ ¬ Valid {} S d vars o) :=
    fun r hr hp => ⟨fun _ => not_valid_of S d vars o r hr, fun _ => toModel r hr hp⟩
  -- the four structural rules: violated ⇒ both sides hold
  cases h1 : violates_OperationNameUniqueness d
  case true => exact both "5.2.1.1 Operation Name Uniqueness" (v_opNames {} S d vars o (h1)) (by decide)
  cases h2 : violates_LoneAnonymousOperation d
  case true => exact both "5.2.2.1 Lone Anonymous Operation" (v_loneAnonymous {} S d vars o (h2)) (by decide)
  cases h3 : violates_FragmentNameUniqueness d
  case true => exact both "5.5.1.1 Fragment Name Uniqueness" (v_fragNames {} S d vars o (h3)) (by decide)
  cases hs : violates_OperationTypeExists S d
  case true => exact both "operation type not served" (v_notServed {} S d vars o (hs)) (by decide)
  have hG : GraphHyp S d := graphHyp_of S d h1 h2 h3 hs
  have c1 := c09_rule_no_fragment_cycles S d vars o hG
  have c2 := c09_rule_no_unused_fragments S d vars o hG
  have c3 := c09_rule_no_undefined_variables S d vars o hG
  have c4 := c09_rule_no_unused_variables S d vars o hG
  have c5 := c09_rule_variables_in_allowed_position S d vars o hG H.schema
  have c6 := c09_rule_known_argument_names S d vars o H.schema hs
  have c7 := c09_rule_default_values S d vars o hs H.defaults
  have c8 := c09_rule_arguments_of_correct_type S d vars o H.schema hs H.literals
  have c9 := c09_rule_repaired S d vars o
  have hsplit := c09_values_of_correct_type_split S d
  have nv : ∀ r, r ∈ violations {} S d vars o → ¬ Valid {} S d vars o := not_valid_of S d vars o
  constructor
  · rw [c09_before_exec_pre]
    rintro (hpre | hstrict)
    · obtain ⟨k, hk⟩ := exists_of_ne_nil _ hpre
      cases k with
      | dupOperation => exact toSpec (Or.inl ⟨_, hk, by simp [provedPre]⟩)
      | multipleAnonymous => exact toSpec (Or.inl ⟨_, hk, by simp [provedPre]⟩)
      | dupFragment => exact toSpec (Or.inl ⟨_, hk, by simp [provedPre]⟩)
      | recursionDepth =>
        exact nv "5.5.2.2 Fragment Spreads Must Not Form Cycles"
          (v_cycles {} S d vars o (c09_rule_recursion_guard d hk))
    · obtain ⟨k, hk⟩ := exists_of_ne_nil _ hstrict
      rcases List.mem_append.mp hk with hk | hk
      · by_cases hk' : k ∈ provedKinds ++ typedKinds
        · exact toSpec (Or.inr ⟨k, hk, hk'⟩)
        · rcases strict_owner S d vars o k hk with ⟨hk1, _⟩ | ⟨hk1, _⟩ | ⟨hk1, _⟩ | ⟨hk1, _⟩ | ⟨hk1, _⟩ | ⟨hk1, _⟩
              | ⟨hk1, _⟩ | ⟨hk1, _⟩ | ⟨hk1, _⟩ | ⟨hk1, _⟩ | ⟨hk1, _⟩ | ⟨hk1, hov⟩
          · have := stateless_rest k hk1 hk'
            subst this
            rcases c7.mp (Or.inl hk) with h | h
            · exact nv "5.6 Values Of Correct Type" (v_values {} S d vars o (by simp [hsplit, h]))
            · have := (c09_rule_variables_are_input_types S d vars o hs).mp (Or.inr h)
              exact nv "5.8.2 Variables Are Input Types" (v_varsInput {} S d vars o (this))
          · subst hk1
            exact nv "5.6 Values Of Correct Type" (v_values {} S d vars o (by simp [hsplit, c8.mp hk]))
          · have : violates_ArgumentNames S d = true := by
              rcases hk1 with rfl | rfl
              · exact c6.mp (Or.inr hk)
              · exact c6.mp (Or.inl hk)
            exact nv "5.4.1 Argument Names" (v_argNames {} S d vars o (this))
          · subst hk1; exact absurd (by decide) hk'
          · subst hk1; exact absurd (by decide) hk'
          · rcases hk1 with rfl | rfl <;> exact absurd (by decide) hk'
          · subst hk1
            exact nv "5.5.2.2 Fragment Spreads Must Not Form Cycles" (v_cycles {} S d vars o (c1.mp hk))
          · subst hk1
            exact nv "5.5.1.4 Fragments Must Be Used" (v_fragsUsed {} S d vars o (c2.mp hk))
          · have : violates_AllVariableUsesDefined d = true := by
              rcases hk1 with rfl | rfl
              · exact c3.mp (Or.inl hk)
              · exact c3.mp (Or.inr hk)
            exact nv "5.8.3 All Variable Uses Defined" (v_usesDefined {} S d vars o (this))
          · have : violates_AllVariablesUsed d = true := by
              rcases hk1 with rfl | rfl
              · exact c4.mp (Or.inl hk)
              · exact c4.mp (Or.inr hk)
            exact nv "5.8.4 All Variables Used" (v_varsUsed {} S d vars o (this))
          · subst hk1
            exact nv "5.8.5 All Variable Usages Are Allowed" (v_usagesAllowed {} S d vars o (c5.mp hk))
          · exact nv "5.3.2 Field Selection Merging"
              (v_merging {} S d vars o (AGV.Lemmas.ValidateOverlap.overlap_sound S d (served_of S d hs) k hov))
      · have := repaired_only S d vars o k hk
        subst this
        rcases c9.mp hk with h | h | h
        · exact nv "5.3.2 Field Selection Merging" (v_merging {} S d vars o (h))
        · exact nv "5.2.3.1 Single Root Field" (v_singleRoot {} S d vars o (h))
        · exact nv "6.1.2 Coercing Variable Values" (v_varValues {} S d vars o (h))
  · intro hnv
    have hne : violations {} S d vars o ≠ [] := hnv
    obtain ⟨r, hr0⟩ := exists_of_ne_nil _ hne
    have hr := (mem_violations ..).mp hr0
    have rs := rejected_of_strict S d vars o
    have rr := rejected_of_repaired S d vars o
    rcases hr with ⟨rfl, h⟩ | ⟨rfl, h⟩ | ⟨rfl, h⟩ | ⟨rfl, h⟩ | ⟨rfl, h⟩ | ⟨rfl, h⟩ | ⟨rfl, h⟩ | ⟨rfl, h⟩ | ⟨rfl, h⟩ | ⟨rfl, h⟩
      | ⟨rfl, h⟩ | ⟨rfl, h⟩ | ⟨rfl, h⟩ | ⟨rfl, h⟩ | ⟨rfl, h⟩ | ⟨rfl, h⟩ | ⟨rfl, h⟩ | ⟨rfl, h⟩ | ⟨rfl, h⟩ | ⟨rfl, h⟩
      | ⟨rfl, h⟩ | ⟨rfl, h⟩ | ⟨rfl, h⟩ | ⟨rfl, h⟩ | ⟨rfl, h⟩ | ⟨rfl, h⟩ | ⟨rfl, h⟩ | ⟨rfl, h⟩
    · exact toModel _ hr0 (by decide)
    · exact toModel _ hr0 (by decide)
    · exact rr _ (c9.mpr (Or.inr (Or.inl h)))
    · exact toModel _ hr0 (by decide)
    · exact rr _ (c9.mpr (Or.inl h))
    · exact toModel _ hr0 (by decide)
    · rcases c6.mpr h with h | h <;> exact rs _ h
    · exact toModel _ hr0 (by decide)
    · exact toModel _ hr0 (by decide)
    · exact toModel _ hr0 (by decide)
    · exact toModel _ hr0 (by decide)
    · exact toModel _ hr0 (by decide)
    · exact rs _ (c2.mpr h)
    · exact toModel _ hr0 (by decide)
    · exact rs _ (c1.mpr h)
    · exact toModel _ hr0 (by decide)
    · rw [hsplit, Bool.or_eq_true] at h
      rcases h with h | h
      · exact rs _ (c8.mpr h)
      · rcases c7.mpr (Or.inl h) with h | h
        · exact rs _ h
        · exact rs _ ((c09_rule_known_type_names S d vars o hs).mpr (Or.inr h))
    · exact toModel _ hr0 (by decide)
    · exact toModel _ hr0 (by decide)
    · exact toModel _ hr0 (by decide)
    · exact toModel _ hr0 (by decide)
    · exact toModel _ hr0 (by decide)
    · rcases c3.mpr h with h | h <;> exact rs _ h
    · rcases c4.mpr h with h | h <;> exact rs _ h
    · exact rs _ (c5.mpr h)
    · exact toModel _ hr0 (by decide)
    · exact rr _ (c9.mpr (Or.inr (Or.inr h)))
    · exact toModel _ hr0 (by decide)

end final

open AGV.Lemmas.ValidateRules AGV.Lemmas.ValidateWalk AGV.Lemmas.ValidateGraph AGV.Lemmas.ValidateSpecNodes

/-- `query($v: Int = null, $c: Color!, $b: Boolean!) { n(x: 1) def(x: $v) color(c: $c)
       pet @skip(if: $b) { ... { __typename } ... on Dog { ... { k: id } } ... on Cat { ... { k: id } } ...F } }
     fragment F on Pet { ... on Cat { name } }` — variables in arguments, a `null` default, inline
    fragments without type condition -/
def dWF : Doc :=
  { ops := [{ ty := .query, name := none,
              vars := [{ name := "v", ty := .named "Int", default := some .null },
                       { name := "c", ty := .nonNull (.named "Color"), default := none },
                       { name := "b", ty := .nonNull (.named "Boolean"), default := none }], dirs := [],
              sels := [fld "n" [("x", .int 1)], fld "def" [("x", .var "v")], fld "color" [("c", .var "c")],
                       fld "pet" [] [.inline none [] [fld "__typename"] p0,
                                     .inline (some "Dog") [] [.inline none [] [fld "id" [] [] (some "k")] p0] p0,
                                     .inline (some "Cat") [] [.inline none [] [fld "id" [] [] (some "k")] p0] p0,
                                     .spread "F" [] p0] none
                         [{ name := "skip", args := [("if", .var "b")] }]] }],
    frags := [{ name := "F", cond := "Pet", dirs := [], sels := [.inline (some "Cat") [] [fld "name"] p0] }] }

def dWFvars : List (String × GValue) := [("c", .str "RED"), ("b", .bool true)]

/-- invalid: a `null`-defaulted variable at `x: Int!`, an argument at `__typename`, an argument at an
    unknown field, an undefined fragment and an unused variable -/
def dWFbad : Doc :=
  { ops := [{ ty := .query, name := none,
              vars := [{ name := "u", ty := .named "Int", default := none }, { name := "v", ty := .named "Int", default := some .null }], dirs := [],
              sels := [fld "n" [("x", .var "v")], fld "__typename" [("x", .int 1)], fld "nope" [("y", .int 1)], .spread "Nope" [] p0] }],
    frags := dWF.frags }

theorem c09_wf_example (d : Doc) (hd : d = dWF ∨ d = dWFbad) : C09WF S0 d where
  schema := c09_witness_schema_wellformed
  abstract := c09_witness_schema_abstract_inhabited
  typenameSels := by rcases hd with rfl | rfl <;> decide
  literals := by rcases hd with rfl | rfl <;> decide +kernel
  defaults := by
    rcases hd with rfl | rfl <;> intro o ho v hv dv hdv <;> simp [dWF, dWFbad] at ho <;> subst ho <;> simp at hv
    · rcases hv with rfl | rfl | rfl <;> simp at hdv
      subst hdv; decide +kernel
    · rcases hv with rfl | rfl <;> simp at hdv
      subst hdv; decide +kernel

/-- both sides of `c09_corrected_wf` on the two examples: accepted and valid; rejected and invalid -/
example :
    rejects {} dWF dWFvars = false ∧ specInvalid dWF dWFvars = false ∧ rejects {} dWFbad = true
    ∧ Spec.Validate.violations {} S0 dWFbad [] none =
        ["5.3.1 Field Selections", "5.4.1 Argument Names", "5.5.1.4 Fragments Must Be Used", "5.5.2.1 Fragment Spread Target Defined",
         "5.8.4 All Variables Used", "5.8.5 All Variable Usages Are Allowed"] := by
  decide +kernel

section partial3
open AGV.Lemmas.ValidateRules AGV.Lemmas.ValidateWalk AGV.Lemmas.ValidateGraph AGV.Lemmas.ValidateSpecNodes
open AGV.Spec.Validate
variable (S : VSchema) (d : Doc) (vars : List (String × GValue)) (o : Option String)

/-- the kinds and reference rules added by the graph rules -/
def graphKinds : List Model.Validate.Kind :=
  [.cycle, .unusedFragment, .undefVarOp, .undefVar, .unusedVarOp, .unusedVar, .varPosition]
def graphRules : List String :=
  ["5.5.1.4 Fragments Must Be Used", "5.5.2.2 Fragment Spreads Must Not Form Cycles", "5.8.3 All Variable Uses Defined",
   "5.8.4 All Variables Used", "5.8.5 All Variable Usages Are Allowed"]

/-- PARTIAL c09, third stage: with the five graph rules (NoFragmentCycles and the parser's
    recursion guard, NoUnusedFragments, NoUndefinedVariables, NoUnusedVariables,
    VariableInAllowedPosition) the equivalence covers 18 of the 22 rule structs (+ walker + all four
    parser checks) against 23 of the 28 reference rules; variables may occur anywhere. -/
theorem c09_partial_graph (hW : SchemaWF S) (hA : AbstractInhabited S) (hD : docOK d = true) :
    ((∃ k ∈ preErrors d, k ∈ provedPre ++ [PreKind.recursionDepth])
      ∨ (∃ k ∈ strictErrors S {} d vars o, k ∈ provedKinds ++ typedKinds ++ graphKinds)) ↔
      (∃ r ∈ violations {} S d vars o, r ∈ provedRules ++ typedRules ++ graphRules) := by
  have hT := c09_partial_typed S d vars o hW hA hD
  have up : ((∃ k ∈ preErrors d, k ∈ provedPre) ∨ (∃ k ∈ strictErrors S {} d vars o, k ∈ provedKinds ++ typedKinds)) →
      ((∃ k ∈ preErrors d, k ∈ provedPre ++ [PreKind.recursionDepth])
        ∨ (∃ k ∈ strictErrors S {} d vars o, k ∈ provedKinds ++ typedKinds ++ graphKinds)) := by
    rintro (⟨k, hk, hp⟩ | ⟨k, hk, hp⟩)
    · exact Or.inl ⟨k, hk, List.mem_append_left _ hp⟩
    · exact Or.inr ⟨k, hk, List.mem_append_left _ hp⟩
  have upR : (∃ r ∈ violations {} S d vars o, r ∈ provedRules ++ typedRules) →
      (∃ r ∈ violations {} S d vars o, r ∈ provedRules ++ typedRules ++ graphRules) := by
    rintro ⟨r, hr, hp⟩; exact ⟨r, hr, List.mem_append_left _ hp⟩
  have both : ∀ r, r ∈ violations {} S d vars o → r ∈ provedRules ++ typedRules →
      (((∃ k ∈ preErrors d, k ∈ provedPre ++ [PreKind.recursionDepth])
        ∨ (∃ k ∈ strictErrors S {} d vars o, k ∈ provedKinds ++ typedKinds ++ graphKinds)) ↔
      (∃ r ∈ violations {} S d vars o, r ∈ provedRules ++ typedRules ++ graphRules)) :=
    fun r hr hp => ⟨fun _ => upR ⟨r, hr, hp⟩, fun _ => up (hT.mpr ⟨r, hr, hp⟩)⟩
  cases h1 : violates_OperationNameUniqueness d
  case true => exact both "5.2.1.1 Operation Name Uniqueness" (v_opNames {} S d vars o (h1)) (by decide)
  cases h2 : violates_LoneAnonymousOperation d
  case true => exact both "5.2.2.1 Lone Anonymous Operation" (v_loneAnonymous {} S d vars o (h2)) (by decide)
  cases h3 : violates_FragmentNameUniqueness d
  case true => exact both "5.5.1.1 Fragment Name Uniqueness" (v_fragNames {} S d vars o (h3)) (by decide)
  cases hs : violates_OperationTypeExists S d
  case true => exact both "operation type not served" (v_notServed {} S d vars o (hs)) (by decide)
  have hG : GraphHyp S d := graphHyp_of S d h1 h2 h3 hs
  have c1 := c09_rule_no_fragment_cycles S d vars o hG
  have c2 := c09_rule_no_unused_fragments S d vars o hG
  have c3 := c09_rule_no_undefined_variables S d vars o hG
  have c4 := c09_rule_no_unused_variables S d vars o hG
  have c5 := c09_rule_variables_in_allowed_position S d vars o hG hW
  have mk : ∀ r, r ∈ violations {} S d vars o → r ∈ graphRules →
      (∃ r ∈ violations {} S d vars o, r ∈ provedRules ++ typedRules ++ graphRules) :=
    fun r hr hp => ⟨r, hr, List.mem_append_right _ hp⟩
  have mkK : ∀ k, k ∈ strictErrors S {} d vars o → k ∈ graphKinds →
      ((∃ k ∈ preErrors d, k ∈ provedPre ++ [PreKind.recursionDepth])
        ∨ (∃ k ∈ strictErrors S {} d vars o, k ∈ provedKinds ++ typedKinds ++ graphKinds)) :=
    fun k hk hp => Or.inr ⟨k, hk, List.mem_append_right _ hp⟩
  constructor
  · rintro (⟨k, hk, hp⟩ | ⟨k, hk, hp⟩)
    · rcases List.mem_append.mp hp with hp | hp
      · exact upR (hT.mp (Or.inl ⟨k, hk, hp⟩))
      · simp only [List.mem_singleton] at hp
        subst hp
        exact mk "5.5.2.2 Fragment Spreads Must Not Form Cycles"
          (v_cycles {} S d vars o (c09_rule_recursion_guard d hk)) (by decide)
    · rcases List.mem_append.mp hp with hp | hp
      · exact upR (hT.mp (Or.inr ⟨k, hk, hp⟩))
      · simp only [graphKinds, List.mem_cons, List.not_mem_nil, or_false] at hp
        rcases hp with rfl | rfl | rfl | rfl | rfl | rfl | rfl
        · exact mk "5.5.2.2 Fragment Spreads Must Not Form Cycles" (v_cycles {} S d vars o (c1.mp hk)) (by decide)
        · exact mk "5.5.1.4 Fragments Must Be Used" (v_fragsUsed {} S d vars o (c2.mp hk)) (by decide)
        · exact mk "5.8.3 All Variable Uses Defined" (v_usesDefined {} S d vars o (c3.mp (Or.inl hk))) (by decide)
        · exact mk "5.8.3 All Variable Uses Defined" (v_usesDefined {} S d vars o (c3.mp (Or.inr hk))) (by decide)
        · exact mk "5.8.4 All Variables Used" (v_varsUsed {} S d vars o (c4.mp (Or.inl hk))) (by decide)
        · exact mk "5.8.4 All Variables Used" (v_varsUsed {} S d vars o (c4.mp (Or.inr hk))) (by decide)
        · exact mk "5.8.5 All Variable Usages Are Allowed" (v_usagesAllowed {} S d vars o (c5.mp hk)) (by decide)
  · rintro ⟨r, hr, hp⟩
    rcases List.mem_append.mp hp with hp | hp
    · exact up (hT.mpr ⟨r, hr, hp⟩)
    · rw [mem_violations] at hr
      simp only [graphRules, List.mem_cons, List.not_mem_nil, or_false] at hp
      rcases hp with rfl | rfl | rfl | rfl | rfl <;> simp at hr
      · exact mkK _ (c2.mpr hr) (by decide)
      · exact mkK _ (c1.mpr hr) (by decide)
      · rcases c3.mpr hr with h | h <;> exact mkK _ h (by decide)
      · rcases c4.mpr hr with h | h <;> exact mkK _ h (by decide)
      · exact mkK _ (c5.mpr hr) (by decide)

/-- the hypotheses of the graph rules hold of the non-trivial valid example (two variables, both used) -/
example : GraphHyp S0 dValid := graphHyp_of S0 dValid (by decide) (by decide) (by decide) (by decide)

end partial3

-- ------------------------------------------------------------------ is_valid_input_value = §5.6.1

section literals
open AGV.Lemmas.ValidateRules AGV.Lemmas.ValidateWalk AGV.Lemmas.ValidateGraph AGV.Lemmas.ValidateSpecNodes
open AGV.Lemmas.ValidateLiterals AGV.Lemmas.ValidateOverlap
open AGV.Spec.Validate
variable (S : VSchema) (d : Doc)

/-- `is_valid_input_value` with the value toggles off = §5.6.1 Values Of Correct Type, for every type
    and every constant whose object literals do not repeat a key (`LitSchema`: the five built-in
    scalar names are scalars, input-object types have their definition with unique field names) -/
theorem c09_rule_is_valid_input_value (hL : LitSchema S) (fuel : Nat) (t : TypeRef) (c : GValue) (hk : keysOk c = true) :
    validInput S {} fuel t c = litOk S fuel t (litOf c) :=
  valid_eq_lit S hL fuel t c hk

/-- the same for the argument AS WRITTEN, variables anywhere: `is_valid_input_value` over literals
    (what the repaired `ArgumentsOfCorrectType` applies) = §5.6.1 -/
theorem c09_rule_is_valid_input_literal (hL : LitSchema S) (fuel : Nat) (t : TypeRef) (v : DValue) (hk : keysOkD v = true) :
    validLit S {} fuel t v = litOk S fuel t v :=
  lit_eq S hL fuel t v hk

/-- the two agreement hypotheses of `C09WF` from registry conditions and unique keys -/
theorem c09_literals_agree (hL : LitSchema S) (hA : ArgKeysOk S d) (hD : DefaultKeysOk d) :
    ArgLiteralsAgree S d ∧ DefaultsAgree S d :=
  ⟨argLiteralsAgree_of S d hL hA, defaultsAgree_of S d hL hD⟩

/-- `C09WF` from conditions on the registry and on the syntax of the document only -/
theorem c09_wf_of_schema (hW : SchemaWF S) (hAb : AbstractInhabited S) (hL : LitSchema S)
    (hD : docOK d = true) (hAk : ArgKeysOk S d) (hDk : DefaultKeysOk d) : C09WF S d where
  schema := hW
  abstract := hAb
  typenameSels := hD
  literals := (c09_literals_agree S d hL hAk hDk).1
  defaults := (c09_literals_agree S d hL hAk hDk).2

/-- the witness schema with the fifth built-in scalar -/
def S0F : VSchema := { S0 with base := { S0.base with types := S0.base.types ++ [ty "Float" .scalar] } }

/-- the registry conditions hold of it, and the key conditions of the two example documents -/
example : LitSchema S0F ∧ ArgKeysOk S0F dWF ∧ DefaultKeysOk dWF ∧ ArgKeysOk S0F dWFbad ∧ DefaultKeysOk dWFbad :=
  ⟨litSchema_of_check S0F (by decide), by decide +kernel, by decide, by decide +kernel, by decide⟩

end literals

-- ------------------------------------------------------------------ the dynamic flavour

section dynamic
open AGV.Lemmas.ValidateRules AGV.Lemmas.ValidateWalk AGV.Lemmas.ValidateGraph AGV.Lemmas.ValidateSpecNodes
open AGV.Lemmas.ValidateLiterals AGV.Lemmas.ValidateOverlap
open AGV.Spec.Validate
open AGV.Model.ValidateDynSchema

/-- THE DYNAMIC REGISTRY SATISFIES THE HYPOTHESES.  `dynSchema` (Model/ValidateDynSchema.lean) is the
    registry dump of the harness schema built with `async_graphql::dynamic` — the judge compares the
    dump every case of stream `dynamic` carries with it — and it is a well-formed registry whose
    abstract types are inhabited, with the five built-in scalars and both input objects defined: the
    registry conditions of `c09_corrected_wf` / `c09_wf_of_schema`, so the theorem is not vacuous
    for the dynamic flavour. -/
theorem c09_dynamic_schema_wf : SchemaWF dynSchema ∧ AbstractInhabited dynSchema ∧ LitSchema dynSchema :=
  ⟨{ stringNotComposite := by decide
     noTypenameField := by decide
     fieldsOutput := by decide
     rootsComposite := by intro t r h; cases t <;> simp [rootOf, dynSchema] at h <;> subst h <;> decide
     flags := by decide },
   by unfold AbstractInhabited; decide,
   litSchema_of_check dynSchema (by decide)⟩

/-- the corrected statement INSTANTIATED at the dynamic registry: for every document without a
    sub-selection below `__typename` whose object literals do not repeat a key, all variables and
    operation names, the repaired pipeline rejects exactly the requests the reference validator
    calls invalid — no hypothesis about the registry is left. -/
theorem c09_dynamic_corrected (d : Doc) (vars : List (String × GValue)) (o : Option String)
    (hD : docOK d = true) (hAk : ArgKeysOk dynSchema d) (hDk : DefaultKeysOk d) :
    (checkRules dynSchema {} d vars o).isRejected = true ↔ ¬ Valid {} dynSchema d vars o :=
  c09_corrected_wf dynSchema d vars o
    (c09_wf_of_schema dynSchema d c09_dynamic_schema_wf.1 c09_dynamic_schema_wf.2.1 c09_dynamic_schema_wf.2.2 hD hAk hDk)

/-- `query($c: Color!, $b: Blob!) { blob(b: {k: [1, "x", RED]}, bs: [3000000000, $b]) color(c: $c)
       pet { ... on Dog { barks } ... { __typename } } node(id: 1) { id @skip(if: true) } }`
    — every literal is a `Blob` (custom scalar registered WITHOUT validator) -/
def dDyn : Doc :=
  { ops := [{ ty := .query, name := none,
              vars := [{ name := "c", ty := .nonNull (.named "Color"), default := none },
                       { name := "b", ty := .nonNull (.named "Blob"), default := none }], dirs := [],
              sels := [fld "blob" [("b", .obj [("k", .list [.int 1, .str "x", .enum "RED"])]), ("bs", .list [.int 3000000000, .var "b"])],
                       fld "color" [("c", .var "c")],
                       fld "pet" [] [.inline (some "Dog") [] [fld "barks"] p0, .inline none [] [fld "__typename"] p0],
                       fld "node" [("id", .int 1)] [fld "id" [] [] none [{ name := "skip", args := [("if", .bool true)] }]]] }],
    frags := [] }
def dDynVars : List (String × GValue) := [("c", .str "RED"), ("b", .obj [("any", .bool true)])]

/-- `{ blob(bs: [1, null]) n(x: "1") dog { id @concat(prefix: "p") } nope @ifdef }` — `null` is no
    `Blob!`; `concat` and `ifdef` are directives the dynamic API cannot register: unknown here -/
def dDynBad : Doc :=
  { ops := [{ ty := .query, name := none, vars := [], dirs := [],
              sels := [fld "blob" [("bs", .list [.int 1, .null])], fld "n" [("x", .str "1")],
                       fld "dog" [] [fld "id" [] [] none [{ name := "concat", args := [("prefix", .str "p")] }]],
                       fld "nope" [] [] none [{ name := "ifdef", args := [] }]] }],
    frags := [] }

/-- the document hypotheses of `c09_dynamic_corrected` hold of both examples, and both sides of the
    equivalence evaluate as they should: accepted and valid; rejected and invalid -/
theorem c09_dynamic_example :
    (∀ d, d = dDyn ∨ d = dDynBad → docOK d = true ∧ ArgKeysOk dynSchema d ∧ DefaultKeysOk d)
    ∧ (checkRules dynSchema {} dDyn dDynVars none).isRejected = false
    ∧ Spec.Validate.violations {} dynSchema dDyn dDynVars none = []
    ∧ (checkRules dynSchema {} dDynBad [] none).isRejected = true
    ∧ Spec.Validate.violations {} dynSchema dDynBad [] none =
        ["5.3.1 Field Selections", "5.6 Values Of Correct Type", "5.7.1 Directives Are Defined"] := by
  refine ⟨?_, by decide +kernel, by decide +kernel, by decide +kernel, by decide +kernel⟩
  rintro d (rfl | rfl)
  · exact ⟨by decide, by decide +kernel, by decide⟩
  · exact ⟨by decide, by decide +kernel, by decide⟩

end dynamic

-- ------------------------------------------------------------------ the `is_subscription` flag; the static variants

section subroot
open AGV.Lemmas.ValidateRules AGV.Lemmas.ValidateWalk AGV.Lemmas.ValidateGraph AGV.Lemmas.ValidateSpecNodes
open AGV.Lemmas.ValidateLiterals AGV.Lemmas.ValidateOverlap AGV.Lemmas.ValidateSubRoot
open AGV.Spec.Validate
open AGV.Model.ValidateStaticSchemas

/-- in a well-formed registry the walker's test (the `is_subscription` flag of the current type) is the
    test the specification means (the current type is the one `subscription_type` names) -/
theorem c09_flag_is_root (S : VSchema) (hW : SchemaWF S) (t : Option String) :
    isSubscriptionRoot S t = isSubscriptionRootByName S t :=
  isSubscriptionRoot_of_flagWF S hW.flags t

/-- THE PINNED WALKER ENFORCES THE INTROSPECTION HALF OF 5.2.3.1.  Well-formed registry with a
    subscription root `r`; `visit_selection` as pinned (`__typename` is not visited; instead the walker
    reports it when the current type is flagged `is_subscription`), every other toggle arbitrary.  A
    request whose document has `__typename` at a subscription root — in a subscription operation or in
    a fragment on `r`; as a field with or without alias, beside other selections, inside inline
    fragments without type condition or on `r` (`TypenameAtRoot`) — is rejected, whatever the variables
    and the operation name; and the reference validator calls every such OPERATION invalid. -/
theorem c09_typename_at_subscription_root (S : VSchema) (hW : SchemaWF S) (D : Defects) (hD : D.typenameNotVisited = true)
    (r : String) (hr : S.base.subscription = some r) (d : Doc) (vars : List (String × GValue)) (o : Option String) :
    (TypenameAtRoot d r → (checkRules S D d vars o).isRejected = true)
    ∧ ((∃ op ∈ d.ops, op.ty = .subscription ∧ typenameAtL r op.sels = true) → ¬ Valid {} S d vars o) := by
  have hex : S.exists? r = true := by
    have := hW.rootsComposite .subscription r (by simp [rootOf, hr])
    unfold VSchema.isComposite VSchema.kindOf at this
    unfold VSchema.exists?
    cases h' : S.ty? r <;> simp_all
  have hfl : S.subFlag.contains r = true := by
    have := hW.flags
    unfold flagWF at this
    simp only [Bool.and_eq_true, hr] at this
    exact this.2
  exact ⟨typename_at_root_rejected S D hD r hr hex hfl d vars o, typename_at_root_invalid {} S d vars o r⟩

/-- THE STATIC HARNESS REGISTRIES SATISFY THE HYPOTHESES.  The three dumped variants of the static
    harness schema (Model/ValidateStaticSchemas.lean, generated from the dumps of the real registries —
    plain `#[Object]` / `#[Subscription]` roots; the same with a custom directive `ifdef`; the same field
    set with `#[derive(MergedObject)]` / `#[derive(MergedSubscription)]` roots — and compared by the
    judge with the dump every case of stream `main` carries) are well-formed registries — in particular
    their `is_subscription` flags mark exactly the subscription root — with inhabited abstract types,
    the five built-in scalars and both input objects defined. -/
theorem c09_static_schemas_wf : ∀ S ∈ staticVariants, SchemaWF S ∧ AbstractInhabited S ∧ LitSchema S := by
  intro S hS
  simp only [staticVariants, List.mem_cons, List.not_mem_nil, or_false] at hS
  rcases hS with rfl | rfl | rfl
  · exact ⟨{ stringNotComposite := by decide
             noTypenameField := by decide
             fieldsOutput := by decide
             rootsComposite := by intro t r h; cases t <;> simp [rootOf, plainSchema] at h <;> subst h <;> decide
             flags := by decide },
           by unfold AbstractInhabited; decide, litSchema_of_check plainSchema (by decide)⟩
  · exact ⟨{ stringNotComposite := by decide
             noTypenameField := by decide
             fieldsOutput := by decide
             rootsComposite := by intro t r h; cases t <;> simp [rootOf, ifdefSchema] at h <;> subst h <;> decide
             flags := by decide },
           by unfold AbstractInhabited; decide, litSchema_of_check ifdefSchema (by decide)⟩
  · exact ⟨{ stringNotComposite := by decide
             noTypenameField := by decide
             fieldsOutput := by decide
             rootsComposite := by intro t r h; cases t <;> simp [rootOf, mergedSchema] at h <;> subst h <;> decide
             flags := by decide },
           by unfold AbstractInhabited; decide, litSchema_of_check mergedSchema (by decide)⟩

/-- the corrected statement INSTANTIATED at the three static registries: document hypotheses only -/
theorem c09_static_corrected (S : VSchema) (hS : S ∈ staticVariants) (d : Doc) (vars : List (String × GValue)) (o : Option String)
    (hD : docOK d = true) (hAk : ArgKeysOk S d) (hDk : DefaultKeysOk d) :
    (checkRules S {} d vars o).isRejected = true ↔ ¬ Valid {} S d vars o :=
  c09_corrected_wf S d vars o
    (c09_wf_of_schema S d (c09_static_schemas_wf S hS).1 (c09_static_schemas_wf S hS).2.1 (c09_static_schemas_wf S hS).2.2 hD hAk hDk)

def subOp (sels : List Sel) (frags : List FragDef := []) : Doc :=
  { ops := [{ ty := .subscription, name := none, vars := [], dirs := [], sels := sels }], frags := frags }
/-- `subscription { __typename }`, `subscription { names t: __typename }`, `subscription { ... { __typename } ticks }`,
    `subscription { ... on MSubscription { __typename } }`, `subscription { ...F } fragment F on MSubscription { t: __typename }` -/
def dSubTypenames : List Doc :=
  [subOp [fld "__typename"],
   subOp [fld "names", fld "__typename" [] [] (some "t")],
   subOp [.inline none [] [fld "__typename"] p0, fld "ticks"],
   subOp [.inline (some "MSubscription") [] [fld "__typename"] p0],
   subOp [.spread "F" [] p0] [{ name := "F", cond := "MSubscription", dirs := [], sels := [fld "__typename" [] [] (some "t")] }]]

/-- the hypothesis of `c09_typename_at_subscription_root` holds of the five shapes the generator
    writes, at the merged registry; the pinned model rejects each, the reference validator calls each
    invalid (by evaluation, independently of the theorem) -/
theorem c09_typename_at_root_example :
    (∀ d ∈ dSubTypenames, TypenameAtRoot d "MSubscription")
    ∧ dSubTypenames.all (fun d => (checkRules mergedSchema Defects.pinned d [] none).isRejected) = true
    ∧ dSubTypenames.all (fun d => (violations {} mergedSchema d [] none).contains "5.2.3.1 Single Root Field") = true := by
  refine ⟨by decide, by decide +kernel, by decide +kernel⟩

/-- the merged registry as a `MergedSubscription` derive that writes `is_subscription: false` registers it -/
def mergedFlagOff : VSchema := { mergedSchema with subFlag := [] }

/-- A REGISTRY WITH THE FLAG OFF.  It is not well-formed (`flagWF` fails, nothing else changes); the
    pinned model ACCEPTS all five `__typename`-at-the-subscription-root requests there — the real code,
    going by the flag, starts executing them — while the reference validator (which looks at the
    operation type) calls each invalid; with the flag on the subscription root the same model rejects
    them.  No listed finding is about flags: the judge reports such a case as a violation. -/
theorem c09_witness_subscription_flag_off :
    flagWF mergedFlagOff = false
    ∧ withRootFlag mergedFlagOff = mergedSchema
    ∧ dSubTypenames.all (fun d => !(checkRules mergedFlagOff Defects.pinned d [] none).isRejected) = true
    ∧ dSubTypenames.all (fun d => (violations {} mergedFlagOff d [] none).contains "5.2.3.1 Single Root Field") = true
    ∧ dSubTypenames.all (fun d => (checkRules (withRootFlag mergedFlagOff) Defects.pinned d [] none).isRejected) = true := by
  refine ⟨by decide, rfl, by decide +kernel, by decide +kernel, by decide +kernel⟩

end subroot
end AGV.Props.C09
