/-
  C09 — strict validation rejects exactly the documents the GraphQL spec calls invalid.

  OBLIGATION c09_dispatch
  OBLIGATION c09_dispatch_exact
  OBLIGATION c09_dispatch_pinned_witness
  OBLIGATION c09_strict_rules_known
  OBLIGATION c09_fast_rules_subset
  OBLIGATION c09_kind_table
  OBLIGATION c09_located
  OBLIGATION c09_before_exec_pre
  OBLIGATION c09_rule_variable_subtype
  OBLIGATION c09_subtype_defect_witness
  OBLIGATION c09_witness_input_value_not_forwarded
  OBLIGATION c09_witness_typename_not_visited
  OBLIGATION c09_witness_overlap
  OBLIGATION c09_witness_single_root
  OBLIGATION c09_witness_input_object_literal
  OBLIGATION c09_witness_enum_string
  OBLIGATION c09_witness_int_range
  OBLIGATION c09_witness_location_default
  OBLIGATION c09_repaired_accepts_valid_example
  OPEN c09
  OPEN c09_rule_equivalences
-/
import AGV.Model.Validate
import AGV.Spec.Validate
import AGV.Gen.Rules

namespace AGV.Props.C09
open AGV.Core AGV.Model.Validate
open AGV.Gen.Rules (strictRules fastChain callbacksOf forwardedByCons callbacks messages)

-- ------------------------------------------------------------------ source-derived: dispatch

def callbacksOfRule (r : String) : List String :=
  match callbacksOf.find? (·.1 = r) with
  | some p => p.2
  | none => []

/-- the two callbacks the pinned `VisitorCons` is known not to forward -/
def inputValueCallbacks : List String := ["enter_input_value", "exit_input_value"]

/-- Every callback a strict-mode rule overrides reaches the rule through the composite visitor,
    EXCEPT possibly the two input-value callbacks (finding C09-input-value-not-forwarded).  Holds on
    the pinned and on the repaired tree; any other dropped callback breaks it. -/
theorem c09_dispatch :
    ∀ r ∈ strictRules, ∀ c ∈ callbacksOfRule r, c ∈ forwardedByCons ∨ c ∈ inputValueCallbacks := by
  decide

/-- is the composite visitor of THIS tree complete for the input-value callbacks? -/
def inputValueForwarded : Bool := inputValueCallbacks.all (fun c => forwardedByCons.contains c)

/-- The dispatch obligation proper, `∀ r ∈ strictRules, callbacksOf r ⊆ forwardedByCons`, holds
    exactly when the two input-value callbacks are forwarded. -/
theorem c09_dispatch_exact :
    (∀ r ∈ strictRules, ∀ c ∈ callbacksOfRule r, c ∈ forwardedByCons) ↔ inputValueForwarded = true := by
  decide

/-- On a tree that does not forward them, a strict-mode rule is deaf to one of its callbacks —
    and that rule is `VariableInAllowedPosition`, the only one overriding `enter_input_value`. -/
theorem c09_dispatch_pinned_witness :
    inputValueForwarded = false →
      "VariableInAllowedPosition" ∈ strictRules ∧
      "enter_input_value" ∈ callbacksOfRule "VariableInAllowedPosition" ∧
      "enter_input_value" ∉ forwardedByCons ∧
      ∀ r ∈ strictRules, "enter_input_value" ∈ callbacksOfRule r → r = "VariableInAllowedPosition" := by
  decide

/-- every rule `check_rules` installs in strict mode is a rule struct with a callback table, every
    callback it overrides is declared by `trait Visitor`, and the model implements that rule -/
def modelledRules : List String :=
  ["ArgumentsOfCorrectType", "DefaultValuesOfCorrectType", "FieldsOnCorrectType", "FragmentsOnCompositeTypes",
   "KnownArgumentNames", "NoFragmentCycles", "KnownFragmentNames", "KnownTypeNames", "NoUndefinedVariables",
   "NoUnusedFragments", "NoUnusedVariables", "UniqueArgumentNames", "UniqueVariableNames", "VariablesAreInputTypes",
   "VariableInAllowedPosition", "ScalarLeafs", "PossibleFragmentSpreads", "ProvidedNonNullArguments",
   "KnownDirectives", "DirectivesUnique", "OverlappingFieldsCanBeMerged", "UploadFile"]

theorem c09_strict_rules_known :
    strictRules = modelledRules ∧
    (∀ r ∈ strictRules, (callbacksOf.find? (·.1 = r)).isSome) ∧
    (∀ p ∈ callbacksOf, ∀ c ∈ p.2, c ∈ callbacks) := by
  decide

/-- fast mode runs a subset of the strict rules (plus the calculators) -/
theorem c09_fast_rules_subset : ∀ p ∈ fastChain, p.1 = "rules" → p.2 ∈ strictRules := by decide

-- ------------------------------------------------------------------ source-derived: messages and locations

/-- Every message kind of the model is a row of the table extracted from the `report_error` /
    `RuleError::new` calls: same rule struct, and the call passes at least one location. -/
theorem c09_kind_table (k : Model.Validate.Kind) (h : k ≠ .repaired) :
    ∃ row, messages[k.idx]? = some row ∧ row.1 = k.rule ∧ row.2.2 ≥ 1 := by
  cases k <;> first | (exact absurd rfl h) | decide

/-- every report in the rule files and in the walker carries at least one location -/
theorem c09_located : ∀ row ∈ messages, row.2.2 ≥ 1 := by decide

/-- a request rejected before validation (parser, recursion guard) never reaches the rules, and a
    request the model rejects is not accepted: the outcome is a function of the two error lists -/
theorem c09_before_exec_pre (S : VSchema) (D : Defects) (d : Doc) (vars : List (String × GValue)) (o : Option String) :
    (checkRules S D d vars o).isRejected = true ↔
      (preErrors d ≠ [] ∨ strictErrors S D d vars o ++ repairedErrors S D d vars o ≠ []) := by
  unfold checkRules
  cases h1 : preErrors d with
  | nil =>
    cases h2 : strictErrors S D d vars o ++ repairedErrors S D d vars o with
    | nil => simp [Outcome.isRejected]
    | cons a as => simp [Outcome.isRejected]
  | cons a as => simp [Outcome.isRejected]

-- ------------------------------------------------------------------ rule equivalences (model = spec)

/-- `MetaTypeName::is_subtype` with the (List, NonNull) arm restored is exactly the specification's
    AreTypesCompatible(variableType, locationType). -/
theorem c09_rule_variable_subtype (pos var : TypeRef) :
    isSubtype {} pos var = Spec.Validate.typesCompatible var pos := by
  induction pos generalizing var with
  | named p =>
    induction var with
    | named v => simp only [isSubtype, Spec.Validate.typesCompatible]; exact BEq.comm
    | list v _ => simp [isSubtype, Spec.Validate.typesCompatible]
    | nonNull v ih => simp [isSubtype, Spec.Validate.typesCompatible, ih]
  | list p ihp =>
    induction var with
    | named v => simp [isSubtype, Spec.Validate.typesCompatible]
    | list v _ => simp [isSubtype, Spec.Validate.typesCompatible, ihp]
    | nonNull v ih => simp [isSubtype, Spec.Validate.typesCompatible, ih]
  | nonNull p ihp =>
    cases var with
    | named v => simp [isSubtype, Spec.Validate.typesCompatible]
    | list v => simp [isSubtype, Spec.Validate.typesCompatible]
    | nonNull v => simp [isSubtype, Spec.Validate.typesCompatible, ihp]

/-- the pinned `is_subtype` refuses a `[Int]!` variable where `[Int]` is expected -/
theorem c09_subtype_defect_witness :
    isSubtype { subtypeListNonNull := true } (.list (.named "Int")) (.nonNull (.list (.named "Int"))) = false ∧
    Spec.Validate.typesCompatible (.nonNull (.list (.named "Int"))) (.list (.named "Int")) = true := by
  decide

-- ------------------------------------------------------------------ a small schema for the witnesses

def ty (n : String) (k : Core.Kind) (fs : List FieldDef := []) (ms : List String := []) (vs : List String := []) : TypeDef :=
  { name := n, kind := k, fields := fs, members := ms, values := vs }

def S0 : VSchema :=
  { base :=
      { types :=
          [ty "Query" .object
             [{ name := "n", ty := .named "Int", args := [{ name := "x", ty := .nonNull (.named "Int"), default := none }] },
              { name := "def", ty := .named "Int", args := [{ name := "x", ty := .nonNull (.named "Int"), default := some (.int 7) }] },
              { name := "one", ty := .named "Int", args := [{ name := "o", ty := .nonNull (.named "One"), default := none }] },
              { name := "color", ty := .named "Int", args := [{ name := "c", ty := .nonNull (.named "Color"), default := none }] },
              { name := "pet", ty := .named "Pet", args := [] }],
           ty "Dog" .object [{ name := "id", ty := .nonNull (.named "ID"), args := [] }, { name := "name", ty := .named "String", args := [] }],
           ty "Cat" .object [{ name := "id", ty := .nonNull (.named "ID"), args := [] }, { name := "name", ty := .named "String", args := [] }],
           ty "Pet" .union [] ["Cat", "Dog"],
           ty "Sub" .object [{ name := "names", ty := .named "String", args := [] }],
           ty "Color" .enum [] [] ["RED"],
           ty "One" .input,
           ty "Int" .scalar, ty "String" .scalar, ty "ID" .scalar, ty "Boolean" .scalar],
        query := "Query", mutation := none, subscription := some "Sub" },
    dirs := [{ name := "skip", repeatable := false, locs := ["FIELD", "FRAGMENT_SPREAD", "INLINE_FRAGMENT"],
               args := [{ name := "if", ty := .nonNull (.named "Boolean"), default := none }] }],
    inputs := [{ name := "One", oneof := true, fields := [{ name := "a", ty := .named "Int", default := none }] }] }

def p0 : Core.Pos := { line := 0, col := 0 }
def fld (n : String) (args : List (String × DValue) := []) (sels : List Sel := []) (al : Option String := none) (ds : List Dir := []) : Sel :=
  .field al n args ds sels p0
def q (vars : List VarDef) (sels : List Sel) : Doc := { ops := [{ ty := .query, name := none, vars := vars, dirs := [], sels := sels }], frags := [] }

def rejects (D : Defects) (d : Doc) (vars : List (String × GValue) := []) : Bool := (checkRules S0 D d vars none).isRejected
def specInvalid (d : Doc) (vars : List (String × GValue) := []) : Bool := !(Spec.Validate.violations {} S0 d vars none).isEmpty

/-- `query($v: String){ n(x: $v) }` — accepted when the input-value callbacks are dropped -/
def dVarPos : Doc := q [{ name := "v", ty := .named "String", default := none }] [fld "n" [("x", .var "v")]]
theorem c09_witness_input_value_not_forwarded :
    rejects { inputValueNotForwarded := true } dVarPos = false ∧ rejects {} dVarPos = true ∧ specInvalid dVarPos = true := by
  decide +kernel

/-- `{ __typename @nope }` -/
def dTypename : Doc := q [] [fld "__typename" [] [] none [{ name := "nope", args := [] }]]
theorem c09_witness_typename_not_visited :
    rejects { typenameNotVisited := true } dTypename = false ∧ rejects {} dTypename = true ∧ specInvalid dTypename = true := by
  decide

/-- `{ pet { ... on Dog { k: id } ... on Cat { k: name } } }` — `ID!` against `String` -/
def dOverlap : Doc :=
  q [] [fld "pet" [] [.inline (some "Dog") [] [fld "id" [] [] (some "k")] p0, .inline (some "Cat") [] [fld "name" [] [] (some "k")] p0]]
theorem c09_witness_overlap :
    rejects { overlapKeyedByCondition := true } dOverlap = false ∧ rejects {} dOverlap = true ∧ specInvalid dOverlap = true := by
  decide

/-- `subscription { names second: names }` -/
def dSub : Doc := { ops := [{ ty := .subscription, name := none, vars := [], dirs := [], sels := [fld "names", fld "names" [] [] (some "second")] }], frags := [] }
theorem c09_witness_single_root :
    rejects { noSingleRootSubscription := true } dSub = false ∧ rejects {} dSub = true ∧ specInvalid dSub = true := by
  decide

/-- `{ one(o: "s") }` -/
def dInputLit : Doc := q [] [fld "one" [("o", .str "s")]]
theorem c09_witness_input_object_literal :
    rejects { inputObjectAnyValue := true } dInputLit = false ∧ rejects {} dInputLit = true ∧ specInvalid dInputLit = true := by
  decide +kernel

/-- `{ color(c: "RED") }` -/
def dEnumStr : Doc := q [] [fld "color" [("c", .str "RED")]]
theorem c09_witness_enum_string :
    rejects { enumAcceptsString := true } dEnumStr = false ∧ rejects {} dEnumStr = true ∧ specInvalid dEnumStr = true := by
  decide +kernel

/-- `{ n(x: 3000000000) }` -/
def dIntRange : Doc := q [] [fld "n" [("x", .int 3000000000)]]
theorem c09_witness_int_range :
    rejects { intRangeNotChecked := true } dIntRange = false ∧ rejects {} dIntRange = true ∧ specInvalid dIntRange = true := by
  decide +kernel

/-- `query($v: Int){ def(x: $v) }` where `x: Int! = 7`: allowed by the specification (the location
    has a default), refused by a `VariableInAllowedPosition` that ignores it -/
def dLocDefault : Doc := q [{ name := "v", ty := .named "Int", default := none }] [fld "def" [("x", .var "v")]]
theorem c09_witness_location_default :
    rejects { locationDefaultIgnored := true } dLocDefault = true ∧ rejects {} dLocDefault = false ∧ specInvalid dLocDefault = false := by
  decide +kernel

/-- non-trivial input for the positive direction: a valid document with a variable, a directive
    and an inline fragment is accepted by the repaired model and valid by the reference -/
def dValid : Doc :=
  q [{ name := "v", ty := .nonNull (.named "Int"), default := none }, { name := "b", ty := .nonNull (.named "Boolean"), default := none }]
    [fld "n" [("x", .var "v")], fld "pet" [] [.inline (some "Dog") [{ name := "skip", args := [("if", .var "b")] }] [fld "id"] p0, fld "__typename"]]
theorem c09_repaired_accepts_valid_example :
    rejects {} dValid [("v", .int 1), ("b", .bool true)] = false ∧ specInvalid dValid [("v", .int 1), ("b", .bool true)] = false := by
  decide +kernel

-- ------------------------------------------------------------------ OPEN

/-- the property: the repaired pipeline rejects exactly the invalid requests -/
def c09 : Prop :=
  ∀ (S : VSchema) (d : Doc) (vars : List (String × GValue)) (o : Option String),
    (checkRules S {} d vars o).isRejected = true ↔ ¬ Spec.Validate.Valid {} S d vars o

/-- per-rule equivalences still to be proved (walker-level induction over `events`) -/
def c09_rule_equivalences : Prop :=
  ∀ (S : VSchema) (d : Doc),
    ((events S {} d).any (fun e => (stateless S {} d e).contains .unknownFragment) = Spec.Validate.violates_FragmentSpreadTargetDefined d)
    ∧ ((ruleUniqueVars [] (events S {} d)).isEmpty = !Spec.Validate.violates_VariableUniqueness d)

end AGV.Props.C09
