/-
  C27 — each subscription response holds exactly its own event's data and errors; a streamed query
  or mutation yields exactly one response.

  Model: Model/Subscr.lean (response stream of `Schema::execute_stream`; an event's resolution is an
  arbitrary sequence of polls with captured errors), requirement: Spec/Subscr.lean (`Owned` =
  `OwnData ∧ OwnErrors ∧ InOrder`, schedule-free).  All theorems quantify over EVERY list of root
  fields, every event script (any number of polls, any captured errors, values or propagated errors,
  failing subscription resolvers) and EVERY schedule (list of `arr i` / `step i` actions).

  OBLIGATION c27_query_once
  OBLIGATION c27_own_data
  OBLIGATION c27_in_order
  OBLIGATION c27_own_errors_repaired
  OBLIGATION c27_repaired_owned
  OBLIGATION c27_own_errors_single_root
  OBLIGATION c27_single_root_owned
  OBLIGATION c27_own_errors_violated_by_sharedErrList
  OBLIGATION c27_witness_data_still_own
  OBLIGATION c27_witness_sequential_schedule_ok

  c27_own_errors (for the pinned tree and ≥ 2 root fields) is FALSE: witness theorem
  c27_own_errors_violated_by_sharedErrList, finding C27-shared-error-list-across-root-fields.
-/
import AGV.Model.Subscr
import AGV.Lemmas.Subscr

namespace AGV.Props.C27
open AGV.Core AGV.Spec.Subscr AGV.Model.Subscr AGV.Lemmas.Subscr

/-- A query or mutation sent to the streaming entry point yields exactly one response — the one of
    the non-streaming executor — and the stream ends, whatever the schedule and the defect setting. -/
theorem c27_query_once {α : Type} (D : Defects) (once : α) (wrap : Resp → α) (fields : List Field) (acts : List Act) :
    streamOf D false once wrap fields acts = ([once], true) := by
  simp [streamOf]

/-- For every schedule and either treatment of the error list: every response produced for an event
    carries exactly `{key of its own root field ↦ value of its own event}` (or `null` when that
    event's error propagated to the top). -/
theorem c27_own_data (D : Defects) (fields : List Field) (acts : List Act) :
    OwnData fields (run D fields acts).out :=
  (run_inv D fields acts).data

/-- For every schedule: the events answered for a root field are a prefix of that field's events —
    each once, in order, none invented (also on the pinned tree). -/
theorem c27_in_order (D : Defects) (fields : List Field) (acts : List Act) :
    InOrder fields (run D fields acts).out := by
  intro i f hf
  have h := run_inv D fields acts
  have hlt : i < (run D fields acts).fields.length := by
    rw [h.len]; exact (List.getElem?_eq_some_iff.mp hf).1
  have := h.order i f (run D fields acts).fields[i] hf (by simp [hlt])
  exact ⟨_, this⟩

/-- With a per-event error list (defect repaired): errors(response k) = the errors raised while
    resolving event k, for any number of root fields and every schedule. -/
theorem c27_own_errors_repaired (fields : List Field) (acts : List Act) :
    OwnErrors (run Defects.none fields acts).out :=
  run_errs_repaired fields acts

theorem c27_repaired_owned (fields : List Field) (acts : List Act) :
    Owned fields (run Defects.none fields acts).out :=
  ⟨c27_own_data _ fields acts, c27_own_errors_repaired fields acts, c27_in_order _ fields acts⟩

/-- The pinned tree (request-wide list) with a SINGLE root field — the only shape the GraphQL
    specification allows for subscriptions: errors(response k) = errors of event k, for every
    script and every schedule (events may arrive while the previous one is still being resolved). -/
theorem c27_own_errors_single_root (fields : List Field) (acts : List Act) (h : fields.length ≤ 1) :
    OwnErrors (run Defects.pinned fields acts).out :=
  run_errs_single fields acts h

theorem c27_single_root_owned (fields : List Field) (acts : List Act) (h : fields.length ≤ 1) :
    Owned fields (run Defects.pinned fields acts).out :=
  ⟨c27_own_data _ fields acts, c27_own_errors_single_root fields acts h, c27_in_order _ fields acts⟩

/-- the hypothesis is satisfiable with a non-trivial script: one root field, an event that captures
    an error and is suspended, a second event arriving meanwhile -/
example : ([⟨"sa", .events [{ val := some .null, first := { caps := [⟨[.key "sa"], ⟨1, 1⟩⟩] }, rest := [{}] }, { val := some (.int 1) }]⟩] :
    List Field).length ≤ 1 := by decide

-- ------------------------------------------------------------------ the defect: two root fields

def e1 : GErr := ⟨[.key "sa", .key "child", .key "numReq"], ⟨1, 29⟩⟩

/-- event of `sa { child { numReq } num }`: the first poll captures the error of the nullable `child`,
    then the event is suspended once (resolver of `num`) -/
def evA : EventRun :=
  { val := some (.obj [("child", .null), ("num", .int 7)]), first := { caps := [e1] }, rest := [{}] }

/-- event of `sb { id }`: finishes in its first poll, no error -/
def evB : EventRun := { val := some (.obj [("id", .int 4)]) }

def wFields : List Field := [⟨"sa", .events [evA]⟩, ⟨"sb", .events [evB]⟩]

/-- `sa`'s event arrives (captures, suspended), `sb`'s event arrives and completes, `sa`'s event resumes -/
def wSched : List Act := [.arr 0, .arr 1, .step 0]

/-- (errors of the response, errors its own event raised) -/
def errsVsOwn (out : List Resp) : List (List GErr × Option (List GErr)) :=
  out.map (fun r => (r.errs, r.ev.map ownErrs))

theorem ownErrors_errsVsOwn {out : List Resp} (h : OwnErrors out) :
    ∀ p ∈ errsVsOwn out, ∀ l, p.2 = some l → p.1 = l := by
  intro p hp l hl
  simp only [errsVsOwn, List.mem_map] at hp
  rcases hp with ⟨r, hr, rfl⟩
  cases hev : r.ev with
  | none => simp [hev] at hl
  | some e =>
    simp only [hev, Option.map_some, Option.some.injEq] at hl
    rw [← hl]
    exact h r hr e hev

theorem wRun_errs : errsVsOwn (run Defects.pinned wFields wSched).out = [([e1], some []), ([], some [e1])] := by
  decide

/-- FALSE on the pinned tree with two root fields: the error captured while resolving `sa`'s event
    is delivered in the response of `sb`'s event, and `sa`'s own response (with `child: null`)
    carries no error. -/
theorem c27_own_errors_violated_by_sharedErrList :
    wFields.length = 2 ∧ ¬ OwnErrors (run Defects.pinned wFields wSched).out := by
  refine ⟨rfl, ?_⟩
  intro h
  have := ownErrors_errsVsOwn h ([e1], some []) (by rw [wRun_errs]; simp) [] rfl
  simp [e1] at this

/-- … while the data of both responses is still their own (c27_own_data instantiated). -/
theorem c27_witness_data_still_own : OwnData wFields (run Defects.pinned wFields wSched).out :=
  c27_own_data _ _ _

/-- the schedule the existing tests exercise (every event resolved before the next one arrives)
    does not show the defect -/
theorem c27_witness_sequential_schedule_ok :
    errsVsOwn (run Defects.pinned wFields [.arr 0, .step 0, .arr 1]).out = [([e1], some [e1]), ([], some [])] := by
  decide

end AGV.Props.C27
