/-
  C10 — depth, complexity, recursion and directive limits are enforced exactly.

  All statements are about the model with NO defect toggle (`Defects.none`), for every schema,
  rule table, argument environment, document (any fragments, also cyclic or undefined ones),
  configuration and fuel.  `Spec.Limits.inlineDoc f d` is the document with its fragments written
  inline to `f` levels; `c10_inline_stable` shows that for a document within the recursion
  limit `r` every `f ≥ r + 2` gives the same complete expansion, and the model's `check` uses
  exactly `r + 2`.

  OBLIGATION c10_complexity
  OBLIGATION c10_depth
  OBLIGATION c10_nesting
  OBLIGATION c10_directives
  OBLIGATION c10_inline_stable
  OBLIGATION c10_decision
  OBLIGATION c10_rejected_iff
  OBLIGATION c10_limit_boundary
  OBLIGATION c10_before_exec
  OBLIGATION c10_witness_spread
  OBLIGATION c10_witness_spread_executes
  OBLIGATION c10_witness_typename
  OBLIGATION c10_src_facts
-/
import AGV.Lemmas.Limits

namespace AGV.Props.C10
open AGV.Core
open AGV.Spec.Limits
open AGV.Model.Limits (Defects)
open AGV.Lemmas.Limits

/-- the model's complexity of a document = the reference complexity of the document with its
    fragments written inline (every operation counted) -/
theorem c10_complexity (S : Schema) (R : Rules) (ρ : ArgEnv) (f : Nat) (d : Doc) :
    Model.Limits.complexity Defects.none S R ρ f d = complexity S R ρ (inlineDoc f d) := by
  simp only [Model.Limits.complexity, complexity, inlineDoc, List.map_map]
  congr 1
  apply List.map_congr_left
  intro o _
  simp only [Function.comp]
  have hr : Model.Limits.rootType S o.ty = rootType S o.ty := by cases o.ty <;> rfl
  rw [hr]
  cases rootType S o.ty with
  | none => rfl
  | some r => simp only [cx_refines]

theorem c10_depth (S : Schema) (f : Nat) (d : Doc) :
    Model.Limits.depth Defects.none S f d = depth S (inlineDoc f d) := by
  simp only [Model.Limits.depth, depth, inlineDoc, List.map_map]
  congr 1
  apply List.map_congr_left
  intro o _
  simp only [Function.comp]
  have hr : Model.Limits.rootType S o.ty = rootType S o.ty := by cases o.ty <;> rfl
  rw [hr]
  cases rootType S o.ty with
  | none => rfl
  | some r => simp only [depth_refines]

/-- `check_recursive_depth` with limit `r` fails exactly when the inlined document nests
    deeper than `r` (spreads and inline fragments count a level) -/
theorem c10_nesting (r f : Nat) (d : Doc) (hf : r + 2 ≤ f) :
    (d.ops.any fun o => Model.Limits.recExceeds d.frags (r + 1) o.sels) = true ↔ nesting (inlineDoc f d) > r := by
  simp only [nesting, inlineDoc, List.map_map, gt_iff_lt, lt_maxList, List.any_eq_true, List.mem_map,
    Function.comp]
  constructor
  · rintro ⟨o, ho, h⟩
    exact ⟨_, ⟨o, ho, rfl⟩, by have := (rec_refines d.frags (r + 1) f o.sels (by omega)).mp h; omega⟩
  · rintro ⟨x, ⟨o, ho, rfl⟩, h⟩
    exact ⟨o, ho, (rec_refines d.frags (r + 1) f o.sels (by omega)).mpr (by omega)⟩

/-- `check_max_directives` with limit `lim` fails exactly when some field of the inlined
    document carries more than `lim` directives -/
theorem c10_directives (lim f : Nat) (d : Doc) :
    (d.ops.any fun o => Model.Limits.dirExceeds d.frags lim f o.sels) = true ↔ maxDirectives (inlineDoc f d) > lim := by
  simp only [maxDirectives, inlineDoc, List.map_map, gt_iff_lt, lt_maxList, List.any_eq_true, List.mem_map,
    Function.comp]
  constructor
  · rintro ⟨o, ho, h⟩
    exact ⟨_, ⟨o, ho, rfl⟩, (dir_refines d.frags lim f o.sels).mp h⟩
  · rintro ⟨x, ⟨o, ho, rfl⟩, h⟩
    exact ⟨o, ho, (dir_refines d.frags lim f o.sels).mpr h⟩

/-- within the recursion limit the expansion used by the decision is the complete one: more
    fuel changes nothing -/
theorem c10_inline_stable (r : Nat) (d : Doc) (h : nesting (inlineDoc (r + 2) d) ≤ r) (f : Nat) (hf : r + 2 ≤ f) :
    inlineDoc f d = inlineDoc (r + 2) d := by
  simp only [inlineDoc, Doc.mk.injEq, and_true]
  apply List.map_congr_left
  intro o ho
  have hn : nestSels (inlineSels d.frags (r + 2) o.sels) ≤ r := by
    have : ¬ (r < nesting (inlineDoc (r + 2) d)) := by omega
    simp only [nesting, inlineDoc, List.map_map, lt_maxList, List.mem_map, Function.comp] at this
    by_cases hlt : r < nestSels (inlineSels d.frags (r + 2) o.sels)
    · exact absurd ⟨_, ⟨o, ho, rfl⟩, hlt⟩ this
    · omega
  rw [inline_stable d.frags (r + 2) f o.sels (by omega) hf]

/-- the model's verdict IS the required one: rejected exactly when a reference measure of the
    inlined document exceeds its configured value, the first exceeded limit naming the error -/
theorem c10_decision (cfg : Config) (S : Schema) (R : Rules) (ρ : ArgEnv) (d : Doc) :
    Model.Limits.check Defects.none cfg S R ρ d = required cfg S R ρ (cfg.recursion + 2) d := by
  have h1 := c10_nesting cfg.recursion (cfg.recursion + 2) d (Nat.le_refl _)
  simp only [Model.Limits.check, required, verdict, c10_complexity, c10_depth]
  by_cases hn : nesting (inlineDoc (cfg.recursion + 2) d) > cfg.recursion
  · simp [hn, h1.mpr hn]
  · have hn' : ¬ ((d.ops.any fun o => Model.Limits.recExceeds d.frags (cfg.recursion + 1) o.sels) = true) :=
      fun h => hn (h1.mp h)
    simp only [hn', hn, if_false]
    cases hd : cfg.directives with
    | none => cases cfg.complexity <;> cases cfg.depth <;> simp [exceeds]
    | some lim =>
      have h2 := c10_directives lim (cfg.recursion + 2) d
      by_cases hx : maxDirectives (inlineDoc (cfg.recursion + 2) d) > lim
      · simp [exceeds, hx, h2.mpr hx]
      · have hx' : ¬ ((d.ops.any fun o => Model.Limits.dirExceeds d.frags lim (cfg.recursion + 2) o.sels) = true) :=
          fun h => hx (h2.mp h)
        simp only [hx', exceeds, hx, decide_false, if_false, Bool.false_eq_true]
        cases cfg.complexity <;> cases cfg.depth <;> simp [exceeds]

/-- the decision as an equivalence: limit = value−1 rejects, limit = value and value+1 accept,
    for each of the four measures -/
theorem c10_rejected_iff (cfg : Config) (S : Schema) (R : Rules) (ρ : ArgEnv) (d : Doc) :
    Model.Limits.check Defects.none cfg S R ρ d ≠ Verdict.accept ↔
      (nesting (inlineDoc (cfg.recursion + 2) d) > cfg.recursion
        ∨ (∃ l, cfg.directives = some l ∧ maxDirectives (inlineDoc (cfg.recursion + 2) d) > l)
        ∨ (∃ l, cfg.complexity = some l ∧ complexity S R ρ (inlineDoc (cfg.recursion + 2) d) > l)
        ∨ (∃ l, cfg.depth = some l ∧ depth S (inlineDoc (cfg.recursion + 2) d) > l)) := by
  rw [c10_decision]
  simp only [required, verdict]
  by_cases hn : nesting (inlineDoc (cfg.recursion + 2) d) > cfg.recursion
  · simp [hn]
  · simp only [hn, if_false, false_or]
    cases cfg.directives with
    | none =>
      cases cfg.complexity with
      | none => cases cfg.depth <;> simp [exceeds]
      | some lc =>
        by_cases hc : complexity S R ρ (inlineDoc (cfg.recursion + 2) d) > lc
        · simp [exceeds, hc]
        · cases cfg.depth with
          | none => simp [exceeds, hc]
          | some ld => by_cases hd : depth S (inlineDoc (cfg.recursion + 2) d) > ld <;> simp [exceeds, hc, hd]
    | some lx =>
      by_cases hx : maxDirectives (inlineDoc (cfg.recursion + 2) d) > lx
      · simp [exceeds, hx]
      · cases cfg.complexity with
        | none =>
          cases cfg.depth with
          | none => simp [exceeds, hx]
          | some ld => by_cases hd : depth S (inlineDoc (cfg.recursion + 2) d) > ld <;> simp [exceeds, hx, hd]
        | some lc =>
          by_cases hc : complexity S R ρ (inlineDoc (cfg.recursion + 2) d) > lc
          · simp [exceeds, hx, hc]
          · cases cfg.depth with
            | none => simp [exceeds, hx, hc]
            | some ld => by_cases hd : depth S (inlineDoc (cfg.recursion + 2) d) > ld <;> simp [exceeds, hx, hc, hd]

/-- boundary behaviour spelled out for the complexity limit alone: with the limit at the
    document's complexity the request passes, one below it is rejected as too complex -/
theorem c10_limit_boundary (r : Nat) (S : Schema) (R : Rules) (ρ : ArgEnv) (d : Doc)
    (hn : nesting (inlineDoc (r + 2) d) ≤ r) (l : Nat) :
    Model.Limits.check Defects.none { recursion := r, complexity := some l } S R ρ d
      = if complexity S R ρ (inlineDoc (r + 2) d) > l then Verdict.complexity else Verdict.accept := by
  rw [c10_decision]
  have : ¬ (nesting (inlineDoc (r + 2) d) > r) := by omega
  simp [required, verdict, exceeds, this]

/-- a resolver may run only for a request whose measures are all within their limits -/
theorem c10_before_exec (cfg : Config) (S : Schema) (R : Rules) (ρ : ArgEnv) (d : Doc) :
    Model.Limits.resolversMayRun Defects.none cfg S R ρ d = true ↔
      required cfg S R ρ (cfg.recursion + 2) d = Verdict.accept := by
  simp [Model.Limits.resolversMayRun, c10_decision]

-- ------------------------------------------------------------------ defects of the pinned tree

def wSchema : Schema :=
  { query := "Query"
    types := [
      { name := "Query", kind := .object,
        fields := [{ name := "i", ty := .named "Node", args := [] }, { name := "o", ty := .named "Obj", args := [] }] },
      { name := "Node", kind := .interface, fields := [{ name := "id", ty := .named "Int", args := [] }] },
      { name := "Obj", kind := .object, implements := ["Node"],
        fields := [{ name := "id", ty := .named "Int", args := [] }, { name := "exp", ty := .named "Int", args := [] }] },
      { name := "Int", kind := .scalar }] }

def wRules : Rules := [{ ty := "Obj", field := "exp", expr := .const 50 }]

def wEnv : ArgEnv := fun _ _ _ d => d

def p0 : Pos := { line := 0, col := 0 }

/-- `{ i { ...F } } fragment F on Obj { exp }` -/
def wSpreadDoc : Doc :=
  { ops := [{ ty := .query, name := none, vars := [], dirs := [],
              sels := [.field none "i" [] [] [.spread "F" [] p0] p0] }],
    frags := [{ name := "F", cond := "Obj", dirs := [], sels := [.field none "exp" [] [] [] p0] }] }

/-- `{ o { __typename } }` -/
def wTypenameDoc : Doc :=
  { ops := [{ ty := .query, name := none, vars := [], dirs := [],
              sels := [.field none "o" [] [] [.field none "__typename" [] [] [] p0] p0] }],
    frags := [] }

/-- pinned tree: the rule of `Obj.exp` (50) is not found below a named spread on an interface:
    complexity 2 instead of 51 -/
theorem c10_witness_spread :
    Model.Limits.complexity { spreadKeepsParentType := true } wSchema wRules wEnv 34 wSpreadDoc = 2
      ∧ complexity wSchema wRules wEnv (inlineDoc 34 wSpreadDoc) = 51 := by
  constructor <;> decide

/-- … so with `limit_complexity(10)` the request is executed although it must be rejected -/
theorem c10_witness_spread_executes :
    Model.Limits.check { spreadKeepsParentType := true } { recursion := 32, complexity := some 10 } wSchema wRules wEnv
        wSpreadDoc = Verdict.accept
      ∧ required { recursion := 32, complexity := some 10 } wSchema wRules wEnv 34 wSpreadDoc = Verdict.complexity := by
  constructor <;> decide

/-- pinned tree: `__typename` is not counted: depth 1 instead of 2 (and complexity 1 instead of 2) -/
theorem c10_witness_typename :
    Model.Limits.depth { typenameUncounted := true } wSchema 34 wTypenameDoc = 1
      ∧ depth wSchema (inlineDoc 34 wTypenameDoc) = 2
      ∧ Model.Limits.complexity { typenameUncounted := true } wSchema wRules wEnv 34 wTypenameDoc = 1
      ∧ complexity wSchema wRules wEnv (inlineDoc 34 wTypenameDoc) = 2 := by
  refine ⟨?_, ?_, ?_, ?_⟩ <;> decide

-- ------------------------------------------------------------------ facts read from the source

/-- both schema builders default to the documented recursion limit; all four comparisons are
    strict `>`; the root selection set is level 0 and fields, spreads and inline fragments each
    open a level; the checks run in the order the model uses -/
theorem c10_src_facts :
    Gen.LimitFacts.defaultRecursiveDepthStatic = Gen.LimitFacts.documentedRecursiveDepth
      ∧ Gen.LimitFacts.defaultRecursiveDepthDynamic = Gen.LimitFacts.documentedRecursiveDepth
      ∧ Gen.LimitFacts.comparisons = [">", ">", ">", ">"]
      ∧ Gen.LimitFacts.recursionLevelSites = 3
      ∧ Gen.LimitFacts.recursionStart = 0
      ∧ Gen.LimitFacts.checkOrder = ["check_recursive_depth", "check_max_directives", "check_rules"]
      ∧ Gen.LimitFacts.complexityBeforeDepthBeforeErrors = true := by
  decide

end AGV.Props.C10
