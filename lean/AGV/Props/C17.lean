/-
  Property C17 — exported SDL is valid and describes exactly the schema.

  OBLIGATION c17_strings_escape
  OBLIGATION c17_strings_token
  OBLIGATION c17_strings_reason
  OBLIGATION c17_strings_tag
  OBLIGATION c17_strings_description_quoted
  OBLIGATION c17_description_style
  OBLIGATION c17_strings_block
  OBLIGATION c17_witness_reason_quote
  OBLIGATION c17_witness_single_line_backslash
  OBLIGATION c17_witness_tag_backslash
  OBLIGATION c17_witness_block_triple_quote
  OBLIGATION c17_witness_interface_order
  OBLIGATION c17_witness_dynamic_registration
  OPEN c17_tokens
  OPEN c17_chars

  All theorems are about the model with no defect toggle (`Defects.none` = the tree with the fix
  diffs applied); each toggle has a witness showing the statement fails with it.
-/
import AGV.Model.Sdl
import AGV.Spec.SdlParse
import AGV.Lemmas.SdlBlock

namespace AGV.Props.C17
open AGV.Core.Sdl AGV.Model.Sdl AGV.Spec.Literal AGV.Spec.Lex AGV.Lemmas.SdlBlock

/-- one arm of the repaired `escape_string` is read back as the character it stands for -/
theorem lexString_escapeChar (c : Char) (tl : Text) :
    lexString (escapeChar false c ++ tl) = (lexString tl).map (fun p => (c :: p.1, p.2)) := by
  unfold escapeChar
  by_cases h1 : c = '\\'
  · subst h1; rw [lexString.eq_def]; simp [escaped]; cases lexString tl <;> rfl
  by_cases h2 : c = '"'
  · subst h2; rw [lexString.eq_def]; simp [escaped]; cases lexString tl <;> rfl
  by_cases h3 : c = Char.ofNat 8
  · subst h3; rw [lexString.eq_def]; simp [escaped]; cases lexString tl <;> rfl
  by_cases h4 : c = Char.ofNat 12
  · subst h4; rw [lexString.eq_def]; simp [escaped]; cases lexString tl <;> rfl
  by_cases h5 : c = '\n'
  · subst h5; rw [lexString.eq_def]; simp [escaped]; cases lexString tl <;> rfl
  by_cases h6 : c = '\r'
  · subst h6; rw [lexString.eq_def]; simp [escaped]; cases lexString tl <;> rfl
  by_cases h7 : c = '\t'
  · subst h7; rw [lexString.eq_def]; simp [escaped]; cases lexString tl <;> rfl
  simp only [h1, h2, h3, h4, h5, h6, h7, if_false, Bool.false_and, Bool.and_true, Bool.not_false, decide_false, Bool.false_eq_true]
  rw [List.singleton_append, lexString.eq_def]
  simp [h1, h2, h5, h6]
  cases lexString tl <;> rfl

/-- Every text written by the repaired `escape_string` between two quotes is read back, by the
    specification's StringValue rule, as exactly that text — for all texts (all Unicode scalar
    values, any length), whatever follows the closing quote. -/
theorem c17_strings_escape (t rest : Text) :
    lexString (escapeString false t ++ '"' :: rest) = some (t, rest) := by
  induction t with
  | nil => rw [lexString.eq_def]; simp [escapeString]
  | cons c r ih => simp [escapeString, List.append_assoc, lexString_escapeChar, ih]

/-- … and the quoted text is a StringValue token, not the start of a block string: after the
    opening quote the text never continues with two more quotes (the exporter never lets another
    quote follow the closing one), so the lexer takes the StringValue branch, which is
    `c17_strings_escape`. -/
theorem c17_strings_token (t rest : Text) (h : rest.head? ≠ some '"') :
    (∀ y, escapeString false t ++ '"' :: rest ≠ '"' :: '"' :: y) ∧
    lexString (escapeString false t ++ '"' :: rest) = some (t, rest) := by
  refine ⟨?_, c17_strings_escape t rest⟩
  intro y
  cases t with
  | nil =>
    cases rest with
    | nil => simp [escapeString]
    | cons d rest' =>
      have hd : d ≠ '"' := by simpa using h
      simp [escapeString, hd]
  | cons c r =>
    simp only [escapeString, escapeChar]
    repeat' split
    all_goals simp_all

/-- the deprecation reason: `@deprecated(reason: "…")` carries the reason itself -/
theorem c17_strings_reason (r rest : Text) :
    writeDeprecated Defects.none (.yes (some r)) ++ rest =
      s " @deprecated(reason: " ++ '"' :: (escapeString false r ++ '"' :: ')' :: rest) ∧
    lexString (escapeString false r ++ '"' :: ')' :: rest) = some (r, ')' :: rest) := by
  refine ⟨?_, c17_strings_escape r _⟩
  simp [writeDeprecated, Defects.none, s, List.append_assoc]

/-- a federation tag / the specifiedBy URL -/
theorem c17_strings_tag (t rest : Text) :
    lexString (tagText Defects.none t ++ '"' :: ')' :: rest) = some (t, ')' :: rest) := by
  have h : tagText Defects.none t = escapeString false t := by simp [tagText, Defects.none]
  rw [h]; exact c17_strings_escape t _

/-- a description written in the quoted style (preferred single line, or the fallback for texts
    that a block string would change) is a StringValue denoting the description -/
theorem c17_strings_description_quoted (o : Opts) (level : Nat) (d rest : Text)
    (hq : ((o.singleLine && !d.contains '\n') || !blockPrintable d) = true) :
    writeDescription Defects.none o level d ++ rest = tabs o level ++ ('"' :: (escapeString false d ++ '"' :: '\n' :: rest)) ∧
    (∀ y, escapeString false d ++ '"' :: '\n' :: rest ≠ '"' :: '"' :: y) ∧
    lexString (escapeString false d ++ '"' :: '\n' :: rest) = some (d, '\n' :: rest) := by
  refine ⟨?_, (c17_strings_token d _ (by simp)).1, c17_strings_escape d _⟩
  have hq' : ((o.singleLine && !d.contains '\n') || (!false && !blockPrintable d)) = true := by simpa using hq
  simp only [writeDescription, Defects.none, hq', if_true]
  simp [List.append_assoc]

/-- which style the repaired exporter chooses: the block style exactly for block-printable texts
    not already written on a single line -/
theorem c17_description_style (o : Opts) (level : Nat) (d : Text)
    (hb : blockPrintable d = true) (hs : (o.singleLine && !d.contains '\n') = false) :
    writeDescription Defects.none o level d =
      tabs o level ++ quotes3 ++ '\n' :: tabs o level ++ indentLines (tabs o level) d ++ '\n' :: tabs o level ++ quotes3 ++ ['\n'] := by
  have hq' : ((o.singleLine && !d.contains '\n') || (!false && !blockPrintable d)) = false := by rw [hs, hb]; rfl
  simp only [writeDescription, Defects.none, hq']
  simp

example : blockPrintable "a\n b".toList = true := by decide

/-- a block-printable description written in the block style is ONE token denoting the
    description: the lexer takes the block-string branch, the token ends at the exporter's closing
    quotes, and `BlockStringValue` of the indented raw text is the description — all texts the
    repaired exporter prints as blocks, every indentation made of blanks, whatever follows -/
theorem c17_strings_block : ∀ (tb d rest : Text), tb.all isBlank = true → blockPrintable d = true →
    lexToken (quotes3 ++ '\n' :: tb ++ indentLines tb d ++ '\n' :: tb ++ quotes3 ++ '\n' :: rest) = some (.str d, '\n' :: rest) := by
  intro tb d rest htb hd
  have hd' := hd
  simp only [blockPrintable, Bool.and_eq_true, Bool.not_eq_true'] at hd'
  have hlb := lexBlock_indent tb d ('\n' :: rest) htb hd'.1.1.1
  have e : quotes3 ++ '\n' :: tb ++ indentLines tb d ++ '\n' :: tb ++ quotes3 ++ '\n' :: rest =
      '"' :: '"' :: '"' :: ('\n' :: tb ++ indentLines tb d ++ '\n' :: tb ++ quotes3 ++ '\n' :: rest) := by
    simp [quotes3, List.append_assoc]
  rw [e]
  unfold lexToken
  have h1 : isPunct '"' = false := by decide
  have h2 : nameStart '"' = false := by decide
  have h3 : isDig '"' = false := by decide
  simp only [h1, h2, h3, hlb, blockStringValue_indent tb d htb hd]
  simp


-- ------------------------------------------------------------------ witnesses of the toggles

/-- `"` alone: without the quote arm the token ends at the inner quote -/
theorem c17_witness_reason_quote :
    ∃ t rest, lexString (escapeString true t ++ '"' :: rest) ≠ some (t, rest) := by
  refine ⟨['"'], [], ?_⟩
  rw [show escapeString true ['"'] ++ ['"'] = ['"', '"'] from rfl, lexString.eq_def]
  simp

/-- a single-line description ending in a backslash swallows its closing quote -/
theorem c17_witness_single_line_backslash :
    ∃ d, lexString (replaceQuote d ++ ['"', '\n']) ≠ some (d, ['\n']) := by
  refine ⟨['\\'], ?_⟩
  rw [show replaceQuote ['\\'] ++ ['"', '\n'] = ['\\', '"', '\n'] from rfl, lexString.eq_def]
  simp [escaped]
  rw [lexString.eq_def]
  simp

theorem c17_witness_tag_backslash :
    ∃ t, lexString (tagText { tagQuoteOnly := true } t ++ ['"', '\n']) ≠ some (t, ['\n']) := by
  refine ⟨['\\'], ?_⟩
  rw [show tagText { tagQuoteOnly := true } ['\\'] ++ ['"', '\n'] = ['\\', '"', '\n'] from rfl, lexString.eq_def]
  simp [escaped]
  rw [lexString.eq_def]
  simp

/-- a block description containing `"""` ends there: the block string token stops inside the text -/
theorem c17_witness_block_triple_quote :
    ∃ d, lexBlock ('\n' :: indentLines [] d ++ '\n' :: quotes3) = some ("\na".toList, "b\n\"\"\"".toList) :=
  ⟨"a\"\"\"b".toList, by decide⟩

def ifaceWitness : TypeDef :=
  .interface "A".toList { dirs := [⟨"d".toList, []⟩] } false ["B".toList]
    [⟨"x".toList, {}, .named "Int".toList true, []⟩]

/-- `interface A @d implements B`: with the toggle the directive comes first -/
theorem c17_witness_interface_order :
    exportType { interfaceDirectivesFirst := true } {} ifaceWitness = "interface A @d implements B {\n\tx: Int\n}\n\n".toList ∧
    exportType Defects.none {} ifaceWitness = "interface A implements B @d {\n\tx: Int\n}\n\n".toList := by
  constructor <;> decide

def dynWitness : Schema :=
  { query := "Q".toList, mutation := none, ddefs := [],
    types := [.interface "A".toList {} false ["B".toList] [],
              .input "I".toList { tags := ["t".toList] } false [⟨"x".toList, {}, .named "Int".toList true, none⟩]] }

/-- dynamic registration: with the toggles `implements` is dropped and the input field inherits
    the object's tag; without them the registry holds what was built -/
theorem c17_witness_dynamic_registration :
    register Defects.none .dynamic dynWitness = dynWitness ∧
    (register { dynInterfaceImplementsDropped := true } .dynamic dynWitness).types.head? =
      some (.interface "A".toList {} false [] []) ∧
    (register { dynInputFieldAttrsFromObject := true } .dynamic dynWitness).types.getLast? =
      some (.input "I".toList { tags := ["t".toList] } false
        [⟨"x".toList, { tags := ["t".toList] }, .named "Int".toList true, none⟩]) := by
  refine ⟨rfl, rfl, rfl⟩

-- ------------------------------------------------------------------ open

/-- OPEN: the whole document: the reference parser reads the exported text as the description of
    the registered schema (for schemas whose names are Names and whose values are well-formed) -/
def c17_tokens : Prop :=
  ∀ (k : Kind) (S : Schema) (o : Opts), ∃ present,
    (AGV.Spec.SdlParse.parseSchema (run Defects.none k S o)).map (fun d => cDoc d) =
      some (cDoc (AGV.Spec.SdlParse.describe o S (allDirectives S) (composeGroups (allDirectives S)) present))

/-- OPEN: the glue between characters and tokens for the exporter's separators -/
def c17_chars : Prop := c17_tokens

end AGV.Props.C17
