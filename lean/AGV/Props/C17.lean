/-
  Property C17 — exported SDL is valid and describes exactly the schema.

  OBLIGATION c17_strings_escape
  OBLIGATION c17_strings_token
  OBLIGATION c17_strings_reason
  OBLIGATION c17_strings_tag
  OBLIGATION c17_strings_description_quoted
  OBLIGATION c17_description_style
  OBLIGATION c17_witness_reason_quote
  OBLIGATION c17_witness_single_line_backslash
  OBLIGATION c17_witness_tag_backslash
  OBLIGATION c17_witness_block_triple_quote
  OBLIGATION c17_witness_interface_order
  OBLIGATION c17_witness_dynamic_registration
  OPEN c17_strings_block
  OPEN c17_tokens
  OPEN c17_chars

  All theorems are about the model with no defect toggle (`Defects.none` = the tree with the fix
  diffs applied); each toggle has a witness showing the statement fails with it.
-/
import AGV.Model.Sdl
import AGV.Spec.SdlParse

namespace AGV.Props.C17
open AGV.Core.Sdl AGV.Model.Sdl AGV.Spec.Literal AGV.Spec.Lex

/-- Every text written by the repaired `escape_string` between two quotes is read back, by the
    specification's StringValue rule, as exactly that text — for all texts (all Unicode scalar
    values, any length), whatever follows the closing quote. -/
theorem c17_strings_escape (t rest : Text) :
    lexString (escapeString false t ++ '"' :: rest) = some (t, rest) := by
  induction t with
  | nil => simp [escapeString, lexString]
  | cons c r ih =>
    simp only [escapeString, escapeChar]
    by_cases h1 : c = '\\'
    · subst h1; simp [lexString, escaped, ih]
    by_cases h2 : c = '"'
    · subst h2; simp [lexString, escaped, ih]
    by_cases h3 : c = Char.ofNat 8
    · subst h3; simp [lexString, escaped, ih]; decide
    by_cases h4 : c = Char.ofNat 12
    · subst h4; simp [lexString, escaped, ih]; decide
    by_cases h5 : c = '\n'
    · subst h5; simp [lexString, escaped, ih]; decide
    by_cases h6 : c = '\r'
    · subst h6; simp [lexString, escaped, ih]; decide
    by_cases h7 : c = '\t'
    · subst h7; simp [lexString, escaped, ih]; decide
    simp [h1, h2, h3, h4, h5, h6, h7, lexString, ih]

/-- … and as a whole token of the lexer: `"…"` is one StringValue token denoting the text (the
    exporter never lets another quote follow the closing one). -/
theorem c17_strings_token (t rest : Text) (h : rest.head? ≠ some '"') :
    lexToken ('"' :: escapeString false t ++ '"' :: rest) = some (.str t, rest) := by
  have key := c17_strings_escape t rest
  cases t with
  | nil =>
    cases rest with
    | nil => simp [lexToken, isPunct, nameStart, isAlpha, isDig, escapeString, lexString]
    | cons d rest' =>
      have hd : d ≠ '"' := by simpa using h
      simp [lexToken, isPunct, nameStart, isAlpha, isDig, escapeString, lexString, hd]
  | cons c r =>
    have hne : ∀ x y, escapeChar false c ++ x ≠ '"' :: '"' :: y := by
      intro x y
      simp only [escapeChar]
      repeat' split
      all_goals simp_all
    unfold lexToken
    simp only [escapeString] at key ⊢
    simp [isPunct, nameStart, isAlpha, isDig]
    split
    · rename_i r' heq
      exact absurd heq (by simpa [List.append_assoc] using hne _ _)
    · simp [List.append_assoc] at key ⊢
      simp [key]

/-- the deprecation reason: `@deprecated(reason: "…")` carries the reason itself -/
theorem c17_strings_reason (r rest : Text) :
    ∃ pre, writeDeprecated Defects.none (.yes (some r)) ++ rest = pre ++ '"' :: escapeString false r ++ '"' :: ')' :: rest ∧
      lexToken ('"' :: escapeString false r ++ '"' :: ')' :: rest) = some (.str r, ')' :: rest) := by
  refine ⟨s " @deprecated(reason: ", ?_, c17_strings_token r (')' :: rest) (by simp)⟩
  simp [writeDeprecated, Defects.none, s, List.append_assoc]

/-- a federation tag / the specifiedBy URL -/
theorem c17_strings_tag (t rest : Text) :
    tagText Defects.none t = escapeString false t ∧
    lexToken ('"' :: tagText Defects.none t ++ '"' :: ')' :: rest) = some (.str t, ')' :: rest) := by
  have h : tagText Defects.none t = escapeString false t := by simp [tagText, Defects.none]
  exact ⟨h, by rw [h]; exact c17_strings_token t _ (by simp)⟩

/-- a description written in the quoted style (preferred single line, or the fallback for texts
    that a block string would change) is one StringValue token denoting the description -/
theorem c17_strings_description_quoted (o : Opts) (level : Nat) (d rest : Text)
    (hq : (o.singleLine && !d.contains '\n') || !blockPrintable d = true) :
    writeDescription Defects.none o level d ++ rest = tabs o level ++ ('"' :: escapeString false d ++ '"' :: '\n' :: rest) ∧
    lexToken ('"' :: escapeString false d ++ '"' :: '\n' :: rest) = some (.str d, '\n' :: rest) := by
  refine ⟨?_, c17_strings_token d _ (by simp)⟩
  simp only [writeDescription, Defects.none]
  simp at hq
  simp [hq, List.append_assoc]

/-- which style the repaired exporter chooses: the block style exactly for block-printable texts
    not already written on a single line -/
theorem c17_description_style (o : Opts) (level : Nat) (d : Text)
    (hb : blockPrintable d = true) (hs : (o.singleLine && !d.contains '\n') = false) :
    writeDescription Defects.none o level d =
      tabs o level ++ quotes3 ++ '\n' :: tabs o level ++ indentLines (tabs o level) d ++ '\n' :: tabs o level ++ quotes3 ++ ['\n'] := by
  simp only [writeDescription, Defects.none]
  simp at hs
  simp [hb, hs]

example : blockPrintable "The root\n\n  second paragraph".toList = true := by decide

-- ------------------------------------------------------------------ witnesses of the toggles

/-- `say "no"`: without the quote arm the token ends at the first inner quote -/
theorem c17_witness_reason_quote :
    ∃ t rest, lexString (escapeString true t ++ '"' :: rest) ≠ some (t, rest) :=
  ⟨"say \"no\"".toList, [')'], by decide⟩

/-- a single-line description ending in a backslash swallows its closing quote -/
theorem c17_witness_single_line_backslash :
    ∃ d, lexString (replaceQuote d ++ ['"', '\n']) ≠ some (d, ['\n']) :=
  ⟨"end\\".toList, by decide⟩

theorem c17_witness_tag_backslash :
    ∃ t, lexString (tagText { tagQuoteOnly := true } t ++ ['"', ')']) ≠ some (t, [')']) :=
  ⟨"a\\nb".toList, by decide⟩

/-- a block description containing `"""` ends there -/
theorem c17_witness_block_triple_quote :
    ∃ d, (lexBlock ('\n' :: indentLines [] d ++ '\n' :: quotes3)).map (fun x => blockStringValue x.1) ≠ some d :=
  ⟨"a\"\"\"b".toList, by decide⟩

/-- leading indentation of a block description is lost: BlockStringValue of the raw text written
    for `  a` is `a` -/
example : blockStringValue ('\n' :: indentLines [] "  a".toList ++ ['\n']) ≠ "  a".toList := by decide

def ifaceWitness : TypeDef :=
  .interface "A".toList { dirs := [⟨"d".toList, []⟩] } false ["B".toList]
    [⟨"x".toList, {}, .named "Int".toList true, []⟩]

/-- `interface A @d implements B`: with the toggle the directive comes first -/
theorem c17_witness_interface_order :
    exportType { interfaceDirectivesFirst := true } {} ifaceWitness = "interface A @d implements B {\n\tx: Int\n}\n\n".toList ∧
    exportType Defects.none {} ifaceWitness = "interface A implements B @d {\n\tx: Int\n}\n\n".toList := by
  constructor <;> decide

def dynWitness : Schema :=
  { query := "Q".toList, mutation := none, ddefs := [],
    types := [.interface "A".toList {} false ["B".toList] [],
              .input "I".toList { tags := ["t".toList] } false [⟨"x".toList, {}, .named "Int".toList true, none⟩]] }

/-- dynamic registration: with the toggles `implements` is dropped and the input field inherits
    the object's tag; without them the registry holds what was built -/
theorem c17_witness_dynamic_registration :
    register Defects.none .dynamic dynWitness = dynWitness ∧
    register { dynInterfaceImplementsDropped := true } .dynamic dynWitness ≠ dynWitness ∧
    register { dynInputFieldAttrsFromObject := true } .dynamic dynWitness ≠ dynWitness := by
  refine ⟨by decide, by decide, by decide⟩

-- ------------------------------------------------------------------ open

/-- OPEN: a block-printable description written in the block style is one token denoting the
    description (BlockStringValue of the indented raw text).  Checked on every generated case by the
    judge (the reference parser reads the real SDL), witnessed above for the failing shapes. -/
def c17_strings_block : Prop :=
  ∀ (tb d rest : Text), tb.all isBlank = true → blockPrintable d = true →
    lexToken (quotes3 ++ '\n' :: tb ++ indentLines tb d ++ '\n' :: tb ++ quotes3 ++ '\n' :: rest) = some (.str d, '\n' :: rest)

/-- OPEN: the whole document: the reference parser reads the exported text as the description of
    the registered schema (for schemas whose names are Names and whose values are well-formed) -/
def c17_tokens : Prop :=
  ∀ (k : Kind) (S : Schema) (o : Opts), ∃ present,
    (AGV.Spec.SdlParse.parseSchema (run Defects.none k S o)).map (fun d => cDoc d) =
      some (cDoc (AGV.Spec.SdlParse.describe o S (allDirectives S) (composeGroups (allDirectives S)) present))

/-- OPEN: the glue between characters and tokens for the exporter's separators -/
def c17_chars : Prop := c17_tokens

end AGV.Props.C17
