/-
  Property C17 — exported SDL is valid and describes exactly the schema.

  OBLIGATION c17_strings_escape
  OBLIGATION c17_strings_token
  OBLIGATION c17_strings_reason
  OBLIGATION c17_strings_tag
  OBLIGATION c17_strings_description_quoted
  OBLIGATION c17_description_style
  OBLIGATION c17_strings_block
  OBLIGATION c17_tokens_partial
  OBLIGATION c17_tokens_false
  OBLIGATION c17_tokens_deprecation
  OBLIGATION c17_tokens_directives
  OBLIGATION c17_tokens_default_value
  OBLIGATION c17_tokens_directive_definition
  OBLIGATION c17_tokens_plain
  OBLIGATION c17_tokens_plain_doc
  OBLIGATION c17_tokens_federation_order
  OBLIGATION c17_tokens_wf
  OBLIGATION c17_chars
  OBLIGATION c17_witness_reason_quote
  OBLIGATION c17_witness_single_line_backslash
  OBLIGATION c17_witness_tag_backslash
  OBLIGATION c17_witness_block_triple_quote
  OBLIGATION c17_witness_interface_order
  OBLIGATION c17_witness_dynamic_registration
  OBLIGATION c17_witness_compose_url
  OBLIGATION c17_witness_federation_scalar_any
  OBLIGATION c17_witness_federation_fields
  OBLIGATION c17_tokens_compose_block
  OBLIGATION c17_tokens_wf_any_order
  OBLIGATION c17_compose_groups_spec
  OBLIGATION c17_container_wrappers
  OBLIGATION c17_container_hashset_variant_differs
  OBLIGATION c17_witness_pointer_option_in_list

  Nothing is left open: `c17_tokens` as first stated (no well-formedness hypothesis) is refuted
  (`c17_tokens_false`), the corrected statement `c17_tokens_wf` is proved for every option set,
  composable directive definitions (any URL text, any number of URLs) included, and
  `c17_tokens_wf_any_order` for every order in which the exporter's `HashMap` may yield the
  compose blocks.

  All theorems are about the model with no defect toggle (`Defects.none` = the tree with the fix
  diffs applied); each toggle has a witness showing the statement fails with it.
-/
import AGV.Model.Sdl
import AGV.Spec.SdlParse
import AGV.Lemmas.SdlBlock
import AGV.Lemmas.SdlDocument
import AGV.Lemmas.SdlGroups
import AGV.Lemmas.RustTy

namespace AGV.Props.C17
open AGV.Core.Sdl AGV.Model.Sdl AGV.Spec.Literal AGV.Spec.Lex AGV.Lemmas.SdlBlock

/-- Every text written by the repaired `escape_string` between two quotes is read back, by the
    specification's StringValue rule, as exactly that text — for all texts (all Unicode scalar
    values, any length), whatever follows the closing quote. -/
theorem c17_strings_escape (t rest : Text) :
    lexString (escapeString false t ++ '"' :: rest) = some (t, rest) :=
  lexString_escapeString t rest

/-- … and the quoted text is a StringValue token, not the start of a block string: after the
    opening quote the text never continues with two more quotes (the exporter never lets another
    quote follow the closing one), so the lexer takes the StringValue branch, which is
    `c17_strings_escape`. -/
theorem c17_strings_token (t rest : Text) (h : rest.head? ≠ some '"') :
    (∀ y, escapeString false t ++ '"' :: rest ≠ '"' :: '"' :: y) ∧
    lexString (escapeString false t ++ '"' :: rest) = some (t, rest) := by
  exact ⟨escapeString_not_block t rest h, c17_strings_escape t rest⟩

/-- the deprecation reason: `@deprecated(reason: "…")` carries the reason itself -/
theorem c17_strings_reason (r rest : Text) :
    writeDeprecated Defects.none (.yes (some r)) ++ rest =
      s " @deprecated(reason: " ++ '"' :: (escapeString false r ++ '"' :: ')' :: rest) ∧
    lexString (escapeString false r ++ '"' :: ')' :: rest) = some (r, ')' :: rest) := by
  refine ⟨?_, c17_strings_escape r _⟩
  simp [writeDeprecated, Defects.none, s, List.append_assoc]

/-- a federation tag / the specifiedBy URL -/
theorem c17_strings_tag (t rest : Text) :
    lexString (tagText Defects.none t ++ '"' :: ')' :: rest) = some (t, ')' :: rest) := by
  have h : tagText Defects.none t = escapeString false t := by simp [tagText, Defects.none]
  rw [h]; exact c17_strings_escape t _

/-- a description written in the quoted style (preferred single line, or the fallback for texts
    that a block string would change) is a StringValue denoting the description -/
theorem c17_strings_description_quoted (o : Opts) (level : Nat) (d rest : Text)
    (hq : ((o.singleLine && !d.contains '\n') || !blockPrintable d) = true) :
    writeDescription Defects.none o level d ++ rest = tabs o level ++ ('"' :: (escapeString false d ++ '"' :: '\n' :: rest)) ∧
    (∀ y, escapeString false d ++ '"' :: '\n' :: rest ≠ '"' :: '"' :: y) ∧
    lexString (escapeString false d ++ '"' :: '\n' :: rest) = some (d, '\n' :: rest) := by
  refine ⟨?_, (c17_strings_token d _ (by simp)).1, c17_strings_escape d _⟩
  have hq' : ((o.singleLine && !d.contains '\n') || (!false && !blockPrintable d)) = true := by simpa using hq
  simp only [writeDescription, Defects.none, hq', if_true]
  simp [List.append_assoc]

/-- which style the repaired exporter chooses: the block style exactly for block-printable texts
    not already written on a single line -/
theorem c17_description_style (o : Opts) (level : Nat) (d : Text)
    (hb : blockPrintable d = true) (hs : (o.singleLine && !d.contains '\n') = false) :
    writeDescription Defects.none o level d =
      tabs o level ++ quotes3 ++ '\n' :: tabs o level ++ indentLines (tabs o level) d ++ '\n' :: tabs o level ++ quotes3 ++ ['\n'] := by
  have hq' : ((o.singleLine && !d.contains '\n') || (!false && !blockPrintable d)) = false := by rw [hs, hb]; rfl
  simp only [writeDescription, Defects.none, hq']
  simp

example : blockPrintable "a\n b".toList = true := by decide

/-- a block-printable description written in the block style is ONE token denoting the
    description: the lexer takes the block-string branch, the token ends at the exporter's closing
    quotes, and `BlockStringValue` of the indented raw text is the description — all texts the
    repaired exporter prints as blocks, every indentation made of blanks, whatever follows -/
theorem c17_strings_block : ∀ (tb d rest : Text), tb.all isBlank = true → blockPrintable d = true →
    lexToken (quotes3 ++ '\n' :: tb ++ indentLines tb d ++ '\n' :: tb ++ quotes3 ++ '\n' :: rest) = some (.str d, '\n' :: rest) :=
  fun tb d rest htb hd => lexToken_block tb d rest htb hd

-- ------------------------------------------------------------------ witnesses of the toggles

/-- `"` alone: without the quote arm the token ends at the inner quote -/
theorem c17_witness_reason_quote :
    ∃ t rest, lexString (escapeString true t ++ '"' :: rest) ≠ some (t, rest) := by
  refine ⟨['"'], [], ?_⟩
  rw [show escapeString true ['"'] ++ ['"'] = ['"', '"'] from rfl, lexString.eq_def]
  simp

/-- a single-line description ending in a backslash swallows its closing quote -/
theorem c17_witness_single_line_backslash :
    ∃ d, lexString (replaceQuote d ++ ['"', '\n']) ≠ some (d, ['\n']) := by
  refine ⟨['\\'], ?_⟩
  rw [show replaceQuote ['\\'] ++ ['"', '\n'] = ['\\', '"', '\n'] from rfl, lexString.eq_def]
  simp [escaped]
  rw [lexString.eq_def]
  simp

theorem c17_witness_tag_backslash :
    ∃ t, lexString (tagText { tagQuoteOnly := true } t ++ ['"', '\n']) ≠ some (t, ['\n']) := by
  refine ⟨['\\'], ?_⟩
  rw [show tagText { tagQuoteOnly := true } ['\\'] ++ ['"', '\n'] = ['\\', '"', '\n'] from rfl, lexString.eq_def]
  simp [escaped]
  rw [lexString.eq_def]
  simp

/-- a block description containing `"""` ends there: the block string token stops inside the text -/
theorem c17_witness_block_triple_quote :
    ∃ d, lexBlock ('\n' :: indentLines [] d ++ '\n' :: quotes3) = some ("\na".toList, "b\n\"\"\"".toList) :=
  ⟨"a\"\"\"b".toList, by decide⟩

def ifaceWitness : TypeDef :=
  .interface "A".toList { dirs := [⟨"d".toList, []⟩] } false ["B".toList]
    [⟨"x".toList, {}, .named "Int".toList true, []⟩]

/-- `interface A @d implements B`: with the toggle the directive comes first -/
theorem c17_witness_interface_order :
    exportType { interfaceDirectivesFirst := true } {} ifaceWitness = "interface A @d implements B {\n\tx: Int\n}\n\n".toList ∧
    exportType Defects.none {} ifaceWitness = "interface A implements B @d {\n\tx: Int\n}\n\n".toList := by
  constructor <;> decide

def dynWitness : Schema :=
  { query := "Q".toList, mutation := none, ddefs := [],
    types := [.interface "A".toList {} false ["B".toList] [],
              .input "I".toList { tags := ["t".toList] } false [⟨"x".toList, {}, .named "Int".toList true, none⟩]] }

/-- dynamic registration: with the toggles `implements` is dropped and the input field inherits
    the object's tag; without them the registry holds what was built -/
theorem c17_witness_dynamic_registration :
    register Defects.none .dynamic dynWitness = dynWitness ∧
    (register { dynInterfaceImplementsDropped := true } .dynamic dynWitness).types.head? =
      some (.interface "A".toList {} false [] []) ∧
    (register { dynInputFieldAttrsFromObject := true } .dynamic dynWitness).types.getLast? =
      some (.input "I".toList { tags := ["t".toList] } false
        [⟨"x".toList, { tags := ["t".toList] }, .named "Int".toList true, none⟩]) := by
  refine ⟨rfl, rfl, rfl⟩

/-- a composable URL containing a quote: with the toggle the URL is written as it is, the string
    token ends inside it and the block is no type-system document at all; the repaired exporter's
    block is one -/
theorem c17_witness_compose_url :
    AGV.Spec.SdlParse.parseSchema (composeSdl { composeUrlRaw := true } {} ("a\"b".toList, ["@cd".toList])) = none ∧
    AGV.Spec.SdlParse.parseSchema (composeSdl Defects.none {} ("a\"b".toList, ["@cd".toList])) =
      some [AGV.Lemmas.SdlSkeleton.xGroup ("a\"b".toList, ["@cd".toList])] := by
  refine ⟨by decide, ?_⟩
  have hl := AGV.Lemmas.SdlSkeleton.Lx_group {} ("a\"b".toList, ["@cd".toList]) (by decide) [] [] AGV.Lemmas.SdlLex.Lx.nil
  simp only [List.append_nil] at hl
  unfold AGV.Spec.SdlParse.parseSchema
  rw [hl.tokens]
  have := AGV.Lemmas.SdlSkeleton.pDefs_exts [AGV.Lemmas.SdlSkeleton.groupApps ("a\"b".toList, ["@cd".toList])] (by simp)
    (by intro a ha; rw [List.mem_singleton.mp ha]; exact ⟨AGV.Lemmas.SdlSkeleton.groupApps_ne _, AGV.Lemmas.SdlSkeleton.groupApps_wf _⟩)
    ((AGV.Lemmas.SdlSkeleton.groupToks ("a\"b".toList, ["@cd".toList])).length + 1) (by simp)
  simpa [AGV.Spec.SdlParse.parseTokens, AGV.Lemmas.SdlSkeleton.groupToks, AGV.Lemmas.SdlSkeleton.xGroup] using this

/-- a user's scalar named `Any` in a federation export: with the toggle nothing is written for it
    (the fields that use it then refer to an undefined type); the repaired exporter defines it,
    as the description requires -/
theorem c17_witness_federation_scalar_any :
    exportType { fedScalarAnyDropped := true } { federation := true } (.scalar "Any".toList {} none) = [] ∧
    exportType Defects.none { federation := true } (.scalar "Any".toList {} none) = "scalar Any\n\n".toList ∧
    AGV.Spec.SdlParse.dType { federation := true } (.scalar "Any".toList {} none) =
      some (.type false "Any".toList none [] .scalar) := by
  refine ⟨by decide, by decide, rfl⟩

def fedFieldWitness : TypeDef :=
  .object "Foo".toList {} false [] [⟨"_service".toList, {}, .named "Int".toList true, []⟩]

/-- a user's field named `_service` on a type that is not the query root, in a federation export:
    with the toggle the field is left out and the type is written with empty braces, which is no
    type-system document; the repaired exporter writes the field -/
theorem c17_witness_federation_fields :
    exportType { fedFieldsEverywhere := true } { federation := true } fedFieldWitness = "type Foo {\n}\n\n".toList ∧
    AGV.Spec.SdlParse.parseSchema "type Foo {\n}\n\n".toList = none ∧
    exportType Defects.none { federation := true } fedFieldWitness = "type Foo {\n\t_service: Int\n}\n\n".toList ∧
    fedRoot { federation := true } "Query".toList fedFieldWitness = some fedFieldWitness := by
  refine ⟨by decide, by decide, by decide, rfl⟩

-- ------------------------------------------------------------------ the document: type-definition skeleton

section Skeleton
open AGV.Core AGV.Core.PAst AGV.Spec.SdlParse AGV.Lemmas.SdlLex AGV.Lemmas.SdlSkeleton

/-- the type definitions of the exported document: the first part of `exportSdl` -/
def typeDefsText (S : Schema) (o : Opts) : Text :=
  ((writtenTypes S o).map (exportType Defects.none o)).flatten

/-- the type definitions of the required document: the first part of `describe` -/
def typeDefsDoc (o : Opts) (S : Schema) : List SDef :=
  ((sorted true TypeDef.name S.types).filter
    (fun t => !startsDunder t.name && !(o.federation && federationTypeNames.contains t.name))).filterMap
      (fun t => (dRoot o S.query t).bind (dType o))

/-- in a plain export the query root is a type like any other -/
theorem fedRoot_plain (o : Opts) (ho : o.federation = false) (q : Text) (t : TypeDef) : fedRoot o q t = some t := by
  cases t <;> simp [fedRoot, ho]

theorem dRoot_plain (o : Opts) (ho : o.federation = false) (q : Text) (t : TypeDef) : dRoot o q t = some t := by
  cases t <;> simp [dRoot, ho]

theorem writtenTypes_plain (S : Schema) (o : Opts) (ho : o.federation = false) :
    writtenTypes S o = (sortByName TypeDef.name S.types).filter (typeExported o) := by
  unfold writtenTypes
  have : fedRoot o S.query = some := funext (fedRoot_plain o ho S.query)
  rw [this, List.filterMap_some]

theorem register_none (k : Kind) (S : Schema) : register Defects.none k S = S := by
  unfold register
  split
  · cases S with
    | mk q m tys dd =>
      simp only [Schema.mk.injEq, true_and, and_true]
      conv => rhs; rw [← List.map_id tys]
      apply List.map_congr_left
      intro t _
      cases t <;> rfl
  · rfl

theorem startsDunder_eq (n : Text) : startsDunder n = startsWith2Underscores n := by
  unfold startsDunder startsWith2Underscores
  split <;> simp_all

/-- The type definitions of a plain export (subsumed by `c17_tokens_wf`; kept as the statement
    over the structural predicate `SkelType`): for a plain (non-federation) export of a schema whose types are
    well-formed (`SkelType`: names are Names; kinds, DESCRIPTIONS of types / fields / arguments /
    enum values / input fields in either style, fields, argument lists in both layouts, type
    references of any nesting, implements lists, union members, enum values, input fields,
    DEPRECATIONS with or without reason on fields / arguments / enum values / input fields,
    DIRECTIVE APPLICATIONS with arguments on every item, DEFAULT VALUES (C15's printer: integers,
    strings, booleans, null, enum values, lists, objects, any nesting), specifiedBy URLs and
    @oneOf), under every sorting / indentation / description-style / specifiedBy option: the
    type-definition part of the exported text — lexed by the specification's lexer, parsed by the
    reference parser — is exactly the type-definition part of the required document. -/
theorem c17_tokens_partial (k : Kind) (S : Schema) (o : Opts) (ho : o.federation = false)
    (hS : ∀ t ∈ S.types, SkelType t) (hne : typeDefsDoc o S ≠ []) :
    (∃ tail, run Defects.none k S o = typeDefsText S o ++ tail) ∧
    (∀ reg groups present, ∃ tail, describe o S reg groups present = typeDefsDoc o S ++ tail) ∧
    parseSchema (typeDefsText S o) = some (typeDefsDoc o S) := by
  refine ⟨⟨_, by rw [run, register_none]; unfold exportSdl exportSdlG typeDefsText; rw [List.append_assoc]⟩, fun reg groups present => ⟨_, by simp only [describe, typeDefsDoc, List.append_assoc]; rfl⟩, ?_⟩
  have hfilt : (sorted true TypeDef.name S.types).filter
      (fun t => !startsDunder t.name && !(o.federation && federationTypeNames.contains t.name)) =
      (sortByName TypeDef.name S.types).filter (typeExported o) := by
    have : sorted true TypeDef.name S.types = sortByName TypeDef.name S.types := rfl
    rw [this]
    congr 1
  have hdr : (fun t => (dRoot o S.query t).bind (dType o)) = dType o := by
    funext t; rw [dRoot_plain o ho]; rfl
  unfold typeDefsDoc typeDefsText at *
  rw [hfilt, hdr] at hne ⊢
  rw [writtenTypes_plain S o ho]
  have hmem : ∀ t ∈ (sortByName TypeDef.name S.types).filter (typeExported o), t ∈ S.types :=
    fun t ht => List.mem_mergeSort.mp (List.mem_filter.mp ht).1
  have hx : ∀ L : List TypeDef, (∀ t ∈ L, SkelType t) → L.filterMap (xType o) = L.filterMap (dType o) := by
    intro L hL
    induction L with
    | nil => rfl
    | cons t L ih =>
      have ha : TypeAttrs (tdAttrs t) := by
        have := hL t List.mem_cons_self
        cases t <;> first | exact this.2.1 | exact this.2
      simp only [List.filterMap_cons, xType_plain o ho t ha, ih (fun x hx => hL x (List.mem_cons_of_mem _ hx))]
  have hfm := hx _ (fun t ht => hS t (hmem t ht))
  rw [← hfm] at hne ⊢
  exact parse_typeDefs o _ (fun t ht => ⟨hS t (hmem t ht), trivial⟩) hne


/-- a schema with an object (fields with arguments, list / non-null wrappers, implements, a
    deprecated field with a reason full of escapes, a deprecated argument, default values of
    every kind, directive applications with nested arguments), an interface, a union, an enum
    (deprecated value), a oneOf input object (deprecated field, default object), custom scalars
    (specifiedBy URL, directive application), a mutation root and a custom repeatable directive
    definition with a default value -/
def fullWitness : Schema :=
  { query := "Q".toList, mutation := some "M".toList,
    ddefs := [DirDef.mk "auth".toList (some "access control".toList)
      [⟨"roles".toList, {}, .listOf (.named "String".toList false) true, some (.list [.str "admin \"root\"".toList])⟩,
       ⟨"level".toList, {}, .named "Int".toList true, some (.int (-3))⟩] true
      ["OBJECT".toList, "FIELD_DEFINITION".toList] none],
    types :=
      [ .object "Q".toList { desc := some "the root\n  of all \"queries\"".toList,
                             dirs := [⟨"auth".toList, [("roles".toList, .list [.str "a".toList, .str "b\\c".toList]), ("level".toList, .int 0)]⟩] }
          false ["Node".toList]
          [⟨"id".toList, { dep := .yes (some "use \"uid\"\n\\ instead".toList) }, .named "ID".toList false, []⟩,
           ⟨"find".toList, { desc := some "search".toList, dep := .yes none, dirs := [⟨"auth".toList, []⟩, ⟨"auth".toList, [("level".toList, .int 7)]⟩] },
             .listOf (.named "Hit".toList false) true,
             [⟨"q".toList, { desc := some "what to look for".toList, dep := .yes (some "gone".toList) }, .named "Filter".toList false,
                some (.obj [("mode".toList, .enum "FAST".toList), ("tags".toList, .list []), ("deep".toList, .obj [("x".toList, .null)])])⟩,
              ⟨"n".toList, { dirs := [⟨"auth".toList, []⟩] }, .named "Int".toList true, some (.int (-12))⟩,
              ⟨"exact".toList, {}, .named "Boolean".toList true, some (.bool true)⟩]⟩],
        .interface "Node".toList {} false [] [⟨"id".toList, {}, .named "ID".toList false, []⟩],
        .union "Hit".toList { dirs := [⟨"auth".toList, []⟩] } ["Q".toList, "M".toList],
        .object "M".toList {} false [] [⟨"when".toList, {}, .named "Date".toList true, []⟩],
        .enum "Mode".toList {} [("FAST".toList, { desc := some " leading blank: quoted style".toList, dep := .yes (some "slow".toList) }),
                                ("EXACT".toList, { dirs := [⟨"auth".toList, [("level".toList, .int 1)]⟩] })],
        .input "Filter".toList {} true
          [⟨"mode".toList, { dep := .yes none }, .named "Mode".toList true, some (.enum "EXACT".toList)⟩,
           ⟨"text".toList, {}, .named "String".toList true, some (.str "tab\there".toList)⟩],
        .scalar "Date".toList { dirs := [⟨"auth".toList, []⟩] } (some "https://example.org/\"date\"".toList),
        .scalar "Int".toList {} none ] }

example : schemaOk fullWitness = true := by decide

example : (∀ t ∈ fullWitness.types, SkelType t) ∧ typeDefsDoc {} fullWitness ≠ [] := by
  constructor
  · intro t ht
    have h : fullWitness.types.all typeOk = true := by decide
    exact typeOk_sound (List.all_eq_true.mp h t ht)
  · intro h
    have hm : TypeDef.interface "Node".toList {} false [] [⟨"id".toList, {}, .named "ID".toList false, []⟩] ∈
        (sorted true TypeDef.name fullWitness.types).filter
          (fun t => !startsDunder t.name && !(({} : Opts).federation && federationTypeNames.contains t.name)) := by
      rw [List.mem_filter]
      refine ⟨?_, by decide⟩
      unfold sorted
      rw [if_pos rfl, List.mem_mergeSort]
      simp [fullWitness]
    have hmem : ∀ d, dType {} (TypeDef.interface "Node".toList {} false [] [⟨"id".toList, {}, .named "ID".toList false, []⟩]) = some d →
        d ∈ typeDefsDoc {} fullWitness := fun d hd => List.mem_filterMap.mpr ⟨_, hm, by rw [dRoot_plain _ rfl]; exact hd⟩
    have := hmem _ rfl
    rw [h] at this
    cases this

end Skeleton

-- ------------------------------------------------------------------ the statement without hypotheses is false

/-- the whole document, as first stated: for EVERY schema and option set the reference parser
    reads the exported text as the description of the registered schema.  False: the statement
    has no well-formedness hypothesis (its documentation assumed one). -/
def c17_tokens : Prop :=
  ∀ (k : Kind) (S : Schema) (o : Opts), ∃ present,
    (AGV.Spec.SdlParse.parseSchema (run Defects.none k S o)).map (fun d => cDoc d) =
      some (cDoc (AGV.Spec.SdlParse.describe o S (allDirectives S) (composeGroups (allDirectives S)) present))

section Refutation
open AGV.Spec.SdlParse AGV.Lemmas.SdlLex

/-- a scalar whose name is not a Name -/
def percentWitness : Schema :=
  { query := "Q".toList, mutation := none, ddefs := [], types := [.scalar "%".toList {} none] }

theorem lexAll_percent0 (rest : Text) : ∀ f, lexAll f (' ' :: '%' :: rest) = none := by
  intro f
  rcases f with _ | _ | f
  · rfl
  · rw [lexAll_cons, if_pos (by decide)]; rfl
  · rw [lexAll_cons, if_pos (by decide), lexAll_cons, if_neg (by decide), if_neg (by decide)]
    have : lexToken ('%' :: rest) = none := by
      unfold lexToken
      simp only [show isPunct '%' = false by decide, show AGV.Spec.Literal.nameStart '%' = false by decide,
        show isDig '%' = false by decide, show ('%' = '.') = False by decide, show ('%' = '-') = False by decide,
        show ('%' = '"') = False by decide, if_false, Bool.false_eq_true, Bool.or_self, decide_false]
    rw [this]; rfl

theorem lexAll_percent (rest : Text) (f : Nat) :
    lexAll f ('s' :: 'c' :: 'a' :: 'l' :: 'a' :: 'r' :: ' ' :: '%' :: rest) = none := by
  cases f with
  | zero => rfl
  | succ f =>
    have hn := nameOf_append "calar".toList (' ' :: '%' :: rest) (by decide) (by intro c r e; cases e; decide)
    have e : 's' :: 'c' :: 'a' :: 'l' :: 'a' :: 'r' :: ' ' :: '%' :: rest = 's' :: ("calar".toList ++ ' ' :: '%' :: rest) := by simp
    rw [e, lexAll_cons, if_neg (by decide), if_neg (by decide), lexToken_name _ _ (by decide) (by decide) (by decide), hn]
    simp only [contTok, lexAll_percent0, Option.map_none]

theorem types_percent :
    ((writtenTypes percentWitness {}).map (exportType Defects.none {})).flatten =
      ['s', 'c', 'a', 'l', 'a', 'r', ' ', '%', '\n', '\n'] := by
  have : sortByName TypeDef.name percentWitness.types = percentWitness.types := by simp [sortByName, percentWitness]
  rw [writtenTypes_plain _ _ rfl, this]; decide

/-- REFUTATION of `c17_tokens` as first stated: the exporter writes the scalar named `%` as
    `scalar %`, which is not even a token sequence (`%` starts no token), so the reference parser
    reads no document at all.  The model is right (the real exporter writes names verbatim; the
    registry API rejects such names earlier); the statement lacked its hypothesis: the corrected
    statement is `c17_tokens_wf` (proved below, every option set). -/
theorem c17_tokens_false : ¬ c17_tokens := by
  intro h
  obtain ⟨present, h⟩ := h .derived percentWitness {}
  have : parseSchema (run Defects.none .derived percentWitness {}) = none := by
    unfold run
    rw [register_none]
    unfold exportSdl exportSdlG
    rw [types_percent]
    unfold parseSchema tokens
    simp only [List.cons_append, List.nil_append]
    rw [lexAll_percent]
  rw [this] at h
  cases h

end Refutation

-- ------------------------------------------------------------------ the steps, in context

section Steps
open AGV.Core AGV.Core.PAst AGV.Spec.SdlParse AGV.Lemmas.SdlLex AGV.Lemmas.SdlValue AGV.Lemmas.SdlSkeleton

/-- STEP 1, deprecations in context: whatever item it follows (what comes next must not continue
    a Name), the text `write_deprecated` writes is the token sequence of the directive
    application(s) `depApps`, which the reference parser's `Directives[Const]` reads as exactly
    the deprecation `describe` requires — no reason, or ANY reason text. -/
theorem c17_tokens_deprecation (d : Dep) (rest : Text) (ts more : List Tok) (hr : NameEnd rest) (h : Lx rest ts)
    (hm : DirEnd more) :
    Lx (writeDeprecated Defects.none d ++ rest) (dirsToks (depApps d) ++ ts) ∧
    constDirs (dirsToks (depApps d) ++ more) = some (dDeprecated d, more) := by
  refine ⟨Lx_deprecated d rest ts hr h, ?_⟩
  rw [constDirs_toks (depApps d) (depApps_wf d) more hm, depApps_dDir]

example : NameEnd "\n}".toList ∧ DirEnd [Tok.punct '}'] :=
  ⟨nameEnd_of_ignored '\n' _ (by decide), dirEnd_punct _ _ (by decide) (by decide)⟩

/-- STEP 2, directive applications in context: the text `MetaDirectiveInvocation::sdl` writes for
    a list of applications with well-formed names and argument values (`dirWf`), after any item,
    is the token sequence `dirsToks`, read back as exactly those applications. -/
theorem c17_tokens_directives (ds : List DirApp) (hw : ∀ d ∈ ds, dirWf d = true) (rest : Text) (ts more : List Tok)
    (hr : NameEnd rest) (h : Lx rest ts) (hm : DirEnd more) :
    Lx (dirApps ds ++ rest) (dirsToks ds ++ ts) ∧
    constDirs (dirsToks ds ++ more) = some (ds.map dDir, more) :=
  ⟨Lx_dirApps ds hw rest ts hr h, constDirs_toks ds hw more hm⟩

example : dirWf ⟨"auth".toList, [("roles".toList, .list [.str "a\"b".toList, .enum "X".toList]), ("level".toList, .int (-1))]⟩ = true := by
  decide

/-- STEP 3, default values and directive arguments: the text C15's printer writes for a
    well-formed constant value (`svWf`: enum values and object keys are Names; any string, any
    integer, any nesting), followed by anything that is ignored or a punctuator, is the token
    sequence `svToks`, which the reference parser's `Value[Const]` reads as the value. -/
theorem c17_tokens_default_value (v : SValue) (hv : svWf v = true) (rest : Text) (ts more : List Tok)
    (hr : ValEnd rest) (h : Lx rest ts) :
    Lx (printValue v ++ rest) (svToks v ++ ts) ∧
    AGV.Spec.Parse.pValue P true (AGV.Spec.Parse.valueFuel (svToks v ++ more)) (svToks v ++ more) = some (v.toP, more) :=
  ⟨Lx_value v hv rest ts hr h, pValue_toks v hv _ more (by simp [AGV.Spec.Parse.valueFuel]; omega)⟩

example : svWf (.obj [("a".toList, .list [.int (-5), .str "q\"\n".toList, .null]), ("b".toList, .obj [("c".toList, .enum "RED".toList)])]) = true := by
  decide

/-- STEP 4a, directive definitions: the text `MetaDirective::sdl` writes for a well-formed
    definition (description in either style, arguments with default values, `repeatable`,
    locations) is the token sequence `dirDefToks`, read back as the definition `describe` requires. -/
theorem c17_tokens_directive_definition (o : Opts) (d : DirDef) (hd : SkelDirDef d)
    (rest : Text) (ts more : List Tok) (h : Lx rest ts) (hm : DefEnd more) :
    Lx (directiveSdl Defects.none o d ++ '\n' :: rest) (dirDefToks o d ++ ts) ∧
    pDef (dirDefToks o d ++ more) = some (dDirective d, more) :=
  ⟨Lx_dirDef o d hd rest ts h, pDef_dirDef o d hd more hm⟩

example : ∀ d ∈ systemDirectives ++ fullWitness.ddefs, SkelDirDef d := by
  intro d hd
  have h : (systemDirectives ++ fullWitness.ddefs).all dirDefOk = true := by decide
  exact dirDefOk_sound (List.all_eq_true.mp h d hd)

/-- STEP 4, THE WHOLE DOCUMENT OF A PLAIN EXPORT: for every schema that is well-formed
    (`schemaOk`, a decidable check: names are Names, enum values are not true / false / null,
    values are printable, non-empty field / member / value / location lists, no `__` field, no
    deprecation on a type itself, locations are directive locations), registered either way,
    and every non-federation option set (sorting of fields / arguments / enum values, single-line
    descriptions, specifiedBy, indentation), the text the repaired exporter writes — lexed by the
    specification's lexer, parsed by the reference parser — IS the document `describe` requires:
    all type definitions, the directive definitions the exporter writes, the schema block. -/
theorem c17_tokens_plain_doc (k : Kind) (S : Schema) (o : Opts) (ho : o.federation = false) (hS : schemaOk S = true) :
    parseSchema (run Defects.none k S o) =
      some (describe o S (allDirectives S) (composeGroups (allDirectives S)) (presentOf S)) := by
  rw [run, register_none, exportSdl, parse_xDoc o S hS (by intro h; rw [ho] at h; cases h) _ (composeGroups_ok S hS),
    xDoc_plain o ho S hS]

/-- … in the shape of `c17_tokens` (the plain-export half of `c17_tokens_wf`, where the documents
    are even EQUAL, not only equal up to directive order) -/
theorem c17_tokens_plain (k : Kind) (S : Schema) (o : Opts) (ho : o.federation = false) (hS : schemaOk S = true) :
    ∃ present,
      (parseSchema (run Defects.none k S o)).map (fun d => cDoc d) =
        some (cDoc (describe o S (allDirectives S) (composeGroups (allDirectives S)) present)) :=
  ⟨presentOf S, by rw [c17_tokens_plain_doc k S o ho hS]; rfl⟩

example : schemaOk fullWitness = true ∧ ({ sortedFields := true, singleLine := true, specifiedBy := true, useSpace := true, width := 4 } : Opts).federation = false :=
  ⟨by decide, rfl⟩

end Steps

-- ------------------------------------------------------------------ every option set

section Whole
open AGV.Core AGV.Core.PAst AGV.Spec.SdlParse AGV.Lemmas.SdlLex AGV.Lemmas.SdlValue AGV.Lemmas.SdlSkeleton

/-- STEP 5a, the one place where a federation export differs from `describe` in ORDER: on fields
    (and object types) the exporter writes the custom directive applications before
    @inaccessible / @tag, `describe` lists the federation attributes first.  As long as no custom
    application is itself named `tag` / `inaccessible`, the comparison `cDirs` (stable sort by
    name) cannot tell: any deprecation, any tags, any custom applications. -/
theorem c17_tokens_federation_order (o : Opts) (a : Attrs) (h : o.federation = true → appsFedOk a = true) :
    cDirs ((fieldApps o a).map dDir) = cDirs (dDirs o a) :=
  cDirs_fieldApps o a (appsDisjoint o a h)

example : appsFedOk { inacc := true, tags := ["t".toList], dirs := [⟨"auth".toList, []⟩, ⟨"zeta".toList, []⟩, ⟨"auth".toList, [("level".toList, .int 2)]⟩] } = true := by
  decide

/-- STEP 5b, one compose block in context: for ANY composable URL text and any import names that
    need no escaping (`@` + a Name does not), the text the repaired exporter writes for a group —
    `extend schema @link(url: "…" import: […])` and one `@composeDirective(name: …)` per name —
    is the token sequence `groupToks`, which the reference parser reads as the schema extension
    `describe` requires for the group, whatever definition follows. -/
theorem c17_tokens_compose_block (o : Opts) (g : Text × List Text) (hn : ∀ n ∈ g.2, escapeString false n = n)
    (rest : Text) (ts more : List Tok) (h : Lx rest ts) (hm : DefEnd more) :
    Lx (composeSdl Defects.none o g ++ rest) (groupToks g ++ ts) ∧
    pDef (groupToks g ++ more) =
      some (.schema true (linkDir g.1 g.2 :: g.2.map (fun n => ⟨kwT "composeDirective", [(kwT "name", .str n)]⟩)) none none none, more) := by
  refine ⟨Lx_group o g hn rest ts h, ?_⟩
  rw [groupToks, pDef_ext (groupApps g) (groupApps_wf g) (groupApps_ne g) more hm, groupApps_dDir]

example : escapeString false "@custom_directive".toList = "@custom_directive".toList :=
  importName_plain "custom_directive".toList (by decide)

/-- THE WHOLE DOCUMENT, EVERY option set, EVERY ORDER OF THE COMPOSE BLOCKS: `Registry::export_sdl`
    collects the composable directives in a `HashMap` keyed by URL and writes one block per entry
    in the map's iteration order, which changes from call to call.  For every well-formed schema
    (`schemaOk`; for a federation export `federationOk`), both ways of registering, every option
    set, and every permutation `gs` of the groups: the text the repaired exporter writes — lexed
    by the specification's lexer, parsed by the reference parser — is the description of the
    registered schema with its schema extensions in that order (`cDoc`: directive applications
    compared up to the order of differently named directives; the built-in directive definitions
    present are those the exporter wrote).  Composable directives: any URL text, any number of
    URLs, any number of directives per URL. -/
theorem c17_tokens_wf_any_order (k : Kind) (S : Schema) (o : Opts) (hS : schemaOk S = true)
    (hF : o.federation = true → federationOk S = true)
    (gs : List (Text × List Text)) (hp : gs.Perm (linkGroups (allDirectives S))) : ∃ present,
    (parseSchema (runG Defects.none k S o gs)).map (fun d => cDoc d) =
      some (cDoc (describe o S (allDirectives S) gs present)) := by
  refine ⟨presentOf S, ?_⟩
  rw [← composeGroups_linkGroups] at hp
  rw [runG, register_none, parse_xDoc o S hS hF gs ((composeGroups_ok S hS).perm hp), Option.map_some, xDoc_cDoc o S hS hF]

/-- the exporter's grouping loop (a fold over the directive table with a map keyed by URL)
    computes exactly the link groups the specification asks for: one group per distinct
    composable URL, in order of first appearance, importing `@name` for every directive registered
    with that URL, in registration order — for every directive table. -/
theorem c17_compose_groups_spec (ds : List DirDef) : composeGroups ds = linkGroups ds :=
  composeGroups_linkGroups ds

/-- THE WHOLE DOCUMENT, corrected statement, EVERY option set (plain and federation exports,
    compose, sorting, single-line descriptions, specifiedBy, indentation) and both ways of
    registering: for every well-formed schema — `schemaOk` (decidable: names are Names, enum
    values are not true / false / null, values are printable, non-empty field / member / value /
    location lists, no `__` field, no deprecation on a type itself, locations are directive
    locations) and, for a federation export, `federationOk` (decidable: no custom
    directive application named `tag` / `inaccessible`; composable directive definitions, types
    named `Any` of any kind and fields named `_service` / `_entities` are allowed: on the query
    root of a federation export those two are federation machinery and left out on both sides) — the text the repaired
    exporter writes (compose blocks in order of first appearance), lexed by the specification's
    lexer and parsed by the reference parser, is the description of the registered schema
    (`cDoc`: directive applications compared up to the order of differently named directives; the
    built-in directive definitions present are those the exporter wrote; the link groups are the
    specification's `linkGroups`). -/
theorem c17_tokens_wf (k : Kind) (S : Schema) (o : Opts) (hS : schemaOk S = true)
    (hF : o.federation = true → federationOk S = true) : ∃ present,
    (parseSchema (run Defects.none k S o)).map (fun d => cDoc d) =
      some (cDoc (describe o S (allDirectives S) (linkGroups (allDirectives S)) present)) := by
  have e : run Defects.none k S o = runG Defects.none k S o (linkGroups (allDirectives S)) := by
    rw [run, runG, register_none, exportSdl, composeGroups_linkGroups]
  rw [e]
  exact c17_tokens_wf_any_order k S o hS hF _ (List.Perm.refl _)

/-- a federation export with `extends` types, @inaccessible, tags, custom directive applications
    next to them (repeated ones too), a scalar `Any`, a federation type, and composable directive
    definitions: two sharing a URL, one with a URL full of quotes, backslashes and a line break -/
def federationWitness : Schema :=
  let a1 : Attrs := { inacc := true, tags := ["a\"b".toList, "c".toList],
                      dirs := [⟨"auth".toList, []⟩, ⟨"zeta".toList, []⟩, ⟨"auth".toList, [("level".toList, .int 2)]⟩] }
  let a2 : Attrs := { desc := some "dd".toList, inacc := true, tags := ["t".toList], dirs := [⟨"zeta".toList, []⟩] }
  { query := "Q".toList, mutation := none,
    ddefs := [ ⟨"auth".toList, none, [], true, ["OBJECT".toList], some "https://custom.spec.dev/extension/v1.0".toList⟩,
               ⟨"zeta".toList, some "z".toList, [], false, ["FIELD_DEFINITION".toList], some "https://e.org/\"x\"\\n\n".toList⟩,
               ⟨"cd".toList, none, [], false, ["ENUM".toList], some "https://custom.spec.dev/extension/v1.0".toList⟩ ],
    types := [ .object "Q".toList a2 true ["I".toList]
                 [⟨"x".toList, { a1 with dep := .yes (some "old".toList) }, .named "Int".toList true,
                    [⟨"y".toList, a1, .named "E".toList true, some (.enum "A".toList)⟩]⟩],
               .interface "I".toList a2 true [] [⟨"x".toList, a1, .named "Int".toList true, []⟩],
               .enum "E".toList a2 [("A".toList, a1)],
               .input "In".toList a2 true [⟨"f".toList, a1, .named "Int".toList true, none⟩],
               .union "U".toList a2 ["Q".toList],
               .scalar "Any".toList {} none,
               .object "Foo".toList {} false [] [⟨"_service".toList, {}, .named "Int".toList true, []⟩],
               .scalar "_Any".toList {} none,
               .scalar "S".toList a2 (some "u".toList) ] }

example : schemaOk federationWitness = true ∧ federationOk federationWitness = true ∧
    schemaOk fullWitness = true ∧ federationOk fullWitness = true := by decide

example : composeGroups federationWitness.ddefs =
    [("https://custom.spec.dev/extension/v1.0".toList, ["@auth".toList, "@cd".toList]),
     ("https://e.org/\"x\"\\n\n".toList, ["@zeta".toList])] := by decide

/-- CHARACTERS TO TOKENS, every option set: the exported text of a well-formed schema is, for the
    specification's lexer (`tokens`), exactly the token sequence `docToks` — every separator the
    exporter writes (blanks, tabs, line ends, commas, the `\n\n` between definitions, either
    argument layout, either description style) is ignored, every lexeme ends where the exporter
    ends it. -/
theorem c17_chars (k : Kind) (S : Schema) (o : Opts) (hS : schemaOk S = true)
    (hF : o.federation = true → federationOk S = true)
    (gs : List (Text × List Text)) (hp : gs.Perm (linkGroups (allDirectives S))) :
    tokens (runG Defects.none k S o gs) = some (docToks o S gs) := by
  rw [← composeGroups_linkGroups] at hp
  rw [runG, register_none]
  exact (Lx_document o S hS hF gs ((composeGroups_ok S hS).perm hp)).tokens

end Whole

-- ------------------------------------------------------------------ declared Rust types (derive-built schemas)

section Containers
open AGV.Core.RustTy AGV.Core.PAst

/-- THE WRAPPER RULE FOR CONTAINERS in the SDL's type syntax, all declared types: the type the
    repaired `type_name` / `qualified_type_name` / `create_type_info` register for a position
    declared with Rust type `t` (named types, every list container, `Option`, `MaybeUndefined`,
    `Box` / `Arc` / `&`, nested to any depth) is the type the declaration means, and the text the
    exporter writes for it is `[` element type `]!` for a container, the same without the final
    `!` under `Option` / `MaybeUndefined`, `Name!` for a named type. -/
theorem c17_container_wrappers (t : RTy) :
    Model.RustTy.toP (Model.RustTy.created .none t) = Spec.RustTy.ptype t ∧
    (∀ n, typeText (Spec.RustTy.ptype (.leaf n)) = n.toList ++ ['!']) ∧
    (∀ k, typeText (Spec.RustTy.ptype (.list k t)) = '[' :: typeText (Spec.RustTy.ptype t) ++ [']', '!']) ∧
    (∀ k, typeText (Spec.RustTy.ptype (.option (.list k t))) = '[' :: typeText (Spec.RustTy.ptype t) ++ [']']) ∧
    (∀ k, typeText (Spec.RustTy.ptype (.undef (.list k t))) = '[' :: typeText (Spec.RustTy.ptype t) ++ [']']) ∧
    (∀ p, Spec.RustTy.ptype (.ptr p t) = Spec.RustTy.ptype t) := by
  refine ⟨?_, ?_, ?_, ?_, ?_, ?_⟩
  · rw [AGV.Lemmas.RustTy.created_none, AGV.Lemmas.RustTy.toP_ref]
  · intro n; simp [Spec.RustTy.ptype, typeText]
  · intro k; simp [Spec.RustTy.ptype, typeText]
  · intro k; simp [Spec.RustTy.ptype, Spec.RustTy.setNullable, typeText]
  · intro k; simp [Spec.RustTy.ptype, Spec.RustTy.setNullable, typeText]
  · intro p; rfl

/-- the seeded variant of `HashSet<T>::type_name`: `Option<HashSet<i32>>` is exported as `[Int]` -/
theorem c17_container_hashset_variant_differs :
    let D : Model.RustTy.Defects := { hashSetInnerTypeName := true }
    let t := RTy.option (.list .hashSet (.leaf "Int"))
    typeText (Model.RustTy.toP (Model.RustTy.created D t)) = "[Int]".toList ∧
    typeText (Spec.RustTy.ptype t) = "[Int!]".toList := by
  decide

/-- the pinned tree: `Vec<Box<Option<i32>>>` is exported as `[Int!]!`, the declaration means `[Int]!` -/
theorem c17_witness_pointer_option_in_list :
    let D : Model.RustTy.Defects := { ptrQualifiedDefault := true }
    let t := RTy.list .vec (.ptr .box (.option (.leaf "Int")))
    typeText (Model.RustTy.toP (Model.RustTy.created D t)) = "[Int!]!".toList ∧
    typeText (Spec.RustTy.ptype t) = "[Int]!".toList := by
  decide

end Containers

end AGV.Props.C17
