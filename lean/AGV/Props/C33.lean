import AGV.Lemmas.DynCheck
/-
  C33 — dynamic schemas build exactly when the type system is valid.

  OBLIGATION c33_subtype_is_spec_field_type
  OBLIGATION c33_lookup_agrees
  OBLIGATION c33_check_stages
  OBLIGATION c33_safe
  OBLIGATION c33_witness_subtype_reversed
  OBLIGATION c33_witness_named_covariance
  OBLIGATION c33_witness_nullable_arg
  OBLIGATION c33_witness_arg_covariant
  OBLIGATION c33_witness_extra_required_arg
  OBLIGATION c33_witness_subscription_root
  OBLIGATION c33_witness_subscription_fields
  OBLIGATION c33_witness_fieldless_interface
  OBLIGATION c33_repaired_on_witnesses
  OPEN c33_accept_sound
  OPEN c33_accept_complete

  `c33_accept_sound` / `c33_accept_complete` (the two directions of "builds exactly when valid")
  are stated and NOT proved; what is proved of them: the stage decomposition of `check`, the
  equality of `TypeRef::is_subtype` with the specification's IsValidImplementationFieldType, the
  agreement of the type map with the specification's name resolution, and the
  safety half (`c33_safe`).  The rest of the tie between model and reference is the sampled
  correspondence (the judge evaluates `Spec.required?`/`Spec.extra?` on every case).
-/
namespace AGV.Props.C33
open AGV.Model.DynCheck AGV.Model.DynLookups AGV.Lemmas.DynCheck
open AGV.Spec.TypeSystem (validImplFieldType required? extra? lookup rootsOk isObjectNamed isSubscriptionNamed
  Required Extra ValidTypeSystem)

/-- OPEN: with every defect repaired, an accepted type system satisfies the rules the statement lists -/
def c33_accept_sound : Prop := ∀ T : TypeSystem, check {} T = .ok () → Required T
/-- OPEN: with every defect repaired, a type system valid by all of §3 is accepted -/
def c33_accept_complete : Prop := ∀ T : TypeSystem, ValidTypeSystem T → check {} T = .ok ()

/-- `cur.is_subtype(sub)` is the specification's IsValidImplementationFieldType(sub, cur), for
    every pair of type references and every relation on named types -/
theorem c33_subtype_is_spec_field_type (nm : String → String → Bool) (sup sub : TypeRef) :
    isSubtypeWith nm sup sub = validImplFieldType (fun f i => nm i f) sub sup := subtype_spec nm sup sub

/-- `types.get(name)` on the map built by `finish` is the specification's name resolution -/
theorem c33_lookup_agrees (T : TypeSystem) (n : String) : getType (allTypes T) n = lookup T n := getType_allTypes T n

theorem c33_check_stages (D : Defects) (T : TypeSystem) :
    check D T = .ok () ↔
      register builtinNames T.types = .ok () ∧ checkTypesExists D T (allTypes T) = .ok () ∧
      checkRootTypes T (allTypes T) = .ok () ∧ checkObjects D (allTypes T) = .ok () ∧
      checkInputObjects (allTypes T) = .ok () ∧ checkInterfaces D (allTypes T) = .ok () ∧
      checkUnions (allTypes T) = .ok () ∧ checkSubscriptions D (allTypes T) = .ok () := by
  simp [check, andThen_ok_iff]

theorem typesExist_of_ok (T : TypeSystem) (h : checkTypesExists {} T (allTypes T) = .ok ()) :
    (∀ n ∈ [T.query] ++ T.mutation.toList ++ T.subscription.toList, (getType (allTypes T) n).isSome = true) ∧
    ∀ t ∈ T.types, ∀ n ∈ (match t with
      | .object _ impls fs => fieldTypeNames fs ++ impls
      | .inputObject _ _ fs => fs.map (fun (f : InputValue) => f.ty.typeName)
      | .interface _ _ fs => fieldTypeNames fs
      | .union _ ms => ms
      | .subscription _ fs => fieldTypeNames fs
      | _ => []), (getType (allTypes T) n).isSome = true := by
  unfold checkTypesExists at h
  split at h
  · simp at h
  · rename_i h1
    rw [existsCheck_ok_iff] at h1
    rw [forEach_ok_iff] at h
    refine ⟨by simpa using h1, ?_⟩
    intro t ht n hn
    have := h t (by simp [allTypes, ht])
    cases t <;> simp only [existsCheck_ok_iff] at this <;> first | exact this n hn | simp at hn

theorem mem_fieldTypeNames_of_ofFields (owner : String) (fs : List Field) (p : Lookup × String)
    (hp : p ∈ ofFields owner fs) : p.2 ∈ fieldTypeNames fs := by
  simp only [ofFields, List.mem_flatMap, List.mem_cons, List.mem_map] at hp
  obtain ⟨f, hf, h | ⟨a, ha, rfl⟩⟩ := hp
  · subst h; simp only [fieldTypeNames, List.mem_flatMap, List.mem_cons]; exact ⟨f, hf, Or.inl rfl⟩
  · simp only [fieldTypeNames, List.mem_flatMap, List.mem_cons, List.mem_map]; exact ⟨f, hf, Or.inr ⟨a, ha, rfl⟩⟩

theorem c33_safe (T : TypeSystem) (h : check {} T = .ok ()) : ∀ p ∈ lookups T, defined T p.2 = true := by
  have hs := (c33_check_stages {} T).1 h
  obtain ⟨hroots, htypes⟩ := typesExist_of_ok T hs.2.1
  intro p hp
  unfold defined
  simp only [lookups, List.mem_append, List.mem_flatMap, List.mem_map, List.mem_singleton] at hp
  rcases hp with ((rfl | ⟨m, hm, rfl⟩) | ⟨s, hs', rfl⟩) | ⟨t, ht, hpt⟩
  · exact hroots _ (by simp)
  · exact hroots _ (by simp at hm ⊢; simp [hm])
  · exact hroots _ (by simp at hs' ⊢; simp [hs'])
  · have ht' := htypes t ht
    cases t with
    | object n is fs => exact ht' _ (by simp only [List.mem_append]; exact Or.inl (mem_fieldTypeNames_of_ofFields n fs p hpt))
    | interface n is fs => exact ht' _ (mem_fieldTypeNames_of_ofFields n fs p hpt)
    | subscription n fs => exact ht' _ (mem_fieldTypeNames_of_ofFields n fs p hpt)
    | inputObject n o fs =>
      simp only [List.mem_map] at hpt
      obtain ⟨f, hf, rfl⟩ := hpt
      exact ht' _ (by simp only [List.mem_map]; exact ⟨f, hf, rfl⟩)
    | union n ms => simp at hpt
    | enum n ms => simp at hpt
    | scalar n => simp at hpt
    | upload => simp at hpt

-- ------------------------------------------------------------------ witnesses of the pinned tree's defects

def intT : TypeRef := .named "Int"
def idT : TypeRef := .named "ID"
def fld (n : String) (ty : TypeRef) (args : List InputValue := []) : Field := { name := n, ty := ty, args := args }
def arg (n : String) (ty : TypeRef) : InputValue := { name := n, ty := ty, hasDefault := false }
def mk (types : List TypeDef) (sub : Option String := none) : TypeSystem :=
  { query := "Query", mutation := none, subscription := sub, types := types }

def accepted (r : Except String (List String)) : Bool := r.toBool

def wReversed := mk [.interface "Node" [] [fld "id" idT], .object "Query" ["Node"] [fld "id" (.nonNull idT)]]
def wReversed2 := mk [.interface "Node" [] [fld "id" (.nonNull idT)], .object "Query" ["Node"] [fld "id" idT]]
def wNamed := mk [.interface "K" [] [fld "k" intT], .object "A" ["K"] [fld "k" intT],
  .interface "H" [] [fld "h" (.named "K")], .object "Query" ["H"] [fld "h" (.named "A")]]
def wNullArg := mk [.interface "I" [] [fld "a" intT [arg "x" intT]], .object "Query" ["I"] [fld "a" intT]]
def wArgCov := mk [.interface "I" [] [fld "a" intT [arg "x" intT]], .object "Query" ["I"] [fld "a" intT [arg "x" (.nonNull intT)]]]
def wExtra := mk [.interface "I" [] [fld "a" intT], .object "Query" ["I"] [fld "a" intT [arg "w" (.nonNull intT)]]]
def wSubRoot := mk [.object "Query" [] [fld "a" intT]] (some "Nope")
def wSubFields := mk [.object "Query" [] [fld "a" intT], .inputObject "In" false [arg "x" intT],
  .subscription "Sub" [fld "a" (.named "In")]] (some "Sub")
def wFieldless := mk [.object "Query" [] [fld "a" intT], .interface "I" [] [fld "id" idT], .interface "J" ["I"] []]

/-- object `id: ID!` for interface `id: ID` is valid and rejected; `id: ID` for `id: ID!` is invalid and accepted -/
theorem c33_witness_subtype_reversed :
    (accepted (run { subtypeReversed := true } wReversed) = false ∧ required? wReversed = true ∧ extra? wReversed = true) ∧
    (accepted (run { subtypeReversed := true } wReversed2) = true ∧ required? wReversed2 = false) := by decide

theorem c33_witness_named_covariance :
    accepted (run { noNamedCovariance := true } wNamed) = false ∧ required? wNamed = true ∧ extra? wNamed = true := by decide

theorem c33_witness_nullable_arg :
    accepted (run { nullableArgOmittable := true } wNullArg) = true ∧ required? wNullArg = false := by decide

theorem c33_witness_arg_covariant :
    accepted (run { argCovariant := true } wArgCov) = true ∧ required? wArgCov = false := by decide

theorem c33_witness_extra_required_arg :
    accepted (run { extraRequiredArgs := true } wExtra) = true ∧ required? wExtra = false := by decide

/-- accepted although the subscription root does not exist, and the root look-up made when a
    subscription operation is validated is undefined (the observed panic) -/
theorem c33_witness_subscription_root :
    (match run { subscriptionRootUnchecked := true } wSubRoot with
      | .ok ps => ps == ["subscription_execute"]
      | .error _ => false) = true ∧ required? wSubRoot = false := by decide

theorem c33_witness_subscription_fields :
    accepted (run { subscriptionFieldsUnchecked := true } wSubFields) = true ∧ required? wSubFields = false := by decide

theorem c33_witness_fieldless_interface :
    accepted (run { ifaceImplInsideFieldLoop := true } wFieldless) = true ∧ required? wFieldless = false := by decide

/-- the repaired model gives the required verdict on every witness -/
theorem c33_repaired_on_witnesses :
    accepted (run {} wReversed) = true ∧ accepted (run {} wReversed2) = false ∧ accepted (run {} wNamed) = true ∧
    accepted (run {} wNullArg) = false ∧ accepted (run {} wArgCov) = false ∧ accepted (run {} wExtra) = false ∧
    accepted (run {} wSubRoot) = false ∧ accepted (run {} wSubFields) = false ∧ accepted (run {} wFieldless) = false := by decide

end AGV.Props.C33
