import AGV.Lemmas.DynCheck
import AGV.Lemmas.DynCycle
import AGV.Lemmas.DynStages
/-
  C33 — dynamic schemas build exactly when the type system is valid.

  OBLIGATION c33_subtype_is_spec_field_type
  OBLIGATION c33_lookup_agrees
  OBLIGATION c33_check_stages
  OBLIGATION c33_safe
  OBLIGATION c33_witness_subtype_reversed
  OBLIGATION c33_witness_named_covariance
  OBLIGATION c33_witness_nullable_arg
  OBLIGATION c33_witness_arg_covariant
  OBLIGATION c33_witness_extra_required_arg
  OBLIGATION c33_witness_subscription_root
  OBLIGATION c33_witness_subscription_fields
  OBLIGATION c33_witness_fieldless_interface
  OBLIGATION c33_repaired_on_witnesses
  OBLIGATION c33_accept_sound
  OBLIGATION c33_accept_complete
  OBLIGATION c33_cycle_search_is_requires
  OBLIGATION c33_requiresItself_is_requires

  `c33_accept_sound` / `c33_accept_complete` are the two directions of "builds exactly when valid"
  for the toggle-free model, over all type systems: an accepted type system satisfies every rule
  the statement lists (`Spec.Required`), and a type system valid by all of §3 (`Required ∧ Extra`)
  is accepted.  Both are assembled through `c33_check_stages` from one lemma per stage
  (Lemmas/DynStages.lean: `check…_ok_iff`).  The input-object cycle clause links three things
  (Lemmas/DynCycle.lean): the model's chain-guarded depth-first search `refCheck` with its fuel,
  the reference's inductive relation `Requires`, and the reference's bounded closure computation
  `requiresItself` (`c33_cycle_search_is_requires`, `c33_requiresItself_is_requires`; loop
  erasure on walks + pigeonhole bound by the number of registered types).
  The tie between the model and the Rust code stays the sampled correspondence.
-/
namespace AGV.Props.C33
open AGV.Model.DynCheck AGV.Model.DynLookups AGV.Lemmas.DynCheck AGV.Lemmas.DynStages AGV.Lemmas.DynCycle
open AGV.Spec.TypeSystem

/-- `cur.is_subtype(sub)` is the specification's IsValidImplementationFieldType(sub, cur), for
    every pair of type references and every relation on named types -/
theorem c33_subtype_is_spec_field_type (nm : String → String → Bool) (sup sub : TypeRef) :
    isSubtypeWith nm sup sub = validImplFieldType (fun f i => nm i f) sub sup := subtype_spec nm sup sub

/-- `types.get(name)` on the map built by `finish` is the specification's name resolution -/
theorem c33_lookup_agrees (T : TypeSystem) (n : String) : getType (allTypes T) n = lookup T n := getType_allTypes T n

theorem c33_check_stages (D : Defects) (T : TypeSystem) :
    check D T = .ok () ↔
      register builtinNames T.types = .ok () ∧ checkTypesExists D T (allTypes T) = .ok () ∧
      checkRootTypes T (allTypes T) = .ok () ∧ checkObjects D (allTypes T) = .ok () ∧
      checkInputObjects (allTypes T) = .ok () ∧ checkInterfaces D (allTypes T) = .ok () ∧
      checkUnions (allTypes T) = .ok () ∧ checkSubscriptions D (allTypes T) = .ok () := by
  simp [check, andThen_ok_iff]

theorem typesExist_of_ok (T : TypeSystem) (h : checkTypesExists {} T (allTypes T) = .ok ()) :
    (∀ n ∈ [T.query] ++ T.mutation.toList ++ T.subscription.toList, (getType (allTypes T) n).isSome = true) ∧
    ∀ t ∈ T.types, ∀ n ∈ (match t with
      | .object _ impls fs => fieldTypeNames fs ++ impls
      | .inputObject _ _ fs => fs.map (fun (f : InputValue) => f.ty.typeName)
      | .interface _ _ fs => fieldTypeNames fs
      | .union _ ms => ms
      | .subscription _ fs => fieldTypeNames fs
      | _ => []), (getType (allTypes T) n).isSome = true := by
  unfold checkTypesExists at h
  split at h
  · simp at h
  · rename_i h1
    rw [existsCheck_ok_iff] at h1
    rw [forEach_ok_iff] at h
    refine ⟨by simpa using h1, ?_⟩
    intro t ht n hn
    have := h t (by simp [allTypes, ht])
    cases t <;> simp only [existsCheck_ok_iff] at this <;> first | exact this n hn | simp at hn

theorem mem_fieldTypeNames_of_ofFields (owner : String) (fs : List Field) (p : Lookup × String)
    (hp : p ∈ ofFields owner fs) : p.2 ∈ fieldTypeNames fs := by
  simp only [ofFields, List.mem_flatMap, List.mem_cons, List.mem_map] at hp
  obtain ⟨f, hf, h | ⟨a, ha, rfl⟩⟩ := hp
  · subst h; simp only [fieldTypeNames, List.mem_flatMap, List.mem_cons]; exact ⟨f, hf, Or.inl rfl⟩
  · simp only [fieldTypeNames, List.mem_flatMap, List.mem_cons, List.mem_map]; exact ⟨f, hf, Or.inr ⟨a, ha, rfl⟩⟩

theorem c33_safe (T : TypeSystem) (h : check {} T = .ok ()) : ∀ p ∈ lookups T, defined T p.2 = true := by
  have hs := (c33_check_stages {} T).1 h
  obtain ⟨hroots, htypes⟩ := typesExist_of_ok T hs.2.1
  intro p hp
  unfold defined
  simp only [lookups, List.mem_append, List.mem_flatMap, List.mem_map, List.mem_singleton] at hp
  rcases hp with ((rfl | ⟨m, hm, rfl⟩) | ⟨s, hs', rfl⟩) | ⟨t, ht, hpt⟩
  · exact hroots _ (by simp)
  · exact hroots _ (by simp at hm ⊢; simp [hm])
  · exact hroots _ (by simp at hs' ⊢; simp [hs'])
  · have ht' := htypes t ht
    cases t with
    | object n is fs => exact ht' _ (by simp only [List.mem_append]; exact Or.inl (mem_fieldTypeNames_of_ofFields n fs p hpt))
    | interface n is fs => exact ht' _ (mem_fieldTypeNames_of_ofFields n fs p hpt)
    | subscription n fs => exact ht' _ (mem_fieldTypeNames_of_ofFields n fs p hpt)
    | inputObject n o fs =>
      simp only [List.mem_map] at hpt
      obtain ⟨f, hf, rfl⟩ := hpt
      exact ht' _ (by simp only [List.mem_map]; exact ⟨f, hf, rfl⟩)
    | union n ms => simp at hpt
    | enum n ms => simp at hpt
    | scalar n => simp at hpt
    | upload => simp at hpt

-- ------------------------------------------------------------------ builds exactly when valid

theorem isObjectNamed_iff (T : TypeSystem) (n : String) :
    isObjectNamed T n = true ↔ (lookup T n).isSome = true ∧ ∀ t, lookup T n = some t → t.isObject = true := by
  unfold isObjectNamed
  cases lookup T n with
  | none => simp
  | some t => cases t <;> simp [TypeDef.isObject]

theorem isSubscriptionNamed_iff (T : TypeSystem) (n : String) :
    isSubscriptionNamed T n = true ↔ (lookup T n).isSome = true ∧ ∀ t, lookup T n = some t → t.isSubscription = true := by
  unfold isSubscriptionNamed
  cases lookup T n with
  | none => simp
  | some t => cases t <;> simp [TypeDef.isSubscription]

theorem mem_fieldTypeNames (fs : List Field) (n : String) :
    n ∈ fieldTypeNames fs ↔ ∃ f ∈ fs, n = f.ty.typeName ∨ ∃ a ∈ f.args, n = a.ty.typeName := by
  simp only [fieldTypeNames, List.mem_flatMap, List.mem_cons, List.mem_map]
  constructor
  · rintro ⟨f, hf, h | ⟨a, ha, rfl⟩⟩
    · exact ⟨f, hf, Or.inl h⟩
    · exact ⟨f, hf, Or.inr ⟨a, ha, rfl⟩⟩
  · rintro ⟨f, hf, h | ⟨a, ha, rfl⟩⟩
    · exact ⟨f, hf, Or.inl h⟩
    · exact ⟨f, hf, Or.inr ⟨a, ha, rfl⟩⟩

theorem mem_builtinNames (n : String) : n ∈ builtinNames ↔ n ∈ systemScalars := by
  simp only [builtinNames, systemScalars, List.mem_cons, List.not_mem_nil, or_false]
  constructor <;> (intro h; rcases h with h | h | h | h | h <;> simp [h])

/-- the reference's typing and reserved-name clauses on the fields of one type give the model's
    per-field checks and the existence of every named type -/
theorem fields_checks_of_typed (T : TypeSystem) (owner : String) (fs : List Field)
    (hty : fs.all (fun f => namesOutput T f.ty && f.args.all (fun a => namesInput T a.ty)) = true)
    (hres : fs.all (fun f => !reservedName f.name && f.args.all (fun a => !reservedName a.name)) = true) :
    (∀ f ∈ fs, checkField (allTypes T) owner f = .ok ()) ∧ ∀ n ∈ fieldTypeNames fs, (lookup T n).isSome = true := by
  simp only [List.all_eq_true, Bool.and_eq_true, Bool.not_eq_true'] at hty hres
  constructor
  · intro f hf
    rw [checkField_ok_iff]
    refine ⟨(hres f hf).1, ((namesOutput_iff T f.ty).1 (hty f hf).1).2, ?_⟩
    intro a ha
    exact ⟨(hres f hf).2 a ha, ((namesInput_iff T a.ty).1 ((hty f hf).2 a ha)).2⟩
  · intro n hn
    obtain ⟨f, hf, rfl | ⟨a, ha, rfl⟩⟩ := (mem_fieldTypeNames fs n).1 hn
    · have := ((namesOutput_iff T f.ty).1 (hty f hf).1).1
      rwa [getType_allTypes] at this
    · have := ((namesInput_iff T a.ty).1 ((hty f hf).2 a ha)).1
      rwa [getType_allTypes] at this

theorem checkImplements_of_spec (T : TypeSystem) (kind name : String) (fields : List Field) (impls : List String)
    (h1 : ∀ i ∈ impls, (match lookup T i with
      | some (.interface ..) => true
      | _ => false) = true)
    (h2 : (impls.all fun i => match lookup T i with
      | some (.interface _ _ ifs) => ifs.all (fieldImplemented T fields)
      | _ => true) = true) :
    checkImplements {} (allTypes T) kind name fields impls = .ok () := by
  rw [checkImplements_ok_iff]
  rw [List.all_eq_true] at h2
  intro i hi t hl
  have a := h1 i hi
  have b := h2 i hi
  rw [hl] at a b
  cases t <;> simp at a
  exact ⟨_, _, _, rfl, b⟩

/-- the fields of one object / interface / subscription: existence of every named type and the
    model's per-field checks give the reference's typing clause -/
theorem fields_typed_of_checks (T : TypeSystem) (owner : String) (fs : List Field)
    (hex : ∀ n ∈ fieldTypeNames fs, (lookup T n).isSome = true)
    (hck : ∀ f ∈ fs, checkField (allTypes T) owner f = .ok ()) :
    fs.all (fun f => namesOutput T f.ty && f.args.all (fun a => namesInput T a.ty)) = true := by
  simp only [List.all_eq_true, Bool.and_eq_true]
  intro f hf
  obtain ⟨_, ho, ha⟩ := (checkField_ok_iff _ _ _).1 (hck f hf)
  refine ⟨(namesOutput_iff T f.ty).2 ⟨?_, ho⟩, ?_⟩
  · rw [getType_allTypes]; exact hex _ ((mem_fieldTypeNames fs _).2 ⟨f, hf, Or.inl rfl⟩)
  · intro a haa
    refine (namesInput_iff T a.ty).2 ⟨?_, (ha a haa).2⟩
    rw [getType_allTypes]; exact hex _ ((mem_fieldTypeNames fs _).2 ⟨f, hf, Or.inr ⟨a, haa, rfl⟩⟩)

theorem impls_of_checkImplements (T : TypeSystem) (kind name : String) (fields : List Field) (impls : List String)
    (h : checkImplements {} (allTypes T) kind name fields impls = .ok ()) :
    (impls.all fun i => match lookup T i with
      | some (.interface _ _ ifs) => ifs.all (fieldImplemented T fields)
      | _ => true) = true := by
  rw [checkImplements_ok_iff] at h
  rw [List.all_eq_true]
  intro i hi
  cases hl : lookup T i with
  | none => rfl
  | some t =>
    obtain ⟨n, is, ifs, rfl, hall⟩ := h i hi t hl
    exact hall

/-- with every defect repaired, an accepted type system satisfies the rules the statement lists -/
theorem c33_accept_sound : ∀ T : TypeSystem, check {} T = .ok () → Required T := by
  intro T h
  obtain ⟨h1, h2, h3, h4, h5, h6, h7, h8⟩ := (c33_check_stages {} T).1 h
  rw [register_ok_iff] at h1
  rw [checkTypesExists_ok_iff] at h2
  rw [checkRootTypes_ok_iff] at h3
  rw [checkObjects_ok_iff] at h4
  rw [checkInputObjects_ok_iff] at h5
  rw [checkInterfaces_ok_iff] at h6
  rw [checkUnions_ok_iff] at h7
  rw [checkSubscriptions_ok_iff] at h8
  unfold Required required?
  simp only [Bool.and_eq_true]
  refine ⟨⟨⟨⟨?roots, ?pos⟩, ?impl⟩, ?unions⟩, ?cycle⟩
  case roots =>
    unfold rootsOk
    simp only [Bool.and_eq_true]
    refine ⟨⟨?_, ?_⟩, ?_⟩
    · exact (isObjectNamed_iff T _).2 ⟨h2.1 _ (by simp), h3.1⟩
    · cases hm : T.mutation with
      | none => rfl
      | some m => exact (isObjectNamed_iff T _).2 ⟨h2.1 _ (by simp [hm]), h3.2.1 m hm⟩
    · cases hs : T.subscription with
      | none => rfl
      | some s => exact (isSubscriptionNamed_iff T _).2 ⟨h2.1 _ (by simp [hs]), h3.2.2 s hs⟩
  case pos =>
    unfold positionsTyped
    rw [List.all_eq_true]
    intro t ht
    have hex := h2.2 t ht
    cases t with
    | object n is fs =>
      simp only [fieldsOf, AGV.Spec.TypeSystem.inputFieldsOf, List.all_nil, Bool.and_true]
      exact fields_typed_of_checks T n fs (fun x hx => hex x (by simp [refNames, hx])) (h4 n is fs ht).2.1
    | interface n is fs =>
      simp only [fieldsOf, AGV.Spec.TypeSystem.inputFieldsOf, List.all_nil, Bool.and_true]
      exact fields_typed_of_checks T n fs (fun x hx => hex x (by simp [refNames, hx])) (h6 n is fs ht).1
    | subscription n fs =>
      simp only [fieldsOf, AGV.Spec.TypeSystem.inputFieldsOf, List.all_nil, Bool.and_true]
      exact fields_typed_of_checks T n fs (fun x hx => hex x (by simp [refNames, hx])) (h8 n fs ht)
    | inputObject n o fs =>
      simp only [fieldsOf, AGV.Spec.TypeSystem.inputFieldsOf, List.all_nil, Bool.true_and, List.all_eq_true]
      intro f hf
      obtain ⟨_, hi, _⟩ := (checkInputField_ok_iff _ _ _ _).1 ((h5 n o fs ht).1 f hf)
      refine (namesInput_iff T f.ty).2 ⟨?_, hi⟩
      rw [getType_allTypes]
      exact hex _ (by simp only [refNames, List.mem_map]; exact ⟨f, hf, rfl⟩)
    | _ => rfl
  case impl =>
    unfold implementationsOk
    rw [List.all_eq_true]
    intro t ht
    cases t with
    | object n is fs => exact impls_of_checkImplements T _ n fs is (h4 n is fs ht).2.2
    | interface n is fs => exact impls_of_checkImplements T _ n fs is (h6 n is fs ht).2.2
    | _ => rfl
  case unions =>
    unfold unionMembersObjects
    rw [List.all_eq_true]
    intro t ht
    cases t with
    | union n ms =>
      simp only [List.all_eq_true]
      intro m hm
      exact (isObjectNamed_iff T m).2 ⟨h2.2 _ ht m (by simpa [refNames] using hm), h7 n ms ht m hm⟩
    | _ => rfl
  case cycle =>
    unfold noRequiredInputCycle
    rw [List.all_eq_true]
    intro t ht
    cases t with
    | inputObject n o fs =>
      have hl := lookup_self T h1.2 _ ht
      have hfs := (inputFieldsOf_eq_some T n fs).2 ⟨o, hl⟩
      have := (refCheck_ok_iff T n fs hfs).1 (h5 n o fs ht).2
      rw [← requiresItself_iff] at this
      simpa using this
    | _ => rfl


/-- with every defect repaired, a type system valid by all of §3 is accepted -/
theorem c33_accept_complete : ∀ T : TypeSystem, ValidTypeSystem T → check {} T = .ok () := by
  intro T hv
  obtain ⟨hr, he⟩ := hv
  unfold Required required? at hr
  unfold Extra extra? at he
  simp only [Bool.and_eq_true] at hr he
  obtain ⟨⟨⟨⟨hroots, hpos⟩, himpl⟩, hunion⟩, hcyc⟩ := hr
  obtain ⟨⟨⟨⟨⟨⟨⟨hne, hresm⟩, _⟩, hii⟩, _⟩, hone⟩, huniq⟩, _⟩ := he
  unfold rootsOk at hroots
  simp only [Bool.and_eq_true] at hroots
  obtain ⟨⟨hq, hmu⟩, hsu⟩ := hroots
  unfold positionsTyped at hpos
  unfold implementationsOk at himpl
  unfold unionMembersObjects at hunion
  unfold noRequiredInputCycle at hcyc
  unfold nonEmpty at hne
  unfold noReservedMemberNames at hresm
  unfold implementsInterfaces at hii
  unfold oneOfOk at hone
  unfold namesUnique at huniq
  rw [List.all_eq_true] at hpos himpl hunion hcyc hne hresm hii hone
  simp only [Bool.and_eq_true] at huniq
  have hnd := (pairwiseDistinct_iff _).1 huniq.1
  rw [List.nodup_append] at hnd
  have hnames : (T.types.map (·.name)).Nodup := hnd.2.1
  -- implements targets are interfaces
  have hiface : ∀ t ∈ T.types, ∀ i ∈ implementsOf t, i ≠ t.name ∧ (match lookup T i with
      | some (.interface ..) => true
      | _ => false) = true := by
    intro t ht i hi
    have := hii t ht
    rw [List.all_eq_true] at this
    have := this i hi
    simp only [Bool.and_eq_true, bne_iff_ne, ne_eq] at this
    exact this
  have hifaceSome : ∀ t ∈ T.types, ∀ i ∈ implementsOf t, (lookup T i).isSome = true := by
    intro t ht i hi
    have := (hiface t ht i hi).2
    cases hl : lookup T i with
    | none => simp [hl] at this
    | some _ => rfl
  rw [c33_check_stages]
  refine ⟨?s1, ?s2, ?s3, ?s4, ?s5, ?s6, ?s7, ?s8⟩
  case s1 =>
    rw [register_ok_iff]
    refine ⟨?_, hnames⟩
    intro t ht hmem
    rw [mem_builtinNames] at hmem
    exact hnd.2.2 _ hmem _ (List.mem_map.2 ⟨t, ht, rfl⟩) rfl
  case s2 =>
    rw [checkTypesExists_ok_iff]
    constructor
    · intro n hn
      simp only [List.mem_append, List.mem_singleton, Option.mem_toList] at hn
      rcases hn with (rfl | hn) | hn
      · exact ((isObjectNamed_iff T _).1 hq).1
      · rw [hn] at hmu; exact ((isObjectNamed_iff T _).1 (by simpa using hmu)).1
      · rw [hn] at hsu; exact ((isSubscriptionNamed_iff T _).1 (by simpa using hsu)).1
    · intro t ht n hn
      have hp := hpos t ht
      have hrs := hresm t ht
      simp only [Bool.and_eq_true] at hp hrs
      cases t with
      | object nm is fs =>
        simp only [refNames, List.mem_append] at hn
        rcases hn with hn | hn
        · exact (fields_checks_of_typed T nm fs hp.1 hrs.1).2 n hn
        · exact hifaceSome _ ht n hn
      | interface nm is fs => exact (fields_checks_of_typed T nm fs hp.1 hrs.1).2 n hn
      | subscription nm fs => exact (fields_checks_of_typed T nm fs hp.1 hrs.1).2 n hn
      | inputObject nm o fs =>
        simp only [refNames, List.mem_map] at hn
        obtain ⟨f, hf, rfl⟩ := hn
        have := hp.2
        simp only [AGV.Spec.TypeSystem.inputFieldsOf, List.all_eq_true] at this
        have := ((namesInput_iff T f.ty).1 (this f hf)).1
        rwa [getType_allTypes] at this
      | union nm ms =>
        have := hunion _ ht
        simp only [List.all_eq_true] at this
        exact ((isObjectNamed_iff T n).1 (this n hn)).1
      | enum nm items => simp [refNames] at hn
      | scalar nm => simp [refNames] at hn
      | upload => simp [refNames] at hn
  case s3 =>
    rw [checkRootTypes_ok_iff]
    refine ⟨((isObjectNamed_iff T _).1 hq).2, ?_, ?_⟩
    · intro m hm
      rw [hm] at hmu; exact ((isObjectNamed_iff T _).1 (by simpa using hmu)).2
    · intro s hs
      rw [hs] at hsu; exact ((isSubscriptionNamed_iff T _).1 (by simpa using hsu)).2
  case s4 =>
    rw [checkObjects_ok_iff]
    intro nm is fs ht
    have hp := hpos _ ht
    have hrs := hresm _ ht
    have hn := hne _ ht
    simp only [Bool.and_eq_true] at hp hrs
    refine ⟨by simpa using hn, (fields_checks_of_typed T nm fs hp.1 hrs.1).1, ?_⟩
    exact checkImplements_of_spec T _ nm fs is (fun i hi => (hiface _ ht i hi).2) (himpl _ ht)
  case s5 =>
    rw [checkInputObjects_ok_iff]
    intro nm o fs ht
    have hp := hpos _ ht
    have hrs := hresm _ ht
    simp only [Bool.and_eq_true, AGV.Spec.TypeSystem.inputFieldsOf, List.all_eq_true, Bool.not_eq_true'] at hp hrs
    constructor
    · intro f hf
      rw [checkInputField_ok_iff]
      refine ⟨hrs.2 f hf, ((namesInput_iff T f.ty).1 (hp.2 f hf)).2, ?_⟩
      intro ho
      subst ho
      have := hone _ ht
      simp only [List.all_eq_true, Bool.and_eq_true, Bool.not_eq_true'] at this
      exact this f hf
    · have hl := lookup_self T hnames _ ht
      have hfs := (inputFieldsOf_eq_some T nm fs).2 ⟨o, hl⟩
      rw [refCheck_ok_iff T nm fs hfs, ← requiresItself_iff]
      have := hcyc _ ht
      simpa using this
  case s6 =>
    rw [checkInterfaces_ok_iff]
    intro nm is fs ht
    have hp := hpos _ ht
    have hrs := hresm _ ht
    simp only [Bool.and_eq_true] at hp hrs
    refine ⟨(fields_checks_of_typed T nm fs hp.1 hrs.1).1, ?_, ?_⟩
    · simp only [List.contains_eq_mem, decide_eq_false_iff_not]
      intro hmem
      exact (hiface _ ht nm hmem).1 rfl
    · exact checkImplements_of_spec T _ nm fs is (fun i hi => (hiface _ ht i hi).2) (himpl _ ht)
  case s7 =>
    rw [checkUnions_ok_iff]
    intro nm ms ht m hm
    have := hunion _ ht
    simp only [List.all_eq_true] at this
    exact ((isObjectNamed_iff T m).1 (this m hm)).2
  case s8 =>
    rw [checkSubscriptions_ok_iff]
    intro nm fs ht
    have hp := hpos _ ht
    have hrs := hresm _ ht
    simp only [Bool.and_eq_true] at hp hrs
    exact (fields_checks_of_typed T nm fs hp.1 hrs.1).1


/-- the model's cycle search on the fields of a registered input object `n` (fuel and empty chain
    as `check_input_objects` starts it) succeeds exactly when `n` does not require itself -/
theorem c33_cycle_search_is_requires (T : TypeSystem) (n : String) (fs : List InputValue)
    (hfs : AGV.Model.DynCheck.inputFieldsOf (allTypes T) n = some fs) :
    refCheck (allTypes T) n ((allTypes T).length + 1) [] fs = .ok () ↔ ¬ Requires T n n := refCheck_ok_iff T n fs hfs

/-- the reference's closure computation (|types| rounds) decides the inductive relation -/
theorem c33_requiresItself_is_requires (T : TypeSystem) (n : String) : requiresItself T n = true ↔ Requires T n n :=
  requiresItself_iff T n

-- ------------------------------------------------------------------ witnesses of the pinned tree's defects

def intT : TypeRef := .named "Int"
def idT : TypeRef := .named "ID"
def fld (n : String) (ty : TypeRef) (args : List InputValue := []) : Field := { name := n, ty := ty, args := args }
def arg (n : String) (ty : TypeRef) : InputValue := { name := n, ty := ty, hasDefault := false }
def mk (types : List TypeDef) (sub : Option String := none) : TypeSystem :=
  { query := "Query", mutation := none, subscription := sub, types := types }

def accepted (r : Except String (List String)) : Bool := r.toBool

def wReversed := mk [.interface "Node" [] [fld "id" idT], .object "Query" ["Node"] [fld "id" (.nonNull idT)]]
def wReversed2 := mk [.interface "Node" [] [fld "id" (.nonNull idT)], .object "Query" ["Node"] [fld "id" idT]]
def wNamed := mk [.interface "K" [] [fld "k" intT], .object "A" ["K"] [fld "k" intT],
  .interface "H" [] [fld "h" (.named "K")], .object "Query" ["H"] [fld "h" (.named "A")]]
def wNullArg := mk [.interface "I" [] [fld "a" intT [arg "x" intT]], .object "Query" ["I"] [fld "a" intT]]
def wArgCov := mk [.interface "I" [] [fld "a" intT [arg "x" intT]], .object "Query" ["I"] [fld "a" intT [arg "x" (.nonNull intT)]]]
def wExtra := mk [.interface "I" [] [fld "a" intT], .object "Query" ["I"] [fld "a" intT [arg "w" (.nonNull intT)]]]
def wSubRoot := mk [.object "Query" [] [fld "a" intT]] (some "Nope")
def wSubFields := mk [.object "Query" [] [fld "a" intT], .inputObject "In" false [arg "x" intT],
  .subscription "Sub" [fld "a" (.named "In")]] (some "Sub")
def wFieldless := mk [.object "Query" [] [fld "a" intT], .interface "I" [] [fld "id" idT], .interface "J" ["I"] []]

/-- object `id: ID!` for interface `id: ID` is valid and rejected; `id: ID` for `id: ID!` is invalid and accepted -/
theorem c33_witness_subtype_reversed :
    (accepted (run { subtypeReversed := true } wReversed) = false ∧ required? wReversed = true ∧ extra? wReversed = true) ∧
    (accepted (run { subtypeReversed := true } wReversed2) = true ∧ required? wReversed2 = false) := by decide

theorem c33_witness_named_covariance :
    accepted (run { noNamedCovariance := true } wNamed) = false ∧ required? wNamed = true ∧ extra? wNamed = true := by decide

theorem c33_witness_nullable_arg :
    accepted (run { nullableArgOmittable := true } wNullArg) = true ∧ required? wNullArg = false := by decide

theorem c33_witness_arg_covariant :
    accepted (run { argCovariant := true } wArgCov) = true ∧ required? wArgCov = false := by decide

theorem c33_witness_extra_required_arg :
    accepted (run { extraRequiredArgs := true } wExtra) = true ∧ required? wExtra = false := by decide

/-- accepted although the subscription root does not exist, and the root look-up made when a
    subscription operation is validated is undefined (the observed panic) -/
theorem c33_witness_subscription_root :
    (match run { subscriptionRootUnchecked := true } wSubRoot with
      | .ok ps => ps == ["subscription_execute"]
      | .error _ => false) = true ∧ required? wSubRoot = false := by decide

theorem c33_witness_subscription_fields :
    accepted (run { subscriptionFieldsUnchecked := true } wSubFields) = true ∧ required? wSubFields = false := by decide

theorem c33_witness_fieldless_interface :
    accepted (run { ifaceImplInsideFieldLoop := true } wFieldless) = true ∧ required? wFieldless = false := by decide

/-- the repaired model gives the required verdict on every witness -/
theorem c33_repaired_on_witnesses :
    accepted (run {} wReversed) = true ∧ accepted (run {} wReversed2) = false ∧ accepted (run {} wNamed) = true ∧
    accepted (run {} wNullArg) = false ∧ accepted (run {} wArgCov) = false ∧ accepted (run {} wExtra) = false ∧
    accepted (run {} wSubRoot) = false ∧ accepted (run {} wSubFields) = false ∧ accepted (run {} wFieldless) = false := by decide

-- ------------------------------------------------------------------ the hypotheses are satisfiable by non-trivial inputs

/-- interfaces, interface-typed fields narrowed through membership: valid by all of §3 -/
theorem valid_of_bools (T : TypeSystem) (h : (required? T && extra? T) = true) : ValidTypeSystem T := by
  simp only [Bool.and_eq_true] at h; exact h

example : ValidTypeSystem wNamed := valid_of_bools _ (by decide)
example : check {} wNamed = .ok () := c33_accept_complete wNamed (valid_of_bools _ (by decide))

/-- input objects referring to each other, the chain broken by a nullable field -/
def wInputs := mk [.object "Query" [] [fld "a" intT [arg "x" (.named "A")]],
  .inputObject "A" false [arg "b" (.nonNull (.named "B"))], .inputObject "B" false [arg "a" (.named "A")]]
/-- the same with the chain closed: `A` requires `B` requires `A` -/
def wInputCycle := mk [.object "Query" [] [fld "a" intT [arg "x" (.named "A")]],
  .inputObject "A" false [arg "b" (.nonNull (.named "B"))], .inputObject "B" false [arg "a" (.nonNull (.named "A"))]]

example : ValidTypeSystem wInputs := valid_of_bools _ (by decide)
example : AGV.Model.DynCheck.inputFieldsOf (allTypes wInputCycle) "A" = some [arg "b" (.nonNull (.named "B"))] := by decide
example : Requires wInputCycle "A" "A" := (c33_requiresItself_is_requires wInputCycle "A").1 (by decide)
theorem wInputCycle_not_required : required? wInputCycle = false := by decide
example : ¬ Required wInputCycle := fun h => by rw [Required, wInputCycle_not_required] at h; cases h
example : check {} wInputCycle ≠ .ok () := fun h => by
  have := c33_accept_sound _ h; rw [Required, wInputCycle_not_required] at this; cases this

end AGV.Props.C33
