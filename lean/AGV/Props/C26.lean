/-
  C26 — multipart/mixed subscription bodies are well framed.
  Property theorems only (helper lemmas: AGV/Lemmas/Multipart.lean).

  `Model.Multipart.emit evs` = the bytes `create_multipart_mixed_stream` yields when the
  environment (response stream, heartbeat timer, `select!`) serves the events `evs`; the byte
  constants and the chunk order of each arm are generated from the source
  (`AGV.Gen.MultipartWire`), so the theorems below are statements about those constants.
  `Spec.Multipart.parseMixed` = an RFC 2046 reader for boundary `graphql`, written independently.

  OBLIGATION c26_closed
  OBLIGATION c26_open
  OBLIGATION c26_nothing_after_end
  OBLIGATION c26_safe_of_no_cr
  OBLIGATION c26_json_safe
  OBLIGATION c26_hypothesis_needed
  OBLIGATION c26_reader_fuel
-/
import AGV.Lemmas.Multipart
import AGV.Lemmas.MultipartJson

namespace AGV.Props.C26
open AGV.Spec.Multipart AGV.Model.Multipart AGV.Lemmas.Multipart

/-- For EVERY interleaving of responses and heartbeat ticks that ends with the end of the
    response stream, and responses of arbitrary content subject to RFC 2046's condition on part
    bodies (`Safe`: no line of the payload starts with `--graphql`), the bytes are a multipart
    body with boundary `graphql`, nothing before the first boundary, whose parts are exactly the
    served responses, once each and in order, as `Content-Type: application/json` parts, with a
    `{}` part for each heartbeat; the close delimiter is reached (after the last part) and
    nothing follows its line — so it is written exactly once. -/
theorem c26_closed (evs : List Ev) (hend : ended evs = true) (hsafe : PayloadsSafe evs) :
    parseMixed (emit evs) = expectedClosed (itemsOf evs) := by
  have hf : (itemsOf evs).length < (emit evs).length + 1 := by
    have := items_le_emit evs; omega
  obtain ⟨t, ht, hr⟩ := after_closed evs hend hsafe _ hf
  rw [ht] at hr ⊢
  rw [parseMixed_dash, hr]; rfl

/-- While the response stream has not ended no close delimiter is written: all parts but the
    last are complete and are the served items in order, and the rest is the last part, still
    open (the delimiter that will end it belongs to whatever is written next). -/
theorem c26_open (evs : List Ev) (hend : ended evs = false) (hsafe : PayloadsSafe evs) :
    parseMixed (emit evs) = expectedOpen (itemsOf evs) := by
  by_cases hne : evs = []
  · subst hne; decide
  · have hf : (itemsOf evs).length < (emit evs).length + 1 := by
      have := items_le_emit evs; omega
    obtain ⟨t, ht, hr⟩ := after_open evs hend hsafe hne _ hf
    rw [ht] at hr ⊢
    rw [parseMixed_dash, hr]; rfl

/-- Once the response stream has ended nothing else is written, whatever the timer does. -/
theorem c26_nothing_after_end (pre post : List Ev) :
    emit (pre ++ .fin :: post) = emit (pre ++ [.fin]) := by
  induction pre with
  | nil => simp [emit]
  | cons e pre ih => cases e <;> simp [emit, ih]

/-- The hypothesis of `c26_closed` holds for every text without a raw carriage return that does
    not begin with `--graphql`: in particular for compact JSON objects (serde_json escapes CR
    and LF inside strings and writes none outside; the text of a `Response` begins with `{`). -/
theorem c26_safe_of_no_cr (j : List Char) (hcr : '\r' ∉ j) (hstart : dashBoundary.isPrefixOf j = false) :
    Safe j :=
  safe_of_no_cr j hcr hstart

/-- … and the compact text serde_json writes for ANY JSON object (the model of `Model/Json.lean`:
    strings escaped by `format_escaped_str_contents`, integers in decimal, float tokens opaque and
    assumed CR-free) satisfies it: a `Response` serialises to an object, so the hypothesis of
    `c26_closed` is always met by the real payloads. -/
theorem c26_json_safe (fs : List (List Char × AGV.Model.Json.Json))
    (hf : AGV.Lemmas.MultipartJson.floatsOk (.obj fs)) :
    Safe (AGV.Model.Json.jsonText (.obj fs)) :=
  AGV.Lemmas.MultipartJson.jsonObject_safe fs hf

/-- a response whose string data contains a line break and the close delimiter: its JSON text
    has them escaped, and is safe -/
example : Safe "{\"data\":\"\\r\\n--graphql--\\r\\n\"}".toList := by decide

example : PayloadsSafe [.tick, .resp "{\"data\":\"\\r\\n--graphql--\\r\\n\"}".toList, .tick, .fin] := by decide

/-- The hypothesis cannot be dropped: a payload with a raw `CRLF--graphql--` line ends the body
    early (this is RFC 2046's reason for the condition; it cannot arise from serde_json). -/
theorem c26_hypothesis_needed :
    ∃ j : List Char, ¬ Safe j ∧ parseMixed (emit [.resp j, .fin]) ≠ expectedClosed (itemsOf [.resp j, .fin]) :=
  ⟨"{\r\n--graphql--\r\n}".toList, by decide, by decide⟩

/-- The reference reader's fuel (`length + 1`) is enough: more fuel never changes its answer. -/
theorem c26_reader_fuel (fuel : Nat) (s : List Char) (h : s.length < fuel) :
    afterBoundary (fuel + 1) s = afterBoundary fuel s :=
  afterBoundary_fuel fuel s h

end AGV.Props.C26
