/-
  C12 — no client input can crash, overflow or hang the server.
  Property theorems only (helper lemmas live in AGV/Lemmas/Hostile.lean).

  What Lean decides is the logic that is supposed to make hostile input safe (the runtime half —
  real stack size, allocator, wall clock — is explored by the harness, see props/C12.json).

  OBLIGATION c12_upload_total
  OBLIGATION c12_upload_resolves_only_bound
  OBLIGATION c12_upload_exact
  OBLIGATION c12_upload_violated_by_parseUnwrap
  OBLIGATION c12_upload_violated_by_valueIndex
  OBLIGATION c12_depth_guard
  OBLIGATION c12_depth_guard_needed
  OBLIGATION c12_unbounded_nesting
  OBLIGATION c12_unbounded_nesting_slope
  OBLIGATION c12_spread_violated_by_spreadsExpanded
  OBLIGATION c12_directives_walk_after_depth_check
  OBLIGATION c12_prechecks_never_overflow
  OBLIGATION c12_prechecks_order_needed
  OBLIGATION c12_unbounded_nesting_document
  OBLIGATION c12_unbounded_nesting_document_depth
  OBLIGATION c12_parser_depth_unbounded
  OBLIGATION c12_numbers_table_covers_source
  OBLIGATION c12_numbers_parse_total
  OBLIGATION c12_numbers_answered
  OBLIGATION c12_numbers_exact
  OBLIGATION c12_numbers_registered_validator
  OBLIGATION c12_numbers_id_exact
  OBLIGATION c12_numbers_violated_by_seeded_bound
-/
import AGV.Lemmas.Hostile
import AGV.Lemmas.HostileNum

namespace AGV.Props.C12
open AGV.Model.Hostile AGV.Lemmas.Hostile
open AGV.Model.Peg (Pair eval Res)

-- ------------------------------------------------------------------ (a) upload markers

/-- The repaired decoding is total: for ALL strings and ALL upload counts neither `Upload::parse`
    nor `Upload::value` panics. -/
theorem c12_upload_total (s : List Char) (n : Nat) :
    uploadParse Defects.none s ≠ .panic ∧ (∀ i, uploadValue Defects.none i n ≠ .panic) ∧
    markerRun Defects.none s n ≠ .panic :=
  ⟨uploadParse_none_ne_panic s, fun i => uploadValue_none_ne_panic i n, markerRun_none_ne_panic s n⟩

/-- A string in an `Upload` position can only ever resolve to a file that is bound to THIS
    request (whatever the toggles): a forged marker reaches nothing else. -/
theorem c12_upload_resolves_only_bound (D : Defects) (s : List Char) (n k : Nat)
    (h : markerRun D s n = .ok k) : k < n :=
  markerRun_ok_lt D s n k h

/-- Exactly which strings resolve: the marker followed by what `usize::from_str` accepts, with a
    value below the number of uploads; everything else is answered with an error. -/
theorem c12_upload_exact (s : List Char) (n k : Nat) :
    markerRun Defects.none s n = .ok k ↔
      ∃ rest, s = marker ++ rest ∧ AGV.Model.UploadBind.parseUsize rest = some k ∧ k < n :=
  markerRun_none_ok_iff s n k

example : markerRun Defects.none (marker ++ ['+', '0', '1']) 2 = .ok 1 := by decide

/-- pinned: `"#__graphql_file__:x"` panics in `Upload::parse`; repaired: an error -/
theorem c12_upload_violated_by_parseUnwrap :
    ∃ s n, markerRun { parseUnwrap := true } s n = .panic ∧ markerRun Defects.none s n = .err :=
  ⟨marker ++ ['x'], 0, by decide, by decide⟩

/-- pinned: `"#__graphql_file__:3"` without uploads panics in `Upload::value`; repaired: an error -/
theorem c12_upload_violated_by_valueIndex :
    ∃ s n, markerRun { valueIndex := true } s n = .panic ∧ markerRun Defects.none s n = .err :=
  ⟨marker ++ ['3'], 0, by decide, by decide⟩

-- ------------------------------------------------------------------ (b) recursion depth

/-- The selection-set guard bounds the tree builder's recursion on EVERY pair tree pest may
    deliver: at most `remaining + 1` nested `parse_selection_set` activations, i.e. 65 with the
    constant generated from the source. -/
theorem c12_depth_guard (f : Nat) (p : Pair) :
    selRecursion true f maxDepth p ≤ 65 := by
  have h := selRecursion_le f maxDepth p
  have : maxDepth = 64 := rfl
  omega

/-- …and it is the guard that does it: without it the recursion follows the pair tree, for
    every depth `n` there is a pair tree on which it nests `n` deep. -/
theorem c12_depth_guard_needed (n : Nat) :
    selRecursion false (n + 1) maxDepth (selNest n) = n + 1 :=
  selRecursion_selNest n (n + 1) maxDepth (Nat.le_refl _)

/-- WITNESS FAMILY (the modelled half of the stack-overflow finding).  The pest-compiled parser's
    recursive descent on a value nested `n` lists deep — `[`ⁿ `]`ⁿ followed by anything — is cut
    off at every depth `≤ 12·n`: each bracket costs twelve nested activations (rule `value`, its
    seven ordered alternatives down to `list`, rule `list`, two sequences, the repetition), and no
    constant bounds the depth. Stated for the real grammar (`Gen/Grammar.lean`). -/
theorem c12_unbounded_nesting (n : Nat) (rest : List Char) (p : Nat) (c : AGV.Model.Peg.Ctx) (f : Nat)
    (hf : f ≤ 12 * n) :
    eval grammar f c (.ident "value") p (nestList n ++ rest) = .oof :=
  value_nest_oof n f c p rest hf

/-- …and the bound is tight in its slope on the whole witness document: the least depth at which
    `{j(x:[ⁿ]ⁿ)}` is parsed from `executable_document` grows by exactly 12 per bracket
    (evaluated instances; the general lower bound is `c12_unbounded_nesting_document_depth`). -/
theorem c12_unbounded_nesting_slope :
    depthFrom "executable_document" (listDoc 1) 0 200 + 12 = depthFrom "executable_document" (listDoc 2) 0 200 ∧
    depthFrom "executable_document" (listDoc 2) 0 200 + 12 = depthFrom "executable_document" (listDoc 3) 0 200 := by
  decide

-- ------------------------------------------------------------------ (c) fragment expansion

/-- pinned: every spread is followed — six fragments that spread the next one four times cost
    1365 visits of `check_recursive_depth` for 6 distinct fragments (4^(n-1) growth) -/
theorem c12_spread_violated_by_spreadsExpanded :
    spreadVisits (bomb 4 6) 32 40 0 0 = some 1365 ∧ distinctVisits (bomb 4 6) = 6 ∧
    spreadVisits (bomb 4 7) 32 40 0 0 = some 5461 := by
  decide

/-- `check_max_directives` has no depth bound and no cycle guard of its own: it terminates (within
    the same stack) on every document on which `check_recursive_depth` passed — that is the
    dependency between the two checks. -/
theorem c12_directives_walk_after_depth_check (frags : Spreads) (max stack d i v : Nat)
    (h : spreadVisits frags max stack d i = some v) : dirWalk frags stack i ≠ none :=
  dirWalk_of_spreadVisits frags max stack d i v h

/-- With the checks in the order of the SOURCE (`Gen/LimitFacts.checkOrder`, extracted from
    `prepare_request`): on every spread graph (cycles included), every `recursive_depth`, every
    `limit_directives` setting and every stack, the pre-execution checks reject or pass — they
    never exhaust the stack. -/
theorem c12_prechecks_never_overflow (frags : Spreads) (max : Nat) (maxDirs : Option Nat) (stack root : Nat) :
    runChecks frags max maxDirs stack root AGV.Gen.LimitFacts.checkOrder ≠ .overflow :=
  runChecks_source_order frags max maxDirs stack root

/-- …and the order is what does it: with the directives check first, `{...A} fragment A on Q{...A}`
    exhausts EVERY stack as soon as `limit_directives` is set (while the source order rejects it). -/
theorem c12_prechecks_order_needed (stack : Nat) :
    runChecks [[0]] 32 (some 5) stack 0 ["check_max_directives", "check_recursive_depth", "check_rules"] = .overflow ∧
    runChecks [[0]] 32 (some 5) 40 0 AGV.Gen.LimitFacts.checkOrder = .rejected := by
  refine ⟨?_, by decide⟩
  simp [runChecks, dirWalk_self_cycle]

-- ------------------------------------------------------------------ (b') the whole witness document

/-- The nesting family from the DOCUMENT rule, on the whole witness document `{j(x:[[…]])}`: the
    descent from `executable_document` is cut off at every depth `≤ 12·n` — for every `n`, so no
    constant bounds the depth of the pest-compiled parser on documents a client can send.
    (Closed by symbolic evaluation of the prefix `{j(x:` through `executable_document …
    argument`, using fuel monotonicity of the interpreter; recursive core: `c12_unbounded_nesting`.) -/
theorem c12_unbounded_nesting_document :
    ∀ n f, f ≤ 12 * n → eval grammar f {} (.ident "executable_document") 0 (listDoc n) = .oof :=
  fun n f hf => document_nest_oof n f (by omega)

/-- …sharper: the 26 activations between the document rule and the argument's `value`
    (`executable_document`, its sequences, `executable_definition`, `operation_definition`,
    `selection_set`, `selection`, `field`, `arguments`, `argument` and the sequences, options and
    repetitions between them) come on top of the twelve per bracket. -/
theorem c12_unbounded_nesting_document_depth (n f : Nat) (hf : f ≤ 12 * n + 26) :
    eval grammar f {} (.ident "executable_document") 0 (listDoc n) = .oof :=
  document_nest_oof n f hf

/-- In terms of the model's `parserRecursionDepth` (what the correspondence compares with the
    real parser's behaviour): without the nesting pre-scan — the pinned tree — the recursion depth
    on `{j(x:[ⁿ]ⁿ)}` is at least `12·n + 27`, for every `n` (evaluated: exactly `12·n + 40` for
    n = 0…3, the innermost empty list costing 13 more — cf. `c12_unbounded_nesting_slope`). -/
theorem c12_parser_depth_unbounded (n : Nat) :
    12 * n + 27 ≤ parserRecursionDepth { noNestingLimit := true } (listDoc n) := by
  have hc : ∀ f, f ≤ 12 * n + 26 → cutOffAt "executable_document" (listDoc n) f = true := by
    intro f hf
    simp [cutOffAt, document_nest_oof n f hf]
  have hlen := listDoc_length n
  simp only [parserRecursionDepth, Bool.not_true, Bool.false_and, Bool.false_eq_true, if_false]
  exact depthFrom_ge _ _ (12 * n + 26) hc _ 0 (by omega) (by simp only [AGV.Model.Peg.fuelFor, hlen]; omega)

-- ------------------------------------------------------------------ (e) huge numbers

section numbers
open AGV.Gen.IntScalars AGV.Model.Scalars AGV.Model.HostileNum AGV.Lemmas.HostileNum
open AGV.Spec.Scalars (GValue inIntDomain)

/-- The integer table (extracted from every `impl ScalarType for` of integers.rs /
    non_zero_integers.rs) and the name table (the same files plus floats.rs and id.rs) agree: every
    source type registered under `Int` has a row, and nothing else has. -/
theorem c12_numbers_table_covers_source :
    table.map (·.name) = (AGV.Gen.NumScalars.graphqlName.filter (fun p => p.2 = "Int")).map (·.1) := by
  decide

/-- `<T as ScalarType>::parse` of EVERY integer scalar of the source is total: no value — any
    integer whatever its size, float, string, null, … — reaches the `unwrap()` of a NonZero
    constructor or any other panic.  Quantified over the generated table and all values. -/
theorem c12_numbers_parse_total (t : Entry) (ht : t ∈ table) (v : GValue) :
    parseInt t v ≠ .panic :=
  parseInt_ne_panic t ht v

/-- A number offered to a position of ANY built-in numeric input type — the twenty integer
    scalars, `Float` (f32/f64), `ID` — is answered with data or with an error, never with a
    crash: for every value the parsers can deliver, and in particular for every integer numeral
    (`numAnswer`: 2^k ± 1, multiples of 2^8/2^16/2^32, numbers beyond u64, …). -/
theorem c12_numbers_answered (ty : NTy) (h : ty.fromSource) :
    (∀ v : GValue, answerValue ty v ≠ .crash) ∧ (∀ n : Int, numAnswer ty n ≠ .crash) :=
  ⟨answerValue_ne_crash ty h, fun n => answerValue_ne_crash ty h (lexNumber n)⟩

/-- WHICH answer, for an integer numeral at an integer position: data (the integer itself,
    unwrapped and untruncated) exactly when it lies in the type's range and passes the `Int`
    validator the schema registers (`is_valid` of `i32`, the first integer type of
    `add_system_types`, with the guard the source has); an error otherwise. -/
theorem c12_numbers_exact (t : Entry) (ht : t ∈ table) (n : Int) :
    (inIntDomain t.name n ∧ registeredIntValid (.int n) = true → numAnswer (.int t) n = .data (.int n)) ∧
    (¬ (inIntDomain t.name n ∧ registeredIntValid (.int n) = true) → numAnswer (.int t) n = .error) :=
  ⟨fun h => numAnswer_int_accept t ht n h.1 h.2, numAnswer_int_reject t ht n⟩

/-- … where that registered validator lets through either exactly the integers `as_i64()` reads
    (at most i64::MAX: the pinned tree, finding C07-int-validator-of-first-registered) or every
    integer a JSON number holds (the repaired guard `is_i64() || is_u64()`): nothing else passes
    the source extraction without breaking this obligation. -/
theorem c12_numbers_registered_validator :
    (∀ i, registeredIntValid (.int i) = readableB .i64 i) ∨
    (∀ i, registeredIntValid (.int i) = (readableB .i64 i || readableB .u64 i)) :=
  registeredIntValid_cases

example : ∃ t ∈ table, t.name = "NonZeroU16" ∧ numAnswer (.int t) 65535 = .data (.int 65535) ∧
    numAnswer (.int t) 65536 = .error ∧ numAnswer (.int t) 0 = .error := by decide

/-- `ID` and `Float` positions: an integer numeral is data iff it is a JSON integer
    (i64::MIN ..= u64::MAX) for `ID`; always for `Float`. -/
theorem c12_numbers_id_exact (n : Int) :
    (numAnswer .id n = if i64Min ≤ n ∧ n ≤ u64Max then .data (.int n) else .error) ∧
    numAnswer .float n = .data .float :=
  ⟨numAnswer_id n, numAnswer_float n⟩

/-- The check is not vacuous: with the upper bound of `NonZeroU16::parse` widened to u32::MAX
    (`seededTable`, the table srcfacts extracts from such a tree) the non-zero multiples of 65536
    below 2^32 pass the range test, wrap to 0 in `n as u16` and reach `NonZeroU16::new(0).unwrap()`
    — a crash — and their neighbours are silently truncated; the source-derived row answers all
    three with an error. -/
theorem c12_numbers_violated_by_seeded_bound :
    (rowOf seededTable "NonZeroU16").map (fun t => numAnswer (.int t) 65536) = some .crash ∧
    (rowOf seededTable "NonZeroU16").map (fun t => numAnswer (.int t) 4294901760) = some .crash ∧
    (rowOf seededTable "NonZeroU16").map (fun t => numAnswer (.int t) 65537) = some (.data (.int 1)) ∧
    (rowOf table "NonZeroU16").map (fun t => [65536, 4294901760, 65537].map (numAnswer (.int t))) =
      some [.error, .error, .error] := by
  decide

end numbers

end AGV.Props.C12
