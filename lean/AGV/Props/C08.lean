/-
  Property C08 — built-in input validators accept exactly the values satisfying their predicate.

  OBLIGATION c08
  OBLIGATION c08_int_order_exact
  OBLIGATION c08_unsignedWrap_witness
  OBLIGATION c08_floatTrunc_witness
  OBLIGATION c08_intToFloatRound_witness
  OBLIGATION c08_strictGateI64_witness
  OBLIGATION c08_first_failure_order
  OBLIGATION c08_pinned_partial

  `re` (the regex matcher) is uninterpreted throughout.
-/
import AGV.Lemmas.ValidatorsPinned

namespace AGV.Props.C08
open AGV.Spec.Validators AGV.Model.Validators AGV.Lemmas.Validators

/-- With no defect, in either validation mode, for every declared shape (T, Option<T>, Vec<T>,
    Vec<Option<T>>, Option<Vec<…>> over i8…u64, f32, f64, String), every validator
    configuration and every admissible wire value: the resolver is reached iff the wire value
    denotes a value of the declared type which satisfies every stated validator under exact
    arithmetic. -/
theorem c08 (re : List Char → List Char → Bool) (mode : Mode) (sh : Shape) (c : Cfg) (w : W)
    (ha : Admissible sh w) :
    reachesResolver Defects.none re mode sh c w ↔ mustReach re sh c w := by
  unfold reachesResolver run mustReach
  rw [← parse_eq sh w ha]
  cases hp : parse sh w with
  | none => simp; split <;> simp
  | some v =>
    have hg := gate_of_parse sh w v ha hp
    have hf := parse_form sh w v hp
    simp only [hg]
    rw [← validate_none_iff re sh c v hf]
    cases validate Defects.none re sh c v <;> simp

example : Admissible ⟨.num (.int 64 false), true, true, true⟩ (.list [.null, .int 18446744073709551615]) := by
  simp [Admissible, bitsOk]

/-- the specification's order on integers is the order of ℤ (the dyadic encoding adds nothing) -/
theorem c08_int_order_exact (a b : Int) :
    (Dy.le (Dy.ofInt a) (Dy.ofInt b) ↔ a ≤ b) ∧ (Dy.dvd (Dy.ofInt a) (Dy.ofInt b) ↔ a ∣ b) :=
  ⟨le_ofInt a b, dvd_ofInt a b⟩

def tt : List Char → List Char → Bool := fun _ _ => true
def u64 : Shape := ⟨.num (.int 64 false), false, false, false⟩
def f64 : Shape := ⟨.num .f64, false, false, false⟩

/-- fast mode: `y: u64` with `maximum = 100` lets 18446744073709551615 through (`u64 as i64` = -1) -/
theorem c08_unsignedWrap_witness :
    run { unsignedWrap := true } tt .fast u64 { maximum := some (.i 100) } (.int 18446744073709551615) = .reached ∧
    ¬ mustReach tt u64 { maximum := some (.i 100) } (.int 18446744073709551615) := by decide

/-- `y: f64` with `maximum = 10` accepts 10.5 (bits 0x4025000000000000; `10.5 as i64` = 10) -/
theorem c08_floatTrunc_witness :
    run { floatTrunc := true } tt .strict f64 { maximum := some (.i 10) } (.float 4622100592565682176) = .reached ∧
    ¬ mustReach tt f64 { maximum := some (.i 10) } (.float 4622100592565682176) := by decide

/-- `y: u64` with `maximum = 9007199254740992.0` accepts 2^53 + 1 (`as f64` rounds it to 2^53) -/
theorem c08_intToFloatRound_witness :
    run { intToFloatRound := true } tt .strict u64 { maximum := some (.f ⟨false, 1, 53⟩) } (.int 9007199254740993) = .reached ∧
    ¬ mustReach tt u64 { maximum := some (.f ⟨false, 1, 53⟩) } (.int 9007199254740993) := by decide

/-- strict mode refuses the u64 value 2^63 although it satisfies `minimum = 5` -/
theorem c08_strictGateI64_witness :
    run { strictGateI64 := true } tt .strict u64 { minimum := some (.i 5) } (.int 9223372036854775808) = .err .gate ∧
    mustReach tt u64 { minimum := some (.i 5) } (.int 9223372036854775808) := by decide

/-- which validator reports: list validators before element validators, `multiple_of` before
    `maximum` before `minimum`, the first failing item decides (the order of
    `Validators::create_validators`) -/
theorem c08_first_failure_order :
    run Defects.none tt .fast ⟨.num (.int 32 true), true, false, false⟩
        { multipleOf := some (.i 5), maximum := some (.i 100), minimum := some (.i 10), maxItems := some 2 }
        (.list [.int 7, .int 200, .int 3]) = .err .maxItems ∧
    run Defects.none tt .fast ⟨.num (.int 32 true), true, false, false⟩
        { multipleOf := some (.i 5), maximum := some (.i 100), minimum := some (.i 10) }
        (.list [.int 20, .int 200, .int 3]) = .err .maximum ∧
    run Defects.none tt .fast ⟨.num (.int 32 true), true, false, false⟩
        { multipleOf := some (.i 5), maximum := some (.i 100), minimum := some (.i 10) }
        (.list [.int 20, .int 201, .int 3]) = .err .multipleOf := by decide

/-- On the pinned tree (all four defect toggles on) the resolver is reached exactly when the
    specification says so for signed integers of at most 64 bits and unsigned ones of at most
    32 bits with integer-literal bounds: every parsed value lies in the `i64` range, so `as i64`
    is the identity, no float conversion happens, and whatever the strict gate refuses beyond
    `i64::MAX` the parser refuses too.  The four defects can only be observed on u64, f32/f64
    or with float-literal bounds. -/
theorem c08_pinned_partial (re : List Char → List Char → Bool) (mode : Mode) (sh : Shape) (c : Cfg) (w : W)
    (bits : Nat) (signed : Bool)
    (ha : Admissible sh w) (he : sh.elem = .num (.int bits signed)) (hs : signed = true ∨ bits ≤ 32)
    (h1 : ∀ x, c.multipleOf = some (.f x) → False) (h2 : ∀ x, c.maximum = some (.f x) → False)
    (h3 : ∀ x, c.minimum = some (.f x) → False) :
    reachesResolver Defects.pinned re mode sh c w ↔ mustReach re sh c w := by
  rw [← c08 re mode sh c w ha]
  exact run_pinned_reached re mode sh c w bits signed ha he hs ⟨h1, h2, h3⟩

/-- the hypotheses are met by `Vec<Option<i64>>` with three integer bounds and a list holding
    both ends of the `i64` range; the request is refused by `minimum` (on `i64::MIN`) -/
example : Admissible ⟨.num (.int 64 true), true, true, false⟩ (.list [.null, .int (-9223372036854775808), .int 9223372036854775807]) ∧
    run Defects.pinned tt .strict ⟨.num (.int 64 true), true, true, false⟩
      { multipleOf := some (.i 1), maximum := some (.i 100), minimum := some (.i (-5)) }
      (.list [.null, .int (-9223372036854775808), .int 9223372036854775807]) = .err .minimum := by
  refine ⟨by simp [Admissible, bitsOk], by decide⟩

end AGV.Props.C08
