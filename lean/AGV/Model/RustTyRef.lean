/-
  The registry's type references of Core/RustTy.lean as the `TypeRef` of the introspection model (C18).
-/
import AGV.Core.RustTy
import AGV.Core.Types

namespace AGV.Core.RustTy
open AGV.Core

def RRef.toTypeRef : RRef → TypeRef
  | .named n => .named n
  | .list t => .list t.toTypeRef
  | .nonNull t => .nonNull t.toTypeRef

theorem RRef.toTypeRef_render (r : RRef) : r.toTypeRef.render = r.render := by
  induction r with
  | named n => rfl
  | list t ih => simp [RRef.toTypeRef, TypeRef.render, RRef.render, ih]
  | nonNull t ih => simp [RRef.toTypeRef, TypeRef.render, RRef.render, ih]

theorem RRef.toTypeRef_nullable (r : RRef) : r.nullable.toTypeRef = r.toTypeRef.nullable := by
  cases r <;> rfl

end AGV.Core.RustTy
