/-
  Model of what `Schema::execute` answers when a NUMBER is offered to a position of a built-in
  numeric input type (property C12, clause "huge numbers"; stream `numbers` of harness c12.rs).

  The path of such a number through the library:
    1. the text becomes a `Value::Number` — `serde_json::Number` without `arbitrary_precision`:
       an integer in i64::MIN ..= u64::MAX stays an integer (`N::NegInt`/`N::PosInt`), every other
       number is a float or is refused by the parser (`lexNumber`);
    2. validation (`is_valid_input_value`, src/validation/utils.rs) calls the `is_valid` REGISTERED
       under the GraphQL name of the position's type.  All twenty integer scalars share the name
       `Int`, f32/f64 share `Float`: the first Rust type registered under a name supplies the
       validator, and `Registry::add_system_types` registers `i32`, `f32`, `ID` before any user type
       (`Gen/NumScalars.lean`) — so an `Int` position of Rust type `u64` is validated by i32's
       `is_valid` (`registeredIntValid`; its guard is read from the source: `is_i64()` in the
       pinned tree, finding C07-int-validator-of-first-registered);
    3. the resolver's `<T as ScalarType>::parse` (`Model.Scalars.parseInt`, driven by the
       source-derived table `Gen/IntScalars.lean`: accessor, the disjuncts of the rejecting `if`,
       the `n as T` cast, and for NonZero* the `new(..).unwrap()` that panics on 0).
  A list element and an input-object field take the same three steps (the wrappers only forward
  the element's error), so the answer does not depend on the position.

  `crash` is the outcome the property forbids (a panic inside `Schema::execute`); with the table
  extracted from the source no entry reaches it (Props/C12 `c12_numbers_*`).  `seededTable` is
  the table a copy-paste slip in `NonZeroU16::parse` (`n > u32::MAX as u64`) would produce.
  Core-only imports.
-/
import AGV.Model.Scalars
import AGV.Gen.NumScalars

namespace AGV.Model.HostileNum
open AGV.Gen.IntScalars AGV.Model.Scalars
open AGV.Spec.Scalars (GValue)

/-- type of the probed position -/
inductive NTy where
  | int (t : Entry)
  | float
  | id
  deriving Repr

/-- what the resolver received -/
inductive Shown where
  | int (n : Int)
  | float
  deriving DecidableEq, Repr

/-- the answer to the request -/
inductive NAns where
  | data (v : Shown)
  | error
  | crash
  deriving DecidableEq, Repr

/-- step 1: an integer numeral as a `Value::Number` (the float is an opaque token) -/
def lexNumber (n : Int) : GValue :=
  if i64Min ≤ n ∧ n ≤ u64Max then .int n else .float 0

/-- the first system scalar that is an integer scalar -/
def registeredIntEntry : Option Entry :=
  AGV.Gen.NumScalars.systemScalars.findSome? (fun n => table.find? (fun e => e.name = n))

/-- step 2 for `Int`: the `is_valid` registered under that name — the one of that first type, as
    the source has it (`Model.Scalars.isValidInt` over the extracted guard: `is_i64()`, `is_u64()` or
    a disjunction of them) -/
def registeredIntValid (v : GValue) : Bool :=
  match registeredIntEntry with
  | some e => isValidInt .none e v
  | none => pinnedValidInt ⟨"", false, .i64, [], ⟨64, true⟩, .i64, .i64, []⟩ v

/-- steps 2 and 3 over an arbitrary table row -/
def answerInt (t : Entry) (v : GValue) : NAns :=
  if registeredIntValid v = false then .error
  else match parseInt t v with
    | .ok r => .data (.int r)
    | .err _ => .error
    | .panic => .crash

/-- steps 2 and 3 -/
def answerValue : NTy → GValue → NAns
  | .int t, v => answerInt t v
  | .float, v =>
    -- f32 and f64: `is_valid` = any number, `parse` = `as_f64()` (total on numbers)
    match parseF64 v with
    | .ok _ => .data .float
    | .err _ => .error
    | .panic => .crash
  | .id, v =>
    match v, parseId .none v with
    | .int i, .ok _ => .data (.int i)
    | _, .ok _ => .data .float      -- a string: not offered by this stream
    | _, .err _ => .error
    | _, .panic => .crash

/-- the whole path for an integer numeral -/
def numAnswer (ty : NTy) (n : Int) : NAns := answerValue ty (lexNumber n)

/-- the position's type is one the source defines -/
def NTy.fromSource : NTy → Prop
  | .int t => t ∈ table
  | _ => True

-- ------------------------------------------------------------------ the seeded variant

/-- `NonZeroU16::parse` with the upper bound of the neighbouring `NonZeroU32` impl
    (`if n > u32::MAX as u64 || n == 0`): what srcfacts would extract from such a tree -/
def seededEntry (t : Entry) : Entry :=
  if t.name = "NonZeroU16" then { t with reject := [(.gt, 4294967295), (.eq, 0)] } else t

def seededTable : List Entry := table.map seededEntry

/-- the row of a type in a table -/
def rowOf (tbl : List Entry) (name : String) : Option Entry := tbl.find? (fun e => e.name = name)

-- ------------------------------------------------------------------ names (driver)

/-- Rust type name ↦ probed type: the integer rows of the table, then whatever else the source
    registers under `Float` / `ID` -/
def tyOfName (name : String) : Option NTy :=
  match rowOf table name with
  | some t => some (.int t)
  | none =>
    match AGV.Gen.NumScalars.graphqlName.find? (fun p => p.1 = name) with
    | some (_, "Float") => some .float
    | some (_, "ID") => some .id
    | _ => none

/-- every numeric scalar type of the source -/
def allTypeNames : List String := AGV.Gen.NumScalars.graphqlName.map (·.1)

end AGV.Model.HostileNum
