/-
  C19 — the observable side of the model: what a modelled result looks like
  (a) as an observation the specification can judge (`observe`), and
  (b) on the wire, in the canonical form printed by harness/core/src/bin/c19.rs (`render`).
  Import-free apart from AGV model/spec/util files.
-/
import AGV.Util.Sexp
import AGV.Model.Introspection
import AGV.Spec.Introspection

namespace AGV.Model.Introspection
open AGV AGV.Sexp AGV.Spec.Introspection

def RootName.toString : RootName → String
  | .query => "Query"
  | .mutation => "Mutation"
  | .subscription => "Subscription"
  | .emptyMutation => "EmptyMutation"

def observeField (k : Kind) (o : Outcome) : FieldObs :=
  { kind := k
    gotMetadata := o == .metadata
    resolverRan := o == .userResolver
    typeName := match o with
      | .typeName n => some n.toString
      | _ => none }

/-- what the specification gets to see of a modelled result: a refused request shows no field
    and no resolver invocation -/
def observe : Result → Obs
  | .rejected => { fields := [], strayRuns := 0 }
  | .unsupported => { fields := [], strayRuns := 0 }
  | .fields os => { fields := os.map (fun p => observeField p.1 p.2), strayRuns := 0 }

/-- a field whose stream answered with an error response shows no data; the error responses
    carry no path and are listed beside the fields -/
def renderField (k : Kind) (o : Outcome) : Sexp :=
  let norun := Sexp.atom "norun"
  match o with
  | .metadata => .list [.atom "meta", norun]
  | .null => .list [.atom "null", norun]
  | .userResolver => .list [.atom (if k = .entities then "entity" else "value"), .atom "run"]
  | .typeName n => .list [.list [.atom "typename", .str n.toString.toList], norun]
  | .error => .list [.atom "absent", norun]
  | .absent => .list [.atom "absent", norun]

def render : Result → String
  | .rejected => "(rejected 0)"
  | .unsupported => "(unsupported 0)"
  | .fields os =>
    let errs := (os.filter (fun p => p.2 == .error)).map (fun _ => Sexp.atom "not-configured")
    Sexp.render (.list (.atom "ok" :: os.map (fun p => renderField p.1 p.2)
      ++ [.list (.atom "errors" :: errs), .list [.atom "stray", .atom "0"]]))

end AGV.Model.Introspection
