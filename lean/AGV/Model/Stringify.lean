/-
  Model of `src/registry/stringify_exec_doc.rs` (`Registry::stringify_exec_doc`, reached through
  `ExtensionContext::stringify_execute_doc` by the Logger and Tracing extensions), function by
  function, including which `parent_type` every recursive call receives.

  The leaf printer `pv` (`Display for ConstValue`, modelled for C15 in Model/Print.lean) is a
  parameter: nothing proved about this file depends on how non-secret values look.

  `doc.fragments` is a `HashMap` and `doc.operations` may be one: the order in which definitions
  are written is not determined by the request.  `chunks` returns the text of every fragment
  definition and of every operation; the logged string is the concatenation of the fragment
  texts in some order followed by the operation texts in some order (`stringify` uses the order
  of the document).

  Defect toggles (true = behaviour of the pinned tree):
    inlineNoCondLosesType  `Selection::InlineFragment` without type condition continues with
                           `parent_type = None`: nothing beneath it is recognised as secret
    listNotRecursed        `stringify_input_value` prints a `ConstValue::List` with `Display`:
                           secret fields of input objects inside lists are printed
    varDefaultPrinted      variable definitions are printed with their default values
-/
import AGV.Core.Types
import AGV.Spec.Stringify

namespace AGV.Model.Stringify
open AGV.Core
open AGV.Spec.Stringify (Reg Meta Vars typeGet fieldByName argMeta inputFieldMeta inputTypeOf isSecret
  childType rootType argValue)

structure Defects where
  inlineNoCondLosesType : Bool := false
  listNotRecursed : Bool := false
  varDefaultPrinted : Bool := false
  deriving Repr, DecidableEq

def Defects.none : Defects := {}
def Defects.pinned : Defects := { inlineNoCondLosesType := true, listNotRecursed := true, varDefaultPrinted := true }

/-- `output.push_str("\"<secret>\"")` -/
def secretText : String := "\"<secret>\""

def sep (first : Bool) (s : String) : String := if first then "" else s

-- ------------------------------------------------------------------ stringify_input_value

mutual
def sval (D : Defects) (R : Reg) (pv : GValue → String) (m : Option Meta) : GValue → String
  | .obj fs =>
    if isSecret m then secretText else
    match inputTypeOf R m with
    | some t => "{" ++ sfields D R pv t true fs ++ "}"
    | none => pv (.obj fs)
  | .list xs =>
    if isSecret m then secretText else
    if D.listNotRecursed then pv (.list xs) else "[" ++ sitems D R pv m true xs ++ "]"
  | .null => if isSecret m then secretText else pv .null
  | .int i => if isSecret m then secretText else pv (.int i)
  | .float t => if isSecret m then secretText else pv (.float t)
  | .str s => if isSecret m then secretText else pv (.str s)
  | .bool b => if isSecret m then secretText else pv (.bool b)
  | .enum n => if isSecret m then secretText else pv (.enum n)
/-- `for (idx, (key, value)) in obj.iter().enumerate()` with `input_fields.get(key)` -/
def sfields (D : Defects) (R : Reg) (pv : GValue → String) (t : TypeDef) (first : Bool) :
    List (String × GValue) → String
  | [] => ""
  | (k, v) :: rest =>
    sep first ", " ++ k ++ ": " ++ sval D R pv (inputFieldMeta R t k) v ++ sfields D R pv t false rest
/-- (repaired tree) the items of a list, each printed against the same input value description -/
def sitems (D : Defects) (R : Reg) (pv : GValue → String) (m : Option Meta) (first : Bool) :
    List GValue → String
  | [] => ""
  | x :: rest => sep first ", " ++ sval D R pv m x ++ sitems D R pv m false rest
end

-- ------------------------------------------------------------------ stringify_selection_set

/-- the argument loop of a field: `parent_type.field_by_name(field).args.get(name)`, the value
    made constant with the request's variables (`unwrap_or_default()` = `null` on failure) -/
def sargs (D : Defects) (R : Reg) (pv : GValue → String) (vars : Vars) (parent : Option TypeDef)
    (field : String) (first : Bool) : List (String × DValue) → String
  | [] => ""
  | (k, a) :: rest =>
    sep first ", " ++ k ++ ": " ++ sval D R pv (argMeta R parent field k) (argValue vars a) ++
      sargs D R pv vars parent field false rest

/-- `parent_type` handed to the selection set of an inline fragment -/
def inlineParent (D : Defects) (R : Reg) (parent : Option TypeDef) (cond : Option String) : Option TypeDef :=
  match cond with
  | some c => typeGet R c
  | none => if D.inlineNoCondLosesType then none else parent

mutual
def ssel (D : Defects) (R : Reg) (pv : GValue → String) (vars : Vars) (parent : Option TypeDef) : Sel → String
  | .field al name args _ sels _ =>
    (match al with
     | some a => a ++ ":"
     | none => "") ++ name ++
    (if args.isEmpty then "" else "(" ++ sargs D R pv vars parent name true args ++ ")") ++
    (if sels.isEmpty then "" else " { " ++ ssels D R pv vars (childType R parent name) true sels ++ " }")
  | .spread name _ _ => "... " ++ name
  | .inline cond _ sels _ =>
    "... " ++
    (match cond with
     | some c => "on " ++ c ++ " "
     | none => "") ++
    "{ " ++ ssels D R pv vars (inlineParent D R parent cond) true sels ++ " }"
def ssels (D : Defects) (R : Reg) (pv : GValue → String) (vars : Vars) (parent : Option TypeDef)
    (first : Bool) : List Sel → String
  | [] => ""
  | s :: rest => sep first " " ++ ssel D R pv vars parent s ++ ssels D R pv vars parent false rest
end

def selSet (D : Defects) (R : Reg) (pv : GValue → String) (vars : Vars) (parent : Option TypeDef)
    (sels : List Sel) : String :=
  "{ " ++ ssels D R pv vars parent true sels ++ " }"

-- ------------------------------------------------------------------ definitions

/-- `stringify_fragment_definition` (no space before the selection set, one `}` too many:
    mirrored as written) -/
def sfrag (D : Defects) (R : Reg) (pv : GValue → String) (vars : Vars) (f : FragDef) : String :=
  "fragment " ++ f.name ++ " on " ++ f.cond ++ selSet D R pv vars (typeGet R f.cond) f.sels ++ "}\n\n"

def opTypeText : OpType → String
  | .query => "query"
  | .mutation => "mutation"
  | .subscription => "subscription"

def svardefs (D : Defects) (pv : GValue → String) (first : Bool) : List VarDef → String
  | [] => ""
  | v :: rest =>
    sep first ", " ++ "$" ++ v.name ++ ": " ++ v.ty.render ++
    (match v.default with
     | some d => if D.varDefaultPrinted then " = " ++ pv d else ""
     | none => "") ++
    svardefs D pv false rest

/-- one iteration of `for (name, operation_definition) in doc.operations.iter()`: the name and
    the variable definitions are written only for a named operation -/
def sop (D : Defects) (R : Reg) (pv : GValue → String) (vars : Vars) (o : OpDef) : String :=
  opTypeText o.ty ++ " " ++
  (match o.name with
   | some n => n ++ (if o.vars.isEmpty then "" else "(" ++ svardefs D pv true o.vars ++ ")") ++ " "
   | none => "") ++
  selSet D R pv vars (rootType R o.ty) o.sels

def sfrags (D : Defects) (R : Reg) (pv : GValue → String) (vars : Vars) : List FragDef → List String
  | [] => []
  | f :: rest => sfrag D R pv vars f :: sfrags D R pv vars rest

def sops (D : Defects) (R : Reg) (pv : GValue → String) (vars : Vars) : List OpDef → List String
  | [] => []
  | o :: rest => sop D R pv vars o :: sops D R pv vars rest

/-- texts of the fragment definitions and of the operations -/
def chunks (D : Defects) (R : Reg) (pv : GValue → String) (vars : Vars) (d : Doc) : List String × List String :=
  (sfrags D R pv vars d.frags, sops D R pv vars d.ops)

def concat : List String → String
  | [] => ""
  | s :: r => s ++ concat r

/-- `stringify_exec_doc` for the iteration order = document order -/
def stringify (D : Defects) (R : Reg) (pv : GValue → String) (vars : Vars) (d : Doc) : String :=
  concat (chunks D R pv vars d).1 ++ concat (chunks D R pv vars d).2

end AGV.Model.Stringify
