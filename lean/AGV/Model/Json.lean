/-
  Model of `value/src/value_serde.rs`: `Serialize for ConstValue` as a map into the JSON data
  model, `Deserialize for ConstValue` (its visitor) as the map back, and the compact text
  serde_json writes for a JSON tree (third-party, modelled only to observe the tree through
  `serde_json::to_string`; tied by the correspondence).  Core-only imports.
-/
import AGV.Model.Print

namespace AGV.Model.Json
open AGV.Digits AGV.Core AGV.Model.Print

/-- the JSON data model as serde presents it (numbers: integers or an opaque float token) -/
inductive Json where
  | null
  | bool (b : Bool)
  | int (i : Int)
  | float (tok : List Char)
  | str (s : List Char)
  | arr (xs : List Json)
  | obj (fs : List (List Char × Json))
  deriving Repr, Inhabited, BEq

/-- `impl Serialize for ConstValue`: `Enum` goes through `serialize_str` -/
def toJson : LValue → Json
  | .null => .null
  | .int i => .int i
  | .float t => .float t
  | .str s => .str s
  | .bool b => .bool b
  | .enum n => .str n
  | .list xs => .arr (xs.map toJson)
  | .obj fs => .obj (fs.map (fun kv => (kv.1, toJson kv.2)))
termination_by x => sizeOf x
decreasing_by
  · have := List.sizeOf_lt_of_mem ‹_ ∈ xs›; simp; omega
  · rename_i h
    have := List.sizeOf_lt_of_mem h
    have : sizeOf kv.2 < sizeOf kv := by cases kv; simp; omega
    simp; omega

/-- the visitor of `impl Deserialize for ConstValue` (`visit_bool`, `visit_i64`/`visit_u64`,
    `visit_f64`, `visit_str`, `visit_unit`, `visit_seq`, `visit_map`) -/
def fromJson : Json → LValue
  | .null => .null
  | .bool b => .bool b
  | .int i => .int i
  | .float t => .float t
  | .str s => .str s
  | .arr xs => .list (xs.map fromJson)
  | .obj fs => .obj (fs.map (fun kv => (kv.1, fromJson kv.2)))
termination_by x => sizeOf x
decreasing_by
  · have := List.sizeOf_lt_of_mem ‹_ ∈ xs›; simp; omega
  · rename_i h
    have := List.sizeOf_lt_of_mem h
    have : sizeOf kv.2 < sizeOf kv := by cases kv; simp; omega
    simp; omega

/-- a value with every enum replaced by the string of its name -/
def enumsAsStrings : LValue → LValue
  | .enum n => .str n
  | .list xs => .list (xs.map enumsAsStrings)
  | .obj fs => .obj (fs.map (fun kv => (kv.1, enumsAsStrings kv.2)))
  | v => v
termination_by x => sizeOf x
decreasing_by
  · have := List.sizeOf_lt_of_mem ‹_ ∈ xs›; simp; omega
  · rename_i h
    have := List.sizeOf_lt_of_mem h
    have : sizeOf kv.2 < sizeOf kv := by cases kv; simp; omega
    simp; omega

-- ------------------------------------------------------------------ serde_json's compact text

def hexLower (d : Nat) : Char := lowerDigit d

/-- serde_json `format_escaped_str_contents` -/
def jsonEscChar (c : Char) : List Char :=
  if c = '"' then ['\\', '"']
  else if c = '\\' then ['\\', '\\']
  else if c.toNat = 8 then ['\\', 'b']
  else if c.toNat = 12 then ['\\', 'f']
  else if c = '\n' then ['\\', 'n']
  else if c = '\r' then ['\\', 'r']
  else if c = '\t' then ['\\', 't']
  else if c.toNat < 32 then ['\\', 'u', '0', '0', hexLower (c.toNat / 16), hexLower (c.toNat % 16)]
  else [c]

def jsonStr (s : List Char) : List Char := '"' :: (s.map jsonEscChar).flatten ++ ['"']

def joinComma : List (List Char) → List Char
  | [] => []
  | [a] => a
  | a :: b :: r => a ++ [','] ++ joinComma (b :: r)

def jsonText : Json → List Char
  | .null => "null".toList
  | .bool true => "true".toList
  | .bool false => "false".toList
  | .int i => intDigits i
  | .float t => t
  | .str s => jsonStr s
  | .arr xs => '[' :: joinComma (xs.map jsonText) ++ [']']
  | .obj fs => '{' :: joinComma (fs.map (fun kv => jsonStr kv.1 ++ [':'] ++ jsonText kv.2)) ++ ['}']
termination_by x => sizeOf x
decreasing_by
  · have := List.sizeOf_lt_of_mem ‹_ ∈ xs›; simp; omega
  · rename_i h
    have := List.sizeOf_lt_of_mem h
    have : sizeOf kv.2 < sizeOf kv := by cases kv; simp; omega
    simp; omega

end AGV.Model.Json
