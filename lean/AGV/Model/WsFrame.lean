/-
  C25 — executable model of `ClientMessage::from_bytes` (src/http/websocket.rs), as it is:

      serde_json::from_slice(message.as_ref())         with  #[derive(Deserialize)]
                                                              #[serde(tag = "type", rename_all = "snake_case")]
                                                              enum ClientMessage { … }

  Three layers, each mirrored here:

   1. serde_json's reader (third party, modelled to decide success/failure and the document):
      recursive descent over the text, white space = space/tab/LF/CR, strings with the JSON
      escapes (surrogate pairs joined, lone surrogates refused, raw control characters refused),
      numbers by the JSON grammar and refused when the nearest double is infinite
      (`float_roundtrip` is enabled by async-graphql-value), containers nested at most 127 deep
      (`remaining_depth` 128), and — `from_slice` ends with `Deserializer::end()` — nothing but
      white space after the value (`Gen.WsWire.fromBytesExact`).
   2. serde's internally tagged enum (`TaggedContentVisitor`): the whole map is buffered, the
      member `type` must occur exactly once and hold a string naming a variant (or an alias);
      a *sequence* is accepted too: first element the tag, the others the variant's members in
      order (defect toggle `seqFrame`).
   3. the derived visitors of the variants and of `Request`: known members at most once and of
      the right type, unknown members skipped, `Option` members may be absent, `Request` from a
      map — or from a sequence of its members (defect toggle `seqPayload`).

  The variant table, the tag name and the shape of the `from_bytes` call are extracted from the
  source (`Gen/WsWire.lean`), the members of `Request` too (`Gen/RequestKeys.lean`).

  Defect toggles (`true` = behaviour of the pinned tree; `{}` = the specification's):
    seqFrame     a JSON array `["ping", null]` is read as a message
    seqPayload   the payload of `start`/`subscribe` may be an array `["query", "op", {..}, {..}]`
    lenientTail  NOT in the pinned tree: the reader stops after the first value and ignores the
                 rest of the frame (a `Deserializer` without `end()`); kept for its witness theorem
-/
import AGV.Spec.WsFrame
import AGV.Gen.WsWire
import AGV.Gen.RequestKeys

namespace AGV.Model.WsFrame
open AGV.Spec.WsFrame
open AGV.Gen

structure Defects where
  seqFrame : Bool := false
  seqPayload : Bool := false
  lenientTail : Bool := false
  deriving DecidableEq, Repr

/-- the pinned tree -/
def Defects.pinned : Defects := { seqFrame := true, seqPayload := true }

-- ------------------------------------------------------------------ 1. the JSON reader

def skipWs : Str → Str
  | [] => []
  | c :: r => if isWs c then skipWs r else c :: r

def spanDigits : Str → Str × Str
  | [] => ([], [])
  | c :: r => if isDigit c then ((spanDigits r).1.cons c, (spanDigits r).2) else ([], c :: r)

/-- `dropPrefix p cs = some r` iff `cs = p ++ r` -/
def dropPrefix : Str → Str → Option Str
  | [], cs => some cs
  | _ :: _, [] => none
  | p :: ps, c :: cs => if p = c then dropPrefix ps cs else none

def lit (p : Str) (v : J) (r : Str) : Option (J × Str) :=
  match dropPrefix p r with
  | some r' => some (v, r')
  | none => none

def consStr (c : Char) : Option (Str × Str) → Option (Str × Str)
  | some (s, r) => some (c :: s, r)
  | none => none

/-- the text after an opening quote: the string and what follows the closing quote -/
def readStr : Str → Option (Str × Str)
  | [] => none
  | c :: r =>
    if c = '"' then some ([], r)
    else if c = '\\' then
      match r with
      | [] => none
      | e :: r1 =>
        if e = 'u' then
          match r1 with
          | a :: b :: c4 :: d :: r2 =>
            match hex4 a b c4 d with
            | none => none
            | some n =>
              if isHigh n then
                match r2 with
                | b1 :: u1 :: e1 :: f1 :: g1 :: h1 :: r3 =>
                  if b1 = '\\' ∧ u1 = 'u' then
                    match hex4 e1 f1 g1 h1 with
                    | none => none
                    | some lo => if isLow lo then consStr (Char.ofNat (pairVal n lo)) (readStr r3) else none
                  else none
                | _ => none
              else if isLow n then none
              else consStr (Char.ofNat n) (readStr r2)
          | _ => none
        else
          match simpleEsc e with
          | some x => consStr x (readStr r1)
          | none => none
    else if c.toNat < 0x20 then none
    else consStr c (readStr r)

/-- integer part: `0` or a non-zero digit followed by digits -/
def readInt : Str → Option (Str × Str)
  | [] => none
  | c :: r =>
    if c = '0' then some (['0'], r)
    else if isDigit c then some (c :: (spanDigits r).1, (spanDigits r).2)
    else none

def readFrac : Str → Option (Str × Str)
  | [] => some ([], [])
  | c :: r =>
    if c = '.' then
      if (spanDigits r).1 = [] then none else some ('.' :: (spanDigits r).1, (spanDigits r).2)
    else some ([], c :: r)

def readSign : Str → Str × Str
  | [] => ([], [])
  | c :: r => if c = '+' then (['+'], r) else if c = '-' then (['-'], r) else ([], c :: r)

def readExp : Str → Option (Str × Str)
  | [] => some ([], [])
  | c :: r =>
    if c = 'e' ∨ c = 'E' then
      if (spanDigits (readSign r).2).1 = [] then none
      else some (c :: ((readSign r).1 ++ (spanDigits (readSign r).2).1), (spanDigits (readSign r).2).2)
    else some ([], c :: r)

def readMinus : Str → Str × Str
  | [] => ([], [])
  | c :: r => if c = '-' then (['-'], r) else ([], c :: r)

/-- a number token and what follows it -/
def readNum (cs : Str) : Option (Str × Str) :=
  match readInt (readMinus cs).2 with
  | none => none
  | some (ip, r1) =>
    match readFrac r1 with
    | none => none
    | some (fp, r2) =>
      match readExp r2 with
      | none => none
      | some (ep, r3) => some ((readMinus cs).1 ++ (ip ++ (fp ++ ep)), r3)

abbrev PV := Str → Option (J × Str)

def consRes {α : Type} (a : α) : Option (List α × Str) → Option (List α × Str)
  | some (l, r) => some (a :: l, r)
  | none => none

/-- the elements of an array after the first one was found to exist; fuel = characters left -/
def pElems (f : PV) : Nat → Str → Option (List J × Str)
  | 0, _ => none
  | n + 1, cs =>
    match f cs with
    | none => none
    | some (v, r) =>
      match skipWs r with
      | [] => none
      | c :: r' =>
        if c = ',' then consRes v (pElems f n r')
        else if c = ']' then some ([v], r')
        else none

/-- after `[` -/
def pArr (f : PV) (r : Str) : Option (List J × Str) :=
  match skipWs r with
  | [] => none
  | c :: r' => if c = ']' then some ([], r') else pElems f (r.length + 1) (c :: r')

def pMembers (f : PV) : Nat → Str → Option (List (Str × J) × Str)
  | 0, _ => none
  | n + 1, cs =>
    match skipWs cs with
    | [] => none
    | c :: r =>
      if c = '"' then
        match readStr r with
        | none => none
        | some (k, r1) =>
          match skipWs r1 with
          | [] => none
          | c1 :: r2 =>
            if c1 = ':' then
              match f r2 with
              | none => none
              | some (v, r3) =>
                match skipWs r3 with
                | [] => none
                | c2 :: r4 =>
                  if c2 = ',' then consRes (k, v) (pMembers f n r4)
                  else if c2 = '}' then some ([(k, v)], r4)
                  else none
            else none
      else none

/-- after `{` -/
def pObj (f : PV) (r : Str) : Option (List (Str × J) × Str) :=
  match skipWs r with
  | [] => none
  | c :: r' => if c = '}' then some ([], r') else pMembers f (r.length + 1) (c :: r')

/-- one value (leading white space skipped); `rec` reads the values inside a container and is
    absent when the nesting budget is used up -/
def pvStep (rec : Option PV) (cs : Str) : Option (J × Str) :=
  match skipWs cs with
  | [] => none
  | c :: r =>
    if c = 'n' then lit ['u', 'l', 'l'] .null r
    else if c = 't' then lit ['r', 'u', 'e'] (.bool true) r
    else if c = 'f' then lit ['a', 'l', 's', 'e'] (.bool false) r
    else if c = '"' then
      match readStr r with
      | some (s, r') => some (.str s, r')
      | none => none
    else if c = '[' then
      match rec with
      | none => none
      | some f =>
        match pArr f r with
        | some (vs, r') => some (.arr vs, r')
        | none => none
    else if c = '{' then
      match rec with
      | none => none
      | some f =>
        match pObj f r with
        | some (kvs, r') => some (.obj kvs, r')
        | none => none
    else
      match readNum (c :: r) with
      | some (tok, r') => if finite64 tok then some (.num tok, r') else none
      | none => none

/-- a value with containers nested at most `d` deep -/
def pv : Nat → PV
  | 0 => pvStep none
  | d + 1 => pvStep (some (pv d))

/-- `serde_json::from_slice::<…>`: one value, then (unless `lenient`) white space only -/
def readDoc (lenient : Bool) (cs : Str) : Option J :=
  match pv maxDepth cs with
  | none => none
  | some (v, r) => if lenient || (skipWs r).isEmpty then some v else none

-- ------------------------------------------------------------------ 3. members and `Request`

/-- the derived `visit_map` loop seen from one member: absent / present once / repeated (error) -/
def slot (k : Str) : List (Str × J) → Option (Option J)
  | [] => some none
  | p :: r =>
    if p.1 = k then
      match slot k r with
      | some none => some (some p.2)
      | _ => none
    else slot k r

inductive RSlot where
  | q (s : Str) | o (x : Option Str) | m (kvs : List (Str × J))

def tyString : Str := ['S','t','r','i','n','g']
def tyOptString : Str := ['O','p','t','i','o','n','<','S','t','r','i','n','g','>']
def tyVariables : Str := ['V','a','r','i','a','b','l','e','s']
def tyExtensions : Str := ['E','x','t','e','n','s','i','o','n','s']

/-- one member of `Request` by its declared type -/
def decodeReqField (f : RequestKeys.Field) (o : Option J) : Option RSlot :=
  if f.ty = tyString then
    match o with
    | none => if f.dflt then some (.q []) else none
    | some (.str s) => some (.q s)
    | some _ => none
  else if f.ty = tyOptString then
    match o with
    | none => some (.o none)
    | some .null => some (.o none)
    | some (.str s) => some (.o (some s))
    | some _ => none
  else if f.ty = tyVariables ∨ f.ty = tyExtensions then
    -- `Option<Map>::deserialize(..)?.unwrap_or_default()`
    match o with
    | none => if f.dflt then some (.m []) else none
    | some .null => some (.m [])
    | some (.obj kvs) => some (.m kvs)
    | some _ => none
  else none

def allSome {α : Type} : List (Option α) → Option (List α)
  | [] => some []
  | none :: _ => none
  | some a :: r => match allSome r with
    | some l => some (a :: l)
    | none => none

def buildReq : List RSlot → Option Req
  | [.q q, .o o, .m v, .m e] => some ⟨q, o, v, e⟩
  | _ => none

/-- `Request::deserialize` from a buffered map -/
def decodeReqObj (kvs : List (Str × J)) : Option Req :=
  match allSome (RequestKeys.jsonFields.map (fun f => (slot f.key kvs).bind (decodeReqField f))) with
  | some sl => buildReq sl
  | none => none

/-- pair the declared members with the elements of a sequence (missing ones are absent) -/
def zipFields {α : Type} : List α → List J → List (α × Option J)
  | [], _ => []
  | f :: fs, [] => (f, none) :: zipFields fs []
  | f :: fs, x :: xs => (f, some x) :: zipFields fs xs

/-- `Request::deserialize` from a buffered sequence: members in declaration order, defaults for
    the missing ones, an error when there are more elements than members -/
def decodeReqSeq (xs : List J) : Option Req :=
  if xs.length > RequestKeys.jsonFields.length then none
  else
    match allSome ((zipFields RequestKeys.jsonFields xs).map (fun p => decodeReqField p.1 p.2)) with
    | some sl => buildReq sl
    | none => none

def decodeReq (D : Defects) : J → Option Req
  | .obj kvs => decodeReqObj kvs
  | .arr xs => if D.seqPayload then decodeReqSeq xs else none
  | _ => none

-- ------------------------------------------------------------------ 2. the tagged enum

inductive Slot where
  | j (o : Option J) | s (x : Str) | r (x : Req)

/-- one member of a variant by its declared type (`o = none`: the member is absent) -/
def decodeField (D : Defects) (ty : WsWire.FieldTy) (o : Option J) : Option Slot :=
  match ty, o with
  | .optJson, none => some (.j none)
  | .optJson, some .null => some (.j none)
  | .optJson, some v => some (.j (some v))
  | .string, some (.str s) => some (.s s)
  | .string, _ => none
  | .request, some v => (decodeReq D v).map .r
  | .request, none => none

def build (rust : String) (sl : List Slot) : Option WMsg :=
  if rust = "ConnectionInit" then match sl with | [.j p] => some (.init p) | _ => none
  else if rust = "Start" then match sl with | [.s id, .r q] => some (.start id q) | _ => none
  else if rust = "Stop" then match sl with | [.s id] => some (.stop id) | _ => none
  else if rust = "ConnectionTerminate" then match sl with | [] => some .term | _ => none
  else if rust = "Ping" then match sl with | [.j p] => some (.ping p) | _ => none
  else if rust = "Pong" then match sl with | [.j p] => some (.pong p) | _ => none
  else none

def variantOf (t : Str) : Option WsWire.ClientVariant :=
  WsWire.clientVariants.find? (fun v => v.names.contains t)

/-- the variant's visitor on the buffered members (tag removed) -/
def decodeVariantMap (D : Defects) (v : WsWire.ClientVariant) (kvs : List (Str × J)) : Option WMsg :=
  match allSome (v.fields.map (fun f => (slot f.1 kvs).bind (decodeField D f.2))) with
  | some sl => build v.rust sl
  | none => none

/-- the variant's visitor on a buffered sequence: exactly one element per member -/
def decodeVariantSeq (D : Defects) (v : WsWire.ClientVariant) (xs : List J) : Option WMsg :=
  if xs.length ≠ v.fields.length then none
  else
    match allSome ((zipFields v.fields xs).map (fun p => decodeField D p.1.2 p.2)) with
    | some sl => build v.rust sl
    | none => none

/-- `ClientMessage::deserialize` on a document -/
def decodeMsg (D : Defects) : J → Option WMsg
  | .obj kvs =>
    -- `TaggedContentVisitor::visit_map`: the tag exactly once, a string
    match kvs.filter (fun p => p.1 = WsWire.clientTag) with
    | [(_, .str t)] =>
      match variantOf t with
      | some v => decodeVariantMap D v (kvs.filter (fun p => p.1 ≠ WsWire.clientTag))
      | none => none
    | _ => none
  | .arr (.str t :: xs) =>
    -- `TaggedContentVisitor::visit_seq`
    if D.seqFrame then
      match variantOf t with
      | some v => decodeVariantSeq D v xs
      | none => none
    else none
  | _ => none

/-- reader + enum; `lenient`: stop after the first value -/
def decodeWith (lenient : Bool) (D : Defects) (cs : Str) : Option WMsg :=
  match readDoc lenient cs with
  | some v => decodeMsg { seqFrame := D.seqFrame, seqPayload := D.seqPayload } v
  | none => none

/-- `ClientMessage::from_bytes` on a frame that is valid UTF-8: the reader is exact when the body
    of `from_bytes` is one of serde_json's `from_*` calls (extracted) -/
def decode (D : Defects) (cs : Str) : Option WMsg :=
  decodeWith (D.lenientTail || !WsWire.fromBytesExact) D cs

/-- the decoder the specification is proved equal to, whatever the source looks like: the
    driver uses it for the REQUIRED reading of a frame -/
def decodeSpec (cs : Str) : Option WMsg := decodeWith false {} cs

/-- `ClientMessage::from_bytes`: bytes that are not UTF-8 never decode (outside a string every
    non-ASCII byte is a syntax error, inside a string serde_json validates the encoding) -/
def decodeBytes (D : Defects) (bs : ByteArray) : Option WMsg :=
  match String.fromUTF8? bs with
  | some s => decode D s.toList
  | none => none

def decodeSpecBytes (bs : ByteArray) : Option WMsg :=
  match String.fromUTF8? bs with
  | some s => decodeSpec s.toList
  | none => none

end AGV.Model.WsFrame
