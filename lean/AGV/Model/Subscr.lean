/-
  Model of the response stream of a subscription request (C27):
    src/schema.rs            execute_stream_with_session_data: the request environment — with ONE
                             `errors` list — is created once; a query or mutation yields one response;
                             for a subscription the root fields' streams are merged by `select_all`
    src/subscription.rs      collect_subscription_streams: one stream per direct root FIELD of the
                             selection set (fragments at the root are not looked at)
    derive/src/subscription.rs   the generated `create_field_stream`: `stream.then(|event| …)`: the event
                             is resolved (one event at a time per root field), then the response is
                             `{key: value}` (or the propagated error) + `mem::take(query_env.errors)`
    src/context.rs           QueryEnvInner.errors / add_error: errors captured at nullable positions are
                             pushed to that request-wide list while the event is being resolved

  The atomic step is a poll of ONE root field's stream task (`select_all` = FuturesUnordered polls
  only the tasks that were woken).  A schedule is a list of actions chosen by the environment:
    arr i   the next event of root field i arrives (if the stream is idle it takes the event and
            polls its resolution at once; otherwise the event waits)
    step i  the task of root field i is polled once more (the event being resolved advances by one
            poll; when it finishes, the response is emitted, the stream is polled again and takes
            the next waiting event, and so on)
  An event's resolution is given abstractly by its sequence of polls (`Spec.Subscr.EventRun`); the
  instantiation by the executor model is in `Model/SubscrWire.lean`.

  Defect toggle (true = pinned tree):
    sharedErrList   the errors of a response are whatever the request-wide list holds when the event
                    finishes (everything captured by ANY root field since the last `take`); repaired:
                    a list per event.
  Import-free.
-/
import AGV.Core.Types
import AGV.Spec.Subscr

namespace AGV.Model.Subscr
open AGV.Core AGV.Spec.Subscr

structure Defects where
  sharedErrList : Bool := false
  deriving Repr, Inhabited, DecidableEq

def Defects.none : Defects := {}
def Defects.pinned : Defects := { sharedErrList := true }

/-- the event being resolved and the polls it still needs (non-empty while it is current) -/
structure Cur where
  ev : EventRun
  rest : List Poll
  deriving Repr, Inhabited

structure FSt where
  key : String
  /-- events that have not arrived yet -/
  script : List EventRun
  /-- events that arrived while the stream was busy -/
  queue : List EventRun := []
  cur : Option Cur := none
  deriving Repr, Inhabited

structure St where
  fields : List FSt
  /-- `QueryEnvInner.errors` -/
  shared : List GErr := []
  out : List Resp := []
  log : List Inv := []
  deriving Repr, Inhabited

inductive Act where
  | arr (i : Nat)
  | step (i : Nat)
  deriving Repr, Inhabited, DecidableEq

/-- the response built when event `e` finishes; `sh` = content of the request-wide list -/
def finish (D : Defects) (i : Nat) (key : String) (e : EventRun) (sh : List GErr) : Resp :=
  { field := i, ev := some e, data := ownData key e,
    errs := e.up.toList ++ (if D.sharedErrList then sh else e.caps) }

/-- what a transition of one root field's task produces -/
structure Tr where
  out : List Resp := []
  log : List Inv := []
  shared : List GErr
  cur : Option Cur := none
  queue : List EventRun := []
  deriving Repr, Inhabited

/-- the idle stream is polled: it takes waiting events; each one is polled at once; an event that
    finishes in its first poll is answered and the stream is polled again -/
def takeLoop (D : Defects) (i : Nat) (key : String) : List GErr → List EventRun → Tr
  | sh, [] => { shared := sh }
  | sh, e :: q =>
    match e.rest with
    | [] =>
      let t := takeLoop D i key [] q
      { t with out := finish D i key e (sh ++ e.first.caps) :: t.out, log := e.first.starts ++ t.log }
    | p :: ps =>
      { log := e.first.starts, shared := sh ++ e.first.caps, cur := some { ev := e, rest := p :: ps }, queue := q }

/-- one more poll of the event being resolved -/
def pollCur (D : Defects) (i : Nat) (key : String) (sh : List GErr) (c : Cur) (q : List EventRun) : Tr :=
  match c.rest with
  | [] =>   -- not reachable (a current event has a poll left); answered like an empty last poll
    let t := takeLoop D i key [] q
    { t with out := finish D i key c.ev sh :: t.out }
  | [p] =>
    let t := takeLoop D i key [] q
    { t with out := finish D i key c.ev (sh ++ p.caps) :: t.out, log := p.starts ++ t.log }
  | p :: p' :: ps =>
    { log := p.starts, shared := sh ++ p.caps, cur := some { c with rest := p' :: ps }, queue := q }

def step (D : Defects) (s : St) : Act → St
  | .arr i =>
    match s.fields[i]? with
    | none => s
    | some f =>
      match f.script with
      | [] => s
      | e :: script' =>
        match f.cur with
        | some _ => { s with fields := s.fields.set i { f with script := script', queue := f.queue ++ [e] } }
        | none =>
          let t := takeLoop D i f.key s.shared (f.queue ++ [e])
          { fields := s.fields.set i { f with script := script', queue := t.queue, cur := t.cur },
            shared := t.shared, out := s.out ++ t.out, log := s.log ++ t.log }
  | .step i =>
    match s.fields[i]? with
    | none => s
    | some f =>
      match f.cur with
      | none => s
      | some c =>
        let t := pollCur D i f.key s.shared c f.queue
        { fields := s.fields.set i { f with queue := t.queue, cur := t.cur },
          shared := t.shared, out := s.out ++ t.out, log := s.log ++ t.log }

def mapIdx {α β} (f : Nat → α → β) : List α → Nat → List β
  | [], _ => []
  | x :: xs, i => f i x :: mapIdx f xs (i + 1)

/-- the first poll of the request: every root field's stream is created; a failing subscription
    resolver answers with its error (these responses do not touch the error list) -/
def setupOut (fields : List Field) : List Resp :=
  (mapIdx (fun i (f : Field) =>
    match f.src with
    | .fail e => [({ field := i, ev := none, data := none, errs := [e] } : Resp)]
    | .events _ => []) fields 0).flatten

def init (fields : List Field) : St :=
  { fields := fields.map (fun f => { key := f.key, script := f.events }), out := setupOut fields }

def run (D : Defects) (fields : List Field) (acts : List Act) : St :=
  acts.foldl (step D) (init fields)

/-- every root field's stream is exhausted: `select_all` ends, so does the response stream -/
def ended (s : St) : Bool :=
  s.fields.all (fun f => f.script.isEmpty && f.queue.isEmpty && f.cur.isNone)

/-- `Schema::execute_stream`: a query or mutation is executed once by the non-streaming executor
    (`execute_once`, response `once`) and the stream ends; a subscription produces the responses of
    the machine above (`wrap` = how the caller sees a response) -/
def streamOf {α : Type} (D : Defects) (isSubscription : Bool) (once : α) (wrap : Resp → α)
    (fields : List Field) (acts : List Act) : List α × Bool :=
  if isSubscription then ((run D fields acts).out.map wrap, ended (run D fields acts))
  else ([once], true)

end AGV.Model.Subscr
