/-
  C25 — executable model of `WebSocket::poll_next` (src/http/websocket.rs), as it is.

  One call of `poll_next` = `poll D s e`: `s` is the state of the `WebSocket` struct, `e` is
  what this poll can observe of its environment, the result is the new state, the client
  messages taken from the socket during the poll and the one value the poll returns.

    Rust field                         model
    on_connection_init: Option<_>      onInit       (callback not yet taken)
    init_fut / ping_fut: Option<_>     initPending / pingPending
    data: Option<Arc<Data>>            acked
    streams: HashMap<String, Stream>   streams : List (id × instance)   (ids unique)
    stream (client messages)           inbox  (messages that arrived and were not taken yet)
    keepalive_timer                    ka (interval in ticks, 0 = none), left (ticks to go)
    close                              closed
    executor.execute_stream calls      nextInst (each call creates stream instance nextInst)

  Defect toggles (`true` = behaviour of the pinned tree, `{}`/all false = the protocol's):
    dupIdReplaces  graphql-transport-ws: `subscribe` with a live id replaces the operation
                   instead of closing with 4409
    preAck1011     graphql-transport-ws: `subscribe` before the ack closes with 1011, not 4401
    invalid1002    graphql-transport-ws: an unparseable message closes with 1002, not 4400
-/
import AGV.Spec.WsProto
import AGV.Gen.WsWire
import AGV.Model.WsFrame

namespace AGV.Model.Ws
open AGV.Spec.WsProto
open AGV.Gen

structure Defects where
  dupIdReplaces : Bool := false
  preAck1011 : Bool := false
  invalid1002 : Bool := false
  deriving DecidableEq, Repr

/-- the pinned tree -/
def Defects.pinned : Defects := { dupIdReplaces := true, preAck1011 := true, invalid1002 := true }

structure State where
  proto : Proto
  onInit : Bool := true
  initPending : Bool := false
  pingPending : Bool := false
  acked : Bool := false
  streams : List (Nat × Nat) := []
  nextInst : Nat := 0
  inbox : List CMsg := []
  ka : Nat := 0
  left : Nat := 0
  closed : Bool := false
  deriving DecidableEq, Repr

def State.init (p : Proto) (ka : Nat) : State := { proto := p, ka := ka, left := ka }

/-- completion of the pending callback future (init or ping) offered to this poll -/
inductive FutRes where
  | none | ok | err
  deriving DecidableEq, Repr, Inhabited

/-- the single operation stream that is ready during this poll -/
inductive StrEv where
  | none | item (inst val : Nat) | fin (inst : Nat)
  deriving DecidableEq, Repr, Inhabited

structure Env where
  arrive : List CMsg := []     -- client messages that arrive before this poll
  fut : FutRes := .none
  str : StrEv := .none
  tick : Bool := false         -- one unit of time passes before this poll
  deriving DecidableEq, Repr, Inhabited

/-- `ServerMessage::ConnectionError` for the legacy protocol, close frame for the new one -/
def refuse (p : Proto) (code : Nat) (r : Reason) : Out :=
  match p with
  | .legacy => .connErr r
  | .new => .close code r

def hasId (id : Nat) (ss : List (Nat × Nat)) : Bool := ss.any (·.1 == id)
def dropId (id : Nat) (ss : List (Nat × Nat)) : List (Nat × Nat) := ss.filter (·.1 != id)
def idOfInst (inst : Nat) : List (Nat × Nat) → Option Nat
  | [] => none
  | (i, n) :: r => if n == inst then some i else idOfInst inst r

/-- result of handling one client message inside the `while let Poll::Ready(message)` loop -/
inductive Act where
  | cont (s : State)            -- next iteration
  | brk (s : State)             -- `break`
  | ret (s : State) (o : Out)   -- `return Poll::Ready(o)`

/-- `*this.last_msg_at = Instant::now(); keepalive_timer.reset()` -/
def rearm (s : State) : State := { s with left := s.ka }

/-- body of the message loop for one message (`eof` is `None` from the socket) -/
def handle (D : Defects) (s0 : State) (m : CMsg) : Act :=
  match m with
  | .eof => .ret s0 .done
  | .bad =>
    .ret { s0 with closed := true }
      (.close (if s0.proto == .new && !D.invalid1002 then 4400 else WsWire.codeUnparseable) .other)
  | .init =>
    let s := rearm s0
    if s.onInit then .brk { s with onInit := false, initPending := true }
    else .ret { s with closed := true } (refuse s.proto WsWire.codeTooManyInit .tooMany)
  | .start id =>
    let s := rearm s0
    if s.acked then
      if s.proto == .new && !D.dupIdReplaces && hasId id s.streams then
        .ret { s with closed := true } (.close 4409 .dupId)
      else
        -- `streams.insert(id, executor.execute_stream(..))`: a live id is replaced
        .cont { s with streams := (id, s.nextInst) :: dropId id s.streams, nextInst := s.nextInst + 1 }
    else
      .ret { s with closed := true }
        (if s.proto == .new && !D.preAck1011 then .close 4401 .unauth
         else .close WsWire.codeBeforeAck .handshake)
  | .stop id =>
    let s := rearm s0
    if hasId id s.streams then .ret { s with streams := dropId id s.streams } (.complete id)
    else .cont s
  | .term => .ret { rearm s0 with closed := true } .done
  | .ping => .brk { rearm s0 with pingPending := true }
  | .pong => .cont (rearm s0)

/-- the message loop over the messages available now; returns the state, what is left in the
    socket, the messages taken, and the early return value if any -/
def loop (D : Defects) : State → List CMsg → State × List CMsg × List CMsg × Option Out
  | s, [] => (s, [], [], none)
  | s, m :: rest =>
    match handle D s m with
    | .ret s' o => (s', (if m = .eof then m :: rest else rest), [m], some o)
    | .brk s' => (s', rest, [m], none)
    | .cont s' =>
      let (s'', rest', taken, o) := loop D s' rest
      (s'', rest', m :: taken, o)

/-- the part of `poll_next` after the message loop: pending callback future, then the streams -/
def afterLoop (s : State) (e : Env) : State × Out :=
  if s.initPending then
    match e.fut with
    | .none => (s, .pending)
    | .ok => ({ s with initPending := false, acked := true }, .ack)
    | .err => ({ s with initPending := false, closed := true }, refuse s.proto WsWire.codeInitError .cb)
  else if s.pingPending then
    match e.fut with
    | .none => (s, .pending)
    | .ok => ({ s with pingPending := false }, .pong)
    | .err => ({ s with pingPending := false, closed := true }, refuse s.proto WsWire.codePingError .cb)
  else
    match e.str with
    | .none => (s, .pending)
    | .item inst val =>
      match idOfInst inst s.streams with
      | some id => (s, match s.proto with | .new => .next id inst val | .legacy => .data id inst val)
      | none => (s, .pending)
    | .fin inst =>
      match idOfInst inst s.streams with
      | some id => ({ s with streams := dropId id s.streams }, .complete id)
      | none => (s, .pending)

/-- one call of `poll_next`: new state, client messages taken, returned value -/
def poll (D : Defects) (s0 : State) (e : Env) : State × List CMsg × Out :=
  -- the environment first: arrivals, clock
  let s := { s0 with inbox := s0.inbox ++ e.arrive, left := if e.tick then s0.left - 1 else s0.left }
  if s.closed then (s, [], .done)
  else if s.ka != 0 && s.left == 0 then
    -- keep-alive timer fired (and re-armed itself)
    ({ s with left := s.ka, closed := true }, [], refuse s.proto WsWire.codeTimeout .timeout)
  else if !s.initPending && !s.pingPending then
    match loop D s s.inbox with
    | (s', rest, taken, some o) => ({ s' with inbox := rest }, taken, o)
    | (s', rest, taken, none) =>
      let (s'', o) := afterLoop { s' with inbox := rest } e
      (s'', taken, o)
  else
    let (s'', o) := afterLoop s e
    (s'', [], o)

def pollEvents (taken : List CMsg) (o : Out) : List Ev := taken.map .recv ++ [.out o]

/-- the session trace of a history of polls; polling stops when the stream has ended -/
def run (D : Defects) : State → List Env → List Ev
  | _, [] => []
  | s, e :: h =>
    match poll D s e with
    | (s', taken, o) => pollEvents taken o ++ (if o = .done then [] else run D s' h)

-- ------------------------------------------------------------------ frames

/-
  What the message loop does with one frame taken from the socket:

      match serde_json::from_slice::<ClientMessage>(&message) { Ok(message) => message,
          Err(err) => { *this.close = true; return Poll::Ready(Some(WsMessage::Close(1002, err.to_string()))) } }

  `Model.WsFrame.decode` is `ClientMessage::from_bytes`; the session model above works on the
  decoded message with operation ids renamed to numbers by an injective `ι` (the driver numbers
  the ids of a script in order of first appearance).  A frame that does not decode is `CMsg.bad`.
-/

/-- the session-level reading of a decoded frame -/
def cmsgOf (ι : List Char → Nat) : Option AGV.Spec.WsFrame.WMsg → CMsg
  | none => .bad
  | some (.init _) => .init
  | some (.start id _) => .start (ι id)
  | some (.stop id) => .stop (ι id)
  | some .term => .term
  | some (.ping _) => .ping
  | some (.pong _) => .pong

/-- a frame (valid UTF-8) as the session sees it -/
def frameMsg (DF : WsFrame.Defects) (ι : List Char → Nat) (cs : List Char) : CMsg :=
  cmsgOf ι (WsFrame.decode DF cs)

/-- the loop body on a frame -/
def handleFrame (D : Defects) (DF : WsFrame.Defects) (ι : List Char → Nat) (s : State) (cs : List Char) : Act :=
  handle D s (frameMsg DF ι cs)

end AGV.Model.Ws
