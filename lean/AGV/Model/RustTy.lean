/-
  How the crate turns a declared Rust type into the type reference it registers (C17 / C18):
  the three associated functions of `InputType` / `OutputType`

    type_name()            qualified_type_name()          create_type_info(registry) -> String

  as implemented for named types (default `qualified_type_name` = `type_name + "!"`,
  src/base.rs), the list containers (src/types/external/list/*.rs), `Option<T>`
  (src/types/external/optional.rs), `MaybeUndefined<T>` (src/types/maybe_undefined.rs) and
  `Box<T>` / `Arc<T>` / `&T` (src/base.rs).  The derive macros store the RETURN VALUE of
  `create_type_info` as the type of a field / argument / input field; `OneofObject` stores
  `type_name()`.

  `format!("[{}]", x)` is modelled by `RRef.list x` and `format!("{}!", x)` by
  `RRef.nonNull x`; the literal string version (`…S`) mirrors the code character by
  character and `names_render` / `created_render` show that rendering the structural version
  gives exactly those strings.
-/
import AGV.Core.RustTy
import AGV.Core.PAst

namespace AGV.Model.RustTy
open AGV.Core.RustTy

structure Defects where
  /-- pinned tree: `Box<T>`, `Arc<T>` and `&T` forward `type_name` and `create_type_info` but keep
      the DEFAULT `qualified_type_name` (`type_name + "!"`), so a list of boxed options declares
      non-null elements -/
  ptrQualifiedDefault : Bool := false
  /-- NOT a behaviour of the tree: the seeded variant C18-r3 (`HashSet<T>::type_name` composes
      `T::type_name()` instead of `T::qualified_type_name()`); kept for the witness theorem -/
  hashSetInnerTypeName : Bool := false
  deriving Repr, Inhabited, DecidableEq

def Defects.none : Defects := {}

/-- (`type_name()`, `qualified_type_name()`) -/
def names (D : Defects) : RTy → RRef × RRef
  | .leaf n => (.named n, .nonNull (.named n))
  | .list k t =>
    let p := names D t
    (.list (if D.hashSetInnerTypeName && k == .hashSet then p.1 else p.2), .nonNull (.list p.2))
  | .option t => ((names D t).1, (names D t).1)
  | .undef t => ((names D t).1, (names D t).1)
  | .ptr _ t => ((names D t).1, if D.ptrQualifiedDefault then .nonNull (names D t).1 else (names D t).2)

def typeName (D : Defects) (t : RTy) : RRef := (names D t).1
def qualified (D : Defects) (t : RTy) : RRef := (names D t).2

/-- the return value of `create_type_info`: what the derive macros register for a field, an
    argument or an input field declared with this Rust type -/
def created (D : Defects) : RTy → RRef
  | .leaf n => .nonNull (.named n)
  | .list k t => qualified D (.list k t)
  | .option t => typeName D t
  | .undef t => typeName D t
  | .ptr _ t => created D t

/-- a registered type reference in the SDL's type syntax (`export_sdl` writes the string as is) -/
def toP : RRef → AGV.Core.PAst.PType
  | .named n => .named n.toList true
  | .list t => .listOf (toP t) true
  | .nonNull (.named n) => .named n.toList false
  | .nonNull (.list t) => .listOf (toP t) false
  | .nonNull (.nonNull t) => toP (.nonNull t)

-- ------------------------------------------------------------------ the same, on strings as the code writes them

def namesS (D : Defects) : RTy → String × String
  | .leaf n => (n, n ++ "!")
  | .list k t =>
    let p := namesS D t
    ("[" ++ (if D.hashSetInnerTypeName && k == .hashSet then p.1 else p.2) ++ "]", "[" ++ p.2 ++ "]!")
  | .option t => ((namesS D t).1, (namesS D t).1)
  | .undef t => ((namesS D t).1, (namesS D t).1)
  | .ptr _ t => ((namesS D t).1, if D.ptrQualifiedDefault then (namesS D t).1 ++ "!" else (namesS D t).2)

def createdS (D : Defects) : RTy → String
  | .leaf n => n ++ "!"
  | .list k t => (namesS D (.list k t)).2
  | .option t => (namesS D t).1
  | .undef t => (namesS D t).1
  | .ptr _ t => createdS D t

theorem names_render (D : Defects) (t : RTy) :
    ((names D t).1.render, (names D t).2.render) = namesS D t := by
  induction t with
  | leaf n => simp [names, namesS, RRef.render]
  | list k t ih =>
    have h1 := congrArg Prod.fst ih
    have h2 := congrArg Prod.snd ih
    simp only at h1 h2
    simp only [names, namesS, RRef.render]
    split <;> simp [h1, h2, String.append_assoc]
  | option t ih => simpa [names, namesS] using congrArg Prod.fst ih
  | undef t ih => simpa [names, namesS] using congrArg Prod.fst ih
  | ptr k t ih =>
    have h1 := congrArg Prod.fst ih
    have h2 := congrArg Prod.snd ih
    simp only at h1 h2
    simp only [names, namesS]
    split <;> simp [h1, h2, RRef.render]

theorem created_render (D : Defects) (t : RTy) : (created D t).render = createdS D t := by
  induction t with
  | leaf n => simp [created, createdS, RRef.render]
  | list k t _ => simpa [created, createdS, qualified] using congrArg Prod.snd (names_render D (.list k t))
  | option t _ => simpa [created, createdS, typeName] using congrArg Prod.fst (names_render D t)
  | undef t _ => simpa [created, createdS, typeName] using congrArg Prod.fst (names_render D t)
  | ptr k t ih => simpa [created, createdS] using ih

end AGV.Model.RustTy
