/-
  Model of the SDL exporter (property C17): `Registry::export_sdl`, `export_type`,
  `export_fields`, `write_description`, `write_input_value`, `write_deprecated`, `escape_string`,
  `write_implements`, `tab` of src/registry/export_sdl.rs and `MetaDirective::sdl`,
  `MetaDirectiveInvocation::sdl`, `Registry::add_system_types` of src/registry/mod.rs, statement by
  statement, at character level.  Default values and directive arguments are stored already
  printed (`Value::to_string`): C15's printer `Model/Print.lean`.  Core-only imports.

  Of the federation attributes only `inaccessible`, `tags`, `extends` are modelled (the others —
  keys, shareable, external, requires, provides, override, requiresScopes, interfaceObject — are
  never set by the cases).  `compose_directive` groups the composable directives by URL through a
  `HashMap<&str, Vec<String>>` and writes the groups in the map's iteration order, which differs
  from call to call: `exportSdlG` takes the order of the groups as a parameter (`exportSdl` = the
  order of first appearance); every statement about it is for any permutation.  The query root of
  a federation export is prepared by `fedRoot` (machinery fields removed, an empty root dropped)
  before the printers run; the subscription root's federation rule is not modelled (no
  subscription roots in the cases).

  Defect toggles (true = behaviour of the pinned tree):
    reasonQuoteRaw            `escape_string` has no arm for `"`
    descSingleLineRaw         a single-line description only gets `"` replaced by `\"`
                              (backslash, CR, … are written raw)
    descBlockRaw              a block description is the text itself between `"""` lines whatever it
                              contains (repaired: texts that BlockStringValue would change are
                              written as a quoted string)
    tagQuoteOnly              tags and the specifiedBy URL only get `"` replaced by `\"`
    interfaceDirectivesFirst  an interface's directives are written before `implements …`
    dynInterfaceImplementsDropped
                              `dynamic::Interface::register` (src/dynamic/interface.rs) never calls
                              `registry.add_implements`: what a dynamic interface implements is not
                              in the registry
    dynInputFieldAttrsFromObject
                              `dynamic::InputObject::register` (src/dynamic/input_object.rs) gives every
                              field the input object's own `inaccessible` and `tags`
    extendKeepsDescription    in a federation export an `extends` object/interface is written as
                              `extend type …` *after* its description (an extension has none)
    composeUrlRaw             the URL of a composable directive is written between quotes as it is
                              (`url: "{}"`): no escaping at all
    fedFieldsEverywhere       in a federation export fields named `_service` / `_entities` are left
                              out of EVERY object and interface (`export_fields`), not only of
                              the query root where the framework adds them: a user's field of
                              that name vanishes, a type with no other field becomes `type T {}`
    fedScalarAnyDropped       a federation export never defines a scalar named `Any`
                              (`FEDERATION_SCALARS`; the crate's own federation scalar is `_Any`,
                              left out by name in `export_sdl`): a user's scalar `Any` vanishes
-/
import AGV.Core.Sdl
import AGV.Model.Print

namespace AGV.Model.Sdl
open AGV.Core AGV.Core.PAst AGV.Core.Sdl

structure Defects where
  reasonQuoteRaw : Bool := false
  descSingleLineRaw : Bool := false
  descBlockRaw : Bool := false
  tagQuoteOnly : Bool := false
  interfaceDirectivesFirst : Bool := false
  dynInterfaceImplementsDropped : Bool := false
  dynInputFieldAttrsFromObject : Bool := false
  extendKeepsDescription : Bool := false
  composeUrlRaw : Bool := false
  fedScalarAnyDropped : Bool := false
  fedFieldsEverywhere : Bool := false
  deriving Repr, DecidableEq

def Defects.none : Defects := {}
def Defects.pinned : Defects :=
  { reasonQuoteRaw := true, descSingleLineRaw := true, descBlockRaw := true, tagQuoteOnly := true,
    interfaceDirectivesFirst := true, dynInterfaceImplementsDropped := true,
    dynInputFieldAttrsFromObject := true, extendKeepsDescription := true, composeUrlRaw := true,
    fedScalarAnyDropped := true, fedFieldsEverywhere := true }

def s (x : String) : Text := x.toList

-- ------------------------------------------------------------------ small string helpers

/-- `tab(options)` -/
def tab (o : Opts) : Text := if o.useSpace then List.replicate o.width ' ' else ['\t']

def tabs (o : Opts) (level : Nat) : Text := (List.replicate level (tab o)).flatten

/-- `s.replace('"', "\\\"")` -/
def replaceQuote : Text → Text
  | [] => []
  | c :: r => if c = '"' then '\\' :: '"' :: replaceQuote r else c :: replaceQuote r

/-- one arm of `escape_string` -/
def escapeChar (quoteRaw : Bool) (c : Char) : Text :=
  if c = '\\' then ['\\', '\\']
  else if c = '"' && !quoteRaw then ['\\', '"']
  else if c = Char.ofNat 8 then ['\\', 'b']
  else if c = Char.ofNat 12 then ['\\', 'f']
  else if c = '\n' then ['\\', 'n']
  else if c = '\r' then ['\\', 'r']
  else if c = '\t' then ['\\', 't']
  else [c]

/-- `escape_string` -/
def escapeString (quoteRaw : Bool) : Text → Text
  | [] => []
  | c :: r => escapeChar quoteRaw c ++ escapeString quoteRaw r

/-- `s.replace('\n', "\n{tabs}")` -/
def indentLines (tb : Text) : Text → Text
  | [] => []
  | c :: r => if c = '\n' then '\n' :: tb ++ indentLines tb r else c :: indentLines tb r

def hasTriple : Text → Bool
  | '"' :: '"' :: '"' :: _ => true
  | _ :: r => hasTriple r
  | [] => false

def isBlank (c : Char) : Bool := c = ' ' || c = '\t'

/-- the last line is not made of blanks only -/
def lastLineOk : Text → Bool → Bool
  | [], seen => seen
  | c :: r, seen => if c = '\n' then lastLineOk r false else lastLineOk r (seen || !isBlank c)

/-- the repaired exporter's test: BlockStringValue gives the text back when it is written between
    `"""` lines with every line indented alike — no `"""`, no carriage return, the first line
    starts with a non-blank character, the last line is not blank -/
def blockPrintable (d : Text) : Bool :=
  !hasTriple d && !d.contains '\r' &&
  (match d with
   | c :: _ => !isBlank c && c != '\n'
   | [] => false) &&
  lastLineOk d false

-- ------------------------------------------------------------------ write_description

def quotes3 : Text := ['"', '"', '"']

def writeDescription (D : Defects) (o : Opts) (level : Nat) (d : Text) : Text :=
  let tb := tabs o level
  let single := (o.singleLine && !d.contains '\n') || (!D.descBlockRaw && !blockPrintable d)
  if single then
    let body :=
      if D.descSingleLineRaw && o.singleLine && !d.contains '\n' then replaceQuote d
      else escapeString D.reasonQuoteRaw d
    tb ++ '"' :: body ++ ['"', '\n']
  else
    tb ++ quotes3 ++ '\n' :: tb ++ indentLines tb d ++ '\n' :: tb ++ quotes3 ++ ['\n']

def optDescription (D : Defects) (o : Opts) (level : Nat) : Option Text → Text
  | some d => writeDescription D o level d
  | none => []

-- ------------------------------------------------------------------ values, directives, deprecation

/-- `Value::to_string()` (control characters as hexadecimal escapes: repaired in the tree) -/
def printValue (v : SValue) : Text := AGV.Model.Print.print AGV.Model.Print.Defects.none v.toL

def joinSep (sep : Text) : List Text → Text
  | [] => []
  | [a] => a
  | a :: b :: r => a ++ sep ++ joinSep sep (b :: r)

/-- `MetaDirectiveInvocation::sdl` -/
def dirAppSdl (d : DirApp) : Text :=
  '@' :: d.name ++
    (if d.args.isEmpty then []
     else '(' :: joinSep (s ", ") (d.args.map (fun kv => kv.1 ++ s ": " ++ printValue kv.2)) ++ [')'])

def dirApps (ds : List DirApp) : Text := (ds.map (fun d => ' ' :: dirAppSdl d)).flatten

/-- `write_deprecated` -/
def writeDeprecated (D : Defects) : Dep → Text
  | .no => []
  | .yes none => s " @deprecated"
  | .yes (some r) => s " @deprecated(reason: \"" ++ escapeString D.reasonQuoteRaw r ++ s "\")"

def tagText (D : Defects) (t : Text) : Text :=
  if D.tagQuoteOnly then replaceQuote t else escapeString D.reasonQuoteRaw t

def writeTags (D : Defects) (ts : List Text) : Text :=
  (ts.map (fun t => s " @tag(name: \"" ++ tagText D t ++ s "\")")).flatten

/-- the `if options.federation { inaccessible; tags }` block shared by all items -/
def fedAttrs (D : Defects) (o : Opts) (a : Attrs) : Text :=
  if o.federation then (if a.inacc then s " @inaccessible" else []) ++ writeTags D a.tags else []

/-- `write_input_value` -/
def writeInputValue (D : Defects) (iv : InputVal) : Text :=
  iv.name ++ s ": " ++ typeText iv.ty ++
    (match iv.default with
     | some v => s " = " ++ printValue v
     | none => []) ++
    writeDeprecated D iv.a.dep

-- ------------------------------------------------------------------ export_fields

def sortByName {α : Type} (nm : α → Text) (xs : List α) : List α :=
  xs.mergeSort (fun a b => nameLe (nm a) (nm b))

def startsWith2Underscores : Text → Bool
  | '_' :: '_' :: _ => true
  | _ => false

def writeArgs (D : Defects) (o : Opts) (needMulti : Bool) : Nat → List InputVal → Text
  | _, [] => []
  | i, arg :: rest =>
    (if i ≠ 0 then [','] else []) ++
    (match arg.a.desc with
     | some d => '\n' :: writeDescription D o 2 d
     | none => []) ++
    (if needMulti then tab o ++ tab o else if i ≠ 0 then [' '] else []) ++
    writeInputValue D arg ++ fedAttrs D o arg.a ++ dirApps arg.a.dirs ++
    writeArgs D o needMulti (i + 1) rest

def exportField (D : Defects) (o : Opts) (f : FieldDef) : Text :=
  if startsWith2Underscores f.name || (D.fedFieldsEverywhere && o.federation && (f.name = s "_service" || f.name = s "_entities")) then []
  else
    optDescription D o 1 f.a.desc ++
    (if !f.args.isEmpty then
      let args := if o.sortedArgs then sortByName (·.name) f.args else f.args
      let needMulti := args.any (fun x => x.a.desc.isSome)
      tab o ++ f.name ++ '(' :: writeArgs D o needMulti 0 args ++
        (if needMulti then '\n' :: tab o else []) ++ s "): " ++ typeText f.ty
     else tab o ++ f.name ++ s ": " ++ typeText f.ty) ++
    writeDeprecated D f.a.dep ++ dirApps f.a.dirs ++ fedAttrs D o f.a ++ ['\n']

def exportFields (D : Defects) (o : Opts) (fs : List FieldDef) : Text :=
  ((if o.sortedFields then sortByName (·.name) fs else fs).map (exportField D o)).flatten

-- ------------------------------------------------------------------ export_type

def systemScalars : List Text := [s "Int", s "Float", s "String", s "Boolean", s "ID"]
def federationScalars : List Text := [s "Any"]
def federationTypes : List Text := [s "_Any", s "_Entity", s "_Service"]

/-- `write_implements` -/
def writeImplements (impls : List Text) : Text :=
  if impls.isEmpty then [] else s " implements " ++ joinSep (s " & ") impls

def exportInputField (D : Defects) (o : Opts) (f : InputVal) : Text :=
  optDescription D o 1 f.a.desc ++ tab o ++ writeInputValue D f ++ fedAttrs D o f.a ++ dirApps f.a.dirs ++ ['\n']

def exportEnumValue (D : Defects) (o : Opts) (v : Text × Attrs) : Text :=
  optDescription D o 1 v.2.desc ++ tab o ++ v.1 ++ writeDeprecated D v.2.dep ++ fedAttrs D o v.2 ++
    dirApps v.2.dirs ++ ['\n']

def unionMembers : Nat → List Text → Text
  | _, [] => []
  | 0, m :: r => ' ' :: m ++ unionMembers 1 r
  | i + 1, m :: r => s " | " ++ m ++ unionMembers (i + 2) r

def exportType (D : Defects) (o : Opts) : TypeDef → Text
  | .scalar name a url =>
    if systemScalars.contains name || (D.fedScalarAnyDropped && o.federation && federationScalars.contains name) then []
    else
      optDescription D o 0 a.desc ++ s "scalar " ++ name ++
        (match o.specifiedBy, url with
         | true, some u => s " @specifiedBy(url: \"" ++ tagText D u ++ s "\")"
         | _, _ => []) ++
        fedAttrs D o a ++ dirApps a.dirs ++ s "\n\n"
  | .object name a ext impls fields =>
    (if o.federation && ext && !D.extendKeepsDescription then [] else optDescription D o 0 a.desc) ++
      (if o.federation && ext then s "extend " else []) ++
      s "type " ++ name ++ writeImplements impls ++ dirApps a.dirs ++ fedAttrs D o a ++ s " {\n" ++
      exportFields D o fields ++ s "}\n\n"
  | .interface name a ext impls fields =>
    (if o.federation && ext && !D.extendKeepsDescription then [] else optDescription D o 0 a.desc) ++
      (if o.federation && ext then s "extend " else []) ++
      s "interface " ++ name ++
      (if D.interfaceDirectivesFirst then fedAttrs D o a ++ dirApps a.dirs ++ writeImplements impls
       else writeImplements impls ++ fedAttrs D o a ++ dirApps a.dirs) ++
      s " {\n" ++ exportFields D o fields ++ s "}\n\n"
  | .enum name a values =>
    optDescription D o 0 a.desc ++ s "enum " ++ name ++ fedAttrs D o a ++ dirApps a.dirs ++ s " {\n" ++
      ((if o.sortedEnum then sortByName (·.1) values else values).map (exportEnumValue D o)).flatten ++ s "}\n\n"
  | .input name a oneof fields =>
    optDescription D o 0 a.desc ++ s "input " ++ name ++ (if oneof then s " @oneOf" else []) ++
      fedAttrs D o a ++ dirApps a.dirs ++ s " {\n" ++
      ((if o.sortedFields then sortByName (·.name) fields else fields).map (exportInputField D o)).flatten ++ s "}\n\n"
  | .union name a members =>
    optDescription D o 0 a.desc ++ s "union " ++ name ++ fedAttrs D o a ++ dirApps a.dirs ++ s " =" ++
      unionMembers 0 members ++ s "\n\n"

-- ------------------------------------------------------------------ directive definitions

def mkArg (name : String) (ty : PType) (default : Option SValue := none) : InputVal :=
  { name := s name, a := {}, ty := ty, default := default }

/-- `Registry::add_system_types` -/
def systemDirectives : List DirDef :=
  [ { name := s "skip",
      desc := some (s "Directs the executor to skip this field or fragment when the `if` argument is true."),
      args := [mkArg "if" (.named (s "Boolean") false)], repeatable := false,
      locs := [s "FIELD", s "FRAGMENT_SPREAD", s "INLINE_FRAGMENT"], composable := none },
    { name := s "include",
      desc := some (s "Directs the executor to include this field or fragment only when the `if` argument is true."),
      args := [mkArg "if" (.named (s "Boolean") false)], repeatable := false,
      locs := [s "FIELD", s "FRAGMENT_SPREAD", s "INLINE_FRAGMENT"], composable := none },
    { name := s "deprecated",
      desc := some (s "Marks an element of a GraphQL schema as no longer supported."),
      args := [mkArg "reason" (.named (s "String") true) (some (.str (s "No longer supported")))],
      repeatable := false,
      locs := [s "FIELD_DEFINITION", s "ARGUMENT_DEFINITION", s "INPUT_FIELD_DEFINITION", s "ENUM_VALUE"],
      composable := none },
    { name := s "specifiedBy",
      desc := some (s "Provides a scalar specification URL for specifying the behavior of custom scalar types."),
      args := [mkArg "url" (.named (s "String") false)], repeatable := false, locs := [s "SCALAR"],
      composable := none },
    { name := s "oneOf",
      desc := some (s "Indicates that an Input Object is a OneOf Input Object (and thus requires exactly one of its field be provided)"),
      args := [], repeatable := false, locs := [s "INPUT_OBJECT"], composable := none } ]

/-- `BTreeMap::insert`: a custom definition replaces a system one of the same name -/
def allDirectives (S : Schema) : List DirDef :=
  sortByName (·.name) (S.ddefs ++ systemDirectives.filter (fun d => !S.ddefs.any (fun e => e.name = d.name)))

def isDeprecated : Dep → Bool
  | .no => false
  | .yes _ => true

/-- the three "is it used" filters of `export_sdl` -/
def deprecatedUsed (S : Schema) : Bool :=
  S.types.any (fun t => match t with
    | .object _ _ _ _ fields => fields.any (fun f => isDeprecated f.a.dep)
    | .enum _ _ values => values.any (fun v => isDeprecated v.2.dep)
    | _ => false)

def specifiedByUsed (S : Schema) : Bool :=
  S.types.any (fun t => match t with
    | .scalar _ _ (some _) => true
    | _ => false)

def oneOfUsed (S : Schema) : Bool :=
  S.types.any (fun t => match t with
    | .input _ _ true _ => true
    | _ => false)

def directivePrinted (S : Schema) (d : DirDef) : Bool :=
  !((d.name = s "deprecated" && !deprecatedUsed S) || (d.name = s "specifiedBy" && !specifiedByUsed S) ||
    (d.name = s "oneOf" && !oneOfUsed S))

/-- `MetaDirective::argument_sdl` -/
def argumentSdl (a : InputVal) : Text :=
  a.name ++ s ": " ++ typeText a.ty ++
    (match a.default with
     | some v => s " = " ++ printValue v
     | none => [])

/-- `MetaDirective::sdl` -/
def directiveSdl (D : Defects) (o : Opts) (d : DirDef) : Text :=
  optDescription D o 0 d.desc ++ s "directive @" ++ d.name ++
    (if d.args.isEmpty then [] else '(' :: joinSep (s ", ") (d.args.map argumentSdl) ++ [')']) ++
    (if d.repeatable then s " repeatable" else []) ++ s " on " ++ joinSep (s " | ") d.locs

-- ------------------------------------------------------------------ export_sdl

def federationImports : Text :=
  s "import: [\"@key\", \"@tag\", \"@shareable\", \"@inaccessible\", \"@override\", \"@external\", \"@provides\", \"@requires\", \"@composeDirective\", \"@interfaceObject\", \"@requiresScopes\"]"

/-- composable directives grouped by URL, in order of first appearance; a group carries the
    import names `@name` (the code keeps them already quoted, `format!("\"@{}\"", d.name)`, and
    writes them verbatim: the quotes are written by `composeSdl` here) -/
def composeGroups (ds : List DirDef) : List (Text × List Text) :=
  ds.foldl (fun acc d =>
    match d.composable with
    | none => acc
    | some url =>
      let nm := '@' :: d.name
      if acc.any (fun g => g.1 = url) then acc.map (fun g => if g.1 = url then (g.1, g.2 ++ [nm]) else g)
      else acc ++ [(url, [nm])]) []

def quoted (n : Text) : Text := '"' :: n ++ ['"']

/-- one `extend schema @link(url: …  import: […]) @composeDirective(name: …)…` block -/
def composeSdl (D : Defects) (o : Opts) (g : Text × List Text) : Text :=
  s "extend schema @link(\n" ++ tab o ++ s "url: \"" ++ (if D.composeUrlRaw then g.1 else escapeString false g.1) ++
    s "\"\n" ++ tab o ++ s "import: [" ++
    joinSep [','] (g.2.map quoted) ++ s "]\n)\n" ++
    (g.2.map (fun n => tab o ++ s "@composeDirective(name: " ++ quoted n ++ s ")\n")).flatten ++ ['\n']

def typeExported (o : Opts) (t : TypeDef) : Bool :=
  !startsWith2Underscores t.name && !(o.federation && federationTypes.contains t.name)

/-- the query root in a federation export (`export_type`, `export_fields`): the fields
    `_service` / `_entities` (which `create_federation_types` adds there) are not written, and a
    root left with no field to write is not written at all.  (The code skips the fields while
    writing; here they are removed beforehand.) -/
def fedRoot (o : Opts) (q : Text) : TypeDef → Option TypeDef
  | .object n a ext impls fs =>
    if o.federation && n = q then
      let fs' := fs.filter (fun f => !(f.name = s "_service" || f.name = s "_entities"))
      if fs'.all (fun f => startsWith2Underscores f.name) then none else some (.object n a ext impls fs')
    else some (.object n a ext impls fs)
  | t => some t

/-- the type definitions `export_sdl` writes, in its order -/
def writtenTypes (S : Schema) (o : Opts) : List TypeDef :=
  ((sortByName TypeDef.name S.types).filter (typeExported o)).filterMap (fedRoot o S.query)

/-- `Registry::export_sdl`, with the compose groups in the order `gs` -/
def exportSdlG (D : Defects) (S : Schema) (o : Opts) (gs : List (Text × List Text)) : Text :=
  ((writtenTypes S o).map (exportType D o)).flatten ++
  (((allDirectives S).filter (directivePrinted S)).map (fun d => directiveSdl D o d ++ ['\n'])).flatten ++
  (if o.federation then
    s "extend schema @link(\n" ++ tab o ++ s "url: \"https://specs.apollo.dev/federation/v2.5\",\n" ++
      tab o ++ federationImports ++ s "\n)\n" ++
      (if o.compose then '\n' :: (gs.map (composeSdl D o)).flatten else [])
   else
    s "schema {\n" ++ tab o ++ s "query: " ++ S.query ++ ['\n'] ++
      (match S.mutation with
       | some m => tab o ++ s "mutation: " ++ m ++ ['\n']
       | none => []) ++
      s "}\n")

def exportSdl (D : Defects) (S : Schema) (o : Opts) : Text := exportSdlG D S o (composeGroups (allDirectives S))

-- ------------------------------------------------------------------ registration

/-- how the schema was built -/
inductive Kind where
  | dynamic
  | derived
  deriving Repr, DecidableEq

/-- what ends up in the registry: `dynamic::{Object, Interface, …}::register` copy every attribute
    (`Object::register` calls `registry.add_implements` for each implemented interface) -/
def register (D : Defects) (k : Kind) (S : Schema) : Schema :=
  if k = .dynamic then
    { S with types := S.types.map (fun t => match t with
        | .interface n a ext is fs => .interface n a ext (if D.dynInterfaceImplementsDropped then [] else is) fs
        | .input n a oneof fs =>
          .input n a oneof
            (if D.dynInputFieldAttrsFromObject then
              fs.map (fun f => { f with a := { f.a with inacc := a.inacc, tags := a.tags } })
             else fs)
        | t => t) }
  else S

/-- `Schema::sdl_with_options` -/
def run (D : Defects) (k : Kind) (S : Schema) (o : Opts) : Text := exportSdl D (register D k S) o

/-- … with the compose groups written in the order `gs` (a permutation of `composeGroups`) -/
def runG (D : Defects) (k : Kind) (S : Schema) (o : Opts) (gs : List (Text × List Text)) : Text :=
  exportSdlG D (register D k S) o gs

end AGV.Model.Sdl
