/-
  C35, body dimension — model of the method dispatch of the integrations' request extractors when
  the request may travel in the BODY:

    * axum `GraphQLBatchRequest::from_request`, poem `GraphQLBatchRequest::from_request`:
        `if req.method() == Method::GET { parse_query_string(uri.query().unwrap_or_default()) }
         else { receive_batch_body(content_type, body) }`
      — a GET NEVER reads its body; a URI without query part is an empty query string; every
      other method (HEAD, PUT, …) takes the body branch;
    * actix-web: `if GET { parse_query_string(req.query_string()) } else if POST { body } else 405`;
    * warp `graphql_batch_opts`: `warp::get().and(query::raw())` (rejects a URI without query
      part) `.or(warp::post()…body)`; anything else is rejected;
    * rocket: the user declares routes; `GraphQLQuery` (form, `query` required) on GET routes,
      `GraphQLRequest`/`GraphQLBatchRequest: FromData` on POST routes; rocket answers HEAD through
      the GET route and strips the body.

  The table `Branches` says, per integration, what a GET whose URI has no query part does and
  what the methods other than GET/POST do; `srcBranches` is the table of the source (tied to
  srcfacts `GetBranches` in Props/C35.lean).  `NoQueryGet.readsBody` is NOT what any integration
  does: it is the dispatch `if let (&Method::GET, Some(query)) = (method, uri.query())` under
  which a GET without `?` falls into the body branch shared with POST (witness theorem).
-/
import AGV.Model.HttpGet
import AGV.Spec.HttpGetBody

namespace AGV.Model.HttpGetBody
open AGV.Spec.HttpGet AGV.Spec.HttpGetBody AGV.Model.HttpGet

/-- what a GET request whose URI has no query part does -/
inductive NoQueryGet where
  /-- decoded like an empty query string (`uri.query().unwrap_or_default()`) -/
  | emptyQuery
  /-- refused without looking at anything else -/
  | error
  /-- falls into the body branch shared with POST -/
  | readsBody
  deriving DecidableEq, Repr, Inhabited

/-- what the extractor does with a method other than GET and POST -/
inductive OtherMethod where
  /-- `else { receive_batch_body }`: the body branch -/
  | body
  /-- refused (405) -/
  | error
  /-- the framework's router decides (rocket: HEAD goes through the GET route) -/
  | routes
  deriving DecidableEq, Repr, Inhabited

structure Branches where
  noQuery : Integ → NoQueryGet
  other : Integ → OtherMethod

/-- the dispatch of the source tree -/
def srcBranches : Branches where
  noQuery
    | .axum | .actix | .poem => .emptyQuery
    | .warp | .rocket => .error
  other
    | .axum | .poem => .body
    | .actix | .warp => .error
    | .rocket => .routes

def noQueryName : NoQueryGet → String
  | .emptyQuery => "empty-query" | .error => "error" | .readsBody => "reads-body"

def otherName : OtherMethod → String
  | .body => "body" | .error => "error" | .routes => "routes"

def noQueryOfName : String → Option NoQueryGet
  | "empty-query" => some .emptyQuery | "error" => some .error | "reads-body" => some .readsBody
  | _ => none

def otherOfName : String → Option OtherMethod
  | "body" => some .body | "error" => some .error | "routes" => some .routes
  | _ => none

/-- the dispatch table read from two extracted lists `(integration directory, behaviour)`; an
    integration or a behaviour the model does not know counts as the worst case -/
def Branches.ofTables (nq om : List (String × String)) : Branches where
  noQuery i := ((nq.lookup (integDir i)).bind noQueryOfName).getD .readsBody
  other i := ((om.lookup (integDir i)).bind otherOfName).getD .body

/-- the dispatch in which integration `j` lets a GET without query part fall into the body
    branch (`if let (&Method::GET, Some(query)) = …`), everything else as in the source -/
def fallThrough (j : Integ) : Branches where
  noQuery i := if i = j then .readsBody else srcBranches.noQuery i
  other := srcBranches.other

-- ------------------------------------------------------------------ the branches

/-- status class of a body that does not decode (`receive_batch_body` returned an error): 400
    everywhere but warp, whose custom rejection is unhandled without a `recover` filter: 500 -/
def badBodyStatus : Integ → Nat
  | .warp => 5
  | _ => 4

/-- the body branch: `receive_batch_body(content_type, body)`.  application/json,
    application/graphql-response+json, no Content-Type (defaults to the latter) and
    multipart/form-data (part `operations`) all decode the same JSON; Content-Length is not
    looked at; an empty body (or a multipart body without `operations`) does not decode.
    Requests decoded from a body are never marked query-only. -/
def bodyBranch (i : Integ) (route : Route) (acc : Accept) (p : Option Body) : Out :=
  match p with
  | none => rejected (badBodyStatus i)
  | some b => handle Defects.none i route .post acc b

/-- a query part that carries no GraphQL key at all (`?`, `?foo=1&bar`) decodes like a request
    without `query`, operation name and variables -/
def noKeys : Req := ⟨.raw, none, none, .noquery⟩

/-- the GET branch given the text of the query part -/
def queryBranch (D : Defects) (i : Integ) (route : Route) (acc : Accept) (r : Req) : Out :=
  handle D i route .get acc (.single r)

/-- the answer to a HEAD request has no body -/
def strip (o : Out) : Out := { o with body := .none }

/-- a GET request -/
def handleGet (Br : Branches) (D : Defects) (i : Integ) (route : Route) (acc : Accept) (x : ReqX) : Out :=
  match x.qs with
  | .qs r => queryBranch D i route acc r
  | .emptyq | .junk => queryBranch D i route acc noKeys
  | .noq =>
    match Br.noQuery i with
    | .emptyQuery => queryBranch D i route acc noKeys
    | .error => rejected 4
    | .readsBody => bodyBranch i route acc x.payload

/-- one HTTP request through integration `i` -/
def handleX (Br : Branches) (D : Defects) (i : Integ) (route : Route) (acc : Accept) (x : ReqX) : Out :=
  match x.method with
  | .get => handleGet Br D i route acc x
  | .post => bodyBranch i route acc x.payload
  | m =>
    match Br.other i with
    | .error => rejected 4
    | .body =>
      -- the extractor takes the body branch; whether the request gets there is the router's
      -- business: the ready-made service/endpoint and poem's `Route::at` take every method,
      -- axum's `get(h).post(h)` answers HEAD through the GET handler (and strips the answer's
      -- body) and refuses PUT
      if i == .axum && route != .svc then
        (if m == .head then strip (bodyBranch i route acc x.payload) else rejected 4)
      else bodyBranch i route acc x.payload
    | .routes =>
      -- rocket: HEAD is answered by the GET route, without body; no route for PUT
      if m == .head then strip (handleGet Br D i route acc x) else rejected 4

end AGV.Model.HttpGetBody
