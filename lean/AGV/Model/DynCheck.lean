/-
  C33 — model of `SchemaBuilder::finish` (src/dynamic/schema.rs) as far as it decides whether a
  dynamic schema builds: the registration loop (`Type::register`, "already exists"), and
  `SchemaInner::check` (src/dynamic/check.rs) function by function, with
  `check_is_valid_implementation` and `TypeRef::is_subtype` (src/dynamic/type_ref.rs).

  The registered type system is abstract: what the checks read of every registered type
  (kind, name, fields with argument lists, implemented interfaces, union members, enum items,
  oneOf flag, presence of a default value) in registration order (`IndexMap` order), and the
  three root names given to `Schema::build`.  Federation entities (`Object::key`) are not
  modelled (`has_entities = false`).

  The result is the error message of the first failing check, as the code produces it.

  `Defects`: `true` = the behaviour of the pinned tree.  With all toggles `false` the model is
  the repaired code (fixes/C33-*.diff).
-/
namespace AGV.Model.DynCheck

inductive TypeRef where
  | named (n : String)
  | nonNull (t : TypeRef)
  | list (t : TypeRef)
  deriving DecidableEq, Repr, Inhabited

namespace TypeRef

/-- `TypeRef::type_name` -/
def typeName : TypeRef → String
  | named n => n
  | nonNull t => t.typeName
  | list t => t.typeName

/-- `TypeRef::is_nullable` -/
def isNullable : TypeRef → Bool
  | nonNull _ => false
  | _ => true

end TypeRef

structure InputValue where
  name : String
  ty : TypeRef
  hasDefault : Bool
  deriving DecidableEq, Repr, Inhabited

structure Field where
  name : String
  ty : TypeRef
  args : List InputValue
  deriving DecidableEq, Repr, Inhabited

inductive TypeDef where
  | object (name : String) (implements : List String) (fields : List Field)
  | interface (name : String) (implements : List String) (fields : List Field)
  | union (name : String) (members : List String)
  | enum (name : String) (items : List String)
  | inputObject (name : String) (oneof : Bool) (fields : List InputValue)
  | scalar (name : String)
  | subscription (name : String) (fields : List Field)
  | upload
  deriving DecidableEq, Repr, Inhabited

namespace TypeDef

def name : TypeDef → String
  | object n _ _ | interface n _ _ | union n _ | enum n _ | inputObject n _ _ | scalar n | subscription n _ => n
  | upload => "Upload"

/-- `Type::is_output_type` -/
def isOutputType : TypeDef → Bool
  | scalar _ | object .. | enum .. | interface .. | union .. => true
  | inputObject .. | subscription .. | upload => false

/-- `Type::is_input_type` -/
def isInputType : TypeDef → Bool
  | scalar _ | inputObject .. | enum .. | upload => true
  | object .. | interface .. | union .. | subscription .. => false

def isObject : TypeDef → Bool
  | object .. => true
  | _ => false

def isSubscription : TypeDef → Bool
  | subscription .. => true
  | _ => false

end TypeDef

structure TypeSystem where
  query : String
  mutation : Option String
  subscription : Option String
  types : List TypeDef
  deriving Repr, Inhabited

/-- defects of the pinned tree; `true` = pinned behaviour -/
structure Defects where
  /-- `impl_field.ty().is_subtype(&field.ty)`: receiver and argument swapped -/
  subtypeReversed : Bool := false
  /-- named types are compared by name only: an object/interface implementing the interface's
      return type, or a member of the returned union, is not a sub-type -/
  noNamedCovariance : Bool := false
  /-- an interface argument of nullable type may be missing from the implementing field -/
  nullableArgOmittable : Bool := false
  /-- argument types are compared with `is_subtype` instead of equality -/
  argCovariant : Bool := false
  /-- additional arguments of the implementing field are never looked at -/
  extraRequiredArgs : Bool := false
  /-- `check_types_exists` does not look up the subscription root -/
  subscriptionRootUnchecked : Bool := false
  /-- the fields of a `Subscription` type are never validated -/
  subscriptionFieldsUnchecked : Bool := false
  /-- `check_interfaces` tests self-implementation and the implemented interfaces inside the
      loop over the interface's fields: never for an interface without fields -/
  ifaceImplInsideFieldLoop : Bool := false
  deriving Repr, DecidableEq

def Defects.pinned : Defects :=
  { subtypeReversed := true, noNamedCovariance := true, nullableArgOmittable := true, argCovariant := true,
    extraRequiredArgs := true, subscriptionRootUnchecked := true, subscriptionFieldsUnchecked := true, ifaceImplInsideFieldLoop := true }

abbrev R := Except String Unit

def q (s : String) : String := "\"" ++ s ++ "\""

/-- `IndexMap::get` on the registered types -/
def getType (types : List TypeDef) (n : String) : Option TypeDef := types.find? (fun t => t.name == n)

def builtinNames : List String := ["Boolean", "Int", "Float", "String", "ID"]

/-- `finish`: "create system scalars" — appended to the type map after registration -/
def builtinScalars : List TypeDef := ["Int", "Float", "Boolean", "String", "ID"].map TypeDef.scalar

/-- the registration loop of `finish`: the registry starts with the five system scalars
    (`add_system_types`); `Type::register` refuses a name the registry already has -/
def register : List String → List TypeDef → R
  | _, [] => .ok ()
  | seen, t :: ts =>
    if seen.contains t.name then .error ("Type " ++ q t.name ++ " already exists")
    else register (t.name :: seen) ts

/-- early-exit loop -/
def forEach {α : Type} (f : α → R) : List α → R
  | [] => .ok ()
  | x :: xs => match f x with
    | .ok () => forEach f xs
    | .error e => .error e

-- ------------------------------------------------------------------ check_types_exists

def existsCheck (types : List TypeDef) (names : List String) : R :=
  forEach (fun n => if (getType types n).isSome then .ok () else .error ("Type " ++ q n ++ " not found")) names

def fieldTypeNames (fs : List Field) : List String :=
  fs.flatMap (fun f => f.ty.typeName :: f.args.map (fun a => a.ty.typeName))

def checkTypesExists (D : Defects) (T : TypeSystem) (types : List TypeDef) : R :=
  match existsCheck types ([T.query] ++ T.mutation.toList ++
      (if D.subscriptionRootUnchecked then [] else T.subscription.toList)) with
  | .error e => .error e
  | .ok () =>
    forEach (fun (t : TypeDef) => match t with
      | .object _ impls fs => existsCheck types (fieldTypeNames fs ++ impls)
      | .inputObject _ _ fs => existsCheck types (fs.map (fun f => f.ty.typeName))
      | .interface _ _ fs => existsCheck types (fieldTypeNames fs)
      | .union _ ms => existsCheck types ms
      | .subscription _ fs => existsCheck types (fieldTypeNames fs)
      | _ => .ok ()) types

-- ------------------------------------------------------------------ check_root_types

def checkRootTypes (T : TypeSystem) (types : List TypeDef) : R :=
  match getType types T.query with
  | some t => if t.isObject then rest else .error "The query root must be an object"
  | none => rest
where
  rest : R :=
    let m : R := match T.mutation.bind (getType types) with
      | some t => if t.isObject then .ok () else .error "The mutation root must be an object"
      | none => .ok ()
    match m with
    | .error e => .error e
    | .ok () => match T.subscription.bind (getType types) with
      | some t => if t.isSubscription then .ok () else .error "The subscription root must be a subscription object"
      | none => .ok ()

-- ------------------------------------------------------------------ TypeRef::is_subtype

/-- the inner function of `TypeRef::is_subtype`: `cur` is the receiver (the super type), `sub`
    the argument; `nm cur sub` compares two named types -/
def isSubtypeWith (nm : String → String → Bool) : TypeRef → TypeRef → Bool
  | .nonNull a, .nonNull b => isSubtypeWith nm a b
  | .named a, .nonNull b => isSubtypeWith nm (.named a) b
  | .list a, .nonNull b => isSubtypeWith nm (.list a) b
  | .named a, .named b => nm a b
  | .list a, .list b => isSubtypeWith nm a b
  | _, _ => false

/-- `super_type == sub_type`, and in the repaired code: `sub` is declared to implement the
    interface `sup`, or is a member of the union `sup` -/
def namedSubtype (D : Defects) (types : List TypeDef) (sup sub : String) : Bool :=
  sup == sub ||
  (!D.noNamedCovariance &&
    match getType types sup, getType types sub with
    | some (.union _ ms), some (.object ..) => ms.contains sub
    | some (.interface ..), some (.object _ impls _) => impls.contains sup
    | some (.interface ..), some (.interface _ impls _) => impls.contains sup
    | _, _ => false)

-- ------------------------------------------------------------------ check_is_valid_implementation

def findField (fs : List Field) (n : String) : Option Field := fs.find? (fun f => f.name == n)
def findArg (as : List InputValue) (n : String) : Option InputValue := as.find? (fun a => a.name == n)

/-- the argument loop for one interface field -/
def checkImplArgs (D : Defects) (implName ifaceName fieldName : String) (implArgs : List InputValue) : List InputValue → R :=
  forEach (fun arg =>
    match findArg implArgs arg.name with
    | none =>
      if !arg.ty.isNullable || !D.nullableArgOmittable then
        .error ("Field " ++ q (implName ++ "." ++ fieldName) ++ " requires argument " ++ q arg.name ++
          " defined by interface " ++ q (ifaceName ++ "." ++ fieldName))
      else .ok ()
    | some implArg =>
      let ok := if D.argCovariant then isSubtypeWith (fun a b => a == b) arg.ty implArg.ty else arg.ty == implArg.ty
      if ok then .ok ()
      else .error ("Argument " ++ q (ifaceName ++ "." ++ fieldName ++ "." ++ arg.name) ++ " is not sub-type of " ++
          q (implName ++ "." ++ fieldName ++ "." ++ arg.name)))

/-- repaired code only: an argument the interface field does not define must not be required -/
def checkExtraArgs (D : Defects) (implName ifaceName fieldName : String) (ifaceArgs : List InputValue) : List InputValue → R :=
  forEach (fun implArg =>
    if !D.extraRequiredArgs && (findArg ifaceArgs implArg.name).isNone && !implArg.ty.isNullable && !implArg.hasDefault then
      .error ("Argument " ++ q (implName ++ "." ++ fieldName ++ "." ++ implArg.name) ++ " is not defined by interface " ++
        q (ifaceName ++ "." ++ fieldName) ++ " and must not be required")
    else .ok ())

def fieldTypeOk (D : Defects) (types : List TypeDef) (implTy ifaceTy : TypeRef) : Bool :=
  if D.subtypeReversed then isSubtypeWith (namedSubtype D types) implTy ifaceTy
  else isSubtypeWith (namedSubtype D types) ifaceTy implTy

def checkIsValidImplementation (D : Defects) (types : List TypeDef) (kind implName : String) (implFields : List Field)
    (ifaceName : String) (ifaceFields : List Field) : R :=
  forEach (fun (field : Field) =>
    match findField implFields field.name with
    | none => .error (kind ++ " " ++ q implName ++ " requires field " ++ q field.name ++ " defined by interface " ++ q ifaceName)
    | some implField =>
      match checkImplArgs D implName ifaceName field.name implField.args field.args with
      | .error e => .error e
      | .ok () =>
        match checkExtraArgs D implName ifaceName field.name field.args implField.args with
        | .error e => .error e
        | .ok () =>
          if fieldTypeOk D types implField.ty field.ty then .ok ()
          else .error ("Field " ++ q (implName ++ "." ++ field.name) ++ " is not sub-type of " ++ q (ifaceName ++ "." ++ field.name)))
    ifaceFields

-- ------------------------------------------------------------------ fields and arguments (objects, interfaces, subscriptions)

/-- `name.starts_with("__")` -/
def reserved (s : String) : Bool := s.toList.take 2 == ['_', '_']

def reservedMsg : String := " must not have a name which begins with the characters \"__\" (two underscores)"

def checkArgs (types : List TypeDef) (owner fieldName : String) : List InputValue → R :=
  forEach (fun arg =>
    if reserved arg.name then
      .error ("Argument " ++ q (owner ++ "." ++ fieldName ++ "." ++ arg.name) ++ reservedMsg)
    else match getType types arg.ty.typeName with
      | some t => if t.isInputType then .ok ()
                  else .error ("Argument " ++ q (owner ++ "." ++ fieldName ++ "." ++ arg.name) ++ " must accept a input type")
      | none => .ok ())

/-- the checks of one output field: name, output type, arguments -/
def checkField (types : List TypeDef) (owner : String) (field : Field) : R :=
  if reserved field.name then .error ("Field " ++ q (owner ++ "." ++ field.name) ++ reservedMsg)
  else
    let out : R := match getType types field.ty.typeName with
      | some t => if t.isOutputType then .ok () else .error ("Field " ++ q (owner ++ "." ++ field.name) ++ " must return a output type")
      | none => .ok ()
    match out with
    | .error e => .error e
    | .ok () => checkArgs types owner field.name field.args

/-- the `implements` loop shared by objects and interfaces -/
def checkImplements (D : Defects) (types : List TypeDef) (kind name : String) (fields : List Field) : List String → R :=
  forEach (fun ifaceName =>
    match getType types ifaceName with
    | some (.interface _ _ ifaceFields) => checkIsValidImplementation D types kind name fields ifaceName ifaceFields
    | some _ => .error ("Type " ++ q ifaceName ++ " is not interface")
    | none => .ok ())

-- ------------------------------------------------------------------ check_objects

def checkObjects (D : Defects) (types : List TypeDef) : R :=
  forEach (fun (t : TypeDef) => match t with
    | .object name impls fields =>
      if fields.isEmpty then .error ("Object " ++ q name ++ " must define one or more fields")
      else match forEach (checkField types name) fields with
        | .error e => .error e
        | .ok () => checkImplements D types "Object" name fields impls
    | _ => .ok ()) types

-- ------------------------------------------------------------------ check_input_objects

def nonNullableName : TypeRef → Option String
  | .nonNull (.named n) => some n
  | _ => none

def inputFieldsOf (types : List TypeDef) (n : String) : Option (List InputValue) :=
  match getType types n with
  | some (.inputObject _ _ fs) => some fs
  | _ => none

def cycleMsg (current : String) : String :=
  q current ++ " references itself either directly or through referenced Input Objects, at least one of the fields in the chain of references must be either a nullable or a List type."

/-- `check_input_object_reference`; `chain` is `ref_chain` (restored by the code after every
    recursive call, so it is passed down only); `fuel` bounds the depth (the chain holds distinct
    type names, so `types.length + 1` levels are never exhausted) -/
def refCheck (types : List TypeDef) (current : String) : Nat → List String → List InputValue → R
  | 0, _, _ => .ok ()
  | fuel + 1, chain, fs =>
    forEach (fun f =>
      match nonNullableName f.ty with
      | none => .ok ()
      | some n =>
        if n == current then .error (cycleMsg current)
        else match inputFieldsOf types n with
          | none => .ok ()
          | some ofs =>
            if chain.contains n then .ok ()
            else refCheck types current fuel (n :: chain) ofs) fs

def checkInputField (types : List TypeDef) (owner : String) (oneof : Bool) (field : InputValue) : R :=
  if reserved field.name then .error ("Field " ++ q (owner ++ "." ++ field.name) ++ reservedMsg)
  else
    let inp : R := match getType types field.ty.typeName with
      | some t => if t.isInputType then .ok () else .error ("Field " ++ q (owner ++ "." ++ field.name) ++ " must accept a input type")
      | none => .ok ()
    match inp with
    | .error e => .error e
    | .ok () =>
      if oneof && !field.ty.isNullable then .error ("Field " ++ q (owner ++ "." ++ field.name) ++ " must be nullable")
      else if oneof && field.hasDefault then .error ("Field " ++ q (owner ++ "." ++ field.name) ++ " must not have a default value")
      else .ok ()

def checkInputObjects (types : List TypeDef) : R :=
  forEach (fun (t : TypeDef) => match t with
    | .inputObject name oneof fields =>
      match forEach (checkInputField types name oneof) fields with
      | .error e => .error e
      | .ok () => refCheck types name (types.length + 1) [] fields
    | _ => .ok ()) types

-- ------------------------------------------------------------------ check_interfaces

/-- NB: in the code the self-implementation test and the `implements` loop sit inside the loop
    over the interface's fields, so they run once per field and not at all for an interface
    without fields -/
def checkInterfaces (D : Defects) (types : List TypeDef) : R :=
  forEach (fun (t : TypeDef) => match t with
    | .interface name impls fields =>
      let implChecks : R :=
        if impls.contains name then .error ("Interface " ++ q name ++ " may not implement itself")
        else checkImplements D types "Interface" name fields impls
      if D.ifaceImplInsideFieldLoop then
        forEach (fun field =>
          match checkField types name field with
          | .error e => .error e
          | .ok () => implChecks) fields
      else
        match forEach (checkField types name) fields with
        | .error e => .error e
        | .ok () => implChecks
    | _ => .ok ()) types

-- ------------------------------------------------------------------ check_unions

def checkUnions (types : List TypeDef) : R :=
  forEach (fun (t : TypeDef) => match t with
    | .union name ms =>
      forEach (fun m => match getType types m with
        | some mt => if mt.isObject then .ok () else .error ("Member " ++ q m ++ " of union " ++ q name ++ " is not an object")
        | none => .ok ()) ms
    | _ => .ok ()) types

-- ------------------------------------------------------------------ repaired code only: subscription fields

def checkSubscriptions (D : Defects) (types : List TypeDef) : R :=
  if D.subscriptionFieldsUnchecked then .ok ()
  else forEach (fun (t : TypeDef) => match t with
    | .subscription name fields => forEach (checkField types name) fields
    | _ => .ok ()) types

-- ------------------------------------------------------------------ SchemaInner::check / SchemaBuilder::finish

def andThen (a : R) (b : Unit → R) : R :=
  match a with
  | .error e => .error e
  | .ok () => b ()

/-- the type map `SchemaInner::check` sees -/
def allTypes (T : TypeSystem) : List TypeDef := T.types ++ builtinScalars

def check (D : Defects) (T : TypeSystem) : R :=
  let types := allTypes T
  andThen (register builtinNames T.types) fun _ =>
  andThen (checkTypesExists D T types) fun _ =>
  andThen (checkRootTypes T types) fun _ =>
  andThen (checkObjects D types) fun _ =>
  andThen (checkInputObjects types) fun _ =>
  andThen (checkInterfaces D types) fun _ =>
  andThen (checkUnions types) fun _ =>
  checkSubscriptions D types

end AGV.Model.DynCheck
