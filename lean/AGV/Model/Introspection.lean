/-
  C19 — model of how the introspection modes gate the root fields of an operation.

  Mirrors, path by path (pinned tree):
    * validation (`validation/visitor.rs` visit_selection + `rules/fields_on_correct_type.rs`)
      against the registry: which root fields exist on the root type            → `known`
    * static flavour: `Schema::execute_once` / `execute_stream_with_session_data` (src/schema.rs)
      choose the root (substituting `EmptyMutation` / `EmptySubscription` in introspection-only
      mode), `Fields::add_set` (resolver_utils/container.rs) answers `__typename`, and
      `QueryRoot::resolve_field` (src/types/query_root.rs) does the mode checks  → `staticQuery`,
      `staticMutation`, `staticSubscription`
    * dynamic flavour: `collect_fields` (src/dynamic/resolve.rs) for query and mutation roots,
      `Subscription::collect_streams` (src/dynamic/subscription.rs)               → `dynamicObject`,
      `dynamicSubscription`
    * the loop over the root selection set                                        → `rootLoop`

  The two mode settings (schema builder, request) combine exactly as in the code:
    introspection fields are served iff NEITHER is `disabled`   (`introOK`)
    user resolvers are cut off iff EITHER is `only`              (`onlyMode`)

  `Defects` switches the pinned tree's deviations on; `{}` is the repaired behaviour.
  Import-free (core only).
-/
namespace AGV.Model.Introspection

inductive Flavour | static | dynamic
  deriving DecidableEq, Repr, Inhabited
inductive Mode | enabled | only | disabled
  deriving DecidableEq, Repr, Inhabited
inductive Op | query | mutation | subscription
  deriving DecidableEq, Repr, Inhabited
/-- how the request reaches the schema: `Schema::execute`, `execute_batch` (single), `execute_stream` -/
inductive Via | exec | batch | stream
  deriving DecidableEq, Repr, Inhabited
/-- the kinds of root field a document can mix -/
inductive Kind | schema | type | service | entities | typename | ordinary
  deriving DecidableEq, Repr, Inhabited
/-- name reported by `__typename` on a root -/
inductive RootName | query | mutation | subscription | emptyMutation
  deriving DecidableEq, Repr, Inhabited

/-- what happens to one root field -/
inductive Outcome
  | metadata                 -- schema metadata is returned (`__schema`, `__type`, `_service { sdl }`)
  | null                     -- the field is answered with `null`, nothing runs
  | userResolver             -- a user resolver runs (query/mutation/subscription field or entity resolver)
  | typeName (n : RootName)  -- `__typename`
  | error                    -- the field's stream yields an error response, nothing runs
  | absent                   -- the field is silently left out of the response, nothing runs
  deriving DecidableEq, Repr, Inhabited

structure Defects where
  /-- static `_service` is looked at after, not inside, the introspection gate -/
  staticServiceUngated : Bool := false
  /-- dynamic `_entities` sits inside the introspection gate, before the introspection-only cut -/
  dynEntitiesGated : Bool := false
  /-- dynamic `collect_streams` has no introspection-only check at all -/
  dynSubscriptionInOnly : Bool := false
  /-- the substituted `EmptyMutation` root answers `__typename` with its own name -/
  emptyMutationTypename : Bool := false
  deriving DecidableEq, Repr, Inhabited

/-- `matches!(schema mode, Enabled | IntrospectionOnly) && matches!(request mode, Enabled | IntrospectionOnly)` -/
def introOK (sm rm : Mode) : Bool := sm != .disabled && rm != .disabled

/-- `schema mode == IntrospectionOnly || request mode == IntrospectionOnly` -/
def onlyMode (sm rm : Mode) : Bool := sm == .only || rm == .only

def rootOf : Op → RootName
  | .query => .query
  | .mutation => .mutation
  | .subscription => .subscription

/-- Validation: is the field defined on the operation's root type in the registry?
    `__typename` is never looked up except that a subscription root refuses it; `__schema`/`__type`
    are inserted by `create_introspection_types` — always for the static flavour (the registry is
    built by `Schema::build` before the builder's mode setters run), only when the schema mode is
    not `disabled` for the dynamic flavour; `_service`/`_entities` exist on the query root because
    federation is enabled. -/
def known (fl : Flavour) (sm : Mode) (op : Op) : Kind → Bool
  | .typename => op != .subscription
  | .ordinary => true
  | .schema | .type => op == .query && (fl == .static || sm != .disabled)
  | .service | .entities => op == .query

/-- `QueryRoot::resolve_field`, reached from `Fields::add_set` (which answers `__typename` first). -/
def staticQuery (D : Defects) (sm rm : Mode) (k : Kind) : Outcome :=
  if k = .typename then .typeName .query
  else if introOK sm rm && (k == .schema || k == .type || (!D.staticServiceUngated && k == .service)) then
    .metadata
  else if onlyMode sm rm then .null
  else match k with
    | .entities => .userResolver                                      -- federation block: find_entity
    | .service => if D.staticServiceUngated then .metadata else .null -- federation block (pinned) / inner → None
    | .ordinary => .userResolver                                      -- inner.resolve_field
    | _ => .null                                                      -- inner.resolve_field → None → null

/-- `execute_once`, mutation arm: `EmptyMutation` replaces the root in introspection-only mode. -/
def staticMutation (D : Defects) (sm rm : Mode) (k : Kind) : Outcome :=
  if onlyMode sm rm then
    if k = .typename then .typeName (if D.emptyMutationTypename then .emptyMutation else .mutation)
    else .null                                                        -- EmptyMutation::resolve_field → None
  else if k = .typename then .typeName .mutation
  else if k = .ordinary then .userResolver
  else .null

/-- `collect_subscription_streams` over `EmptySubscription` (introspection-only) or the real root. -/
def staticSubscription (sm rm : Mode) (k : Kind) : Outcome :=
  if onlyMode sm rm then .error                                       -- "Schema is not configured for subscription."
  else if k = .ordinary then .userResolver
  else .error                                                         -- create_field_stream → None

/-- `dynamic::resolve::collect_fields` on the query root (`isQuery`) or the mutation root.
    Pinned: `_entities` is an arm of the introspection gate (so it runs in introspection-only mode
    and disappears when introspection is disabled); repaired: it comes after the
    introspection-only cut and does not depend on the gate, as in the static flavour. -/
def dynamicObject (D : Defects) (sm rm : Mode) (isQuery : Bool) (root : RootName) (k : Kind) : Outcome :=
  if k = .typename then .typeName root
  else if isQuery && introOK sm rm
      && (k == .schema || k == .type || k == .service || (D.dynEntitiesGated && k == .entities)) then
    if k = .entities then .userResolver else .metadata
  else if onlyMode sm rm then .null
  else if isQuery && !D.dynEntitiesGated && k == .entities then .userResolver
  else if k = .ordinary then .userResolver                            -- object.fields.get(name)
  else .absent                                                        -- not a field of the object: skipped

/-- `dynamic::Subscription::collect_streams`. -/
def dynamicSubscription (D : Defects) (sm rm : Mode) (k : Kind) : Outcome :=
  if !D.dynSubscriptionInOnly && onlyMode sm rm then .error
  else if k = .ordinary then .userResolver
  else .absent

/-- THE decision table: flavour × schema mode × request mode × operation type × field kind. -/
def dispatch (D : Defects) (fl : Flavour) (sm rm : Mode) (op : Op) (k : Kind) : Outcome :=
  match fl, op with
  | .static, .query => staticQuery D sm rm k
  | .static, .mutation => staticMutation D sm rm k
  | .static, .subscription => staticSubscription sm rm k
  | .dynamic, .query => dynamicObject D sm rm true .query k
  | .dynamic, .mutation => dynamicObject D sm rm false .mutation k
  | .dynamic, .subscription => dynamicSubscription D sm rm k

/-- The loop over the root selection set (`for selection in &ctx.item.node.items { … fields.push … }`):
    one entry per root field, in order. -/
def rootLoop (f : Kind → Outcome) : List Kind → List (Kind × Outcome)
  | [] => []
  | k :: ks => (k, f k) :: rootLoop f ks

inductive Result
  | rejected                                   -- validation error, nothing executed
  | unsupported                                -- subscription sent through execute / execute_batch
  | fields (os : List (Kind × Outcome))
  deriving DecidableEq, Repr, Inhabited

/-- A whole request: validation, transport check, root-field loop. -/
def runDoc (D : Defects) (fl : Flavour) (sm rm : Mode) (op : Op) (via : Via) (ks : List Kind) : Result :=
  if ks.any (fun k => !known fl sm op k) then .rejected
  else if op = .subscription && via != .stream then .unsupported
  else .fields (rootLoop (dispatch D fl sm rm op) ks)

/-- A root selection: a plain field, or a field inside a root-level inline fragment
    (`... on Root { f }` when `typed`, `... { f }` otherwise). -/
inductive Sel
  | field (k : Kind)
  | inline (typed : Bool) (k : Kind)
  deriving DecidableEq, Repr, Inhabited

def Sel.kind : Sel → Kind
  | .field k => k
  | .inline _ k => k

/-- Does a root-level `... on <RootType>` match the container that executes the operation?
    It compares with the container's own type name, so it fails exactly when the pinned tree has
    substituted `EmptyMutation` for the mutation root (same defect as the wrong `__typename`). -/
def typedMatches (D : Defects) (fl : Flavour) (sm rm : Mode) (op : Op) : Bool :=
  !(D.emptyMutationTypename && fl == .static && op == .mutation && onlyMode sm rm)

/-- The root loops with fragments: the object roots (`Fields::add_set`, dynamic `collect_fields`)
    recurse into a fragment whose type condition is absent or matches, with the same container and
    the same mode checks, and skip it otherwise; both subscription loops
    (`collect_subscription_streams`, dynamic `collect_streams`) only look at plain fields
    (`if let Selection::Field(field) = …`) and skip everything else. -/
def selLoop (op : Op) (tm : Bool) (f : Kind → Outcome) : List Sel → List (Kind × Outcome)
  | [] => []
  | .field k :: ss => (k, f k) :: selLoop op tm f ss
  | .inline typed k :: ss =>
    (if op = .subscription || (typed && !tm) then [(k, Outcome.absent)] else rootLoop f [k])
      ++ selLoop op tm f ss

/-- A whole request whose root selection set may contain inline fragments (validation looks
    inside them). -/
def runSel (D : Defects) (fl : Flavour) (sm rm : Mode) (op : Op) (via : Via) (ss : List Sel) : Result :=
  if ss.any (fun s => !known fl sm op s.kind) then .rejected
  else if op = .subscription && via != .stream then .unsupported
  else .fields (selLoop op (typedMatches D fl sm rm op) (dispatch D fl sm rm op) ss)

end AGV.Model.Introspection
