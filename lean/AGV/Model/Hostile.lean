/-
  Model of the logic that is supposed to make hostile client input safe (property C12).

  Lean cannot say "this Rust code never panics".  What is modelled is the DECISION logic whose
  totality / boundedness the property rests on:

  (a) upload-marker decoding — `Upload::parse` (src/types/upload.rs: the `#__graphql_file__:`
      marker followed by `parse::<usize>()`) and `Upload::value` (`uploads[self.0]`) — as total
      functions into a three-valued outcome (`ok`/`err`/`panic`): a `panic` outcome is what the
      pinned tree does where the function is partial;
  (b) recursion depth of the parser: the tree builder's selection-set guard
      (`MAX_RECURSION_DEPTH`, parser/src/parse/executable.rs) as a function over pest pair trees,
      and the depth of the recursive descent of the pest-generated parser itself as the fuel the
      PEG interpreter of C13 (`Model/Peg.lean`, fuel = recursion depth) needs over the generated
      grammar (`Gen/Grammar.lean`): no guard exists there;
  (c) the loops that follow client-controlled structure: `check_recursive_depth`
      (src/schema.rs) and field collection expand a fragment once per SPREAD, not once per
      fragment (`spreadVisits`).

  Defect toggles (`true` = behaviour of the pinned tree):
    parseUnwrap        `Upload::parse` unwraps `parse::<usize>()`: a marker that is not followed
                       by an index panics                          (C12-forged-upload-marker-panics)
    valueIndex         `Upload::value` indexes `uploads[self.0]` unchecked: an index without a
                       file panics                                 (C12-upload-index-without-file-panics)
    noNestingLimit     nothing bounds the nesting of `[`/`{`/selection sets BEFORE the recursive
                       pest parser runs: deep nesting overflows the stack
                                                                   (C12-deep-nesting-stack-overflow)
    spreadsExpanded    fragments are expanded per occurrence: a DAG of n fragments that each
                       spread the next k times costs k^(n-1) visits (C12-fragment-bomb-exponential)
  Core-only imports.
-/
import AGV.Model.UploadBind
import AGV.Model.Peg
import AGV.Gen.Grammar
import AGV.Gen.ParserLimits
import AGV.Gen.LimitFacts

namespace AGV.Model.Hostile
open AGV.Model.UploadBind (stripPrefix parseUsize)
open AGV.Model.Peg (Pair Res eval)

structure Defects where
  parseUnwrap : Bool := false
  valueIndex : Bool := false
  noNestingLimit : Bool := false
  spreadsExpanded : Bool := false
  deriving Repr, Inhabited, DecidableEq

def Defects.none : Defects := {}
def Defects.pinned : Defects :=
  { parseUnwrap := true, valueIndex := true, noNestingLimit := true, spreadsExpanded := true }

-- ------------------------------------------------------------------ (a) upload markers

inductive Outcome (α : Type) where
  | ok (a : α)
  | err
  | panic
  deriving Repr, DecidableEq, Inhabited

/-- `const PREFIX: &str = "#__graphql_file__:"` -/
def marker : List Char :=
  ['#', '_', '_', 'g', 'r', 'a', 'p', 'h', 'q', 'l', '_', 'f', 'i', 'l', 'e', '_', '_', ':']

/-- `Upload::parse(Some(Value::String(s)))`: the index the marker carries -/
def uploadParse (D : Defects) (s : List Char) : Outcome Nat :=
  match stripPrefix marker s with
  | none => .err
  | some rest =>
    match parseUsize rest with
    | some n => .ok n
    | none => if D.parseUnwrap then .panic else .err

/-- `Upload::value(ctx)` with `nUploads = ctx.query_env.uploads.len()` -/
def uploadValue (D : Defects) (idx nUploads : Nat) : Outcome Nat :=
  if idx < nUploads then .ok idx
  else if D.valueIndex then .panic else .err

/-- a string in an `Upload` position of a request that carries `nUploads` files, resolved by a
    resolver that calls `value`: which file it yields -/
def markerRun (D : Defects) (s : List Char) (nUploads : Nat) : Outcome Nat :=
  match uploadParse D s with
  | .ok i => uploadValue D i nUploads
  | .err => .err
  | .panic => .panic

-- ------------------------------------------------------------------ (b) recursion depth

def listMax (l : List Nat) : Nat := l.foldl max 0

/-- The number of nested activations of `parse_selection_set` on a `selection_set` pair: the
    tree builder descends into the `selection_set` child of a `field` / `inline_fragment` with
    `remaining - 1`, and refuses (`RecursionLimitExceeded`) when `remaining = 0` — unless the
    guard is switched off (`guard = false`, a mutation of the anchored code, not a finding).
    Fuel bounds the pair depth (pairs are finite trees; fuel ≥ depth changes nothing). -/
def selRecursion (guard : Bool) : Nat → Nat → Pair → Nat
  | 0, _, _ => 0
  | f + 1, remaining, p =>
    1 + listMax (p.inner.map (fun sp =>
          listMax (sp.inner.map (fun c =>
            listMax (c.inner.map (fun x =>
              if x.rule = "selection_set" then
                (if guard && remaining = 0 then 0 else selRecursion guard f (remaining - 1) x)
              else 0))))))

/-- `MAX_RECURSION_DEPTH` (generated from the source) -/
def maxDepth : Nat := AGV.Gen.ParserLimits.maxRecursionDepth

/-- the grammar of the real parser: the generated translation of `graphql.pest` -/
abbrev grammar : AGV.Model.Peg.Grammar := AGV.Gen.Grammar.grammar

/-- the recursive descent of the parser on `s` from `rule` is cut off at depth `f` -/
def cutOffAt (rule : String) (s : List Char) (f : Nat) : Bool :=
  match eval grammar f {} (.ident rule) 0 s with
  | .oof => true
  | _ => false

/-- least depth in `lo .. lo+span` at which the descent is NOT cut off (`lo+span` if none):
    the recursion depth of the interpreter, by linear search (for small inputs only) -/
def depthFrom (rule : String) (s : List Char) : Nat → Nat → Nat
  | lo, 0 => lo
  | lo, span + 1 => if cutOffAt rule s lo then depthFrom rule s (lo + 1) span else lo

/-- `parserRecursionDepth D s`: how deep the recursive descent nests on the document `s`.
    Without `noNestingLimit` a pre-scan refuses documents nested deeper than `nestingLimit`, so
    the descent is never entered with more (`0` = refused). -/
def nestingLimit : Nat := 256

/-- state of the byte-level pre-scan: current depth, maximum, lexical mode
    (0 code, 1 string, 2 string escape, 3 comment, 4 after `"`, 5 after `""`, 6 block string,
     7 / 8 block string after one / two quotes, 9 block string escape) -/
structure Scan where
  d : Nat := 0
  mx : Nat := 0
  mode : Nat := 0
  deriving Repr, Inhabited

def isNl (c : Char) : Bool := c = '\n' || c = '\r'

def codeStep (st : Scan) (c : Char) : Scan :=
  if c = '[' || c = '{' || c = '(' then { d := st.d + 1, mx := max st.mx (st.d + 1), mode := 0 }
  else if c = ']' || c = '}' || c = ')' then { st with d := st.d - 1, mode := 0 }
  else if c = '#' then { st with mode := 3 }
  else if c = '"' then { st with mode := 4 }
  else { st with mode := 0 }

/-- nesting of `[ { (` outside strings and comments, one character at a time -/
def scanStep (st : Scan) (c : Char) : Scan :=
  match st.mode with
  | 0 => codeStep st c
  | 1 => if c = '\\' then { st with mode := 2 } else if c = '"' || isNl c then { st with mode := 0 } else st
  | 2 => { st with mode := 1 }
  | 3 => if isNl c then { st with mode := 0 } else st
  | 4 => if c = '"' then { st with mode := 5 } else if c = '\\' then { st with mode := 2 }
         else if isNl c then { st with mode := 0 } else { st with mode := 1 }
  | 5 => if c = '"' then { st with mode := 6 } else codeStep { st with mode := 0 } c
  | 6 => if c = '"' then { st with mode := 7 } else if c = '\\' then { st with mode := 9 } else st
  | 7 => if c = '"' then { st with mode := 8 } else if c = '\\' then { st with mode := 9 } else { st with mode := 6 }
  | 8 => if c = '"' then { st with mode := 0 } else if c = '\\' then { st with mode := 9 } else { st with mode := 6 }
  | _ => { st with mode := 6 }

def nestingDepth (s : List Char) : Nat := (s.foldl scanStep {}).mx

/-- nesting of `[ { (` over ALL characters, strings included: an upper bound of what any layer
    (JSON text, the document inside a JSON string, a percent-decoded query string) can see -/
def rawDepth (s : List Char) : Nat :=
  (s.foldl (fun (st : Nat × Nat) c =>
    if c = '[' || c = '{' || c = '(' then (st.1 + 1, max st.2 (st.1 + 1))
    else if c = ']' || c = '}' || c = ')' then (st.1 - 1, st.2)
    else st) (0, 0)).2

def parserRecursionDepth (D : Defects) (s : List Char) : Nat :=
  if !D.noNestingLimit && nestingDepth s > nestingLimit then 0
  else depthFrom "executable_document" s 0 (AGV.Model.Peg.fuelFor s)

-- the nesting families of the correspondence (`nest_doc` in harness/core/src/bin/c12.rs)

def rep (s : List Char) : Nat → List Char
  | 0 => []
  | n + 1 => s ++ rep s n

/-- `"[" * n ++ "]" * n` -/
def nestList (n : Nat) : List Char := rep ['['] n ++ rep [']'] n

/-- `{j(x:[[[…]]])}` -/
def listDoc (n : Nat) : List Char := ['{', 'j', '(', 'x', ':'] ++ nestList n ++ [')', '}']

-- ------------------------------------------------------------------ (c) fragment expansion

/-- the spread graph of a document: `frags[i]` = indices of the fragments that fragment `i`
    spreads, one entry per spread -/
abbrev Spreads := List (List Nat)

/-- `check_recursive_depth` (src/schema.rs) on fragment `i` at depth `d`: the number of
    selection sets it visits, or `none` when the depth limit trips (`d > max`).  With
    `spreadsExpanded` every spread is followed; the repaired version visits a fragment once
    (`seen`).  Fuel is only the structural argument: the depth bound `d ≤ max` cuts every
    path, cycles included. -/
def sumOpt : List (Option Nat) → Option Nat
  | [] => some 0
  | none :: _ => none
  | some a :: r => (sumOpt r).map (· + a)

def spreadVisits (frags : Spreads) (max : Nat) : Nat → Nat → Nat → Option Nat
  | 0, _, _ => none
  | fuel + 1, d, i =>
    if d > max then none
    else (sumOpt ((frags.getD i []).map (fun j => spreadVisits frags max fuel (d + 1) j))).map (· + 1)

/-- `check_max_directives` (src/schema.rs) on fragment `i`: it follows every spread like
    `check_recursive_depth` does but has NO depth bound and no visited set — on a reachable
    cycle it recurses until the stack is gone.  `stack` = the nesting the real stack affords,
    `none` = overflow (a process abort). -/
def dirWalk (frags : Spreads) : Nat → Nat → Option Nat
  | 0, _ => none
  | stack + 1, i => (sumOpt ((frags.getD i []).map (fun j => dirWalk frags stack j))).map (· + 1)

inductive Pre where
  | rejected   -- answered with an error
  | passed     -- handed on to validation / execution
  | overflow   -- the stack is exhausted: the process dies
  deriving Repr, DecidableEq, Inhabited

/-- the pre-execution checks of `prepare_request`, run in the given order (the order in the source
    is the generated `AGV.Gen.LimitFacts.checkOrder`) on the spread graph reachable from `root`;
    `maxDirs = none`: `limit_directives` is not set and the directives walk does not run -/
def runChecks (frags : Spreads) (max : Nat) (maxDirs : Option Nat) (stack root : Nat) : List String → Pre
  | [] => .passed
  | c :: rest =>
    if c = "check_recursive_depth" then
      (match spreadVisits frags max stack 0 root with
       | none => .rejected
       | some _ => runChecks frags max maxDirs stack root rest)
    else if c = "check_max_directives" then
      (match maxDirs with
       | none => runChecks frags max maxDirs stack root rest
       | some _ =>
         match dirWalk frags stack root with
         | none => .overflow
         | some _ => runChecks frags max maxDirs stack root rest)
    else runChecks frags max maxDirs stack root rest

/-- the bomb family: fragment `i < n-1` spreads fragment `i+1` `k` times, the last one none -/
def bomb (k : Nat) : Nat → Spreads
  | 0 => []
  | n + 1 => (List.range n).map (fun i => List.replicate k (i + 1)) ++ [[]]

/-- visits when every fragment is entered once: the number of fragments reachable -/
def distinctVisits (frags : Spreads) : Nat := frags.length

-- ------------------------------------------------------------------ expected answers of the nesting families

inductive Ans where
  | ok | err
  deriving Repr, DecidableEq, Inhabited

/-- `recursive_depth` default of `SchemaBuilder` (src/schema.rs) -/
def execRecursiveDepth : Nat := 32

/-- What `parse_query` (`exec = false`) / `Schema::execute` (`exec = true`) answers on the
    member `n ≥ 1` of a nesting family when nothing crashes; `none` = family unknown. -/
def nestAnswer (exec : Bool) (kind : String) (n : Nat) : Option Ans :=
  let selOk : Bool := if exec then n ≤ execRecursiveDepth + 1 else n ≤ maxDepth + 1
  if kind = "list" ∨ kind = "obj" ∨ kind = "constlist" ∨ kind = "widelist" ∨ kind = "widefields" then some .ok
  else if kind = "sel" ∨ kind = "inline" then some (if selOk then .ok else .err)
  else if kind = "type" then some (if exec then .err else .ok)           -- unused variable
  else if kind = "listopen" ∨ kind = "objopen" ∨ kind = "selopen" then some .err
  else if kind = "widedirs" then some (if exec && n ≥ 2 then .err else .ok)   -- repeated directive
  else if kind = "fragchain" ∨ kind = "fragbomb" then some (if exec && n > execRecursiveDepth then .err else .ok)
  else if kind = "fragcycle" ∨ kind = "cycreach" ∨ kind = "cycinline" ∨ kind = "cycunreach" ∨
          kind = "undefspread" ∨ kind = "undefchain" then some (if exec then .err else .ok)
  else if kind = "dirsdeep" ∨ kind = "dirsfrag" then some (if exec && n ≥ 2 then .err else .ok)
  else if kind = "intro" then some .ok
  else none

/-- bracket nesting depth of the text of member `n` of a family (what the pre-scan counts) -/
def nestTextDepth (kind : String) (n : Nat) : Nat :=
  if kind = "list" ∨ kind = "obj" ∨ kind = "listopen" ∨ kind = "objopen" then n + 2
  else if kind = "sel" ∨ kind = "inline" ∨ kind = "selopen" then n
  else if kind = "type" ∨ kind = "constlist" then n + 1
  else 3

/-- the answer of a tree with the pre-scan (`noNestingLimit` off): deeper than `nestingLimit` is
    refused before anything recursive runs -/
def nestAnswerD (D : Defects) (exec : Bool) (kind : String) (n : Nat) : Option Ans :=
  if !D.noNestingLimit && nestTextDepth kind n > nestingLimit then some .err
  else nestAnswer exec kind n

/-- schema configuration of a case: `limit_directives`, `limit_depth`, `limit_complexity`,
    `limit_recursive_depth`, `ValidationMode::Fast`, `disable_introspection` -/
structure Cfg where
  dirs : Option Nat := none
  depth : Option Nat := none
  cplx : Option Nat := none
  rdepth : Option Nat := none
  fast : Bool := false
  nointro : Bool := false
  deriving Repr, Inhabited, DecidableEq

def Cfg.isDefault (c : Cfg) : Bool := c == {}

/-- What EVERY configuration must answer with an error when the member is executed: the inputs
    the pre-execution guards exist for.  (Everything else is configuration-dependent and only
    required not to crash.) -/
def mustErr (cfg : Cfg) (kind : String) (n : Nat) : Bool :=
  let rd := cfg.rdepth.getD execRecursiveDepth
  -- a fragment cycle that the operation reaches; a spread of an undefined fragment
  (kind = "fragcycle" || kind = "cycreach" || kind = "cycinline" || kind = "undefspread" || kind = "undefchain")
  -- an unreachable cycle is a validation error unless validation is `Fast`
  || (kind = "cycunreach" && !cfg.fast)
  -- more directives on one field than `limit_directives`
  || ((kind = "widedirs" || kind = "dirsdeep" || kind = "dirsfrag") &&
        (match cfg.dirs with | some d => decide (n > d) | none => false))
  -- a repeated non-repeatable directive, unless validation is `Fast`
  || ((kind = "widedirs" || kind = "dirsdeep" || kind = "dirsfrag") && !cfg.fast && n ≥ 2)
  -- selection sets / fragment chains nested deeper than `recursive_depth`
  || ((kind = "sel" || kind = "inline") && n > rd + 1)
  || ((kind = "fragchain" || kind = "fragbomb") && n > rd)
  || kind = "listopen" || kind = "objopen" || kind = "selopen"

/-- families whose members nest brackets / selection sets `n` deep (the recursive descent goes
    at least that deep) -/
def deepKind (kind : String) : Bool :=
  kind = "list" ∨ kind = "obj" ∨ kind = "sel" ∨ kind = "inline" ∨ kind = "type" ∨ kind = "constlist" ∨
  kind = "listopen" ∨ kind = "objopen" ∨ kind = "selopen"

end AGV.Model.Hostile
