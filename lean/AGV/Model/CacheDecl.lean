/-
  C20 — from the hints DECLARED in the source (`#[graphql(cache_control(..))]` attributes) to the
  hints the derive macros put into the registry.

  The policy visitor (Model/CacheControl.lean) reads the registry; the property speaks about the
  hints of the object types and fields as declared.  For every declaration form but one the
  derive macros register exactly what is declared:
    `#[Object]` / `#[derive(SimpleObject)]` / `#[ComplexObject]` (object level: `ObjectBuilder::
    cache_control` in `object_builder_base`, shared by the plain type and every `concrete(..)`
    instantiation of a generic one; field level: `field.cache_control = ..`)
  `#[derive(MergedObject)]` (derive/src/merged_object.rs) registers the combination of the hints
  of its parts (`create_fake_output_type::<MergedObject<..>>()`, src/types/merged_object.rs merges
  them) and the fields of the parts with their hints — but the `cache_control(..)` attribute of the
  merged object itself, accepted and documented (src/docs/merged_object.md), is never used:
  toggle `mergedOwnHintIgnored`.

  Import-free apart from Core.
-/
import AGV.Core.Cache

namespace AGV.Model.CacheDecl
open AGV.Core.Cache

structure Defects where
  /-- pinned: `#[derive(MergedObject)]` drops the object's own `cache_control(..)` -/
  mergedOwnHintIgnored : Bool := false
  deriving Repr, Inhabited

/-- The hint table in the registry, given the declared table `H` and, for each merged object that
    has a hint of its own, the combination of the hints of its parts alone (`parts`). -/
def registered (D : Defects) (H : Hints) (parts : List (String × CC)) : Hints :=
  if D.mergedOwnHintIgnored then
    H.map (fun p =>
      match p.1.field, parts.find? (·.1 = p.1.ty) with
      | none, some q => (p.1, q.2)
      | _, _ => p)
  else H

/-- the entries that differ from "no hint" (what the harness prints of a registry) -/
def nonDefault (H : Hints) : Hints := H.filter (fun p => p.2 ≠ noHint)

end AGV.Model.CacheDecl
