/-
  Model of the built-in input validators as the code has them (property C08):

    src/validators/{maximum,minimum,multiple_of}.rs      `value.as_() <op> n` after the `AsPrimitive`
        conversion of the value to the type `N` of the literal bound (`i64` for an integer literal,
        `f64` for a float literal — derive/src/validators.rs `Number`)
    src/validators/{max,min}_length.rs, chars_{max,min}_length.rs, {max,min}_items.rs, regex.rs
    derive/src/validators.rs `Validators::create_validators`: first the list validators
        (max_items, min_items) on the raw value, then the element validators in the fixed order
        multiple_of, maximum, minimum, max_length, min_length, chars_max_length,
        chars_min_length, regex — on every non-null item when `list` is set, else on the raw
        value; `as_raw_value` is `None` under a null `Option` (nothing is checked); the first
        failing validator ends the evaluation (`?`).
    what reaches the validators: in `ValidationMode::Strict` the rule ArgumentsOfCorrectType
        (src/validation/utils.rs `is_valid_input_value`) first refuses values whose scalar
        `is_valid` fails; the `Int` scalar is always registered by `i32` first
        (Registry::add_system_types), so its pre-check is `is_i64()`; then `InputType::parse`.

  Defect toggles (true = behaviour of the pinned tree):
    unsignedWrap       `u64 as i64` reinterprets: values above i64::MAX become negative before
                       the comparison with an integer bound
    floatTrunc         `f64/f32 as i64` truncates toward zero (saturating) before the comparison
                       with an integer bound
    intToFloatRound    `i64/u64 as f64` rounds to nearest (exact only up to 2^53) before the
                       comparison with a float bound
    strictGateI64      strict mode refuses integers above i64::MAX for every integer type
                       (the `Int` pre-check is i32's `is_i64()`), so such u64 values never reach
                       the validator
-/
import AGV.Spec.Validators

namespace AGV.Model.Validators
open AGV.Spec.Validators

structure Defects where
  unsignedWrap : Bool := false
  floatTrunc : Bool := false
  intToFloatRound : Bool := false
  strictGateI64 : Bool := false
  deriving DecidableEq, Repr

def Defects.none : Defects := {}
def Defects.pinned : Defects := ⟨true, true, true, true⟩

inductive Kind where
  | gate | parse
  | multipleOf | maximum | minimum | maxLength | minLength | charsMax | charsMin | regex
  | maxItems | minItems
  deriving DecidableEq, Repr

inductive Out where
  | reached
  | err (k : Kind)
  deriving DecidableEq, Repr

inductive Mode where
  | strict | fast
  deriving DecidableEq, Repr

def i64Min : Int := -9223372036854775808
def i64Max : Int := 9223372036854775807
def u64Max : Int := 18446744073709551615

-- ------------------------------------------------------------------ `as` conversions

/-- integer `as i64`: two's-complement reinterpretation -/
def wrap64 (i : Int) : Int :=
  let r := i % 18446744073709551616
  if r ≥ 9223372036854775808 then r - 18446744073709551616 else r

/-- float `as i64`: toward zero, saturating -/
def truncI64 (d : Dy) : Int :=
  let mag : Int := if d.e ≥ 0 then (d.m : Int) * 2 ^ d.e.toNat else (d.m : Int) / 2 ^ (-d.e).toNat
  let t := if d.neg then -mag else mag
  if t < i64Min then i64Min else if t > i64Max then i64Max else t

/-- what `value.as_()` hands to the comparison with an integer literal: an integer under the
    pinned conversions, the exact value otherwise -/
inductive Conv where
  | int (i : Int)
  | exact (d : Dy)

def toI64 (D : Defects) : Sv → Option Conv
  | .int i => some (.int (if D.unsignedWrap then wrap64 i else i))
  | .flt d => some (if D.floatTrunc then .int (truncI64 d) else .exact d)
  | .str _ => none

def toF64 (D : Defects) : Sv → Option Dy
  | .int i => some (if D.intToFloatRound then (Dy.ofInt i).roundF64 else Dy.ofInt i)
  | .flt d => some d
  | .str _ => none

-- ------------------------------------------------------------------ the validator functions

/-- `maximum(value, n)`: `value.as_() <= n` -/
def maximumOk (D : Defects) (v : Sv) : Num → Bool
  | .i n => match toI64 D v with
    | some (.int i) => decide (i ≤ n)
    | some (.exact d) => decide (Dy.le d (Dy.ofInt n))
    | none => false
  | .f x => match toF64 D v with
    | some d => decide (Dy.le d x)
    | none => false

/-- `minimum(value, n)`: `value.as_() >= n` -/
def minimumOk (D : Defects) (v : Sv) : Num → Bool
  | .i n => match toI64 D v with
    | some (.int i) => decide (i ≥ n)
    | some (.exact d) => decide (Dy.le (Dy.ofInt n) d)
    | none => false
  | .f x => match toF64 D v with
    | some d => decide (Dy.le x d)
    | none => false

/-- `multiple_of(value, n)`: `!value.is_zero() && value % n == 0` (integer `%` is the truncated
    remainder; float `%` is the exact IEEE remainder, NaN for a zero divisor) -/
def multipleOfOk (D : Defects) (v : Sv) : Num → Bool
  | .i n => match toI64 D v with
    | some (.int i) => decide (i ≠ 0) && decide (Int.tmod i n = 0)
    | some (.exact d) => decide (d.m ≠ 0) && decide (Dy.dvd (Dy.ofInt n) d)
    | none => false
  | .f x => match toF64 D v with
    | some d => decide (d.m ≠ 0) && decide (x.m ≠ 0) &&
        decide (Int.tmod (d.scaled (min x.e d.e)) (x.scaled (min x.e d.e)) = 0)
    | none => false

def strOk (v : Sv) (p : List Char → Bool) : Bool :=
  match v with
  | .str s => p s
  | _ => false

/-- `str::len()`: UTF-8 bytes -/
def byteLen (s : List Char) : Nat :=
  s.foldl (fun acc c =>
    acc + (if c.toNat < 0x80 then 1 else if c.toNat < 0x800 then 2 else if c.toNat < 0x10000 then 3 else 4)) 0

/-- element validators in the order `create_validators` pushes them -/
def elemValidators (D : Defects) (re : List Char → List Char → Bool) (c : Cfg) : List (Kind × (Sv → Bool)) :=
  (c.multipleOf.map (fun n => (Kind.multipleOf, fun v => multipleOfOk D v n))).toList ++
  (c.maximum.map (fun n => (Kind.maximum, fun v => maximumOk D v n))).toList ++
  (c.minimum.map (fun n => (Kind.minimum, fun v => minimumOk D v n))).toList ++
  (c.maxLength.map (fun n => (Kind.maxLength, fun v => strOk v (fun s => decide (byteLen s ≤ n))))).toList ++
  (c.minLength.map (fun n => (Kind.minLength, fun v => strOk v (fun s => decide (byteLen s ≥ n))))).toList ++
  (c.charsMax.map (fun n => (Kind.charsMax, fun v => strOk v (fun s => decide (s.length ≤ n))))).toList ++
  (c.charsMin.map (fun n => (Kind.charsMin, fun v => strOk v (fun s => decide (s.length ≥ n))))).toList ++
  (c.regex.map (fun p => (Kind.regex, fun v => strOk v (fun s => re p s)))).toList

def listValidators (c : Cfg) : List (Kind × (List Item → Bool)) :=
  (c.maxItems.map (fun n => (Kind.maxItems, fun (xs : List Item) => decide (xs.length ≤ n)))).toList ++
  (c.minItems.map (fun n => (Kind.minItems, fun (xs : List Item) => decide (xs.length ≥ n)))).toList

/-- `#(validator ?;)*`: the first failing validator -/
def firstFail {α : Type} (vs : List (Kind × (α → Bool))) (x : α) : Option Kind :=
  (vs.find? (fun p => !p.2 x)).map (·.1)

/-- `as_raw_value` of the whole value as a list / as a scalar -/
def rawList : Tv → Option (List Item)
  | .list (some xs) => some xs
  | _ => none

def rawScalar : Tv → Option Sv
  | .scalar (some v) => some v
  | _ => none

/-- `if let Some(__raw_value) = as_raw_value(__item) { #(elem validators ?;)* }` -/
def itemFail (ev : List (Kind × (Sv → Bool))) : Item → Option Kind
  | some sv => firstFail ev sv
  | none => none

/-- the code generated by `create_validators` (custom validators are not part of the property) -/
def validate (D : Defects) (re : List Char → List Char → Bool) (sh : Shape) (c : Cfg) (v : Tv) : Option Kind :=
  let lv := listValidators c
  let ev := elemValidators D re c
  let r1 : Option Kind :=
    if lv.isEmpty then none else
      match rawList v with
      | some xs => firstFail lv xs
      | none => none
  match r1 with
  | some k => some k
  | none =>
    if ev.isEmpty then none
    else if sh.isList then
      match rawList v with
      | some xs => xs.findSome? (itemFail ev)
      | none => none
    else
      match rawScalar v with
      | some sv => firstFail ev sv
      | none => none

-- ------------------------------------------------------------------ what reaches the validators

/-- scalar `is_valid` as registered in the schema (`Int` by i32, `Float` by f32, `String`) -/
def scalarValid (D : Defects) : Elem → W → Bool
  | .num (.int _ _), .int i =>
    if D.strictGateI64 then decide (i64Min ≤ i ∧ i ≤ i64Max) else decide (i64Min ≤ i ∧ i ≤ u64Max)
  | .num .f32, .int _ => true
  | .num .f32, .float _ => true
  | .num .f64, .int _ => true
  | .num .f64, .float _ => true
  | .str, .str _ => true
  | _, _ => false

/-- `is_valid_input_value` for a named type, nullable or not -/
def gateItem (D : Defects) (e : Elem) (nullable : Bool) : W → Bool
  | .null => nullable
  | w => scalarValid D e w

/-- `is_valid_input_value(registry, <type of the shape>, w)` -/
def gate (D : Defects) (sh : Shape) : W → Bool
  | .null => sh.opt
  | .list xs => if sh.isList then xs.all (gateItem D sh.elem sh.elemOpt) else scalarValid D sh.elem (.list xs)
  | w => scalarValid D sh.elem w

/-- `ScalarType::parse` of the element type -/
def parseScalar : Elem → W → Option Sv
  | .num (.int bits true), .int i =>
    -- as_i64, then `n < MIN || n > MAX`
    if i < i64Min ∨ i > i64Max then none
    else if i < -((2 : Int) ^ (bits - 1)) ∨ i > (2 : Int) ^ (bits - 1) - 1 then none
    else some (.int i)
  | .num (.int bits false), .int i =>
    -- as_u64, then `n > MAX`
    if i < 0 ∨ i > u64Max then none
    else if i > (2 : Int) ^ bits - 1 then none
    else some (.int i)
  | .num .f64, .int i => some (.flt (Dy.ofInt i).roundF64)
  | .num .f64, .float b => some (.flt (Dy.ofBits64 b))
  | .num .f32, .int i => some (.flt (Dy.ofInt i).roundF64.roundF32)
  | .num .f32, .float b => some (.flt (Dy.ofBits64 b).roundF32)
  | .str, .str s => some (.str s)
  | _, _ => none

/-- `Option<T>::parse` / `T::parse` of one item -/
def parseItem (e : Elem) (nullable : Bool) : W → Option Item
  | .null => if nullable then some none else none
  | w => (parseScalar e w).map some

/-- `InputType::parse` for the declared type (`Vec` wraps a non-list value into one item) -/
def parse (sh : Shape) (w : W) : Option Tv :=
  if sh.isList then
    match w with
    | .null =>
      if sh.opt then some (.list none)
      else (parseItem sh.elem sh.elemOpt .null).map (fun it => .list (some [it]))
    | .list xs => (xs.mapM (parseItem sh.elem sh.elemOpt)).map (fun l => .list (some l))
    | w => (parseItem sh.elem sh.elemOpt w).map (fun it => .list (some [it]))
  else
    match w with
    | .null => if sh.opt then some (.scalar none) else none
    | w => (parseScalar sh.elem w).map (fun v => .scalar (some v))

/-- one request with the value `w` for an argument / input-object field of shape `sh` with
    validators `c` -/
def run (D : Defects) (re : List Char → List Char → Bool) (mode : Mode) (sh : Shape) (c : Cfg) (w : W) : Out :=
  if mode = .strict ∧ gate D sh w = false then .err .gate
  else
    match parse sh w with
    | none => .err .parse
    | some v =>
      match validate D re sh c v with
      | some k => .err k
      | none => .reached

def reachesResolver (D : Defects) (re : List Char → List Char → Bool) (mode : Mode) (sh : Shape) (c : Cfg) (w : W) : Prop :=
  run D re mode sh c w = .reached

instance (D re mode sh c w) : Decidable (reachesResolver D re mode sh c w) := by
  unfold reachesResolver; infer_instance

end AGV.Model.Validators
