/-
  C11 — COST semantics of the pre-execution checks of a request (async-graphql, pinned tree).

  Counted (and tied to the cfg-guarded counters `async_graphql::__verif`):
    * selection visits of `validation::visitor::visit_selection`, per visitor pass; which passes run
      and in which `VisitMode` comes from `validation::check_rules`:
         Strict: pass 1 (rules …, last added `UploadFile`)         → Normal
                 pass 2 (CacheControl, Complexity, `DepthCalculate`) → Inline
         Fast:   one pass (…, last added `DepthCalculate`)          → Inline
      (`VisitorCons::mode` is the mode of the visitor added LAST) — this table is read from the
      source by srcfacts/gen.py (`AGV.Gen.CostFacts`);
    * selections iterated by `schema.rs::check_recursive_depth` and `check_max_directives`
      (both stop at the first error: the model threads an `ok` flag);
    * selections iterated / field pairs compared by `OverlappingFieldsCanBeMerged`
      (run from every non-empty selection set of the normal pass; it memoises by itself).

  Defined by the same recursion as the walkers: a normal-mode pass walks every fragment definition
  once; an inline-mode pass and the two limit walkers re-walk a fragment's selection set at EVERY
  spread (toggles `inlineNoMemo` / `limitsNoMemo` = the pinned behaviour); with a toggle off the
  walker visits every fragment at most once (the repaired cost model).
  Not modelled: work inside the parser (pest), per-visit work of the individual rules, time.
-/
import AGV.Core.Types
import AGV.Gen.CostFacts

namespace AGV.Model.Cost
open AGV.Core

structure Defects where
  /-- pinned: an inline-mode visitor pass re-walks a fragment at every spread -/
  inlineNoMemo : Bool := false
  /-- pinned: `check_recursive_depth` / `check_max_directives` re-walk a fragment at every spread -/
  limitsNoMemo : Bool := false
  deriving Repr, DecidableEq

def pinned : Defects := { inlineNoMemo := true, limitsNoMemo := true }

structure Config where
  strict : Bool
  /-- the schema has a mutation and a subscription root (the query root always exists) -/
  fullRoots : Bool
  recLimit : Nat
  maxDirs : Option Nat
  deriving Repr

def hasRoot (c : Config) : OpType → Bool
  | .query => true
  | _ => c.fullRoots

-- ------------------------------------------------------------------ pinned walkers

mutual
/-- `visit_selection`: one visit per selection; below `__typename` nothing is visited; a spread
    costs what `rec` says (nothing in normal mode, the fragment's walk in inline mode) -/
def vSel (rec : String → Nat) : Sel → Nat
  | .field _ name _ _ sub _ => if name = "__typename" then 1 else 1 + vSels rec sub
  | .spread n _ _ => 1 + rec n
  | .inline _ _ sub _ => 1 + vSels rec sub
def vSels (rec : String → Nat) : List Sel → Nat
  | [] => 0
  | s :: ss => vSel rec s + vSels rec ss
end

/-- inline mode, pinned: the fragment's selection set is walked again at every spread -/
def vFrag (d : Doc) : Nat → String → Nat
  | 0, _ => 0
  | k + 1, n =>
    match d.frag? n with
    | some f => vSels (vFrag d k) f.sels
    | none => 0

def noRec : String → Nat := fun _ => 0

/-- selection visits of one normal-mode pass -/
def normalPass (c : Config) (d : Doc) : Nat :=
  (d.frags.map fun f => vSels noRec f.sels).sum
    + (d.ops.map fun o => if hasRoot c o.ty then vSels noRec o.sels else 0).sum

/-- selection visits of one inline-mode pass (pinned).  The fuel never runs out on a document
    that passed `check_recursive_depth` (every spread chain is at most `recLimit` long). -/
def inlinePassPinned (c : Config) (d : Doc) : Nat :=
  (d.ops.map fun o => if hasRoot c o.ty then vSels (vFrag d (c.recLimit + 1)) o.sels else 0).sum

mutual
/-- `check_recursive_depth::check_selection_set`, loop body: (selections iterated, no error) -/
def dpSel (rec : Nat → String → Nat × Bool) (max cur : Nat) : Sel → Nat × Bool
  | .field _ _ _ _ sub _ =>
    if sub.isEmpty then (0, true)
    else if cur + 1 > max then (0, false) else dpItems rec max (cur + 1) sub
  | .spread n _ _ => rec (cur + 1) n
  | .inline _ _ sub _ => if cur + 1 > max then (0, false) else dpItems rec max (cur + 1) sub
def dpItems (rec : Nat → String → Nat × Bool) (max cur : Nat) : List Sel → Nat × Bool
  | [] => (0, true)
  | s :: ss =>
    let r := dpSel rec max cur s
    if r.2 then
      let r' := dpItems rec max cur ss
      (1 + r.1 + r'.1, r'.2)
    else (1 + r.1, false)
end

/-- a spread: an unknown fragment is skipped, a known one is entered at depth `cur` -/
def dpFrag (d : Doc) (max : Nat) : Nat → Nat → String → Nat × Bool
  | 0, _, _ => (0, false)
  | k + 1, cur, n =>
    match d.frag? n with
    | none => (0, true)
    | some f => if cur > max then (0, false) else dpItems (dpFrag d max k) max cur f.sels

/-- sequential composition with early exit -/
def seqOps (f : OpDef → Nat × Bool) : List OpDef → Nat × Bool
  | [] => (0, true)
  | o :: os =>
    let r := f o
    if r.2 then ((r.1 + (seqOps f os).1), (seqOps f os).2) else r

/-- `check_recursive_depth` (pinned): every spread increases the depth, so `max + 2` fuel suffices -/
def depthPinned (c : Config) (d : Doc) : Nat × Bool :=
  seqOps (fun o => dpItems (dpFrag d c.recLimit (c.recLimit + 2)) c.recLimit 0 o.sels) d.ops

mutual
/-- `check_max_directives::check_selection_set`, loop body -/
def mdSel (rec : String → Nat × Bool) (lim : Nat) : Sel → Nat × Bool
  | .field _ _ _ dirs sub _ => if dirs.length > lim then (0, false) else mdSels rec lim sub
  | .spread n _ _ => rec n
  | .inline _ _ sub _ => mdSels rec lim sub
def mdSels (rec : String → Nat × Bool) (lim : Nat) : List Sel → Nat × Bool
  | [] => (0, true)
  | s :: ss =>
    let r := mdSel rec lim s
    if r.2 then
      let r' := mdSels rec lim ss
      (1 + r.1 + r'.1, r'.2)
    else (1 + r.1, false)
end

def mdFrag (d : Doc) (lim : Nat) : Nat → String → Nat × Bool
  | 0, _ => (0, true)
  | k + 1, n =>
    match d.frag? n with
    | none => (0, true)
    | some f => mdSels (mdFrag d lim k) lim f.sels

/-- `check_max_directives` (pinned); runs only after the depth check passed -/
def dirsPinned (c : Config) (lim : Nat) (d : Doc) : Nat × Bool :=
  seqOps (fun o => mdSels (mdFrag d lim (c.recLimit + 1)) lim o.sels) d.ops

-- ------------------------------------------------------------------ memoising walkers

/-- how a memoising walker treats a field -/
inductive Walk where
  /-- `OverlappingFieldsCanBeMerged::find`: records the response key, does not descend -/
  | overlap
  /-- the validation visitor: descends, except below `__typename` -/
  | visitor
  /-- the limit walkers: descend always -/
  | limits
  deriving Repr, DecidableEq

/-- state of a memoising walk: the fragments not entered yet, the response keys seen,
    selections iterated, pair comparisons -/
structure MSt where
  rem : List FragDef
  outs : List (Option String × String) := []
  sel : Nat := 0
  cmp : Nat := 0
  deriving Repr

/-- take the fragment called `n` out of the not-yet-entered ones -/
def takeFrag (n : String) : List FragDef → Option (FragDef × List FragDef)
  | [] => none
  | f :: fs =>
    if f.name = n then some (f, fs)
    else match takeFrag n fs with
      | some (g, r) => some (g, f :: r)
      | none => none

def descends : Walk → String → Bool
  | .overlap, _ => false
  | .visitor, name => name ≠ "__typename"
  | .limits, _ => true

/-- the type an inline fragment's fields are keyed by in the overlap rule: its own type condition,
    or, without one, the enclosing type (src/validation/rules/overlapping_fields_can_be_merged.rs,
    `.or(on_type)`) -/
def inlineOn (c on : Option String) : Option String :=
  match c with
  | some x => some x
  | none => on

mutual
def mwSel (w : Walk) (rec : FragDef → MSt → MSt) (on : Option String) : Sel → MSt → MSt
  | .field al name _ _ sub _, st =>
    let key := (on, al.getD name)
    let st := if w = .overlap then
        (if st.outs.contains key then { st with cmp := st.cmp + 1 } else { st with outs := key :: st.outs })
      else st
    if descends w name then mwSels w rec on sub st else st
  | .spread n _ _, st =>
    match takeFrag n st.rem with
    | some (f, r) => rec f { st with rem := r }
    | none => st
  | .inline c _ sub _, st => mwSels w rec (inlineOn c on) sub st
def mwSels (w : Walk) (rec : FragDef → MSt → MSt) (on : Option String) : List Sel → MSt → MSt
  | [], st => st
  | s :: ss, st => mwSels w rec on ss (mwSel w rec on s { st with sel := st.sel + 1 })
end

/-- entering a fragment; every entry removes a fragment from `rem`, so `rem.length + 1` fuel
    is never exhausted -/
def mwFrag (w : Walk) : Nat → FragDef → MSt → MSt
  | 0, _, st => st
  | k + 1, f, st => mwSels w (mwFrag w k) (some f.cond) f.sels st

def mwRun (w : Walk) (d : Doc) (ss : List Sel) (st : MSt) : MSt :=
  mwSels w (mwFrag w (d.frags.length + 1)) none ss st

/-- one run of `OverlappingFieldsCanBeMerged` from a selection set: (selections, comparisons) -/
def ovRun (d : Doc) (ss : List Sel) : Nat × Nat :=
  let st := mwRun .overlap d ss { rem := d.frags }
  (st.sel, st.cmp)

def addp (a b : Nat × Nat) : Nat × Nat := (a.1 + b.1, a.2 + b.2)

def sump : List (Nat × Nat) → Nat × Nat
  | [] => (0, 0)
  | x :: xs => addp x (sump xs)

mutual
/-- the overlap rule runs at every non-empty selection set the normal pass enters -/
def owSel (d : Doc) : Sel → Nat × Nat
  | .field _ name _ _ sub _ =>
    if name = "__typename" then (0, 0)
    else if sub.isEmpty then (0, 0) else addp (ovRun d sub) (owSels d sub)
  | .spread _ _ _ => (0, 0)
  | .inline _ _ sub _ => if sub.isEmpty then (0, 0) else addp (ovRun d sub) (owSels d sub)
def owSels (d : Doc) : List Sel → Nat × Nat
  | [] => (0, 0)
  | s :: ss => addp (owSel d s) (owSels d ss)
end

def owSet (d : Doc) (ss : List Sel) : Nat × Nat :=
  if ss.isEmpty then (0, 0) else addp (ovRun d ss) (owSels d ss)

def overlapWork (c : Config) (d : Doc) : Nat × Nat :=
  addp (sump (d.frags.map fun f => owSet d f.sels))
       (sump (d.ops.map fun o => if hasRoot c o.ty then owSet d o.sels else (0, 0)))

/-- a memoising walk over all operations (state threaded through them) -/
def mwOps (w : Walk) (d : Doc) (keep : OpDef → Bool) : List OpDef → MSt → MSt
  | [], st => st
  | o :: os, st => mwOps w d keep os (if keep o then mwRun w d o.sels st else st)

/-- one inline-mode pass of a memoising visitor -/
def inlinePassMemo (c : Config) (d : Doc) : Nat :=
  (mwOps .visitor d (fun o => hasRoot c o.ty) d.ops { rem := d.frags }).sel

/-- memoising limit walker (cost only: a walker that stops early does less) -/
def limitMemo (d : Doc) : Nat :=
  (mwOps .limits d (fun _ => true) d.ops { rem := d.frags }).sel

-- ------------------------------------------------------------------ the request

inductive Stage where
  | depth | directives | done
  deriving Repr, DecidableEq

structure Counters where
  passNormal : Nat := 0
  passInline : Nat := 0
  selNormal : Nat := 0
  selInline : Nat := 0
  depthSel : Nat := 0
  dirsSel : Nat := 0
  ovSel : Nat := 0
  ovCmp : Nat := 0
  deriving Repr, DecidableEq

def Counters.toList (k : Counters) : List Nat :=
  [k.passNormal, k.passInline, k.selNormal, k.selInline, k.depthSel, k.dirsSel, k.ovSel, k.ovCmp]

/-- selection visits of all walkers (the work the property bounds) -/
def Counters.visits (k : Counters) : Nat := k.selNormal + k.selInline + k.depthSel + k.dirsSel

/-- the validation passes of a mode, from the source (`check_rules`): `true` = inline mode -/
def passModes (strict : Bool) : List Bool :=
  if strict then Gen.CostFacts.strictPasses else Gen.CostFacts.fastPasses

def countNormal (ms : List Bool) : Nat := (ms.filter fun m => !m).length
def countInline (ms : List Bool) : Nat := (ms.filter fun m => m).length

/-- passes containing `OverlappingFieldsCanBeMerged` (the extractor guarantees they are normal-mode) -/
def overlapPasses (strict : Bool) : Nat :=
  ((if strict then Gen.CostFacts.strictOverlap else Gen.CostFacts.fastOverlap).filter fun m => m).length

def inlinePass (D : Defects) (c : Config) (d : Doc) : Nat :=
  if D.inlineNoMemo then inlinePassPinned c d else inlinePassMemo c d

/-- `prepare_request`: recursion check, directive check, `check_rules`; `d.ops` in the order
    the implementation iterates them -/
def run (D : Defects) (c : Config) (d : Doc) : Stage × Counters :=
  let dp := if D.limitsNoMemo then depthPinned c d else (limitMemo d, (depthPinned c d).2)
  if !dp.2 then (.depth, { depthSel := dp.1 })
  else
    let md : Nat × Bool := match c.maxDirs with
      | none => (0, true)
      | some lim => if D.limitsNoMemo then dirsPinned c lim d else (limitMemo d, (dirsPinned c lim d).2)
    if !md.2 then (.directives, { depthSel := dp.1, dirsSel := md.1 })
    else
      let ms := passModes c.strict
      let ov := overlapWork c d
      let k := overlapPasses c.strict
      (.done, { passNormal := countNormal ms, passInline := countInline ms,
                selNormal := countNormal ms * normalPass c d, selInline := countInline ms * inlinePass D c d,
                depthSel := dp.1, dirsSel := md.1, ovSel := k * ov.1, ovCmp := k * ov.2 })

/-- the visits of a request -/
def visits (D : Defects) (c : Config) (d : Doc) : Nat := (run D c d).2.visits

end AGV.Model.Cost
