/-
  C11 — COST of input-value checking (`validation::utils::is_valid_input_value`), the ninth work
  counter of the hook (`__verif::VALUE_CHECKS`: one bump at every entry of the function).

  `is_valid_input_value(registry, type, value)` is recursive:
    * `T!`    null → error;           otherwise the same value against `T`        (one more call)
    * `[T]`   a list → the elements in order against `T`, STOPPING at the first invalid one
              (`find_map`); null → fine; any other value → the same value against `T` (coercion)
    * named   null → fine; scalar → its `is_valid`; enum → membership; input object → oneof checks,
              then the DECLARED fields in order: a supplied one is checked against its type (stop
              at the first invalid), a missing required one without default stops too; finally
              unknown supplied names are rejected.
  The calls made on ONE value form a chain through the list / non-null layers of the type (`land`);
  below that the recursion is on strictly smaller values, so `vc` is structural on the value.
  `vc` returns (calls, valid) because validity decides where the loops stop.

  Who calls it (grep of /repo/src): `ArgumentsOfCorrectType::enter_argument` (field and directive
  arguments whose definition is known, variables substituted from the request, skipped when a
  variable has no value) and `DefaultValuesOfCorrectType::enter_variable_definition` — both only
  in the normal-mode pass of Strict validation (table from the source: `Gen.CostFacts`).
  `argWork` / `defaultWork` follow `visitor.rs` with the walker's type stack.
-/
import AGV.Core.Types
import AGV.Core.VSchema
import AGV.Gen.CostFacts
import AGV.Model.Cost

namespace AGV.Model.CostValue
open AGV.Core

structure Defects where
  /-- NOT in the pinned tree (a seeded variant, kept as a witness of what the check must catch):
      the list case looks for the first invalid element and then checks that element AGAIN to
      obtain the message -/
  listRechecksInvalid : Bool := false
  deriving Repr, DecidableEq

-- ------------------------------------------------------------------ one value

inductive Shape where
  | null | list | other
  deriving Repr, DecidableEq

def shape : GValue → Shape
  | .null => .null
  | .list _ => .list
  | _ => .other

/-- where the chain of calls on one value ends -/
inductive Land where
  /-- a non-null layer met `null` -/
  | invalid
  /-- a nullable layer met `null` -/
  | valid
  /-- a list layer met a list: its elements are checked against `t` -/
  | elems (t : TypeRef)
  /-- a named type met a non-null value -/
  | named (n : String)
  deriving Repr

/-- the calls made on one value while the type is unwrapped: (number of calls, where it ends) -/
def land : TypeRef → Shape → Nat × Land
  | .nonNull t, sh =>
    if sh = .null then (1, .invalid) else let r := land t sh; (1 + r.1, r.2)
  | .list t, sh =>
    match sh with
    | .list => (1, .elems t)
    | .null => (1, .valid)
    | .other => let r := land t .other; (1 + r.1, r.2)
  | .named n, sh => if sh = .null then (1, .valid) else (1, .named n)

def i64Min : Int := -9223372036854775808
def i64Max : Int := 9223372036854775807
def u64Max : Int := 18446744073709551615

/-- `is_valid` of the built-in scalars (`Number::is_i64` etc.); custom scalars accept everything -/
def scalarOk (n : String) (v : GValue) : Bool :=
  if n = "Int" then (match v with | .int i => i64Min ≤ i && i ≤ i64Max | _ => false)
  else if n = "Float" then (match v with | .int _ => true | .float _ => true | _ => false)
  else if n = "String" then (match v with | .str _ => true | _ => false)
  else if n = "Boolean" then (match v with | .bool _ => true | _ => false)
  else if n = "ID" then (match v with | .int i => i64Min ≤ i && i ≤ u64Max | .str _ => true | _ => false)
  else true

def input? (S : VSchema) (n : String) : Option InputDef := S.inputs.find? (·.name = n)

/-- a non-null value that is not an object literal for an input object, against the named type `n` -/
def namedLeaf (S : VSchema) (n : String) (v : GValue) : Bool :=
  match S.base.find? n with
  | none => true
  | some t =>
    match t.kind with
    | .scalar => scalarOk n v
    | .enum => (match v with
        | .enum e => t.values.contains e
        | .str s => t.values.contains s
        | _ => false)
    | .input => false
    | _ => true

/-- number of distinct keys (an object literal is collected into an `IndexMap`) -/
def keyCount (fs : List (String × GValue)) : Nat := (fs.map (·.1)).eraseDups.length

/-- the two oneof pre-checks: exactly one key, and its value is not null -/
def oneofBad (fs : List (String × GValue)) : Bool :=
  keyCount fs != 1 || (match fs.getLast? with | some (_, .null) => true | _ => false)

/-- the loop over the DECLARED fields: `look` finds the supplied value of a field and checks it -/
def seqDefs (look : String → TypeRef → Option (Nat × Bool)) : List ArgDef → Nat × Bool
  | [] => (0, true)
  | f :: rest =>
    match look f.name f.ty with
    | some r =>
      if r.2 then
        let r' := seqDefs look rest
        (r.1 + r'.1, r'.2)
      else (r.1, false)
    | none =>
      if f.ty.isNonNull && f.default.isNone then (0, false) else seqDefs look rest

/-- a value that is neither a list nor an object -/
def leaf (S : VSchema) (v : GValue) (t : TypeRef) : Nat × Bool :=
  match land t (shape v) with
  | (k, .named n) => (k, namedLeaf S n v)
  | (k, .valid) => (k, true)
  | (k, _) => (k, false)

mutual
/-- `is_valid_input_value`: (calls, no reason returned) -/
def vc (D : Defects) (S : VSchema) : GValue → TypeRef → Nat × Bool
  | .list xs, t =>
    match land t .list with
    | (k, .elems t') => let r := vcList D S xs t'; (k + r.1, r.2)
    | (k, .named n) => (k, namedLeaf S n (.list xs))
    | (k, .valid) => (k, true)
    | (k, .invalid) => (k, false)
  | .obj fs, t =>
    match land t .other with
    | (k, .named n) =>
      (match input? S n with
       | some idef =>
         if idef.oneof && oneofBad fs then (k, false)
         else
           let r := seqDefs (fun nm ty => vcFind D S fs nm ty) idef.fields
           (k + r.1, r.2 && fs.all (fun p => idef.fields.any (·.name = p.1)))
       | none => (k, namedLeaf S n (.obj fs)))
    | (k, .valid) => (k, true)
    | (k, _) => (k, false)
  | .null, t => leaf S .null t
  | .int i, t => leaf S (.int i) t
  | .float x, t => leaf S (.float x) t
  | .str s, t => leaf S (.str s) t
  | .bool b, t => leaf S (.bool b) t
  | .enum e, t => leaf S (.enum e) t
/-- the elements of a list, in order, up to the first invalid one -/
def vcList (D : Defects) (S : VSchema) : List GValue → TypeRef → Nat × Bool
  | [], _ => (0, true)
  | x :: r, t =>
    let a := vc D S x t
    if a.2 then
      let b := vcList D S r t
      (a.1 + b.1, b.2)
    else (if D.listRechecksInvalid then a.1 + a.1 else a.1, false)
/-- `values.get(name)` (the LAST occurrence of a repeated key wins) and the check of that value -/
def vcFind (D : Defects) (S : VSchema) : List (String × GValue) → String → TypeRef → Option (Nat × Bool)
  | [], _, _ => none
  | (k, v) :: r, nm, ty =>
    match vcFind D S r nm ty with
    | some x => some x
    | none => if k = nm then some (vc D S v ty) else none
end
/-- number of `is_valid_input_value` calls made for `v` against `t` -/
def valueChecks (S : VSchema) (t : TypeRef) (v : GValue) : Nat := (vc {} S v t).1

/-- … of the seeded variant -/
def valueChecksRecheck (S : VSchema) (t : TypeRef) (v : GValue) : Nat :=
  (vc { listRechecksInvalid := true } S v t).1

-- ------------------------------------------------------------------ the document

mutual
/-- `Value::into_const_with`: `none` as soon as one variable has no value -/
def toConst (vars : Option (List (String × GValue))) : DValue → Option GValue
  | .var n => (match vars with
      | some vs => (vs.find? (·.1 = n)).map (·.2)
      | none => none)
  | .null => some .null
  | .int i => some (.int i)
  | .float t => some (.float t)
  | .str s => some (.str s)
  | .bool b => some (.bool b)
  | .enum n => some (.enum n)
  | .list xs => (toConstList vars xs).map .list
  | .obj fs => (toConstFields vars fs).map .obj
def toConstList (vars : Option (List (String × GValue))) : List DValue → Option (List GValue)
  | [] => some []
  | x :: xs => match toConst vars x, toConstList vars xs with
    | some a, some as => some (a :: as)
    | _, _ => none
def toConstFields (vars : Option (List (String × GValue))) : List (String × DValue) → Option (List (String × GValue))
  | [] => some []
  | (k, x) :: xs => match toConst vars x, toConstFields vars xs with
    | some a, some as => some ((k, a) :: as)
    | _, _ => none
end

/-- `registry.types.get(name)` as the name of a registered type -/
def known (S : VSchema) (n : String) : Option String :=
  if (S.base.find? n).isSome then some n else none

/-- `MetaType::field_by_name` on the walker's current type (objects and interfaces only) -/
def fieldDef? (S : VSchema) (cur : Option String) (fname : String) : Option FieldDef :=
  match cur with
  | none => none
  | some t =>
    match S.base.find? t with
    | some td =>
      (match td.kind with
       | .object => td.fields.find? (·.name = fname)
       | .interface => td.fields.find? (·.name = fname)
       | _ => none)
    | none => none

/-- `ArgumentsOfCorrectType::enter_argument` for one argument, `defs` = `current_args` -/
def argCost (D : Defects) (S : VSchema) (vars : Option (List (String × GValue))) (defs : Option (List ArgDef))
    (a : String × DValue) : Nat :=
  match defs with
  | none => 0
  | some ds =>
    match ds.find? (·.name = a.1) with
    | none => 0
    | some d =>
      match toConst vars a.2 with
      | none => 0
      | some c => (vc D S c d.ty).1

def argsCost (D : Defects) (S : VSchema) (vars : Option (List (String × GValue))) (defs : Option (List ArgDef)) :
    List (String × DValue) → Nat
  | [] => 0
  | a :: as => argCost D S vars defs a + argsCost D S vars defs as

/-- `visit_directives`: `current_args` = the arguments of the registered directive of that name -/
def dirsCost (D : Defects) (S : VSchema) (vars : Option (List (String × GValue))) : List Dir → Nat
  | [] => 0
  | d :: ds =>
    argsCost D S vars ((S.dirs.find? (·.name = d.name)).map (·.args)) d.args + dirsCost D S vars ds

mutual
/-- the normal-mode walk with the type stack: `cur` = `current_type()` of the enclosing selection set -/
def wSel (D : Defects) (S : VSchema) (vars : Option (List (String × GValue))) (cur : Option String) : Sel → Nat
  | .field _ name args dirs sub _ =>
    if name = "__typename" then 0
    else
      let fd := fieldDef? S cur name
      let cur' := match fd with
        | some f => known S f.ty.base
        | none => none
      argsCost D S vars (fd.map (·.args)) args + dirsCost D S vars dirs + wSels D S vars cur' sub
  | .spread _ dirs _ => dirsCost D S vars dirs
  | .inline c dirs sub _ =>
    dirsCost D S vars dirs + wSels D S vars (match c with | some n => known S n | none => cur) sub
def wSels (D : Defects) (S : VSchema) (vars : Option (List (String × GValue))) (cur : Option String) : List Sel → Nat
  | [] => 0
  | s :: ss => wSel D S vars cur s + wSels D S vars cur ss
end

/-- the root type of an operation (`none`: the schema has no such root — the operation is not walked) -/
def rootOf (S : VSchema) : OpType → Option String
  | .query => some S.base.query
  | .mutation => S.base.mutation
  | .subscription => S.base.subscription

/-- the request: variables and the selected operation name -/
structure Req where
  vars : List (String × GValue) := []
  opName : Option String := none
  deriving Repr

/-- `in_unselected_operation`: the variables do not apply -/
def varsFor (r : Req) (o : OpDef) : Option (List (String × GValue)) :=
  match r.opName, o.name with
  | some sel, some n => if sel ≠ n then none else some r.vars
  | _, _ => some r.vars

/-- calls made by `ArgumentsOfCorrectType` in one normal-mode pass -/
def argWork (D : Defects) (S : VSchema) (r : Req) (d : Doc) : Nat :=
  (d.frags.map fun f => dirsCost D S (some r.vars) f.dirs + wSels D S (some r.vars) (known S f.cond) f.sels).sum
    + (d.ops.map fun o => match rootOf S o.ty with
        | some root => dirsCost D S (varsFor r o) o.dirs + wSels D S (varsFor r o) (some root) o.sels
        | none => 0).sum

/-- `BaseType::Named(n)` with `n` not registered: the rule reports the unknown type and returns -/
def unknownBase (S : VSchema) : TypeRef → Bool
  | .named n => (S.base.find? n).isNone
  | .nonNull (.named n) => (S.base.find? n).isNone
  | _ => false

/-- `DefaultValuesOfCorrectType::enter_variable_definition` -/
def defaultCost (D : Defects) (S : VSchema) (v : VarDef) : Nat :=
  if unknownBase S v.ty then 0
  else match v.default with
    | some dv => (vc D S dv v.ty).1
    | none => 0

def defaultWork (D : Defects) (S : VSchema) (d : Doc) : Nat :=
  (d.ops.map fun o => match rootOf S o.ty with
    | some _ => (o.vars.map (defaultCost D S)).sum
    | none => 0).sum

def count (l : List Bool) : Nat := (l.filter fun b => b).length

/-- passes that contain `ArgumentsOfCorrectType` / `DefaultValuesOfCorrectType` (from the source;
    the extractor guarantees they are normal-mode passes) -/
def argPasses (strict : Bool) : Nat :=
  count (if strict then Gen.CostFacts.strictArgValues else Gen.CostFacts.fastArgValues)
def defaultPasses (strict : Bool) : Nat :=
  count (if strict then Gen.CostFacts.strictDefaultValues else Gen.CostFacts.fastDefaultValues)

/-- the ninth counter of a request whose validation ran -/
def valueTotal (D : Defects) (S : VSchema) (strict : Bool) (r : Req) (d : Doc) : Nat :=
  argPasses strict * argWork D S r d + defaultPasses strict * defaultWork D S d

/-- … of a request: validation runs only when the two limit checks passed -/
def valueCounter (D : Defects) (S : VSchema) (strict : Bool) (r : Req) (d : Doc) (stage : Cost.Stage) : Nat :=
  if stage = .done then valueTotal D S strict r d else 0

end AGV.Model.CostValue
