/-
  Model of the built-in scalar mappings (property C07), mirroring the code as it is:

    src/types/external/integers.rs, non_zero_integers.rs   `parseInt` / `toValueInt` / `isValidInt`
        driven by the table `AGV.Gen.IntScalars.table`, which srcfacts extracts from every
        `impl ScalarType for <int type>` (accessor, the disjuncts of the rejecting `if`, the cast
        of the result, the cast in `to_value`, the predicate of `is_valid`)
    src/types/external/floats.rs        `parseF64`, `parseF32`, `toValueF64`, `toValueF32`
    src/types/external/{bool,string,char}.rs, src/types/id.rs
    src/resolver_utils/enum.rs          `parseEnum`, `enumValue`

  `serde_json::Number` (no `arbitrary_precision`): `as_i64` succeeds for NegInt and for PosInt
  ≤ i64::MAX, `as_u64` for PosInt only, both fail for Float; `as_f64` always succeeds
  (`n as f64`, round to nearest even).

  Defect toggles (true = behaviour of the pinned tree):
    idRejectsLargeUint   `ID` accepts a number only `if n.is_i64()`: integers in
                         (i64::MAX, u64::MAX] are refused although they are integers
    nonFiniteToNull      `to_value` of NaN/±∞ is `null` (a `Number` cannot hold them), which
                         `parse` rejects: non-finite floats do not round-trip
    nonZeroUnsignedIsValidI64
                         `is_valid` of NonZeroU* tests `is_i64()` instead of `is_u64()`
    intValidatorOfFirstRegistered
                         all twenty integer scalars register the GraphQL name `Int`, the registry
                         keeps the `is_valid` of whichever Rust type registered first
                         (`Registry::create_type`: an existing name is left alone), and the pinned
                         validators differ (`is_i64()` for the signed, `is_u64()` for the unsigned
                         types): a position of another integer type is validated with the wrong
                         64-bit view (section "through a schema")
-/
import AGV.Gen.IntScalars
import AGV.Spec.Scalars

namespace AGV.Model.Scalars
open AGV.Gen.IntScalars
open AGV.Spec.Scalars (GValue RVal)

structure Defects where
  idRejectsLargeUint : Bool := false
  nonFiniteToNull : Bool := false
  nonZeroUnsignedIsValidI64 : Bool := false
  intValidatorOfFirstRegistered : Bool := false
  deriving DecidableEq, Repr

def Defects.none : Defects := {}

inductive Err where
  | expectedType | invalidNumber | range | charEmpty | charMany | enumUnknown
  deriving DecidableEq, Repr

/-- outcome of a Rust call -/
inductive Res (α : Type) where
  | ok (a : α)
  | err (e : Err)
  | panic
  deriving DecidableEq, Repr

def Res.map {α β} (f : α → β) : Res α → Res β
  | .ok a => .ok (f a)
  | .err e => .err e
  | .panic => .panic

-- ------------------------------------------------------------------ numbers

def i64Min : Int := -9223372036854775808
def i64Max : Int := 9223372036854775807
def u64Max : Int := 18446744073709551615

/-- `Number::as_i64` / `Number::as_u64` (and `is_i64` / `is_u64`) succeed on an integer number;
    the value they return is the number itself -/
def readable : Acc → Int → Prop
  | .i64, i => i64Min ≤ i ∧ i ≤ i64Max
  | .u64, i => 0 ≤ i ∧ i ≤ u64Max

instance (a : Acc) (i : Int) : Decidable (readable a i) := by
  cases a <;> unfold readable <;> infer_instance

/-- `readable` as a Boolean test -/
def readableB : Acc → Int → Bool
  | .i64, i => decide (i64Min ≤ i) && decide (i ≤ i64Max)
  | .u64, i => decide (0 ≤ i) && decide (i ≤ u64Max)

def cmpHolds : Cmp → Int → Int → Bool
  | .lt, a, b => a < b
  | .gt, a, b => a > b
  | .eq, a, b => a = b
  | .le, a, b => a ≤ b
  | .ge, a, b => a ≥ b
  | .ne, a, b => a ≠ b

/-- `n as <prim>`: two's-complement wrap -/
def wrap (p : Prim) (n : Int) : Int :=
  let m : Int := (2 : Int) ^ p.bits
  let r := n % m
  if p.signed = true ∧ r ≥ (2 : Int) ^ (p.bits - 1) then r - m else r

-- ------------------------------------------------------------------ integers

/-- `<T as ScalarType>::parse` for an integer scalar `T` described by `t` -/
def parseInt (t : Entry) : GValue → Res Int
  | .int n =>
    if ¬ readable t.accessor n then .err .invalidNumber
    else if t.reject.any (fun c => cmpHolds c.1 n c.2) then .err .range
    else
      let r := wrap t.cast n
      if t.nonZero = true ∧ r = 0 then .panic else .ok r
  | .float _ => .err .invalidNumber      -- `as_i64`/`as_u64` of an `N::Float` is `None`
  | _ => .err .expectedType

/-- `to_value`: `Number::from(*self as i64|u64)` -/
def toValueInt (t : Entry) (r : Int) : GValue :=
  .int (wrap ⟨64, t.toValueAs = .i64⟩ r)

/-- `is_valid` (used by the validation rules before `parse` is ever called): the disjunction of
    `is_i64()` / `is_u64()` tests the source has (`isValid`, `isValidOr`) -/
def isValidInt (D : Defects) (t : Entry) : GValue → Bool
  | .int i =>
    -- NonZeroU*: the pinned tree tested `is_i64()` (finding C07-nonzero-unsigned-isvalid-i64)
    if t.nonZero = true ∧ t.accessor = .u64 ∧ D.nonZeroUnsignedIsValidI64 = true then readableB .i64 i
    else readableB t.isValid i || t.isValidOr.any (fun a => readableB a i)
  | _ => false

-- ------------------------------------------------------------------ floats (bit patterns)

/-- Bits (sign excluded) of the IEEE-754 binary float with `mb` explicit mantissa bits and `eb`
    exponent bits that is nearest (ties to even) to `m * 2^e`; overflow gives infinity. -/
def roundFloat (mb eb : Nat) (m : Nat) (e : Int) : Nat :=
  if m = 0 then 0 else
  let bias : Int := (2 : Int) ^ (eb - 1) - 1
  let qmin : Int := 1 - bias - mb
  let len : Int := (Nat.log2 m + 1 : Nat)
  let q0 : Int := e + len - (mb + 1)
  let q : Int := if q0 < qmin then qmin else q0
  let sig : Nat :=
    if q ≤ e then m <<< (e - q).toNat
    else
      let sh := (q - e).toNat
      let fl := m >>> sh
      let rem := m % 2 ^ sh
      let half := 2 ^ (sh - 1)
      if rem > half ∨ (rem = half ∧ fl % 2 = 1) then fl + 1 else fl
  let sig' : Nat := if sig = 2 ^ (mb + 1) then 2 ^ mb else sig
  let q' : Int := if sig = 2 ^ (mb + 1) then q + 1 else q
  if sig' < 2 ^ mb then sig'
  else
    let be : Int := q' + mb + bias
    if be ≥ (2 : Int) ^ eb - 1 then (2 ^ eb - 1) * 2 ^ mb
    else be.toNat * 2 ^ mb + (sig' - 2 ^ mb)

/-- `i as f64` -/
def f64OfInt (i : Int) : Nat :=
  (if i < 0 then 2 ^ 63 else 0) + roundFloat 52 11 i.natAbs 0

def finite64 (b : Nat) : Bool := (b / 2 ^ 52) % 2048 ≠ 2047
def finite32 (b : Nat) : Bool := (b / 2 ^ 23) % 256 ≠ 255

/-- `x as f32` (non-finite patterns, which no `Number` holds, keep their top payload bits) -/
def narrow (b : Nat) : Nat :=
  let s := b / 2 ^ 63 % 2
  let ex : Nat := b / 2 ^ 52 % 2048
  let mant := b % 2 ^ 52
  if ex = 2047 then s * 2 ^ 31 + 255 * 2 ^ 23 + mant / 2 ^ 29 else
  let m := if ex = 0 then mant else 2 ^ 52 + mant
  let e : Int := if ex = 0 then -1074 else (ex : Int) - 1075
  s * 2 ^ 31 + roundFloat 23 8 m e

/-- `x as f64` for an `f32` (exact) -/
def widen (b : Nat) : Nat :=
  let s := b / 2 ^ 31 % 2
  let ex : Nat := b / 2 ^ 23 % 256
  let mant := b % 2 ^ 23
  if ex = 255 then s * 2 ^ 63 + 2047 * 2 ^ 52 + mant * 2 ^ 29 else
  let m := if ex = 0 then mant else 2 ^ 23 + mant
  let e : Int := if ex = 0 then -149 else (ex : Int) - 150
  s * 2 ^ 63 + roundFloat 52 11 m e

def parseF64 : GValue → Res Nat
  | .int i => .ok (f64OfInt i)
  | .float b => .ok b
  | _ => .err .expectedType

def parseF32 : GValue → Res Nat
  | .int i => .ok (narrow (f64OfInt i))
  | .float b => .ok (narrow b)
  | _ => .err .expectedType

/-- `Number::from_f64(x)` is `None` for NaN/±∞, then `to_value` gives `null` -/
def toValueF64 (D : Defects) (b : Nat) : GValue :=
  if finite64 b ∨ !D.nonFiniteToNull then .float b else .null

def toValueF32 (D : Defects) (b : Nat) : GValue :=
  if finite32 b ∨ !D.nonFiniteToNull then .float (widen b) else .null

-- ------------------------------------------------------------------ bool, String, char, ID

def parseBool : GValue → Res Bool
  | .bool b => .ok b
  | _ => .err .expectedType

def parseString : GValue → Res (List Char)
  | .str s => .ok s
  | _ => .err .expectedType

def parseChar : GValue → Res Char
  | .str s =>
    match s with
    | [] => .err .charEmpty
    | [c] => .ok c
    | _ :: _ :: _ => .err .charMany
  | _ => .err .expectedType

/-- `Value::Number(n) if n.is_i64() => ID(n.to_string())`, `Value::String(s) => ID(s)` -/
def parseId (D : Defects) : GValue → Res (List Char)
  | .int i =>
    if readable .i64 i ∨ (D.idRejectsLargeUint = false ∧ readable .u64 i)
    then .ok (Spec.Scalars.decimal i) else .err .expectedType
  | .str s => .ok s
  | _ => .err .expectedType

-- ------------------------------------------------------------------ derived enums

/-- `parse_enum`: enum or string value, first item whose name matches -/
def parseEnum (items : List (List Char × Nat)) : GValue → Res Nat
  | .enum n =>
    match items.find? (fun it => it.1 = n) with
    | some it => .ok it.2
    | none => .err .enumUnknown
  | .str n =>
    match items.find? (fun it => it.1 = n) with
    | some it => .ok it.2
    | none => .err .enumUnknown
  | _ => .err .expectedType

/-- `enum_value`: first item with that value, `unwrap` -/
def enumValue (items : List (List Char × Nat)) (v : Nat) : Option GValue :=
  (items.find? (fun it => it.2 = v)).map (fun it => .enum it.1)

-- ------------------------------------------------------------------ all types

inductive Ty where
  | int (t : Entry)
  | f64 | f32 | bool | string | char | id
  | enum (items : List (List Char × Nat))

/-- `<T as InputType>::parse(Some(v))` -/
def parse (D : Defects) : Ty → GValue → Res RVal
  | .int t, v => (parseInt t v).map .int
  | .f64, v => (parseF64 v).map .f64
  | .f32, v => (parseF32 v).map .f32
  | .bool, v => (parseBool v).map .bool
  | .string, v => (parseString v).map .str
  | .char, v => (parseChar v).map .char
  | .id, v => (parseId D v).map .id
  | .enum items, v => (parseEnum items v).map .enumV

/-- `<T as InputType>::to_value(&r)`; `none` = the Rust call panics or `r` is not a `T` -/
def toValue (D : Defects) : Ty → RVal → Option GValue
  | .int t, .int i => some (toValueInt t i)
  | .f64, .f64 b => some (toValueF64 D b)
  | .f32, .f32 b => some (toValueF32 D b)
  | .bool, .bool b => some (.bool b)
  | .string, .str s => some (.str s)
  | .char, .char c => some (.str [c])
  | .id, .id s => some (.str s)
  | .enum items, .enumV v => enumValue items v
  | _, _ => none

/-- `<T as ScalarType>::is_valid(&v)`, the pre-check the validation rules apply to literals and
    variable values before `parse` is reached; derived enums have none.  `ID` shares the
    `is_i64()` guard of its `parse`. -/
def isValid (D : Defects) : Ty → GValue → Option Bool
  | .int t, v => some (isValidInt D t v)
  | .f64, v | .f32, v => some (match v with | .int _ => true | .float _ => true | _ => false)
  | .bool, v => some (match v with | .bool _ => true | _ => false)
  | .string, v | .char, v => some (match v with | .str _ => true | _ => false)
  | .id, v => some (match v with
      | .int i => decide (readable .i64 i ∨ (D.idRejectsLargeUint = false ∧ readable .u64 i))
      | .str _ => true
      | _ => false)
  | .enum _, _ => none

-- ------------------------------------------------------------------ through a schema

/-  An argument of integer type `t` reached through a schema (static or dynamic, or any
    `Registry`): the validation rule ArgumentsOfCorrectType (literals and variable values alike;
    DefaultValuesOfCorrectType for variable defaults) calls `is_valid_input_value`, which applies
    the `is_valid` closure stored in the registry under the GraphQL name of the position's type —
    `Int` for all twenty integer scalars.  `Registry::create_type` stores a type only when the name
    is new: the closure is the one of the Rust type REGISTERED FIRST under `Int`
    (`order` = the Rust integer types in the order of their registration; a `Schema` registers
    `add_system_types`' `i32` before any user type).  What passes validation reaches
    `<t as ScalarType>::parse` in the resolver.  -/

inductive Stage where
  | validation | execution
  deriving DecidableEq, Repr

inductive SRes where
  | accepted (r : Int)
  | rejected (s : Stage)
  | crash
  deriving DecidableEq, Repr

/-- `is_valid` of the pinned tree: the same 64-bit view `parse` asks for -/
def pinnedValidInt (t : Entry) : GValue → Bool
  | .int i => readableB t.accessor i
  | _ => false

/-- the validation pre-check applied to a value at a position of type `t`.
    Pinned (toggle on): the pinned `is_valid` of the first registered integer type;
    repaired (toggle off): the position's own type decides (its `is_valid` as the source has it) -/
def schemaValid (D : Defects) (order : List Entry) (t : Entry) (v : GValue) : Bool :=
  if D.intValidatorOfFirstRegistered then pinnedValidInt (order.headD t) v else isValidInt D t v

/-- answer to a request that offers `v` to an argument of type `t` -/
def schemaAnswer (D : Defects) (order : List Entry) (t : Entry) (v : GValue) : SRes :=
  if schemaValid D order t v = false then .rejected .validation
  else match parseInt t v with
    | .ok r => .accepted r
    | .err _ => .rejected .execution
    | .panic => .crash

/-- what probing a validator with -1 and 2^63 tells -/
inductive VClass where
  | i64 | u64 | any | other
  deriving DecidableEq, Repr

def classOfProbes : Bool → Bool → VClass
  | true, false => .i64
  | false, true => .u64
  | true, true => .any
  | false, false => .other

/-- class of the validator `schemaValid` uses -/
def schemaValidatorClass (D : Defects) (order : List Entry) (t : Entry) : VClass :=
  classOfProbes (schemaValid D order t (.int (-1))) (schemaValid D order t (.int 9223372036854775808))

end AGV.Model.Scalars
