/-
  C20 — model of the response cache policy, mirroring the Rust code as it is:

  * `CC`, `merge`, `CC.default`, `value`   src/registry/cache_control.rs
        (the match arms of `merge` and the text pieces of `value` come from Gen/CacheMerge.lean)
  * `visitSet`                              src/validation/visitor.rs in `VisitMode::Inline`
        (`visit_selection_set`, `visit_selection`, `visit_field`, `visit_fragment_spread`,
         `visit_inline_fragment`, `with_type`, `current_type`/`parent_type`) together with the
        two hooks of `CacheControlCalculate` (src/validation/visitors/cache_control.rs):
        the model lists, in visiting order, the *keys* of the hints the hooks merge
  * `policy`                                `check_rules`: every operation of the document is
        visited, starting from `CacheControl::default()`
  * `batchPolicy`                           `BatchResponse::cache_control` (src/response.rs)

  Type stack.  `visit_selection` pushes the (concrete, unwrapped) type of a field before
  `visit_field`, so inside `enter_field` the *parent* type is the type the selection set was
  entered with (`cur`), and the field's own selection set is entered with the field's type.
  An inline fragment with a type condition pushes that type; without one it pushes nothing.
  `visit_fragment_spread` pushes NOTHING (pinned tree): the fragment's selection set is visited
  with the type of the spread's surroundings — toggle `spreadKeepsParentType`.
  `enter_selection_set` only looks at `MetaType::Object`, `enter_field` only at the static parent
  type — toggle `abstractTypeIgnoresImplementors`.  With both toggles off the model is the
  repaired visitor of fixes/C20-abstract-types.diff.

  Recursion through named fragments is by `fuel` (the Rust visitor recurses without a bound;
  documents that reach it have passed NoFragmentCycles).  Import-free apart from Core and Gen.
-/
import AGV.Core.Types
import AGV.Core.Cache
import AGV.Gen.CacheMerge

namespace AGV.Model.CacheControl
open AGV.Core AGV.Core.Cache

/-- `CacheControl::default()` -/
def CC.default : CC := ⟨Gen.CacheMerge.defaultPublic, Gen.CacheMerge.defaultMaxAge⟩

/-- `CacheControl::merge` -/
def merge (a b : CC) : CC :=
  ⟨Gen.CacheMerge.mergePublic a.isPublic b.isPublic, Gen.CacheMerge.mergeAge a.maxAge b.maxAge⟩

/-- `CacheControl::value` (the `Cache-Control` header text) -/
def value (c : CC) : Option String :=
  let v := if c.maxAge > 0 then Gen.CacheMerge.maxAgePrefix ++ toString c.maxAge
           else if c.maxAge = -1 then Gen.CacheMerge.noCacheText
           else ""
  let v := if !c.isPublic then (if v ≠ "" then v ++ Gen.CacheMerge.separator else v) ++ Gen.CacheMerge.privateText
           else v
  if v ≠ "" then some v else none

structure Defects where
  /-- pinned: hints of the possible types of an interface / union are never consulted -/
  abstractTypeIgnoresImplementors : Bool := false
  /-- pinned: `visit_fragment_spread` does not switch to the fragment's type condition -/
  spreadKeepsParentType : Bool := false
  deriving Repr, Inhabited

def Defects.pinned : Defects := { abstractTypeIgnoresImplementors := true, spreadKeepsParentType := true }

def isAbstract (S : Schema) (n : String) : Bool :=
  match S.kindOf n with
  | some .interface => true
  | some .union => true
  | _ => false

/-- `ctx.registry.types.get(name)` as the name of the registered type -/
def typeNamed (S : Schema) (n : String) : Option String := (S.find? n).map (·.name)

/-- `enter_selection_set` with `current_type() = cur` -/
def enterSet (D : Defects) (S : Schema) (cur : Option String) : List Key :=
  match cur with
  | none => []
  | some t =>
    match S.kindOf t with
    | some .object => [⟨t, none⟩]
    | _ =>
      if D.abstractTypeIgnoresImplementors then []
      else (S.possibleTypes t).map (fun o => ⟨o, none⟩)

/-- `enter_field` of a field `f` with `parent_type() = cur` -/
def enterField (D : Defects) (S : Schema) (cur : Option String) (f : String) : List Key :=
  match cur with
  | none => []
  | some t =>
    (match S.field? t f with
     | some _ => [⟨t, some f⟩]
     | none => []) ++
    (if D.abstractTypeIgnoresImplementors || !isAbstract S t then []
     else (S.possibleTypes t).filterMap (fun o => (S.field? o f).map (fun _ => ⟨o, some f⟩)))

/-- the type pushed by `visit_selection` for a field `f` selected on `cur` -/
def fieldType (S : Schema) (cur : Option String) (f : String) : Option String :=
  match cur with
  | none => none
  | some t =>
    match S.field? t f with
    | some fd => typeNamed S fd.ty.base
    | none => none

/-- `visit_selection_set` in Inline mode: the keys of the hints merged, in visiting order -/
def visitSet (D : Defects) (S : Schema) (d : Doc) : Nat → Option String → List Sel → List Key
  | 0, _, _ => []
  | fuel + 1, cur, sels =>
    if sels.isEmpty then []
    else
      enterSet D S cur ++
      sels.flatMap (fun sel =>
        match sel with
        | .field _ name _ _ ss _ =>
          if name = "__typename" then []
          else enterField D S cur name ++ visitSet D S d fuel (fieldType S cur name) ss
        | .spread name _ _ =>
          match d.frag? name with
          | none => []
          | some fr =>
            visitSet D S d fuel (if D.spreadKeepsParentType then cur else typeNamed S fr.cond) fr.sels
        | .inline cond _ ss _ =>
          match cond with
          | some t => visitSet D S d fuel (typeNamed S t) ss
          | none => visitSet D S d fuel cur ss)

def rootOf (S : Schema) (op : OpDef) : Option String :=
  match op.ty with
  | .query => some S.query
  | .mutation => S.mutation
  | .subscription => S.subscription

/-- `visit`: all operations of the document, in order -/
def visitDoc (D : Defects) (S : Schema) (d : Doc) (fuel : Nat) : List Key :=
  d.ops.flatMap (fun op =>
    match rootOf S op with
    | some r => visitSet D S d fuel (typeNamed S r) op.sels
    | none => [])

/-- `*self.cache_control = self.cache_control.merge(hint)` at every key, from the default -/
def foldHints (H : Hints) (ks : List Key) : CC := ks.foldl (fun acc k => merge acc (hintOf H k)) CC.default

/-- `ValidationResult.cache_control` = `Response.cache_control` of an accepted request -/
def policy (D : Defects) (S : Schema) (H : Hints) (d : Doc) (fuel : Nat) : CC :=
  foldHints H (visitDoc D S d fuel)

/-- `BatchResponse::cache_control` of `Batch(items)` -/
def batchPolicy (items : List CC) : CC := items.foldl merge CC.default

/-- enough fuel for every document without fragment cycles (one level per nesting step) -/
def selDepth : List Sel → Nat
  | [] => 0
  | .field _ _ _ _ ss _ :: r => 1 + selDepth ss + selDepth r
  | .spread _ _ _ :: r => 1 + selDepth r
  | .inline _ _ ss _ :: r => 1 + selDepth ss + selDepth r

def fuelBound (d : Doc) : Nat :=
  2 + (d.ops.map (fun o => 1 + selDepth o.sels)).sum + (d.frags.map (fun f => 1 + selDepth f.sels)).sum

end AGV.Model.CacheControl
