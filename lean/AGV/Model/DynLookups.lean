import AGV.Model.DynCheck
/-
  C33 — the look-ups the library performs on a schema that was built, which panic when the name
  is absent (indexing `IndexMap[...]`, `panic!("Type '{}' not found!")`):

  * `registry.types[&registry.query_type]`            src/model/schema.rs (`__schema.queryType`)
  * `registry.types[root_name]`                        src/validation/visitor.rs
        (`visit_operation_definition`: the root of the operation being validated — query,
         mutation if configured, subscription if configured)
  * `schema.0.types[type_name]`                        src/dynamic/resolve.rs (`resolve`: the named
        type of a field that returned a value)
  * `__Type::new(registry, name)`                      src/model/type.rs (`type`/`ofType` of every
        field, argument and input field during introspection)

  The registry holds the system scalars, the user types and the introspection types; the type
  map of the schema holds the user types and the system scalars.
-/
namespace AGV.Model.DynLookups
open AGV.Model.DynCheck

inductive Lookup where
  | queryRoot | mutationRoot | subscriptionRoot
  | fieldType (owner field : String)
  | argType (owner field arg : String)
  | inputFieldType (owner field : String)
  deriving Repr, DecidableEq

def ofFields (owner : String) (fs : List Field) : List (Lookup × String) :=
  fs.flatMap (fun f => (Lookup.fieldType owner f.name, f.ty.typeName) ::
    f.args.map (fun a => (Lookup.argType owner f.name a.name, a.ty.typeName)))

/-- every look-up with the name it is made with -/
def lookups (T : TypeSystem) : List (Lookup × String) :=
  [(Lookup.queryRoot, T.query)] ++ (T.mutation.toList.map fun m => (Lookup.mutationRoot, m)) ++
  (T.subscription.toList.map fun s => (Lookup.subscriptionRoot, s)) ++
  T.types.flatMap (fun t => match t with
    | .object n _ fs | .interface n _ fs | .subscription n fs => ofFields n fs
    | .inputObject n _ fs => fs.map (fun f => (Lookup.inputFieldType n f.name, f.ty.typeName))
    | _ => [])

/-- a name is defined when the type map built by `finish` has it (user types + system scalars;
    the registry has the same names plus the introspection types) -/
def defined (T : TypeSystem) (n : String) : Bool := (getType (allTypes T) n).isSome

def undefinedLookups (T : TypeSystem) : List Lookup :=
  ((lookups T).filter (fun p => !defined T p.2)).map (·.1)

/-- what the harness observes of an accepted schema: which exercised operation panics.  Only the
    subscription root can be undefined on an accepted schema (and only in the pinned tree). -/
def observedPanics (T : TypeSystem) : List String :=
  if (undefinedLookups T).contains .subscriptionRoot then ["subscription_execute"] else []

/-- `finish` followed by the harness's exercise -/
def run (D : Defects) (T : TypeSystem) : Except String (List String) :=
  match check D T with
  | .error e => .error e
  | .ok () => .ok (observedPanics T)

end AGV.Model.DynLookups
