/-
  Model of the post-parse logic of `receive_batch_multipart` (src/http/multipart.rs) and of
  `Request::set_upload` (src/request.rs), property C24.

  multer's framing is library behaviour: the model starts from the list of parts in arrival
  order.  What multer contributes to the *decision* is modelled, because the options become
  multer constraints:

    * `SizeLimit::whole_stream(max_file_size * max_num_files)` when both options are set: the
      reader is drained on the first poll, so a body longer than that is rejected before any
      part is looked at (`bodyLen` is the byte length of the whole body);
    * `SizeLimit::per_field(max_file_size)`: applies to EVERY part (operations, map, files and
      parts that are skipped), content length `> limit` → `FieldSizeExceeded`;
    * both map to `ParseRequestError::PayloadTooLarge`.

  A variables tree is `T Nat`: `ext k` is the string `#__graphql_file__:k` written by
  `set_upload` (the original variables are assumed not to contain such strings — forged markers
  are property C12).  Objects are association lists with pairwise distinct keys (what a map
  keeps), looked up by first match.

  Defect toggles (`true` = behaviour of the pinned tree):
    numFilesNotCounted   `max_num_files` only enters the byte budget `max_file_size ×
                         max_num_files`; the number of file parts is never compared with it
    ignoreUnresolvable   a map path that addresses nothing (`set_upload` finds no variable,
                         batch index missing/out of range) is skipped silently
  Core-only imports.
-/
import AGV.Spec.UploadBind

namespace AGV.Model.UploadBind
open AGV.Spec.UploadBind (Str T Members File Req Batch FileMap Part Opts mapExt mapExtL mapExtM)

structure Defects where
  numFilesNotCounted : Bool := false
  ignoreUnresolvable : Bool := false
  deriving Repr, Inhabited, DecidableEq

def Defects.none : Defects := {}
def Defects.pinned : Defects := { numFilesNotCounted := true, ignoreUnresolvable := true }

inductive Err where
  | tooLarge | invalidRequest | invalidFilesMap | missingOperations | missingMap | missingFiles
  | unsupportedBatch
  deriving Repr, DecidableEq, Inhabited

-- ------------------------------------------------------------------ strings

/-- `str::split('.')` (never empty) -/
def splitDot : Str → List Str
  | [] => [[]]
  | c :: cs =>
    if c = '.' then [] :: splitDot cs
    else match splitDot cs with
      | [] => [[c]]
      | h :: t => (c :: h) :: t

/-- `str::splitn(2, '.')` -/
def splitFirstDot : Str → Str × Option Str
  | [] => ([], none)
  | c :: cs =>
    if c = '.' then ([], some cs)
    else let r := splitFirstDot cs; (c :: r.1, r.2)

def stripPrefix : Str → Str → Option Str
  | [], s => some s
  | _ :: _, [] => none
  | p :: ps, c :: cs => if p = c then stripPrefix ps cs else none

def digitsVal (acc : Nat) : Str → Option Nat
  | [] => some acc
  | c :: cs => if '0' ≤ c ∧ c ≤ '9' then digitsVal (acc * 10 + (c.toNat - 48)) cs else none

/-- `FromStr` of Rust's unsigned integers: optional `+`, at least one ASCII digit, value ≤ max -/
def parseUnsigned (max : Nat) (s : Str) : Option Nat :=
  let ds := match s with
    | '+' :: r => r
    | _ => s
  match ds with
  | [] => none
  | _ => match digitsVal 0 ds with
    | some n => if n ≤ max then some n else none
    | none => none

def parseU32 : Str → Option Nat := parseUnsigned 4294967295
def parseUsize : Str → Option Nat := parseUnsigned 18446744073709551615

def variablesDot : Str := ['v','a','r','i','a','b','l','e','s','.']

-- ------------------------------------------------------------------ variable paths

def getKey {β : Type} (k : Str) : List (Str × β) → Option β
  | [] => none
  | (k', v) :: r => if k' = k then some v else getKey k r

def setKey {β : Type} (k : Str) (x : β) : List (Str × β) → List (Str × β)
  | [] => []
  | (k', v) :: r => if k' = k then (k', x) :: r else (k', v) :: setKey k x r

/-- the node `variable_path`'s `try_fold` reaches from `v` along `parts` -/
def getAt {α : Type} : T α → List Str → Option (T α)
  | v, [] => some v
  | .arr xs, p :: ps =>
    match parseU32 p with
    | none => none
    | some i => match xs[i]? with
      | none => none
      | some v => getAt v ps
  | .obj kvs, p :: ps =>
    match getKey p kvs with
    | none => none
    | some v => getAt v ps
  | _, _ :: _ => none

/-- `*variable_path(..)? = x` as a functional update -/
def setAt {α : Type} (x : T α) : T α → List Str → Option (T α)
  | _, [] => some x
  | .arr xs, p :: ps =>
    match parseU32 p with
    | none => none
    | some i => match xs[i]? with
      | none => none
      | some v => (setAt x v ps).map (fun v' => .arr (xs.set i v'))
  | .obj kvs, p :: ps =>
    match getKey p kvs with
    | none => none
    | some v => (setAt x v ps).map (fun v' => .obj (setKey p v' kvs))
  | _, _ :: _ => none

/-- the steps of a `var_path` below the variables object: `variables.` prefix stripped, split at dots -/
def pathParts (path : Str) : Option (List Str) := (stripPrefix variablesDot path).map splitDot

def membersOf {α : Type} : T α → Members α
  | .obj kvs => kvs
  | _ => []

/-- `Request::set_upload`: `none` when no variable exists at the path (nothing happens) -/
def setUpload (r : Req) (path : Str) (f : File) : Option Req :=
  match pathParts path with
  | none => none
  | some parts =>
    match setAt (.ext r.uploads.length) (.obj r.vars) parts with
    | none => none
    | some t => some { vars := membersOf t, uploads := r.uploads ++ [f] }

/-- the body of `for var_path in var_paths`: `none` = the path addresses nothing -/
def bindPath (b : Batch) (path : Str) (f : File) : Option Batch :=
  match b with
  | .single r => (setUpload r path f).map .single
  | .batch rs =>
    match splitFirstDot path with
    | (first, some rest) =>
      match parseUsize first with
      | none => none
      | some idx => match rs[idx]? with
        | none => none
        | some r => (setUpload r rest f).map (fun r' => .batch (rs.set idx r'))
    | (_, none) => none

/-- all paths of one map entry, in order; `none` = rejected (only without `ignoreUnresolvable`) -/
def bindPaths (D : Defects) (f : File) : Batch → List Str → Option Batch
  | b, [] => some b
  | b, p :: ps =>
    match bindPath b p f with
    | some b' => bindPaths D f b' ps
    | none => if D.ignoreUnresolvable then bindPaths D f b ps else none

def eraseKey {β : Type} (k : Str) (m : List (Str × β)) : List (Str × β) := m.filter (fun p => p.1 ≠ k)

/-- `for (name, …) in files { if let Some(var_paths) = map.remove(&name) {…} }` -/
def bindFiles (D : Defects) : Batch → FileMap → List File → Option (Batch × FileMap)
  | b, m, [] => some (b, m)
  | b, m, f :: fs =>
    match getKey f.name m with
    | none => bindFiles D b m fs
    | some paths =>
      match bindPaths D f b paths with
      | none => none
      | some b' => bindFiles D b' (eraseKey f.name m) fs

/-- what `HashMap<String, Vec<String>>` keeps of the members of the JSON object: the last value of a key -/
def dedup : FileMap → FileMap
  | [] => []
  | (k, v) :: r => if (getKey k r).isSome then dedup r else (k, v) :: dedup r

-- ------------------------------------------------------------------ the loop over the parts

structure St where
  ops : Option Batch := none
  map : Option FileMap := none
  files : List File := []
  deriving Inhabited

def fieldTooBig (o : Opts) (size : Nat) : Bool :=
  match o.maxFileSize with
  | some s => decide (size > s)
  | none => false

def streamTooBig (o : Opts) (bodyLen : Nat) : Bool :=
  match o.maxFileSize, o.maxNumFiles with
  | some s, some n => decide (bodyLen > s * n)
  | _, _ => false

/-- the repaired behaviour: the number of file parts is compared with `max_num_files` -/
def countExceeded (D : Defects) (o : Opts) (have_ : Nat) : Bool :=
  if D.numFilesNotCounted then false
  else match o.maxNumFiles with
    | some n => decide (have_ ≥ n)
    | none => false

def scan (D : Defects) (o : Opts) : St → List Part → Except Err St
  | st, [] => .ok st
  | st, p :: ps =>
    match p with
    | .ops b n =>
      if fieldTooBig o n then .error .tooLarge
      else match b with
        | none => .error .invalidRequest
        | some b => scan D o { st with ops := some b } ps
    | .map m n =>
      if fieldTooBig o n then .error .tooLarge
      else match m with
        | none => .error .invalidFilesMap
        | some m => scan D o { st with map := some (dedup m) } ps
    | .file f =>
      if countExceeded D o st.files.length then .error .tooLarge
      else if fieldTooBig o f.size then .error .tooLarge
      else scan D o { st with files := st.files ++ [f] } ps
    | .other n =>
      if fieldTooBig o n then .error .tooLarge else scan D o st ps

/-- `receive_batch_multipart` -/
def receive (D : Defects) (o : Opts) (bodyLen : Nat) (parts : List Part) : Except Err Batch :=
  if streamTooBig o bodyLen then .error .tooLarge
  else match scan D o {} parts with
    | .error e => .error e
    | .ok st =>
      match st.ops with
      | none => .error .missingOperations
      | some b =>
        match st.map with
        | none => .error .missingMap
        | some m =>
          match bindFiles D b m st.files with
          | none => .error .invalidFilesMap
          | some (b', m') => if m'.isEmpty then .ok b' else .error .missingFiles

/-- `receive_body` = `receive_batch_body(..)?.into_single()` -/
def receiveOne (D : Defects) (o : Opts) (bodyLen : Nat) (parts : List Part) : Except Err Batch :=
  match receive D o bodyLen parts with
  | .ok (.batch _) => .error .unsupportedBatch
  | r => r

-- ------------------------------------------------------------------ reading the files back

/-- the tree with every marker replaced by what `uploads[k]` holds -/
def view (ups : List File) (t : T Nat) : T (Option File) := mapExt (fun k => ups[k]?) t

def viewReq (r : Req) : Members (Option File) := mapExtM (fun k => r.uploads[k]?) r.vars

end AGV.Model.UploadBind
