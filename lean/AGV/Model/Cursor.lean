/-
  Model of `src/types/connection/{cursor,mod,connection_type,edge}.rs`:

  * `CursorType` for the integer types (`to_string` / `str::parse`, i.e. Rust's
    `from_str_radix(_, 10)`: optional sign, checked accumulation digit by digit), `bool`,
    `char`, `String`, `ID`;
  * `OpaqueCursor<T>`: base64 `URL_SAFE_NO_PAD` (canonical decoding: no padding accepted, no
    stray trailing bits) around a JSON printer/parser that is a parameter;
  * `query_with`: the argument checks in the order of the code (first, last, before, after),
    the closure is applied only when all four pass;
  * `Connection::page_info` / `Edge::cursor`.

  Core-only imports.
-/
import AGV.Util.Digits

namespace AGV.Model.Cursor
open AGV.Digits

-- ------------------------------------------------------------------ integers

/-- a Rust primitive integer type: signedness and width -/
structure IntTy where
  signed : Bool
  bits : Nat
  deriving DecidableEq, Repr

/-- `T::MAX` -/
def IntTy.maxMag (t : IntTy) : Nat := if t.signed then 2 ^ (t.bits - 1) - 1 else 2 ^ t.bits - 1
/-- `|T::MIN|` -/
def IntTy.minMag (t : IntTy) : Nat := if t.signed then 2 ^ (t.bits - 1) else 0

/-- the twelve types of `cursor_type_int_impl!` (isize/usize: 64-bit target) -/
def intTypes : List (String × IntTy) :=
  [("isize", ⟨true, 64⟩), ("i8", ⟨true, 8⟩), ("i16", ⟨true, 16⟩), ("i32", ⟨true, 32⟩), ("i64", ⟨true, 64⟩),
   ("i128", ⟨true, 128⟩), ("usize", ⟨false, 64⟩), ("u8", ⟨false, 8⟩), ("u16", ⟨false, 16⟩), ("u32", ⟨false, 32⟩),
   ("u64", ⟨false, 64⟩), ("u128", ⟨false, 128⟩)]

/-- `IntErrorKind` -/
inductive IntErr where
  | empty | invalid | posOverflow | negOverflow
  deriving DecidableEq, Repr

/-- the checked loop of `from_str_radix`: for every character first the digit test
    (`InvalidDigit`), then the checked multiply-and-add against the limit -/
def accum (limit : Nat) (ov : IntErr) (acc : Nat) : List Char → Except IntErr Nat
  | [] => .ok acc
  | c :: r =>
    if isDigit c = false then .error .invalid
    else if acc * 10 + digitVal c > limit then .error ov
    else accum limit ov (acc * 10 + digitVal c) r

/-- `<$t as FromStr>::from_str` -/
def decodeInt (t : IntTy) (s : List Char) : Except IntErr Int :=
  match s with
  | [] => .error .empty
  | ['+'] => .error .invalid
  | ['-'] => .error .invalid
  | '+' :: r => (accum t.maxMag .posOverflow 0 r).map Int.ofNat
  | '-' :: r =>
    if t.signed then (accum t.minMag .negOverflow 0 r).map (fun m => -(m : Int))
    else (accum t.maxMag .posOverflow 0 ('-' :: r)).map Int.ofNat
  | c :: r => (accum t.maxMag .posOverflow 0 (c :: r)).map Int.ofNat

/-- `self.to_string()` -/
def encodeInt (n : Int) : List Char := intDigits n

-- ------------------------------------------------------------------ bool, char, String, ID

def encodeBool (b : Bool) : List Char := if b then ['t', 'r', 'u', 'e'] else ['f', 'a', 'l', 's', 'e']

def decodeBool (s : List Char) : Option Bool :=
  if s = ['t', 'r', 'u', 'e'] then some true else if s = ['f', 'a', 'l', 's', 'e'] then some false else none

inductive CharErr where
  | empty | tooMany
  deriving DecidableEq, Repr

def encodeChar (c : Char) : List Char := [c]

def decodeChar : List Char → Except CharErr Char
  | [] => .error .empty
  | [c] => .ok c
  | _ => .error .tooMany

def encodeString (s : List Char) : List Char := s
def decodeString (s : List Char) : List Char := s

-- ------------------------------------------------------------------ base64 URL_SAFE_NO_PAD

/-- the i-th symbol of the URL-safe alphabet `A–Z a–z 0–9 - _` -/
def sym (i : Nat) : Char :=
  if i < 26 then Char.ofNat (65 + i)
  else if i < 52 then Char.ofNat (71 + i)
  else if i < 62 then Char.ofNat (i - 4)
  else if i = 62 then '-' else '_'

/-- value of a symbol; `none` for everything outside the alphabet (including `=`, `+`, `/`) -/
def val (c : Char) : Option Nat :=
  let n := c.toNat
  if 65 ≤ n ∧ n ≤ 90 then some (n - 65)
  else if 97 ≤ n ∧ n ≤ 122 then some (n - 71)
  else if 48 ≤ n ∧ n ≤ 57 then some (n + 4)
  else if n = 45 then some 62
  else if n = 95 then some 63
  else none

/-- bytes are naturals below 256 -/
def b64encode : List Nat → List Char
  | [] => []
  | [a] => [sym (a / 4), sym (a % 4 * 16)]
  | [a, b] => [sym (a / 4), sym (a % 4 * 16 + b / 16), sym (b % 16 * 4)]
  | a :: b :: c :: r =>
    sym (a / 4) :: sym (a % 4 * 16 + b / 16) :: sym (b % 16 * 4 + c / 64) :: sym (c % 64) :: b64encode r

/-- canonical decoder: any symbol outside the alphabet, a length ≡ 1 (mod 4) and non-zero
    unused trailing bits are errors -/
def b64decode : List Char → Option (List Nat)
  | [] => some []
  | [_] => none
  | [p, q] =>
    match val p, val q with
    | some x, some y => if y % 16 = 0 then some [x * 4 + y / 16] else none
    | _, _ => none
  | [p, q, r] =>
    match val p, val q, val r with
    | some x, some y, some z => if z % 4 = 0 then some [x * 4 + y / 16, y % 16 * 16 + z / 4] else none
    | _, _, _ => none
  | p :: q :: r :: s :: rest =>
    match val p, val q, val r, val s, b64decode rest with
    | some x, some y, some z, some w, some tl =>
      some ((x * 4 + y / 16) :: (y % 16 * 16 + z / 4) :: (z % 4 * 64 + w) :: tl)
    | _, _, _, _, _ => none

-- ------------------------------------------------------------------ OpaqueCursor

inductive OpqErr where
  | b64 | json
  deriving DecidableEq, Repr

/-- `URL_SAFE_NO_PAD.encode(serde_json::to_vec(&self.0))` -/
def encodeOpaque {J : Type} (print : J → List Nat) (j : J) : List Char := b64encode (print j)

/-- `serde_json::from_slice(&URL_SAFE_NO_PAD.decode(s)?)?` -/
def decodeOpaque {J : Type} (parse : List Nat → Option J) (s : List Char) : Except OpqErr J :=
  match b64decode s with
  | none => .error .b64
  | some bs =>
    match parse bs with
    | none => .error .json
    | some j => .ok j

-- ------------------------------------------------------------------ query_with

/-- what the page-fetching closure receives -/
structure Args (C : Type) where
  after : Option C
  before : Option C
  first : Option Nat
  last : Option Nat
  deriving Repr, DecidableEq

inductive QErr (E : Type) where
  | firstNegative
  | lastNegative
  | cursor (e : E)
  deriving Repr, DecidableEq

def decodeOpt {C E : Type} (dec : List Char → Except E C) : Option (List Char) → Except (QErr E) (Option C)
  | none => .ok none
  | some s =>
    match dec s with
    | .ok c => .ok (some c)
    | .error e => .error (.cursor e)

/-- the checks of `query_with`, in the order of the code: `first`, `last`, `before`, `after` -/
def checkArgs {C E : Type} (dec : List Char → Except E C) (after before : Option (List Char))
    (first last : Option Int) : Except (QErr E) (Args C) :=
  match first with
  | some f => if f < 0 then .error .firstNegative else checkLast (some f.toNat)
  | none => checkLast none
where
  checkLast (first' : Option Nat) : Except (QErr E) (Args C) :=
    match last with
    | some l => if l < 0 then .error .lastNegative else checkCursors first' (some l.toNat)
    | none => checkCursors first' none
  checkCursors (first' last' : Option Nat) : Except (QErr E) (Args C) :=
    match decodeOpt dec before with
    | .error e => .error e
    | .ok b =>
      match decodeOpt dec after with
      | .error e => .error e
      | .ok a => .ok { after := a, before := b, first := first', last := last' }

/-- `query_with`: the list is the trace of closure invocations (with their arguments) -/
def queryWith {C E R : Type} (dec : List Char → Except E C) (after before : Option (List Char))
    (first last : Option Int) (f : Args C → R) : List (Args C) × Except (QErr E) R :=
  match checkArgs dec after before first last with
  | .error e => ([], .error e)
  | .ok a => ([a], .ok (f a))

-- ------------------------------------------------------------------ Connection / Edge output

structure PageInfo where
  hasPreviousPage : Bool
  hasNextPage : Bool
  startCursor : Option (List Char)
  endCursor : Option (List Char)
  deriving Repr, DecidableEq

/-- a `Connection` as far as the cursor fields are concerned: the edge cursors and the two flags -/
structure Conn (C : Type) where
  edges : List C
  hasPreviousPage : Bool
  hasNextPage : Bool

/-- `Connection::page_info` -/
def pageInfo {C : Type} (enc : C → List Char) (c : Conn C) : PageInfo :=
  { hasPreviousPage := c.hasPreviousPage
    hasNextPage := c.hasNextPage
    startCursor := c.edges.head?.map enc
    endCursor := c.edges.getLast?.map enc }

/-- the `cursor` field of every edge (`Edge::cursor`) -/
def edgeCursors {C : Type} (enc : C → List Char) (c : Conn C) : List (List Char) := c.edges.map enc

end AGV.Model.Cursor
