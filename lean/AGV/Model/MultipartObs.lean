/-
  What the property observes of an event sequence of `Model.Multipart`: the responses and
  heartbeats served before the response stream ended (the spec's `Item`s), and whether it ended.
  Core-only imports.
-/
import AGV.Model.Multipart
import AGV.Spec.Multipart

namespace AGV.Model.Multipart
open AGV.Spec.Multipart (Item Safe)

def itemsOf : List Ev → List Item
  | [] => []
  | .resp j :: r => .response j :: itemsOf r
  | .tick :: r => .heartbeat :: itemsOf r
  | .fin :: _ => []

/-- the response stream ended -/
def ended : List Ev → Bool
  | [] => false
  | .fin :: _ => true
  | _ :: r => ended r

/-- every response payload served before the end satisfies RFC 2046's condition on part bodies -/
def PayloadsSafe : List Ev → Prop
  | [] => True
  | .resp j :: r => Safe j ∧ PayloadsSafe r
  | .tick :: r => PayloadsSafe r
  | .fin :: _ => True

instance : (evs : List Ev) → Decidable (PayloadsSafe evs)
  | [] => isTrue trivial
  | .resp j :: r => by
    have := instDecidablePayloadsSafe r
    unfold PayloadsSafe; infer_instance
  | .tick :: r => by
    have := instDecidablePayloadsSafe r
    unfold PayloadsSafe; infer_instance
  | .fin :: _ => isTrue trivial

end AGV.Model.Multipart
