/-
  Model of the literal printer of `value/src/lib.rs` (`Display for ConstValue` / `Value`,
  `write_quoted`, `write_list`, `write_object`) and of the parser's handling of quoted strings
  (`string_character*` of `parser/src/graphql.pest`, `string_value` of
  `parser/src/parse/utils.rs`).  Core-only imports.

  Text is `List Char` (Unicode scalar values).  Floats are opaque tokens: the text the number
  printer (serde_json / ryu) gives is carried by the value and never interpreted.

  Defect toggle (true = behaviour of the pinned tree):
    decimalUnicodeEscape   the control-character arm of `write_quoted` prints the code point with
                           `{:04}` (decimal) instead of `{:04x}`; the parser reads `\uXXXX` as hex
-/
import AGV.Util.Digits
import AGV.Core.LValue
import AGV.Gen.WriteQuoted

namespace AGV.Model.Print
open AGV.Digits AGV.Core

structure Defects where
  decimalUnicodeEscape : Bool := false
  deriving Repr, DecidableEq

def Defects.none : Defects := {}

/-- radix of the `\u` escape written for control characters -/
def Defects.radix (D : Defects) : Nat := if D.decimalUnicodeEscape then 10 else 16

-- ------------------------------------------------------------------ write_quoted

/-- `char::is_control` (general category Cc) -/
def isControl (c : Char) : Bool := c.toNat < 32 || (127 ≤ c.toNat && c.toNat ≤ 159)

def lowerDigit (d : Nat) : Char := if d < 10 then Char.ofNat (48 + d) else Char.ofNat (87 + d)

def radixDigitsAux (radix : Nat) : Nat → Nat → List Char → List Char
  | 0, _, acc => acc
  | f + 1, n, acc =>
    if n < radix then lowerDigit n :: acc
    else radixDigitsAux radix f (n / radix) (lowerDigit (n % radix) :: acc)

/-- digits of `n` in `radix` (2 ≤ radix ≤ 16), most significant first, lower case -/
def radixDigits (radix n : Nat) : List Char := radixDigitsAux radix (n + 1) n []

/-- `{:0w}` / `{:0wx}`: zero-padded on the left to at least `w` characters -/
def padLeft (w : Nat) (cs : List Char) : List Char := List.replicate (w - cs.length) '0' ++ cs

/-- the control-character arm: `write!(f, "\\u{:04x}", c as u32)` -/
def escControl (radix : Nat) (c : Char) : List Char :=
  Gen.WriteQuoted.controlPrefix ++ padLeft Gen.WriteQuoted.controlWidth (radixDigits radix c.toNat)

/-- one iteration of `for c in s.chars() { match c { … } }`: the literal arms in source order
    (the table is extracted from the source), then the control arm, then the default arm -/
def escChar (radix : Nat) (c : Char) : List Char :=
  match Gen.WriteQuoted.escapes.lookup c with
  | some s => s
  | none => if isControl c then escControl radix c else [c]

/-- what `write_quoted` writes between the two quotes -/
def writeBody (radix : Nat) : List Char → List Char
  | [] => []
  | c :: r => escChar radix c ++ writeBody radix r

def writeQuoted (D : Defects) (s : List Char) : List Char :=
  '"' :: writeBody D.radix s ++ ['"']

-- ------------------------------------------------------------------ Display

def joinWith (sep : List Char) : List (List Char) → List Char
  | [] => []
  | [a] => a
  | a :: b :: r => a ++ sep ++ joinWith sep (b :: r)

def commaSp : List Char := [',', ' ']
def colonSp : List Char := [':', ' ']

/-- `impl Display for ConstValue` -/
def print (D : Defects) : LValue → List Char
  | .null => "null".toList
  | .int i => intDigits i
  | .float tok => tok
  | .str s => writeQuoted D s
  | .bool true => "true".toList
  | .bool false => "false".toList
  | .enum n => n
  | .list xs => '[' :: joinWith commaSp (xs.map (print D)) ++ [']']
  | .obj fs => '{' :: joinWith commaSp (fs.map (fun kv => kv.1 ++ colonSp ++ print D kv.2)) ++ ['}']
termination_by x => sizeOf x
decreasing_by
  · have := List.sizeOf_lt_of_mem ‹_ ∈ xs›; simp; omega
  · rename_i h
    have := List.sizeOf_lt_of_mem h
    have : sizeOf kv.2 < sizeOf kv := by cases kv; simp; omega
    simp; omega

-- ------------------------------------------------------------------ the parser's quoted strings

def isHex (c : Char) : Bool :=
  (48 ≤ c.toNat && c.toNat ≤ 57) || (97 ≤ c.toNat && c.toNat ≤ 102) || (65 ≤ c.toNat && c.toNat ≤ 70)

def hexVal (c : Char) : Nat :=
  if c.toNat ≤ 57 then c.toNat - 48 else if c.toNat ≤ 70 then c.toNat - 55 else c.toNat - 87

/-- second character of `"\\" ~ ("\"" | "\\" | "/" | "b" | "f" | "n" | "r" | "t")` -/
def isSimpleEsc (e : Char) : Bool :=
  e = '"' || e = '\\' || e = '/' || e = 'b' || e = 'f' || e = 'n' || e = 'r' || e = 't'

/-- `unicode_scalar_value_hex = { !(^"d" ~ ('8'..'9' | 'a'..'f' | 'A'..'F')) ~ ASCII_HEX_DIGIT{4} }` -/
def hex4ok (h1 h2 h3 h4 : Char) : Bool :=
  !((h1 = 'd' || h1 = 'D') && (h2 = '8' || h2 = '9' || (97 ≤ h2.toNat && h2.toNat ≤ 102) || (65 ≤ h2.toNat && h2.toNat ≤ 70)))
  && isHex h1 && isHex h2 && isHex h3 && isHex h4

/-- `string_content ~ "\""` after the opening quote: the longest run of `string_character`s,
    which must be followed by the closing quote.  Returns the raw content and the rest. -/
def scanStr : List Char → Option (List Char × List Char)
  | [] => none
  | c :: r =>
    if c = '"' then some ([], r)
    else if c = '\\' then
      match r with
      | [] => none
      | e :: r' =>
        if isSimpleEsc e then
          match scanStr r' with
          | some (raw, rest) => some (c :: e :: raw, rest)
          | none => none
        else if e = 'u' then
          match r' with
          | h1 :: h2 :: h3 :: h4 :: r'' =>
            if hex4ok h1 h2 h3 h4 then
              match scanStr r'' with
              | some (raw, rest) => some (c :: e :: h1 :: h2 :: h3 :: h4 :: raw, rest)
              | none => none
            else none
          | _ => none
        else none
    else if c = '\n' || c = '\r' then none
    else
      match scanStr r with
      | some (raw, rest) => some (c :: raw, rest)
      | none => none

/-- `string_value` of parse/utils.rs on the raw content; `none` where the Rust code would panic
    (`expect`, `unwrap`, `unreachable!`) — the grammar keeps such input away from it -/
def stringValue : List Char → Option (List Char)
  | [] => some []
  | c :: r =>
    if c = '\\' then
      match r with
      | [] => none
      | e :: r' =>
        if e = 'u' then
          match r' with
          | h1 :: h2 :: h3 :: h4 :: r'' =>
            if isHex h1 && isHex h2 && isHex h3 && isHex h4 then
              let n := ((hexVal h1 * 16 + hexVal h2) * 16 + hexVal h3) * 16 + hexVal h4
              if n.isValidChar then (stringValue r'').map (Char.ofNat n :: ·) else none
            else none
          | _ => none
        else
          let d : Option Char :=
            if e = '"' || e = '\\' || e = '/' then some e
            else if e = 'b' then some (Char.ofNat 8)
            else if e = 'f' then some (Char.ofNat 12)
            else if e = 'n' then some '\n'
            else if e = 'r' then some '\r'
            else if e = 't' then some '\t'
            else none
          match d with
          | some x => (stringValue r').map (x :: ·)
          | none => none
    else (stringValue r).map (c :: ·)

/-- lexing a quoted string token after its opening quote: grammar scan, then `string_value` -/
def lexQuoted (cs : List Char) : Option (List Char × List Char) :=
  match scanStr cs with
  | some (raw, rest) => (stringValue raw).map (·, rest)
  | none => none

/-- a whole quoted string token at the head of the input: opening quote, content, closing quote -/
def lexStringToken : List Char → Option (List Char × List Char)
  | [] => none
  | c :: r => if c = '"' then lexQuoted r else none

end AGV.Model.Print
