/-
  Model of the extension machinery:
    src/extensions/mod.rs     Next{Request,PrepareRequest,ParseQuery,Validation,Execute,Resolve}::run
                              (call the head of the chain with the tail, else the base future),
                              Extensions::{request, prepare_request, parse_query, validation, execute, resolve}
    src/schema.rs             Schema::execute / prepare_request / execute_once: the order in which the
                              hooks are entered and the early exits (`?`) between the stages
    src/resolver_utils/container.rs   the EXTENSION BRANCH of `Fields::add_set`: with an extension
                              installed (or a directive on the field) a `ResolveInfo` is built with a
                              registry look-up of the field on the static type `T::type_name()`, which
                              fails with `Cannot query field … on type …`
    src/resolver_utils/list.rs        the extension branch of `resolve_list` (one hook per item)

  A computation is a value together with the trace it produced (`T α`).  The trace contains the
  events recorded by the extensions (`Ev.hook`) and, as a model-only device for stating the theorems,
  a pair of markers around every hook site (`Ev.mark`), present whatever the stack is.

  The REQUEST FORM (plain text | `Request::parsed_query()` called beforehand | `set_parsed_query` |
  a document injected by a `prepare_request` hook) is `Base.preparsed`; the parse future
  (`parseFut`) takes that document or parses the text and always runs inside the `parse_query`
  chain, whose hooks get the text.  `executeBatch` / `executeStream` model `execute_batch` and
  `execute_stream` (subscribe · prepare · parse · validation · one execute per event);
  `rwExt` is a recording extension whose prepare hook rewrites the request.

  Defect toggles (true = behaviour of the pinned tree, except where stated):
    plainPathSkipsLookup   without extensions (and without a directive on the field) the registry
                           look-up is skipped: a field the static type does not have resolves to
                           `null` instead of the error the extension branch reports
    PDefects.streamQuerySkipsExecuteHook   `dynamic::Schema::execute_stream` runs a query /
                           mutation without entering the execute hooks
    PDefects.preparsedSkipsParseHooks      NOT the pinned tree: the seeded change C30-r3 (parse
                           chain entered only for requests that still have to be parsed)
  Import-free (core + AGV Model/Spec only).
-/
import AGV.Core.Types
import AGV.Spec.Exec
import AGV.Model.ExecStatic

namespace AGV.Model.Ext
open AGV.Core
open AGV.Spec.Exec (FieldOcc Sel.key mapIdx)

-- ------------------------------------------------------------------ events

inductive Hook where
  | request | prepare | parse | validation | execute | resolve | subscribe
  deriving DecidableEq, Repr, Inhabited

/-- a place where a hook chain runs; for `resolve`: the response path of the field / list item and
    the `parent_type` / `return_type` of the `ResolveInfo` handed to the hook -/
structure Site where
  hook : Hook
  path : List PathSeg := []
  parent : String := ""
  ret : String := ""
  deriving DecidableEq, Repr, Inhabited

inductive Ev where
  /-- model-only: hook site `s` begins (`opening`) / ends -/
  | mark (opening : Bool) (s : Site)
  /-- recorded by the extension with stack index `idx` -/
  | hook (enter : Bool) (idx : Nat) (s : Site)
  deriving DecidableEq, Repr, Inhabited

/-- a value with the trace produced while computing it -/
abbrev T (α : Type) := α × List Ev

/-- a hook: receives the rest of the chain (`next.run(..)`) -/
abbrev Wrap (α : Type) := (Unit → T α) → T α

/-- `Next*::run`: call the head of the chain with the tail, else the base future -/
def runChain {α : Type} : List (Wrap α) → (Unit → T α) → T α
  | [], base => base ()
  | h :: rest, base => h (fun _ => runChain rest base)

/-- a hook site: the chain runs between the two markers -/
def atSite {α : Type} (s : Site) (hs : List (Wrap α)) (base : Unit → T α) : T α :=
  let r := runChain hs base
  (r.1, Ev.mark true s :: r.2 ++ [Ev.mark false s])

/-- the hook of a recording pass-through extension: log, delegate, log, return what `next` returned -/
def recWrap {α : Type} (idx : Nat) (s : Site) : Wrap α := fun next =>
  let r := next ()
  (r.1, Ev.hook true idx s :: r.2 ++ [Ev.hook false idx s])

/-- a hook that delegates without recording -/
def passWrap {α : Type} : Wrap α := fun next => next ()

-- ------------------------------------------------------------------ extensions, abstractly

/-- `prepare_request` hands the (possibly rewritten) request to the rest of the chain -/
abbrev PrepHook (Req E : Type) := Req → (Req → T (Except E Req)) → T (Except E Req)

/-- `NextPrepareRequest::run` -/
def runPrepare {Req E : Type} : List (PrepHook Req E) → Req → T (Except E Req)
  | [], r => (.ok r, [])
  | h :: rest, r => h r (fun r' => runPrepare rest r')

/-- what a field / list-item future yields: `ServerResult<Option<Value>>` together with the errors
    captured at nullable positions below, the resolver invocations, and the number of
    `Cannot query field` errors among `errs` -/
structure FRes where
  val : Option GValue
  errs : List GErr := []
  log : List Inv := []
  nq : Nat := 0
  deriving Repr, Inhabited

/-- an extension: one function per hook of the `Extension` trait.  `subscribe` wraps the response
    stream when `execute_stream` is called (it is not a future: it returns at once) -/
structure Ext (Req Doc VR Resp E : Type) where
  request : Wrap Resp
  subscribe : Wrap Unit
  prepare : PrepHook Req E
  /-- receives `query: &str` (never the parsed document) -/
  parse : String → Wrap (Except E Doc)
  validation : Wrap (Except E VR)
  execute : Wrap Resp
  resolve : Site → Wrap FRes

section
variable {Req Doc VR Op Resp E : Type}

/-- the recording pass-through extension with stack index `idx` -/
def recExt (idx : Nat) : Ext Req Doc VR Resp E where
  request := recWrap idx { hook := .request }
  subscribe := recWrap idx { hook := .subscribe }
  prepare := fun r next =>
    let x := next r
    (x.1, Ev.hook true idx { hook := .prepare } :: x.2 ++ [Ev.hook false idx { hook := .prepare }])
  parse := fun q => recWrap idx { hook := .parse, parent := q }
  validation := recWrap idx { hook := .validation }
  execute := recWrap idx { hook := .execute }
  resolve := fun s => recWrap idx s

/-- the default methods of the trait: every hook only delegates -/
def passExt : Ext Req Doc VR Resp E where
  request := passWrap
  subscribe := passWrap
  prepare := fun r next => next r
  parse := fun _ => passWrap
  validation := passWrap
  execute := passWrap
  resolve := fun _ => passWrap

/-- the stack of recording extensions registered with the given indices (outermost first) -/
def stack (ls : List Nat) : List (Ext Req Doc VR Resp E) := ls.map recExt

/-- the base futures of the pipeline; the executor is a parameter: it receives the resolve-hook
    runner and whether any extension is installed.

    THE REQUEST FORM.  A request reaches `prepare_request` as query text, possibly together with a
    document parsed ahead of time (`Request::parsed_query()` called by a transport,
    `Request::set_parsed_query`, or a `prepare_request` hook that filled it in): `preparsed`.  The
    parse future uses that document when there is one and parses `request.query` otherwise; in both
    cases it runs INSIDE the `parse_query` hook chain, and the hooks are handed the text
    (`queryText`) and never the document. -/
structure Base (Req Doc VR Op Resp E : Type) where
  /-- `parse_query(&request.query)` -/
  parse : Req → Except E Doc
  validate : Req → Doc → Except E VR
  selectOp : Req → Doc → Except E Op
  exec : (Site → Wrap FRes) → Bool → Req → Doc → Op → VR → T Resp
  fromErrors : E → Resp
  /-- `request.parsed_query` (after the prepare hooks ran) -/
  preparsed : Req → Option Doc := fun _ => none
  /-- `check_recursive_depth` / `check_max_directives`: run on the document of either branch -/
  limits : Doc → Except E Doc := fun d => .ok d
  /-- `&request.query` as handed to the `parse_query` hooks -/
  queryText : Req → String := fun _ => ""

/-- the parse future of `prepare_request` -/
def parseFut (B : Base Req Doc VR Op Resp E) (req : Req) : Except E Doc :=
  match B.preparsed req with
  | some d => B.limits d
  | none =>
    match B.parse req with
    | .ok d => B.limits d
    | .error e => .error e

/-- deviations of the pipeline (all `false` = `src/schema.rs` as it is) -/
structure PDefects where
  /-- (seeded change C30-r3, not the pinned tree) the `parse_query` chain is entered only when the
      text still has to be parsed; a pre-parsed document is checked outside the hooks -/
  preparsedSkipsParseHooks : Bool := false
  /-- `dynamic::Schema::execute_stream*`: a query / mutation sent through the stream API is
      executed without entering the `execute` hooks (the static schema enters them) -/
  streamQuerySkipsExecuteHook : Bool := false
  deriving Repr, Inhabited, DecidableEq

/-- `Extensions::resolve` at a site -/
def resolveAt (es : List (Ext Req Doc VR Resp E)) : Site → Wrap FRes :=
  fun s => atSite s (es.map (fun e => e.resolve s))

/-- `Extensions::prepare_request` between its markers -/
def prepareAt (es : List (Ext Req Doc VR Resp E)) (req : Req) : T (Except E Req) :=
  let r := runPrepare (es.map (·.prepare)) req
  (r.1, Ev.mark true { hook := .prepare } :: r.2 ++ [Ev.mark false { hook := .prepare }])

/-- the parse stage: the parse future (whatever the request form) inside the `parse_query` chain -/
def parseAt (P : PDefects) (B : Base Req Doc VR Op Resp E) (es : List (Ext Req Doc VR Resp E)) (req : Req) :
    T (Except E Doc) :=
  if P.preparsedSkipsParseHooks && (B.preparsed req).isSome then (parseFut B req, [])
  else atSite { hook := .parse, parent := B.queryText req } (es.map (fun e => e.parse (B.queryText req))) (fun _ => (parseFut B req, []))

/-- `prepare_request` of src/schema.rs:  prepare_request · parse_query · validation · [operation
    selection, no hook], leaving at the first stage that fails (`?`) -/
def front (P : PDefects) (B : Base Req Doc VR Op Resp E) (es : List (Ext Req Doc VR Resp E)) (req : Req) :
    T (Except E (Req × Doc × VR × Op)) :=
  let p := prepareAt es req
  match p.1 with
  | .error e => (.error e, p.2)
  | .ok req' =>
    let d := parseAt P B es req'
    match d.1 with
    | .error e => (.error e, p.2 ++ d.2)
    | .ok doc =>
      let v := atSite { hook := .validation } (es.map (·.validation)) (fun _ => (B.validate req' doc, []))
      match v.1 with
      | .error e => (.error e, p.2 ++ d.2 ++ v.2)
      | .ok vr =>
        match B.selectOp req' doc with
        | .error e => (.error e, p.2 ++ d.2 ++ v.2)
        | .ok op => (.ok (req', doc, vr, op), p.2 ++ d.2 ++ v.2)

/-- the body of the request future:  front · execute ⊃ resolve* -/
def stagesP (P : PDefects) (B : Base Req Doc VR Op Resp E) (es : List (Ext Req Doc VR Resp E)) (req : Req) : T Resp :=
  let f := front P B es req
  match f.1 with
  | .error e => (B.fromErrors e, f.2)
  | .ok (req', doc, vr, op) =>
    let x := atSite { hook := .execute } (es.map (·.execute))
      (fun _ => B.exec (resolveAt es) (!es.isEmpty) req' doc op vr)
    (x.1, f.2 ++ x.2)

/-- `Schema::execute` (static and dynamic):  request ⊃ stages -/
def executeP (P : PDefects) (B : Base Req Doc VR Op Resp E) (es : List (Ext Req Doc VR Resp E)) (req : Req) : T Resp :=
  atSite { hook := .request } (es.map (·.request)) (fun _ => stagesP P B es req)

/-- the pipeline as it is -/
def stages (B : Base Req Doc VR Op Resp E) (es : List (Ext Req Doc VR Resp E)) (req : Req) : T Resp :=
  stagesP {} B es req

def execute (B : Base Req Doc VR Op Resp E) (es : List (Ext Req Doc VR Resp E)) (req : Req) : T Resp :=
  executeP {} B es req

/-- `Schema::execute_batch`: `FuturesOrdered` over ready futures = one request after the other -/
def executeBatch (P : PDefects) (B : Base Req Doc VR Op Resp E) (es : List (Ext Req Doc VR Resp E)) (reqs : List Req) :
    T (List Resp) :=
  let rs := reqs.map (executeP P B es)
  (rs.map (·.1), (rs.map (·.2)).flatten)

/-- what the stream API needs beyond `Base`: which operations are subscriptions, and the
    execute futures of the events the merged field streams yield, in order -/
structure SBase (Req Doc VR Op Resp E : Type) extends Base Req Doc VR Op Resp E where
  isSub : Op → Bool
  events : (Site → Wrap FRes) → Bool → Req → Doc → Op → VR → List (Unit → T Resp)

/-- `Schema::execute_stream*`: the `subscribe` hooks wrap the stream at once; polling the stream
    runs `prepare_request` (no `request` hook), then one `execute` hook per event of a
    subscription, or the single execution of a query / mutation -/
def executeStream (P : PDefects) (B : SBase Req Doc VR Op Resp E) (es : List (Ext Req Doc VR Resp E)) (req : Req) :
    T (List Resp) :=
  let s := atSite { hook := .subscribe } (es.map (·.subscribe)) (fun _ => ((), []))
  let f := front P B.toBase es req
  match f.1 with
  | .error e => ([B.fromErrors e], s.2 ++ f.2)
  | .ok (req', doc, vr, op) =>
    if B.isSub op then
      let xs := (B.events (resolveAt es) (!es.isEmpty) req' doc op vr).map
        (fun ev => atSite { hook := .execute } (es.map (·.execute)) ev)
      (xs.map (·.1), s.2 ++ f.2 ++ (xs.map (·.2)).flatten)
    else
      let x := if P.streamQuerySkipsExecuteHook then B.exec (resolveAt es) (!es.isEmpty) req' doc op vr
        else atSite { hook := .execute } (es.map (·.execute))
          (fun _ => B.exec (resolveAt es) (!es.isEmpty) req' doc op vr)
      ([x.1], s.2 ++ f.2 ++ x.2)

-- ------------------------------------------------------------------ prepare hooks that rewrite the request

/-- a recording extension whose `prepare_request` hook rewrites the request (query text, parsed
    document, variables, operation name, …) before handing it to the rest of the chain -/
def rwExt (idx : Nat) (f : Req → Req) : Ext Req Doc VR Resp E :=
  { (recExt idx : Ext Req Doc VR Resp E) with
    prepare := fun r next =>
      let x := next (f r)
      (x.1, Ev.hook true idx { hook := .prepare } :: x.2 ++ [Ev.hook false idx { hook := .prepare }]) }

def stackRw (lfs : List (Nat × (Req → Req))) : List (Ext Req Doc VR Resp E) := lfs.map (fun p => rwExt p.1 p.2)

/-- the request the stages after `prepare_request` work on -/
def rewritten (lfs : List (Nat × (Req → Req))) (req : Req) : Req := lfs.foldl (fun r p => p.2 r) req
end

-- ------------------------------------------------------------------ what the stack adds to a trace

/-- the events a stack of recording extensions adds around one marker -/
def expandEv (ls : List Nat) : Ev → List Ev
  | .mark true s => Ev.mark true s :: ls.map (fun i => Ev.hook true i s)
  | .mark false s => ls.reverse.map (fun i => Ev.hook false i s) ++ [Ev.mark false s]
  | e => [e]

/-- the trace with the stack `ls`, from the trace with no extension -/
def expand (ls : List Nat) (t : List Ev) : List Ev := t.flatMap (expandEv ls)

/-- the markers are not part of what extensions record -/
def recorded (t : List Ev) : List Ev :=
  t.filter (fun e => match e with
    | .mark _ _ => false
    | .hook _ _ _ => true)

-- ------------------------------------------------------------------ the executor with the extension branch

structure XDefects where
  plainPathSkipsLookup : Bool := false
  /-- (not part of the property) `&T` does not forward `qualified_type_name`, so the `ResolveInfo`
      of a list item always names a non-null return type -/
  itemTypeAlwaysNonNull : Bool := false
  deriving Repr, Inhabited, DecidableEq

structure XCtx where
  c : ExecStatic.Ctx
  X : XDefects
  /-- `!extensions.is_empty()` -/
  hooked : Bool
  /-- `Extensions::resolve` -/
  hookAt : Site → Wrap FRes

def isFailed (r : T FRes) : Bool := r.1.val.isNone

/-- `try_join_all` / the serial loop over ready futures: in order, stop at the first `Err` -/
def joinAllT : List (Unit → T FRes) → List (T FRes)
  | [] => []
  | r :: rest =>
    let x := r ()
    match x.1.val with
    | none => [x]
    | some _ => x :: joinAllT rest

def nnWrapX (r : T FRes) : T FRes :=
  match r.1.val with
  | some .null => if r.1.errs.isEmpty then r else ({ r.1 with val := none }, r.2)
  | _ => r

/-- give the travelling (last) error the path `p` if it has none (`keep_error_path`) -/
def fillLast (p : List PathSeg) : List GErr → List GErr
  | [] => []
  | [e] => [if e.path.isEmpty then { e with path := p } else e]
  | e :: rest => e :: fillLast p rest

/-- the per-item wrapper of `resolve_list`: an error travelling up through a list item gets the
    item's path if it has none (always, under `listItemPathOverwrite`) -/
def itemWrapX (D : ExecStatic.Defects) (p : List PathSeg) (r : T FRes) : T FRes :=
  if r.1.val.isNone then
    ({ r.1 with errs := if D.listItemPathOverwrite then ExecStatic.rewriteLast p r.1.errs else fillLast p r.1.errs }, r.2)
  else r

/-- combine the results of the children of a list / selection set -/
def gather (rs : List (T FRes)) (ok : List GValue → GValue) (bad : Option GValue) : T FRes :=
  let errs := (rs.map (·.1.errs)).flatten
  let log := (rs.map (·.1.log)).flatten
  let nq := (rs.map (·.1.nq)).sum
  let tr := (rs.map (·.2)).flatten
  if rs.all (·.1.val.isSome) then ({ val := some (ok (rs.filterMap (·.1.val))), errs := errs, log := log, nq := nq }, tr)
  else ({ val := bad, errs := errs, log := log, nq := nq }, tr)

/-- `collect` of `ExecStatic`, also telling whether the field carries directives -/
def collectX (c : ExecStatic.Ctx) (rt : String) : Nat → String → List Sel → List (FieldOcc × Bool)
  | 0, _, _ => []
  | fuel + 1, st, sels =>
    (sels.map (fun sel =>
      match sel with
      | .field al n args ds ss pos =>
        -- `remove_skipped_selection` has stripped @skip/@include from the fields it kept
        [({ key := Sel.key al n, name := n, args := args, sels := ss, pos := pos, st := st },
          ds.any (fun d => d.name ≠ "skip" && d.name ≠ "include"))]
      | .spread n _ _ =>
        match c.d.frag? n with
        | none => []
        | some f =>
          if ExecStatic.appliesConcrete c.D c.S rt f.cond then collectX c rt fuel rt f.sels
          else if st = f.cond then collectX c rt fuel st f.sels
          else []
      | .inline cond _ ss _ =>
        match cond with
        | some t =>
          if ExecStatic.appliesConcrete c.D c.S rt t then collectX c rt fuel rt ss
          else if st = t then collectX c rt fuel st ss
          else []
        | none => collectX c rt fuel st ss)).flatten

/-- `T::qualified_type_name()` of the items of a list -/
def itemTy (x : XCtx) (t : TypeRef) : String :=
  if x.X.itemTypeAlwaysNonNull then t.nullable.render ++ "!" else t.render

/-- `OutputType::resolve`; every list item runs inside a resolve-hook site
    (`parent_type = [T]`, `return_type = T`) -/
def resolveValueX (x : XCtx) (rec : String → String → Nat → List Sel → List PathSeg → T FRes) :
    TypeRef → RVal → List Sel → List PathSeg → Pos → T FRes
  | .nonNull t, rv, ss, path, pos =>
    match rv with
    | .null => ({ val := none, errs := [⟨path, pos⟩] }, [])
    | _ => nnWrapX (resolveValueX x rec t rv ss path pos)
  | .list t, rv, ss, path, pos =>
    match rv with
    | .null => ({ val := some .null }, [])
    | .list xs =>
      let rs := joinAllT (mapIdx (fun i v => fun (_ : Unit) =>
        x.hookAt { hook := .resolve, path := path ++ [.idx i], parent := "[" ++ itemTy x t ++ "]", ret := itemTy x t }
          (fun _ => itemWrapX x.c.D (path ++ [.idx i]) (resolveValueX x rec t v ss (path ++ [.idx i]) pos))) xs 0)
      gather rs GValue.list (some .null)
    | _ => ({ val := some .null, errs := [⟨path, pos⟩] }, [])
  | .named n, rv, ss, path, pos =>
    match rv with
    | .null => ({ val := some .null }, [])
    | .obj ty id =>
      if (x.c.S.possibleTypes n).contains ty then
        let r := rec n ty id ss path
        match r.1.val with
        | some _ => r
        | none => ({ r.1 with val := some .null }, r.2)
      else ({ val := some .null, errs := [⟨path, pos⟩] }, [])
    | .leaf v =>
      match ExecStatic.toValue x.c.D x.c.S n v with
      | some (some v') => ({ val := some v' }, [])
      | _ => ({ val := some .null, errs := [⟨path, pos⟩] }, [])
    | _ => ({ val := some .null, errs := [⟨path, pos⟩] }, [])

def completeFieldX (x : XCtx) (recC : String → String → Nat → List Sel → List PathSeg → T FRes)
    (fd : FieldDef) (rv : RVal) (occ : FieldOcc) (fpath : List PathSeg) : T FRes :=
  match rv with
  | .fail _ =>
    let epath := if x.c.D.ifaceErrNoPath && x.c.S.kindOf occ.st == some .interface then [] else fpath
    if fd.ty.isNonNull || x.c.D.resolverErrPropagates then ({ val := none, errs := [⟨epath, occ.pos⟩] }, [])
    else ({ val := some .null, errs := [⟨epath, occ.pos⟩] }, [])
  | _ => resolveValueX x recC fd.ty rv occ.sels fpath occ.pos

/-- is the registry consulted for this field before it is resolved? -/
def looksUp (x : XCtx) (hasDirs : Bool) : Bool := x.hooked || hasDirs || !x.X.plainPathSkipsLookup

/-- one field future of `add_set`.  The field is looked up on the STATIC type `occ.st`
    (`T::type_name()`); the generated `resolve_field` of that type knows exactly the same fields. -/
def runFieldX (x : XCtx) (recC : String → String → Nat → List Sel → List PathSeg → T FRes)
    (rt : String) (id : Nat) (path : List PathSeg) (occ : FieldOcc) (hasDirs : Bool) : T FRes :=
  if occ.name = "__typename" then ({ val := some (.obj [(occ.key, .str rt)]) }, [])
  else
    match x.c.S.field? occ.st occ.name with
    | none =>
      if looksUp x hasDirs then ({ val := none, errs := [⟨[], occ.pos⟩], nq := 1 }, [])
      else ({ val := some (.obj [(occ.key, .null)]) }, [])
    | some fd =>
      let fpath := path ++ [PathSeg.key occ.key]
      let r := x.hookAt { hook := .resolve, path := fpath, parent := occ.st, ret := fd.ty.render } (fun _ =>
        let r := completeFieldX x recC fd (ExecStatic.fieldRVal x.c id fd occ) occ fpath
        ({ r.1 with log := ⟨id, occ.name, occ.key⟩ :: r.1.log }, r.2))
      ({ r.1 with val := r.1.val.map (fun v => GValue.obj [(occ.key, v)]) }, r.2)

/-- `resolve_container_inner` -/
def resolveContainerX (x : XCtx) : Nat → String → String → Nat → List Sel → List PathSeg → T FRes
  | 0, _, _, _, _, path => ({ val := none, errs := [⟨path, ⟨0, 0⟩⟩] }, [])
  | fuel + 1, st, rt, id, sels, path =>
    let occs := collectX x.c rt (fuel + 1) st sels
    let rs := joinAllT (occs.map (fun o => fun (_ : Unit) =>
      runFieldX x (resolveContainerX x fuel) rt id path o.1 o.2))
    gather rs (fun vs => ExecStatic.createValueObject x.c.D (fuel + 1) (vs.filterMap ExecStatic.singleKV)) none

/-- `execute_once` on the selected operation (after `remove_skipped_selection`) -/
def runOp (D : ExecStatic.Defects) (X : XDefects) (hooked : Bool) (hookAt : Site → Wrap FRes)
    (S : Schema) (d : Doc) (op : OpDef) (raw : List (String × GValue)) (w : World) (fuel : Nat) : T FRes :=
  let sv := ExecStatic.skipVars D op.vars raw
  let d' : Doc := { ops := d.ops, frags := d.frags.map (fun f => { f with sels := ExecStatic.prune sv fuel f.sels }) }
  let c : ExecStatic.Ctx := { D := D, S := S, d := d', vars := AGV.Spec.Exec.coerceVars op.vars raw, w := w }
  let root := match op.ty with
    | .query => S.query
    | .mutation => S.mutation.getD ""
    | .subscription => S.subscription.getD ""
  resolveContainerX { c := c, X := X, hooked := hooked, hookAt := hookAt } fuel root root 0
    (ExecStatic.prune sv fuel op.sels) []

-- ------------------------------------------------------------------ the pipeline of the harness family

inductive Stage where
  | prepare | parse | validation | selectOp
  deriving DecidableEq, Repr, Inhabited

structure Cache where
  isPublic : Bool := true
  maxAge : Int := 0
  deriving DecidableEq, Repr, Inhabited

/-- a document the request carries in parsed form, with the label of the case: does strict
    validation accept it? -/
structure PreDoc where
  doc : Doc
  strictValid : Bool

/-- a request of the correspondence harness: the outcome of parsing and of strict validation is an
    input (the parser and the rules are other properties' business).
    The request FORM: `text`/`doc`/`parses`/`strictValid` describe `request.query`; `pre` is
    `request.parsed_query` (`none` = plain text request). -/
structure CaseReq where
  S : Schema
  doc : Doc
  opName : Option String
  vars : List (String × GValue)
  w : World
  parses : Bool
  strictValid : Bool
  fast : Bool
  cache : Cache := {}
  fuel : Nat
  text : String := ""
  pre : Option PreDoc := none

structure Resp where
  res : FRes
  cache : Cache := {}
  /-- the stage whose failure ended the request early -/
  early : Option Stage := none
  deriving Repr, Inhabited

def caseBase (D : ExecStatic.Defects) (X : XDefects) : Base CaseReq Doc Cache OpDef Resp Stage where
  parse := fun r => if r.parses then .ok r.doc else .error .parse
  preparsed := fun r => r.pre.map (·.doc)
  queryText := fun r => r.text
  validate := fun r _ =>
    let sv := match r.pre with
      | some p => p.strictValid
      | none => r.strictValid
    if r.fast || sv then .ok r.cache else .error .validation
  selectOp := fun r d => match AGV.Spec.Exec.selectOp d r.opName with
    | some op => .ok op
    | none => .error .selectOp
  exec := fun hookAt hooked r d op vr =>
    let x := runOp D X hooked hookAt r.S d op r.vars r.w r.fuel
    ({ res := x.1, cache := vr }, x.2)
  fromErrors := fun e => { res := { val := none }, early := some e }

/-- the events of a subscription of the harness family: the operation selects one root field `f`;
    the world holds the list of the values its stream yields at `(0, f)`; event `j` is the
    execution of the operation with that value in place (`Response::new({key: value})`, default
    cache policy) -/
def caseEvents (D : ExecStatic.Defects) (X : XDefects) (hookAt : Site → Wrap FRes) (hooked : Bool)
    (r : CaseReq) (d : Doc) (op : OpDef) : List (Unit → T Resp) :=
  match op.sels with
  | [.field _ n _ _ _ _] =>
    match r.w.get 0 n with
    | .list vs => vs.map (fun v => fun (_ : Unit) =>
        let x := runOp D X hooked hookAt r.S d op r.vars { entries := ((0, n), v) :: r.w.entries } r.fuel
        ({ res := x.1 }, x.2))
    | _ => []
  | _ => []

def caseSBase (D : ExecStatic.Defects) (X : XDefects) : SBase CaseReq Doc Cache OpDef Resp Stage where
  toBase := caseBase D X
  isSub := fun op => op.ty == .subscription
  events := fun hookAt hooked r d op _ => caseEvents D X hookAt hooked r d op

end AGV.Model.Ext
