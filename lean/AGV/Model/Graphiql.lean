/-
  Model of the configurable positions of `templates/graphiql_source.jinja` as rendered by
  `GraphiQLSource::finish` (src/http/graphiql_source.rs):

  * the title is HTML text inside <title>: askama's default HTML escaper;
  * endpoint, subscription endpoint, header and connection-parameter keys and values are the
    bodies of single-quoted JavaScript string literals inside <script type="module">.
    Pinned tree: the same HTML escaper is applied there (defect toggles below).
    Repaired: JavaScript string escaping (`\uXXXX` for `\ ' " < > &`, C0 controls, DEL,
    U+2028, U+2029).

  The escaper's replacement table is a parameter (instantiated with `Gen.AskamaEscape.table`).
  Core-only imports.
-/
namespace AGV.Model.Graphiql

/-- `true` = behaviour of the pinned tree -/
structure Defects where
  /-- `" & ' < >` are written as HTML character references inside the script, which
      JavaScript does not decode -/
  entitiesInScript : Bool := false
  /-- a backslash is copied: it starts an escape sequence / swallows the closing quote -/
  backslashRaw : Bool := false
  /-- C0 controls (LF, CR, NUL …), DEL, U+2028 and U+2029 are copied raw -/
  controlsRaw : Bool := false
  /-- no comma between the `headers: {…}` and `wsConnectionParams: {…}` properties -/
  missingComma : Bool := false
  deriving DecidableEq, Repr

def Defects.none : Defects := {}
def Defects.pinned : Defects :=
  { entitiesInScript := true, backslashRaw := true, controlsRaw := true, missingComma := true }

abbrev Table := List (Char × List Char)

/-- askama `write_escaped_str`: table characters are replaced, everything else is copied -/
def htmlEscChar (table : Table) (c : Char) : List Char :=
  match table.lookup c with
  | some r => r
  | none => [c]

def htmlEscape (table : Table) (s : List Char) : List Char := (s.map (htmlEscChar table)).flatten

def hexDigit (d : Nat) : Char := if d < 10 then Char.ofNat (48 + d) else Char.ofNat (55 + d)

def hex4 (n : Nat) : List Char :=
  [hexDigit (n / 4096 % 16), hexDigit (n / 256 % 16), hexDigit (n / 16 % 16), hexDigit (n % 16)]

/-- `\uXXXX` -/
def uEsc (c : Char) : List Char := '\\' :: 'u' :: hex4 c.toNat

/-- characters with a meaning in HTML or in a quoted JavaScript string -/
def jsSpecials : List Char := ['"', '&', '\'', '<', '>']

def isControlLike (c : Char) : Bool :=
  c.toNat < 0x20 || c.toNat = 0x7f || c.toNat = 0x2028 || c.toNat = 0x2029

def restChar (D : Defects) (c : Char) : List Char :=
  if c = '\\' then (if D.backslashRaw then [c] else uEsc c)
  else if isControlLike c then (if D.controlsRaw then [c] else uEsc c)
  else [c]

/-- one character of a configured string at a script position -/
def scriptChar (table : Table) (D : Defects) (c : Char) : List Char :=
  if D.entitiesInScript then
    match table.lookup c with
    | some r => r
    | none => restChar D c
  else if jsSpecials.contains c then uEsc c
  else restChar D c

/-- body of the string literal written for a configured string -/
def renderScript (table : Table) (D : Defects) (s : List Char) : List Char :=
  (s.map (scriptChar table D)).flatten

/-- content of <title> -/
def renderTitle (table : Table) : Option (List Char) → List Char
  | none => ['G', 'r', 'a', 'p', 'h', 'i', 'Q', 'L']
  | some t => htmlEscape table t

/-- the configuration -/
structure Config where
  endpoint : List Char
  subscription : Option (List Char)
  title : Option (List Char)
  headers : List (List Char × List Char)
  wsParams : List (List Char × List Char)

/-- what is found at the configured positions of the page -/
structure Page where
  title : List Char
  endpoint : List Char
  subscription : Option (List Char)
  headers : List (List Char × List Char)
  wsParams : List (List Char × List Char)
  /-- properties of the object literal given to `createGraphiQLFetcher`, in page order, each
      with the flag "followed by a comma" -/
  members : List (String × Bool)

/-- the template writes `url: …,` `fetch: …,` `subscriptionUrl: …,` with a comma, the two
    optional map blocks without one (pinned); `headers`/`wsConnectionParams` exist only when an
    entry was configured -/
def members (D : Defects) (c : Config) : List (String × Bool) :=
  [("url", true), ("fetch", true)] ++
  (if c.subscription.isSome then [("subscriptionUrl", true)] else []) ++
  (if c.headers.isEmpty then [] else [("headers", !D.missingComma)]) ++
  (if c.wsParams.isEmpty then [] else [("wsConnectionParams", false)])

def render (table : Table) (D : Defects) (c : Config) : Page :=
  let r := renderScript table D
  { title := renderTitle table c.title
    endpoint := r c.endpoint
    subscription := c.subscription.map r
    headers := c.headers.map (fun kv => (r kv.1, r kv.2))
    wsParams := c.wsParams.map (fun kv => (r kv.1, r kv.2))
    members := members D c }

end AGV.Model.Graphiql
