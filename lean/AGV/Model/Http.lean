/-
  Model of the request-decoding glue of `src/http/mod.rs`, `src/http/multipart.rs` and the serde
  derive of `Request` / `BatchRequest` in `src/request.rs`, plus `execute_batch`
  (`src/schema.rs`, `src/executor.rs`).  Imports only the shared types of `Spec/Http.lean`.

  Not modelled (library behaviour, exercised by the correspondence): percent-decoding
  (serde_urlencoded), JSON text (serde_json; the parser is the parameter `parse`), multipart
  framing (multer), maps forgetting order / keeping the last duplicate (BTreeMap, IndexMap).

  What a serde-derived struct visitor does with a map: every pair is looked at in order; a key of
  the table that shows up twice is an error (`duplicate field`); keys outside the table are
  skipped; at the end missing members take their default (`#[serde(default)]`, `Option`).
  With a *sequence* the same visitor reads the members positionally, missing trailing ones take
  the default, surplus ones are an error.  `#[serde(untagged)]` tries `Single(Request)` first and
  `Batch(Vec<Request>)` (non-empty) second, on the buffered document.

  Defect toggles (true = behaviour of the pinned tree):
    getOperationNameSnakeCase  `RequestSerde.operation_name` of `parse_query_string` has no rename:
                               GET reads `operation_name`, not `operationName`
    requestAcceptsArray        `Request` also deserializes from a JSON array (positional members),
                               so `[]` is a single empty request instead of a rejected empty batch
    opsMultipartTypePanics     an `operations` part whose own content type is `multipart/*` hits
                               `assert_ne!` in `receive_batch_body_no_multipart`
    getLossyUtf8               `parse_query_string` percent-decodes through `form_urlencoded::parse`,
                               which ends in `String::from_utf8_lossy`: bytes that are not UTF-8 become
                               U+FFFD instead of being refused

  Byte layer (end of the file): `serde_json::from_slice` validates UTF-8 strictly (`str::from_utf8`
  on every string, any other byte ≥ 0x80 is a syntax error; no byte order mark is skipped), and
  `receive_batch_multipart` hands the raw `Field::bytes()` of the `operations` / `map` part to it —
  the part's `charset` parameter and `Content-Transfer-Encoding` header are never looked at.
-/
import AGV.Spec.Http

namespace AGV.Model.Http
open AGV.Spec.Http (Str J Members Req BatchReq Err Part BatchResp Bytes BPart Utf8Step utf8Step utf8Decode)

structure Defects where
  getOperationNameSnakeCase : Bool := false
  requestAcceptsArray : Bool := false
  opsMultipartTypePanics : Bool := false
  getLossyUtf8 : Bool := false
  deriving Repr, DecidableEq

/-- the wire names a decoder reads for the four members -/
structure Keys where
  query : Str
  operationName : Str
  variables : Str
  extensions : Str
  deriving Repr, DecidableEq

def Keys.Distinct (K : Keys) : Prop :=
  K.query ≠ K.operationName ∧ K.query ≠ K.variables ∧ K.query ≠ K.extensions ∧
  K.operationName ≠ K.variables ∧ K.operationName ≠ K.extensions ∧ K.variables ≠ K.extensions

def kOperationNameSnake : Str := ['o','p','e','r','a','t','i','o','n','_','n','a','m','e']

/-- `Request` (`rename_all = "camelCase"`, `rename = "operationName"`) -/
def jsonKeys : Keys :=
  ⟨AGV.Spec.Http.kQuery, AGV.Spec.Http.kOperationName, AGV.Spec.Http.kVariables, AGV.Spec.Http.kExtensions⟩

/-- `RequestSerde` inside `parse_query_string` -/
def getKeys (D : Defects) : Keys :=
  { jsonKeys with operationName := if D.getOperationNameSnakeCase then kOperationNameSnake else AGV.Spec.Http.kOperationName }

def count {α : Type} (k : Str) (ps : List (Str × α)) : Nat := (ps.filter (fun p => p.1 = k)).length

def lookup {α : Type} (k : Str) (ps : List (Str × α)) : Option α := (ps.find? (fun p => p.1 = k)).map (·.2)

def hasDup {α : Type} (K : Keys) (ps : List (Str × α)) : Bool :=
  decide (count K.query ps > 1) || decide (count K.operationName ps > 1) ||
  decide (count K.variables ps > 1) || decide (count K.extensions ps > 1)

-- ------------------------------------------------------------------ member types

/-- `query: String` with `#[serde(default)]` -/
def fieldQuery : Option J → Option Str
  | none => some []
  | some (.str s) => some s
  | some _ => none

/-- `operation_name: Option<String>` with `#[serde(default)]`: `null` is `None` -/
def fieldOperationName : Option J → Option (Option Str)
  | none => some none
  | some .null => some none
  | some (.str s) => some (some s)
  | some _ => none

/-- `Variables` / `Extensions`: `Option<Map>::deserialize(..).unwrap_or_default()` -/
def asMembers : J → Option Members
  | .null => some []
  | .obj kvs => some kvs
  | _ => none

def fieldMembers : Option J → Option Members
  | none => some []
  | some j => asMembers j

-- ------------------------------------------------------------------ JSON body

/-- `Request::deserialize` from a map -/
def decodeReqObj (K : Keys) (kvs : Members) : Option Req :=
  if hasDup K kvs then none
  else
    match fieldQuery (lookup K.query kvs), fieldOperationName (lookup K.operationName kvs),
          fieldMembers (lookup K.variables kvs), fieldMembers (lookup K.extensions kvs) with
    | some q, some o, some v, some e => some ⟨q, o, v, e⟩
    | _, _, _, _ => none

/-- `Request::deserialize` from a sequence: members in declaration order -/
def decodeReqSeq (xs : List J) : Option Req :=
  if xs.length > 4 then none
  else
    match fieldQuery xs[0]?, fieldOperationName xs[1]?, fieldMembers xs[2]?, fieldMembers xs[3]? with
    | some q, some o, some v, some e => some ⟨q, o, v, e⟩
    | _, _, _, _ => none

def decodeReq (D : Defects) (K : Keys) : J → Option Req
  | .obj kvs => decodeReqObj K kvs
  | .arr xs => if D.requestAcceptsArray then decodeReqSeq xs else none
  | _ => none

def traverse {α β : Type} (f : α → Option β) : List α → Option (List β)
  | [] => some []
  | a :: as => match f a with
    | none => none
    | some b => match traverse f as with
      | none => none
      | some bs => some (b :: bs)

/-- `serde_json::from_slice::<BatchRequest>` (untagged: `Single`, then non-empty `Batch`) -/
def decodeBatch (D : Defects) (K : Keys) (j : J) : Except Err BatchReq :=
  match decodeReq D K j with
  | some r => .ok (.single r)
  | none =>
    match j with
    | .arr xs =>
      match traverse (decodeReq D K) xs with
      | some rs => if rs.isEmpty then .error .invalidRequest else .ok (.batch rs)
      | none => .error .invalidRequest
    | _ => .error .invalidRequest

/-- `BatchRequest::into_single` after `?` -/
def intoSingle : Except Err BatchReq → Except Err Req
  | .ok (.single r) => .ok r
  | .ok (.batch _) => .error .unsupportedBatch
  | .error e => .error e

-- ------------------------------------------------------------------ GET

/-- `.map(|data| serde_json::from_str(&data)).transpose().map_err(..)?.unwrap_or_default()` -/
def getMembers (parse : Str → Option J) (e : Err) : Option Str → Except Err Members
  | none => .ok []
  | some t => match parse t with
    | none => .error e
    | some j => match asMembers j with
      | none => .error e
      | some m => .ok m

/-- `parse_query_string` on the percent-decoded pairs -/
def decodeGet (K : Keys) (parse : Str → Option J) (ps : List (Str × Str)) : Except Err Req :=
  if hasDup K ps then .error .queryString
  else
    match getMembers parse .variables (lookup K.variables ps) with
    | .error e => .error e
    | .ok vars =>
      match getMembers parse .extensions (lookup K.extensions ps) with
      | .error e => .error e
      | .ok exts => .ok ⟨(lookup K.query ps).getD [], lookup K.operationName ps, vars, exts⟩

-- ------------------------------------------------------------------ multipart

/-- the `while let Some(field)` loop of `receive_batch_multipart` without files, then the two
    `ok_or` checks -/
def decodeMultipartAux (D : Defects) (K : Keys) : List Part → Option BatchReq → Bool → Except Err BatchReq
  | [], none, _ => .error .missingOperations
  | [], some _, false => .error .missingMap
  | [], some r, true => .ok r
  | .ops ct j :: rest, _, m =>
    if AGV.Spec.Http.isMultipartType ct then
      (if D.opsMultipartTypePanics then .error .panic else .error .invalidRequest)
    else match decodeBatch D K j with
      | .ok r => decodeMultipartAux D K rest (some r) m
      | .error e => .error e
  | .map :: rest, req, _ => decodeMultipartAux D K rest req true
  | .other :: rest, req, m => decodeMultipartAux D K rest req m

def decodeMultipart (D : Defects) (K : Keys) (parts : List Part) : Except Err BatchReq :=
  decodeMultipartAux D K parts none false

-- ------------------------------------------------------------------ execution

/-- `FuturesOrdered::from_iter(requests.map(execute)).collect()` -/
def executeBatch {ρ : Type} (exec : Req → ρ) : BatchReq → BatchResp ρ
  | .single r => .single (exec r)
  | .batch rs => .batch (rs.map exec)

-- ------------------------------------------------------------------ the standard encoders

/-- the JSON object a client sends for `r` (all four members spelled out) -/
def encodeJson (K : Keys) (r : Req) : J :=
  .obj ([(K.query, .str r.query)] ++
        (match r.operationName with | some o => [(K.operationName, J.str o)] | none => []) ++
        [(K.variables, .obj r.variables), (K.extensions, .obj r.extensions)])

def encodeBatch (K : Keys) (rs : List Req) : J := .arr (rs.map (encodeJson K))

/-- the GET parameters a client sends for `r`; `print` is the JSON text printer -/
def encodeGet (K : Keys) (print : J → Str) (r : Req) : List (Str × Str) :=
  [(K.query, r.query)] ++
  (match r.operationName with | some o => [(K.operationName, o)] | none => []) ++
  [(K.variables, print (.obj r.variables)), (K.extensions, print (.obj r.extensions))]

-- ------------------------------------------------------------------ the byte layer

set_option linter.unusedVariables false in
/-- `String::from_utf8_lossy` (`Utf8Chunks`): every maximal ill-formed prefix becomes one U+FFFD -/
def utf8DecodeLossyN : List Nat → List Char
  | [] => []
  | b0 :: tl =>
    match h : utf8Step b0 tl with
    | .char n rest => Char.ofNat n :: utf8DecodeLossyN rest
    | .bad rest => Char.ofNat 0xFFFD :: utf8DecodeLossyN rest
termination_by l => l.length
decreasing_by
  all_goals
    have := AGV.Spec.Http.utf8Step_rest_le b0 tl
    rw [h] at this
    simp [Utf8Step.rest] at this
    simp; omega

def utf8DecodeLossy (bs : Bytes) : List Char := utf8DecodeLossyN (bs.map UInt8.toNat)

/-- `serde_json::from_slice::<BatchRequest>(&data)` on the bytes of a body, a batch, or the
    `operations` part -/
def decodeBodyBytes (D : Defects) (K : Keys) (parse : Str → Option J) (bs : Bytes) : Except Err BatchReq :=
  match utf8Decode bs with
  | none => .error .invalidRequest
  | some t => match parse t with
    | none => .error .invalidRequest
    | some j => decodeBatch D K j

/-- what `form_urlencoded::parse` makes of the percent-decoded bytes of a key or value -/
def getText (D : Defects) (bs : Bytes) : Option Str :=
  if D.getLossyUtf8 then some (utf8DecodeLossy bs) else utf8Decode bs

def getPair (D : Defects) (p : Bytes × Bytes) : Option (Str × Str) :=
  match getText D p.1, getText D p.2 with
  | some k, some v => some (k, v)
  | _, _ => none

/-- `parse_query_string` on the percent-decoded pairs, as bytes -/
def decodeGetBytes (D : Defects) (K : Keys) (parse : Str → Option J) (ps : List (Bytes × Bytes)) : Except Err Req :=
  match traverse (getPair D) ps with
  | none => .error .queryString
  | some tps => decodeGet K parse tps

/-- `serde_json::from_slice::<HashMap<String, Vec<String>>>` on the tree -/
def filesMap : J → Option (List (Str × List Str))
  | .obj kvs => traverse (fun (p : Str × J) => match p.2 with
      | .arr xs => match traverse (fun (x : J) => match x with | .str s => some s | _ => none) xs with
        | some ss => some (p.1, ss)
        | none => none
      | _ => none) kvs
  | _ => none

/-- the loop of `receive_batch_multipart` on the raw `Field::bytes()` of the parts (no files:
    whatever the map names is missing) -/
def decodeMultipartBytesAux (D : Defects) (K : Keys) (parse : Str → Option J) :
    List BPart → Option BatchReq → Option (List (Str × List Str)) → Except Err BatchReq
  | [], none, _ => .error .missingOperations
  | [], some _, none => .error .missingMap
  | [], some r, some m => if m.isEmpty then .ok r else .error .missingFiles
  | .ops ct bs :: rest, _, m =>
    if AGV.Spec.Http.isMultipartType ct then
      (if D.opsMultipartTypePanics then .error .panic else .error .invalidRequest)
    else match decodeBodyBytes D K parse bs with
      | .ok r => decodeMultipartBytesAux D K parse rest (some r) m
      | .error e => .error e
  | .map bs :: rest, req, _ =>
    match utf8Decode bs with
    | none => .error .invalidFilesMap
    | some t => match parse t with
      | none => .error .invalidFilesMap
      | some j => match filesMap j with
        | none => .error .invalidFilesMap
        | some m => decodeMultipartBytesAux D K parse rest req (some m)
  | .other :: rest, req, m => decodeMultipartBytesAux D K parse rest req m

def decodeMultipartBytes (D : Defects) (K : Keys) (parse : Str → Option J) (parts : List BPart) : Except Err BatchReq :=
  decodeMultipartBytesAux D K parse parts none none

/-- NOT the code: the variant that reads the `operations` part as text (multer's `Field::text()`
    for a part without charset label: a UTF-8 byte order mark is dropped, ill-formed bytes become
    U+FFFD) and parses that.  Kept to show what the byte-level agreement theorem excludes. -/
def decodeBodyBytesAsText (D : Defects) (K : Keys) (parse : Str → Option J) (bs : Bytes) : Except Err BatchReq :=
  let bs' := match bs with
    | 0xEF :: 0xBB :: 0xBF :: r => r
    | _ => bs
  match parse (utf8DecodeLossy bs') with
  | none => .error .invalidRequest
  | some j => decodeBatch D K j

/-- the bytes a client sends for a text -/
def encodeGetBytes (K : Keys) (print : J → Str) (r : Req) : List (Bytes × Bytes) :=
  (encodeGet K print r).map (fun p => (AGV.Spec.Http.utf8Encode p.1, AGV.Spec.Http.utf8Encode p.2))

end AGV.Model.Http
