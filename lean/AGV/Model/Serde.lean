/-
  Model of `value/src/serializer.rs` (`to_value`) and `value/src/deserializer.rs` (`from_value`)
  over the serde data model.  Import-free.

  * `STy`  the shape of a Rust type as serde sees it (what `#[derive(Serialize, Deserialize)]`
           announces to the (de)serializer); `SVal` a value of the serde data model.
  * `GV`   `ConstValue`.  `serde_json::Number` is `PosInt(u64) | NegInt(i64) | Float(f64)`; the first
           two are told apart by the sign only, so one `int` constructor suffices; a float is the
           bit pattern of the `f64` (an opaque token: no arithmetic is ever done on it).
  * `ser`  `to_value`:   `none` = `Err(SerializerError)`.
  * `de`   `from_value::<T>` for `T` of shape `τ`: `none` = `Err(DeserializerError)`.
           Which `Visitor` method a derived `Deserialize` offers for which shape is the serde
           contract (serde 1.0.229, `serde_derive`), recorded here next to each clause.

  Defect toggle (true = the pinned tree):
    charRejected   `serialize_char` returns `Err("char is not supported.")`
-/
namespace AGV.Model.Serde

abbrev Str := List Char

inductive PTy where
  | bool | i8 | i16 | i32 | i64 | i128 | u8 | u16 | u32 | u64 | u128
  | f32 | f64 | char | str | bytes | unit | ustruct
  deriving DecidableEq, Repr, Inhabited

/-- the four kinds of enum variant of the serde data model -/
inductive VKind where
  | unit | newtype | tuple | struct
  deriving DecidableEq, Repr, Inhabited

inductive STy where
  | prim (p : PTy)
  | opt (t : STy)
  | newtype (t : STy)                       -- `struct N(T);`
  | seq (t : STy)                           -- `Vec<T>`
  | map (t : STy)                           -- `BTreeMap<String, T>`
  | tup (ts : List STy)                     -- `(A, B, …)`
  | tstruct (ts : List STy)                 -- `struct T(A, B, …);`
  | struct (ns : List Str) (ts : List STy)  -- `struct S { n₁: T₁, … }`
  /-- `enum E { … }`: variant names, kinds and payload shapes (parallel lists).  Payload shape of a
      unit variant is ignored, of a newtype variant is the inner shape, of a tuple variant is
      `.tup ts`, of a struct variant is `.struct ns ts`. -/
  | enum (ns : List Str) (ks : List VKind) (ts : List STy)
  deriving Inhabited

inductive SVal where
  | bool (b : Bool)
  | int (n : Int)                 -- every integer width
  | float (bits : Nat)            -- f32 (bits of its f64 widening) and f64
  | char (c : Char)
  | str (s : Str)
  | bytes (bs : List Nat)
  | unit                          -- `()` and unit structs
  | none
  | some (v : SVal)
  | newtype (v : SVal)
  | seq (vs : List SVal)
  | tup (vs : List SVal)          -- tuples, tuple structs, struct fields, tuple/struct variant payloads
  | map (kvs : List (Str × SVal))
  | var (name : Str) (v : SVal)   -- enum variant with its payload (`.unit` for a unit variant)
  deriving Inhabited

inductive GV where
  | null
  | int (n : Int)
  | float (bits : Nat)
  | str (s : Str)
  | bool (b : Bool)
  | bin (bs : List Nat)
  | enum (s : Str)
  | list (xs : List GV)
  | obj (kvs : List (Str × GV))
  deriving Inhabited

structure Defects where
  charRejected : Bool := false
  deriving DecidableEq, Repr

def Defects.none : Defects := {}
def Defects.pinned : Defects := { charRejected := true }

-- ---------------------------------------------------------------- small helpers

/-- `Option`-valued map over a list (first failure wins) -/
def allM {α β : Type} (f : α → Option β) : List α → Option (List β)
  | [] => some []
  | a :: as =>
    match f a with
    | Option.none => Option.none
    | Option.some b =>
      match allM f as with
      | Option.none => Option.none
      | Option.some bs => Option.some (b :: bs)

/-- `IndexMap::insert`: replaces the value of an existing key in place, else appends -/
def imInsert (kvs : List (Str × GV)) (k : Str) (v : GV) : List (Str × GV) :=
  match kvs with
  | [] => [(k, v)]
  | (k', v') :: rest => if k' = k then (k', v) :: rest else (k', v') :: imInsert rest k v

def imFromList (l : List (Str × GV)) : List (Str × GV) :=
  l.foldl (fun acc kv => imInsert acc kv.1 kv.2) []

/-- key lookup in an object -/
def lookup (k : Str) : List (Str × GV) → Option GV
  | [] => Option.none
  | (k', v) :: rest => if k' = k then Option.some v else lookup k rest

def GV.isNull : GV → Bool
  | .null => true
  | _ => false

/-- `f64::is_finite` on the bit pattern: exponent field is not all ones -/
def finiteBits (b : Nat) : Bool := (b / 2 ^ 52) % 2048 != 2047

/-- inclusive range of an integer type (`none` for non-integers) -/
def PTy.range : PTy → Option (Int × Int)
  | .i8 => some (-128, 127)
  | .i16 => some (-32768, 32767)
  | .i32 => some (-2147483648, 2147483647)
  | .i64 => some (-9223372036854775808, 9223372036854775807)
  | .i128 => some (-170141183460469231731687303715884105728, 170141183460469231731687303715884105727)
  | .u8 => some (0, 255)
  | .u16 => some (0, 65535)
  | .u32 => some (0, 4294967295)
  | .u64 => some (0, 18446744073709551615)
  | .u128 => some (0, 340282366920938463463374607431768211455)
  | _ => Option.none

/-- integer types with a `serialize_*` method in `serializer.rs` (i128/u128 fall to serde's
    default, which is an error) -/
def PTy.ser64 : PTy → Bool
  | .i8 | .i16 | .i32 | .i64 | .u8 | .u16 | .u32 | .u64 => true
  | _ => false

def inRange (p : PTy) (n : Int) : Bool :=
  match p.range with
  | some (lo, hi) => decide (lo ≤ n) && decide (n ≤ hi)
  | Option.none => false

/-- `n as f64` as a bit pattern; exact whenever `n` has at most 53 significant bits (the
    correspondence only feeds such integers to float targets) -/
def f64BitsOfNat (n : Nat) : Nat :=
  if n = 0 then 0
  else
    let e := n.log2
    if e ≤ 52 then (1023 + e) * 2 ^ 52 + (n * 2 ^ (52 - e) - 2 ^ 52)
    else (1023 + e) * 2 ^ 52 + (n / 2 ^ (e - 52) - 2 ^ 52)

def f64BitsOfInt (n : Int) : Nat :=
  if n < 0 then 2 ^ 63 + f64BitsOfNat n.natAbs else f64BitsOfNat n.toNat

-- ---------------------------------------------------------------- to_value

/-- scalars and unit-like values: `serialize_bool` … `serialize_unit_struct` -/
def serPrim (D : Defects) : PTy → SVal → Option GV
  | .bool, .bool b => some (.bool b)
  | .f32, .float b => some (if finiteBits b then .float b else .null)   -- `Number::from_f64` is `None` for NaN/±inf
  | .f64, .float b => some (if finiteBits b then .float b else .null)
  | .char, .char c => if D.charRejected then Option.none else some (.str [c])
  | .str, .str s => some (.str s)
  | .bytes, .bytes bs => some (.bin bs)
  | .unit, .unit => some .null
  | .ustruct, .unit => some .null
  | p, .int n => if p.ser64 then some (.int n) else Option.none   -- i128/u128: "i128 is not supported"
  | _, _ => Option.none

mutual
def ser (D : Defects) : STy → SVal → Option GV
  | .prim p, v => serPrim D p v
  | .opt _, .none => some .null                                     -- serialize_none
  | .opt t, .some v => ser D t v                                    -- serialize_some: transparent
  | .newtype t, .newtype v => ser D t v                             -- serialize_newtype_struct: transparent
  | .seq t, .seq vs => (allM (ser D t) vs).map .list
  | .map t, .map kvs =>
    (allM (fun kv => (ser D t kv.2).map (fun g => (kv.1, g))) kvs).map (fun l => .obj (imFromList l))
  | .tup ts, .tup vs => (serL D ts vs).map .list
  | .tstruct ts, .tup vs => (serL D ts vs).map .list
  | .struct ns ts, .tup vs =>
    if ns.length = ts.length then (serL D ts vs).map (fun gs => .obj (imFromList (ns.zip gs))) else Option.none
  | .enum ns ks ts, .var name v => serVar D ns ks ts name v
  | _, _ => Option.none
def serL (D : Defects) : List STy → List SVal → Option (List GV)
  | [], [] => some []
  | t :: ts, v :: vs =>
    match ser D t v with
    | Option.none => Option.none
    | some g =>
      match serL D ts vs with
      | Option.none => Option.none
      | some gs => some (g :: gs)
  | _, _ => Option.none
def serVar (D : Defects) : List Str → List VKind → List STy → Str → SVal → Option GV
  | n :: ns, k :: ks, t :: ts, name, v =>
    if n = name then
      match k, t, v with
      | .unit, _, .unit => some (.str n)                                     -- serialize_unit_variant
      | .newtype, t, v => (ser D t v).map (fun g => .obj [(n, g)])           -- serialize_newtype_variant
      | .tuple, .tup ts', .tup vs => (serL D ts' vs).map (fun gs => .obj [(n, .list gs)])
      | .struct, .struct fns fts, .tup vs =>
        if fns.length = fts.length then
          (serL D fts vs).map (fun gs => .obj [(n, .obj (imFromList (fns.zip gs)))])
        else Option.none
      | _, _, _ => Option.none
    else serVar D ns ks ts name v
  | _, _, _, _, _ => Option.none
end

-- ---------------------------------------------------------------- from_value

/-- scalars: everything is `forward_to_deserialize_any!`, so the value decides which `visit_*`
    is called and serde's visitor for the target type accepts it or not -/
def dePrim : PTy → GV → Option SVal
  | .bool, .bool b => some (.bool b)
  -- Number::deserialize_any: visit_u64 / visit_i64 / visit_f64; integer visitors range-check and
  -- reject visit_f64
  | .f32, .float b => some (.float b)
  | .f64, .float b => some (.float b)
  | .f32, .int n => some (.float (f64BitsOfInt n))
  | .f64, .int n => some (.float (f64BitsOfInt n))
  | .char, .str [c] => some (.char c)
  | .char, .enum [c] => some (.char c)
  | .str, .str s => some (.str s)
  | .str, .enum s => some (.str s)                                  -- ConstValue::Enum → visit_str
  | .str, .bin bs =>                                                -- visit_bytes: UTF-8 (ASCII modelled)
    if bs.all (· < 128) then some (.str (bs.map Char.ofNat)) else Option.none
  | .bytes, .bin bs => some (.bytes bs)
  | .unit, .null => some .unit                                      -- visit_unit
  | .ustruct, .null => some .unit
  | p, .int n => if inRange p n then some (.int n) else Option.none
  | _, _ => Option.none

/-- `deserialize_enum`: the variant name and the optional payload -/
def enumParts : GV → Option (Str × Option GV)
  | .obj [(k, v)] => some (k, some v)                               -- "map with a single key"
  | .str s => some (s, Option.none)
  | .enum s => some (s, Option.none)
  | _ => Option.none

def STy.isOpt : STy → Bool
  | .opt _ => true
  | _ => false

mutual
def de : STy → GV → Option SVal
  | .prim p, g => dePrim p g
  | .opt t, g =>                                                    -- deserialize_option
    match g with
    | .null => some .none
    | g => (de t g).map .some
  | .newtype t, g => (de t g).map .newtype                          -- visit_newtype_struct(self)
  | .seq t, .list gs => (allM (de t) gs).map .seq                   -- visit_array → visit_seq (Vec takes all)
  | .map t, .obj kvs =>                                             -- visit_object → visit_map
    (allM (fun kv => (de t kv.2).map (fun v => (kv.1, v))) kvs).map .map
  | .tup ts, .list gs => (deL ts gs).map .tup                       -- exact length (invalid_length both ways)
  | .tstruct ts, .list gs => (deL ts gs).map .tup
  | .struct ns ts, .obj kvs => (deFields ns ts kvs).map .tup        -- derived visit_map
  | .struct ns ts, .list gs =>                                      -- derived visit_seq: positional
    if ns.length = ts.length then (deL ts gs).map .tup else Option.none
  | .enum ns ks ts, g =>
    match enumParts g with
    | some (name, p) => deVar ns ks ts name p
    | Option.none => Option.none
  | _, _ => Option.none
def deL : List STy → List GV → Option (List SVal)
  | [], [] => some []
  | t :: ts, g :: gs =>
    match de t g with
    | Option.none => Option.none
    | some v =>
      match deL ts gs with
      | Option.none => Option.none
      | some vs => some (v :: vs)
  | _, _ => Option.none
/-- derived `visit_map` of a struct: fields by name, unknown keys ignored, a missing field is
    `None` for an `Option` field (`missing_field`) and an error otherwise -/
def deFields : List Str → List STy → List (Str × GV) → Option (List SVal)
  | [], [], _ => some []
  | n :: ns, t :: ts, kvs =>
    match lookup n kvs with
    | some g =>
      match de t g with
      | Option.none => Option.none
      | some v =>
        match deFields ns ts kvs with
        | Option.none => Option.none
        | some vs => some (v :: vs)
    | Option.none =>
      if t.isOpt then
        match deFields ns ts kvs with
        | Option.none => Option.none
        | some vs => some (SVal.none :: vs)
      else Option.none
  | _, _, _ => Option.none
/-- `visit_enum`: variant identifier by name, then `VariantAccess` -/
def deVar : List Str → List VKind → List STy → Str → Option GV → Option SVal
  | n :: ns, k :: ks, t :: ts, name, p =>
    if n = name then
      match k, t, p with
      | .unit, _, Option.none => some (.var n .unit)                           -- unit_variant, no payload
      | .unit, _, some .null => some (.var n .unit)                            -- payload must be `()`
      | .newtype, t, some g => (de t g).map (fun v => .var n v)                -- newtype_variant_seed
      | .tuple, .tup ts', some (.list gs) =>                                   -- tuple_variant
        -- SeqDeserializer::deserialize_any: `len == 0` → visit_unit, which a tuple visitor rejects
        if gs.isEmpty then Option.none else (deL ts' gs).map (fun vs => .var n (.tup vs))
      | .struct, .struct fns fts, some (.obj kvs) =>                           -- struct_variant → visit_map
        (deFields fns fts kvs).map (fun vs => .var n (.tup vs))
      | _, _, _ => Option.none
    else deVar ns ks ts name p
  | _, _, _, _, _ => Option.none
end

-- ---------------------------------------------------------------- what can round-trip

def nodup : List Str → Bool
  | [] => true
  | a :: as => !as.contains a && nodup as

/-- scalars that survive: integers up to 64 bits within the range of their type, finite floats,
    `char` only when the serializer accepts it -/
def rtPrim (D : Defects) : PTy → SVal → Bool
  | .bool, .bool _ => true
  | .f32, .float b => finiteBits b
  | .f64, .float b => finiteBits b
  | .char, .char _ => !D.charRejected
  | .str, .str _ => true
  | .bytes, .bytes _ => true
  | .unit, .unit => true
  | .ustruct, .unit => true
  | p, .int n => p.ser64 && inRange p n
  | _, _ => false

def serIsNull (o : Option GV) : Bool :=
  match o with
  | some g => g.isNull
  | Option.none => false

mutual
/-- `v` is a value of shape `τ` (keys of a map and names of a struct pairwise distinct, as Rust
    guarantees) that contains none of the classes that cannot survive: `char`/`i128`/`u128`, a
    non-finite float, a value that serialises to `null` directly under an `Option`, an empty tuple
    variant -/
def rtb (D : Defects) : STy → SVal → Bool
  | .prim p, v => rtPrim D p v
  | .opt _, .none => true
  | .opt t, .some v => rtb D t v && !serIsNull (ser D t v)
  | .newtype t, .newtype v => rtb D t v
  | .seq t, .seq vs => vs.all (rtb D t)
  | .map t, .map kvs => kvs.all (fun kv => rtb D t kv.2) && nodup (kvs.map (·.1))
  | .tup ts, .tup vs => rtbL D ts vs
  | .tstruct ts, .tup vs => rtbL D ts vs
  | .struct ns ts, .tup vs => rtbL D ts vs && decide (ns.length = ts.length) && nodup ns
  | .enum ns ks ts, .var name v => rtbVar D ns ks ts name v
  | _, _ => false
def rtbL (D : Defects) : List STy → List SVal → Bool
  | [], [] => true
  | t :: ts, v :: vs => rtb D t v && rtbL D ts vs
  | _, _ => false
def rtbVar (D : Defects) : List Str → List VKind → List STy → Str → SVal → Bool
  | n :: ns, k :: ks, t :: ts, name, v =>
    if n = name then
      match k, t, v with
      | .unit, _, .unit => true
      | .newtype, t, v => rtb D t v
      | .tuple, .tup ts', .tup vs => rtbL D ts' vs && !vs.isEmpty
      | .struct, .struct fns fts, .tup vs => rtbL D fts vs && decide (fns.length = fts.length) && nodup fns
      | _, _, _ => false
    else rtbVar D ns ks ts name v
  | _, _, _, _, _ => false
end

-- ---------------------------------------------------------------- values of a shape

def shapePrim : PTy → SVal → Bool
  | .bool, .bool _ => true
  | .f32, .float _ => true
  | .f64, .float _ => true
  | .char, .char _ => true
  | .str, .str _ => true
  | .bytes, .bytes _ => true
  | .unit, .unit => true
  | .ustruct, .unit => true
  | p, .int n => inRange p n
  | _, _ => false

mutual
/-- `v` is a value of the Rust type described by `τ` (integers within their type, map keys, field
    names pairwise distinct) — `rtb` without its exclusions -/
def wellShaped : STy → SVal → Bool
  | .prim p, v => shapePrim p v
  | .opt _, .none => true
  | .opt t, .some v => wellShaped t v
  | .newtype t, .newtype v => wellShaped t v
  | .seq t, .seq vs => vs.all (wellShaped t)
  | .map t, .map kvs => kvs.all (fun kv => wellShaped t kv.2) && nodup (kvs.map (·.1))
  | .tup ts, .tup vs => wellShapedL ts vs
  | .tstruct ts, .tup vs => wellShapedL ts vs
  | .struct ns ts, .tup vs => wellShapedL ts vs && decide (ns.length = ts.length) && nodup ns
  | .enum ns ks ts, .var name v => wellShapedVar ns ks ts name v
  | _, _ => false
def wellShapedL : List STy → List SVal → Bool
  | [], [] => true
  | t :: ts, v :: vs => wellShaped t v && wellShapedL ts vs
  | _, _ => false
def wellShapedVar : List Str → List VKind → List STy → Str → SVal → Bool
  | n :: ns, k :: ks, t :: ts, name, v =>
    if n = name then
      match k, t, v with
      | .unit, _, .unit => true
      | .newtype, t, v => wellShaped t v
      | .tuple, .tup ts', .tup vs => wellShapedL ts' vs
      | .struct, .struct fns fts, .tup vs => wellShapedL fts vs && decide (fns.length = fts.length) && nodup fns
      | _, _, _ => false
    else wellShapedVar ns ks ts name v
  | _, _, _, _, _ => false
end

/-- the explicit, decidable side condition of the round-trip theorem -/
def RoundTrippable (D : Defects) (τ : STy) (v : SVal) : Prop := rtb D τ v = true

instance (D : Defects) (τ : STy) (v : SVal) : Decidable (RoundTrippable D τ v) := by
  unfold RoundTrippable; infer_instance

/-- `from_value::<T>(to_value(v)?)`: `none` when `to_value` fails, else the result of `from_value` -/
def roundTrip (D : Defects) (τ : STy) (v : SVal) : Option (Option SVal) :=
  (ser D τ v).map (de τ)

end AGV.Model.Serde
