/-
  C10 — model of the limit checks of `prepare_request` as the code performs them:

  * `check_recursive_depth` / `check_max_directives` (src/schema.rs): syntactic walkers over
    the un-expanded document that jump into a fragment's selection set at each spread;
  * the `Inline`-mode visitors `DepthCalculate` / `ComplexityCalculate`
    (src/validation/visitors) driven by `visit_selection` / `visit_fragment_spread` /
    `visit_inline_fragment` (src/validation/visitor.rs) with the context's TYPE STACK
    (`with_type`, `current_type` = top, `parent_type` = second from the top);
  * the comparisons and their order in `check_rules` (src/validation/mod.rs).

  The per-field push/pop of `complexity_stack` and `current_depth` is summarised by the value
  each sub-tree contributes.  Defect toggles: `true` = behaviour of the pinned tree.
-/
import AGV.Core.Types
import AGV.Spec.Limits
import AGV.Gen.LimitFacts

namespace AGV.Model.Limits
open AGV.Core
open AGV.Spec.Limits (CExpr Rule Rules ArgEnv Config Verdict)

structure Defects where
  /-- `visit_fragment_spread` visits the fragment's selections WITHOUT pushing the fragment's
      type condition: fields below a named spread are looked up on the enclosing type -/
  spreadKeepsParentType : Bool := false
  /-- `visit_selection` never calls `visit_field` for `__typename`: it is not counted -/
  typenameUncounted : Bool := false
  deriving Repr, Inhabited

def Defects.none : Defects := {}

-- ------------------------------------------------------------------ the visitor context's type stack

abbrev TypeStack := List (Option String)

def current (ts : TypeStack) : Option String :=
  match ts with
  | t :: _ => t
  | [] => none

/-- `type_stack[len - 2]` -/
def parent (ts : TypeStack) : Option String :=
  match ts with
  | _ :: p :: _ => p
  | _ => none

/-- `registry.types.get(name)` -/
def typeNamed (S : Schema) (n : String) : Option String :=
  match S.find? n with
  | some _ => some n
  | none => none

/-- `current_type().and_then(field_by_name).and_then(concrete_type_by_name)` -/
def pushField (S : Schema) (ts : TypeStack) (name : String) : TypeStack :=
  (match current ts with
   | some t =>
     match S.field? t name with
     | some f => typeNamed S f.ty.base
     | none => none
   | none => none) :: ts

/-- `exit_field` of `ComplexityCalculate`: the field's own rule if `parent_type()` is an
    OBJECT type whose field declares `compute_complexity` -/
def customRule (S : Schema) (R : Rules) (ts : TypeStack) (name : String) : Option CExpr :=
  match parent ts with
  | some t =>
    match S.find? t with
    | some td =>
      if td.kind = Kind.object then
        match R.find? (fun r => r.ty = t ∧ r.field = name) with
        | some r => some r.expr
        | none => none
      else none
    | none => none
  | none => none

/-- stack on entering the selections of the fragment spread `fr` -/
def pushSpread (D : Defects) (S : Schema) (ts : TypeStack) (fr : FragDef) : TypeStack :=
  if D.spreadKeepsParentType then ts else typeNamed S fr.cond :: ts

def pushInline (S : Schema) (ts : TypeStack) : Option String → TypeStack
  | some c => typeNamed S c :: ts
  | none => ts

-- ------------------------------------------------------------------ Inline-mode visitors
-- `fuel` bounds the levels of selection sets followed (the visitors only run on documents
-- that passed `check_recursive_depth`, see `check`).

/-- contribution of a selection set to `ComplexityCalculate`'s enclosing stack slot -/
def cxSels (D : Defects) (S : Schema) (R : Rules) (ρ : ArgEnv) (vds : List VarDef) (frags : List FragDef) :
    Nat → TypeStack → List Sel → Nat
  | 0, _, _ => 0
  | f + 1, ts, sels => (sels.map fun s =>
    match s with
    | .field _ name args _ sub _ =>
      if name = "__typename" ∧ D.typenameUncounted = true then 0
      else
        let ts' := pushField S ts name
        let child := cxSels D S R ρ vds frags f ts' sub
        match customRule S R ts' name with
        | some e =>
          match e.eval (ρ vds args) child with
          | some n => n
          | none => 0     -- `Err(err) => ctx.report_error(…)`: nothing is added
        | none => 1 + child
    | .spread n _ _ =>
      match frags.find? (fun fr => fr.name = n) with
      | some fr => cxSels D S R ρ vds frags f (pushSpread D S ts fr) fr.sels
      | none => 0
    | .inline c _ sub _ => cxSels D S R ρ vds frags f (pushInline S ts c) sub).sum

/-- `DepthCalculate`: deepest `current_depth` reached below, relative to the entry depth -/
def depthSels (D : Defects) (frags : List FragDef) : Nat → List Sel → Nat
  | 0, _ => 0
  | f + 1, sels => Spec.Limits.maxList (sels.map fun s =>
    match s with
    | .field _ name _ _ sub _ =>
      if name = "__typename" ∧ D.typenameUncounted = true then 0
      else 1 + depthSels D frags f sub
    | .spread n _ _ =>
      match frags.find? (fun fr => fr.name = n) with
      | some fr => depthSels D frags f fr.sels
      | none => 0
    | .inline _ _ sub _ => depthSels D frags f sub)

/-- root type name of an operation, `None` → "Schema is not configured for …" and nothing visited -/
def rootType (S : Schema) : OpType → Option String
  | .query => some S.query
  | .mutation => S.mutation
  | .subscription => S.subscription

/-- `*self.complexity` after `exit_document`: every operation of the document adds up -/
def complexity (D : Defects) (S : Schema) (R : Rules) (ρ : ArgEnv) (fuel : Nat) (d : Doc) : Nat :=
  (d.ops.map fun o =>
    match rootType S o.ty with
    | some r => cxSels D S R ρ o.vars d.frags fuel [some r] o.sels
    | none => 0).sum

/-- `max_depth` over every operation of the document -/
def depth (D : Defects) (S : Schema) (fuel : Nat) (d : Doc) : Nat :=
  Spec.Limits.maxList (d.ops.map fun o =>
    match rootType S o.ty with
    | some _ => depthSels D d.frags fuel o.sels
    | none => 0)

-- ------------------------------------------------------------------ syntactic walkers of src/schema.rs

/-- `check_recursive_depth`: `budget = max_depth + 1 - current_depth`; `true` = the walker
    returns the error (it reached a selection set with `current_depth > max_depth`) -/
def recExceeds (frags : List FragDef) : Nat → List Sel → Bool
  | 0, _ => true
  | b + 1, sels => sels.any fun s =>
    match s with
    | .field _ _ _ _ sub _ => !sub.isEmpty && recExceeds frags b sub
    | .spread n _ _ =>
      match frags.find? (fun fr => fr.name = n) with
      | some fr => recExceeds frags b fr.sels
      | none => false
    | .inline _ _ sub _ => recExceeds frags b sub

/-- `check_max_directives` (runs only after `check_recursive_depth` succeeded) -/
def dirExceeds (frags : List FragDef) (lim : Nat) : Nat → List Sel → Bool
  | 0, _ => false
  | f + 1, sels => sels.any fun s =>
    match s with
    | .field _ _ _ dirs sub _ => decide (dirs.length > lim) || dirExceeds frags lim f sub
    | .spread n _ _ =>
      match frags.find? (fun fr => fr.name = n) with
      | some fr => dirExceeds frags lim f fr.sels
      | none => false
    | .inline _ _ sub _ => dirExceeds frags lim f sub

-- ------------------------------------------------------------------ prepare_request

/-- the verdict of `prepare_request` as far as the four limits go.  A verdict other than
    `accept` is returned as the response's only error before `execute` is entered: no resolver
    has run. -/
def check (D : Defects) (cfg : Config) (S : Schema) (R : Rules) (ρ : ArgEnv) (d : Doc) : Verdict :=
  let fuel := cfg.recursion + 2
  if d.ops.any (fun o => recExceeds d.frags (cfg.recursion + 1) o.sels) then .recursion
  else if (match cfg.directives with
      | some lim => d.ops.any (fun o => dirExceeds d.frags lim fuel o.sels)
      | none => false) then .directives
  else if (match cfg.complexity with
      | some lim => decide (complexity D S R ρ fuel d > lim)
      | none => false) then .complexity
  else if (match cfg.depth with
      | some lim => decide (depth D S fuel d > lim)
      | none => false) then .depth
  else .accept

/-- may a resolver be invoked?  Only when `prepare_request` succeeded. -/
def resolversMayRun (D : Defects) (cfg : Config) (S : Schema) (R : Rules) (ρ : ArgEnv) (d : Doc) : Bool :=
  check D cfg S R ρ d = .accept

/-- the recursion limit in force -/
def recursionLimit (dynamic : Bool) (configured : Option Nat) : Nat :=
  match configured with
  | some r => r
  | none => if dynamic then Gen.LimitFacts.defaultRecursiveDepthDynamic else Gen.LimitFacts.defaultRecursiveDepthStatic

-- ------------------------------------------------------------------ rule arguments: `VisitorContext::param_value::<usize>`

def natOfValue : GValue → Option Nat
  | .int i => if i ≥ 0 then some i.toNat else none
  | _ => none

/-- `param_value(variable_definitions, field, name, default)` followed by `usize::parse` -/
def paramValue (vars : List (String × GValue)) : ArgEnv := fun vds args name default =>
  match args.find? (fun a => a.1 = name) with
  | none =>
    match default with
    | some d => some d
    | none => none
  | some (_, .var v) =>
    match vds.find? (fun vd => vd.name = v) with
    | some vd =>
      match vars.find? (fun p => p.1 = v) with
      | some (_, g) => natOfValue g
      | none =>
        match vd.default with
        | some g => natOfValue g
        | none => none
    | none => none
  | some (_, .int i) => natOfValue (.int i)
  | some _ => none

end AGV.Model.Limits
