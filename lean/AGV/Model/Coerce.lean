/-
  Model of how argument values reach a resolver (property C06), mirroring the code as it is:

    src/context.rs           `var_value` (supplied value, else the definition's default, else
                             None), `resolve_input_value_inner` (omission preserved: dropped from
                             object literals, null inside list literals), `get_param_value` and
                             its default closure
    src/types/external/optional.rs, src/types/maybe_undefined.rs, src/types/external/list/vec.rs
                             `InputType::parse` of `Option`, `MaybeUndefined`, `Vec`
    derive/src/input_object.rs, derive/src/oneof_object.rs   the generated `parse`
    src/validation/utils.rs  `is_valid_input_value`, applied by ArgumentsOfCorrectType (to an
                             argument whose variables are all supplied), DefaultValuesOfCorrectType;
                             ProvidedNonNullArguments
    src/resolver_utils/container.rs   root fields run in order; the first failing one aborts
                             the rest (`try_join_all`)
    src/dynamic/resolve.rs   `collect_field`: raw resolved values plus argument defaults

  Scalars: `Int` is `i32` (C07's `parseInt` on the source-derived entry), the others as in
  C07's model.  Recursion is structural on the value, as in the specification (a non-list
  value at a `Vec` is parsed for the innermost item type and wrapped once per `Vec`).

  Defect toggles (true = behaviour of the pinned tree):
    omittedVarSkipsArgDefault  an argument bound to a variable without runtime value is parsed
                               from `None` instead of falling back to the argument's default
    nullToSingletonList        `Vec::parse` wraps `None`/`null` into a one-element list
                               (`value.unwrap_or_default()` is not a list) instead of refusing it
    varValueNotCoerced         variable values are never checked against the variable's declared
                               type, required variables may be missing
    literalUncheckedBesideVar  ArgumentsOfCorrectType skips an argument literal altogether when it
                               mentions a variable without supplied value (`into_const_with`
                               fails): unknown input-object keys, wrong leaves, … beside such a
                               variable are never checked; repaired = the literal is checked with
                               that variable accepted at its position
    nonObjectPassesInputObject  `is_valid_input_value` returns no error for ANY non-object value
                               (scalar, enum, list) where an input object is expected (`_ => None`):
                               the request passes validation and fails only when the field is
                               resolved, after sibling resolvers have run; repaired = refused
                               (`expected type "T"`)
    undeclaredKeysIgnored      the generated struct `parse` reads `obj.get(name)` per declared field
                               and never looks at the other keys: `{a: 1, zzz: 2}` is parsed as
                               `{a: 1}`.  Strict validation refuses such an object before anything
                               is parsed; with `ValidationMode::Fast`, or beside a variable without
                               runtime value, it reaches the resolver; repaired = an object
                               carrying an undeclared key is refused by `parse` itself

  Validation mode (`runMode`): Strict = `run` (the rules modelled below, then the executor);
  Fast = `runFast`: ArgumentsOfCorrectType, DefaultValuesOfCorrectType and
  ProvidedNonNullArguments are not run (src/validation/mod.rs `ValidationMode::Fast` keeps
  NoFragmentCycles, UploadFile and the cost visitors only), the generated `parse` functions
  alone decide.
-/
import AGV.Spec.Coerce
import AGV.Model.Scalars

namespace AGV.Model.Coerce
open AGV.Core
open AGV.Spec.Coerce (RTy InField NDef FieldSig Table RV lookup)

structure Defects where
  omittedVarSkipsArgDefault : Bool := false
  nullToSingletonList : Bool := false
  varValueNotCoerced : Bool := false
  literalUncheckedBesideVar : Bool := false
  nonObjectPassesInputObject : Bool := false
  undeclaredKeysIgnored : Bool := false
  deriving DecidableEq, Repr

def Defects.none : Defects := {}
def Defects.pinned : Defects := ⟨true, true, true, true, true, true⟩

-- ------------------------------------------------------------------ context.rs

/-- `var_value`: supplied value, else the definition's default, else `None` -/
def varValue (defs : List VarDef) (raw : List (String × GValue)) (n : String) : Option GValue :=
  match defs.find? (·.name = n) with
  | none => none
  | some d =>
    match lookup raw n with
    | some v => some v
    | none => d.default

mutual
/-- `resolve_input_value_inner` -/
def resolve (defs : List VarDef) (raw : List (String × GValue)) : DValue → Option GValue
  | .var n => varValue defs raw n
  | .null => some .null
  | .int i => some (.int i)
  | .float t => some (.float t)
  | .str s => some (.str s)
  | .bool b => some (.bool b)
  | .enum n => some (.enum n)
  | .list xs => some (.list (resolveList defs raw xs))
  | .obj fs => some (.obj (resolveFields defs raw fs))
def resolveList (defs : List VarDef) (raw : List (String × GValue)) : List DValue → List GValue
  | [] => []
  | x :: xs => (resolve defs raw x).getD .null :: resolveList defs raw xs
def resolveFields (defs : List VarDef) (raw : List (String × GValue)) :
    List (String × DValue) → List (String × GValue)
  | [] => []
  | (k, v) :: rest =>
    match resolve defs raw v with
    | some g => (k, g) :: resolveFields defs raw rest
    | none => resolveFields defs raw rest
end

-- ------------------------------------------------------------------ InputType::parse

/-- the five built-in scalars; `Int` through C07's model of `i32` -/
def i32Entry : AGV.Gen.IntScalars.Entry :=
  (AGV.Gen.IntScalars.table.find? (·.name = "i32")).getD
    { name := "", nonZero := false, accessor := .i64, reject := [], cast := ⟨64, true⟩,
      toValueAs := .i64, isValid := .i64 }

/-- `<i32 as ScalarType>::parse` on a number -/
def parseI32 (i : Int) : Option RV :=
  match AGV.Model.Scalars.parseInt i32Entry (.int i) with
  | .ok r => some (.int r)
  | _ => none

def parseScalar (n : String) (v : GValue) : Option RV :=
  match n, v with
  | "Int", .int i => parseI32 i
  | "Float", .float t => some (.float t)
  | "Float", .int i => some (.float (AGV.Spec.Coerce.floatTokOfInt i))   -- `n.as_f64()`, printed by serde_json
  | "String", .str s => some (.str s)
  | "Boolean", .bool b => some (.bool b)
  | "ID", .str s => some (.str s)
  | "ID", .int i => some (.str (toString i))      -- `n.is_i64()` (harness: small integers only)
  | _, _ => none

/-- `parse_enum`: enum or string value naming an item -/
def parseEnum (values : List String) : GValue → Option RV
  | .enum n => if values.contains n then some (.enum n) else none
  | .str n => if values.contains n then some (.enum n) else none
  | _ => none

def parseLeaf (T : Table) (n : String) (v : GValue) : Option RV :=
  match T.find? n with
  | some .scalar => parseScalar n v
  | some (.enum values) => parseEnum values v
  | _ => none       -- input objects: `if let Some(Value::Object(obj))` fails

/-- a non-list, non-null value met by `Vec::parse` becomes a one-element vector -/
def wrapVec : RTy → RV → RV
  | .named _, v => v
  | .opt t, v => wrapVec t v
  | .mu t, v => wrapVec t v
  | .vec t, v => .list [wrapVec t v]

/-- `parse(Some(Value::Null))` -/
def parseNull (D : Defects) : RTy → Option RV
  | .opt _ => some .null
  | .mu _ => some .null
  | .vec t => if D.nullToSingletonList then (parseNull D t).map (fun r => .list [r]) else none
  | .named _ => none

/-- `parse(None)`: `MaybeUndefined` keeps it, everything else does `unwrap_or_default()` -/
def parseAbsent (D : Defects) : RTy → Option RV
  | .mu _ => some .undef
  | t => parseNull D t

/-- the generated struct `parse`: per declared field `obj.get(name)`; a field with a default
    uses it when the key is missing, others parse `None`; keys not declared are ignored -/
def finishStruct (D : Defects) (dflt : InField → GValue → Option RV) :
    List InField → List (String × Option RV) → Option (List (String × RV))
  | [], _ => some []
  | f :: fs, es =>
    let here : Option RV :=
      match lookup es f.name with
      | some r => r
      | none =>
        match f.default with
        | some d => dflt f d
        | none => parseAbsent D f.ty
    match here, finishStruct D dflt fs es with
    | some r, some rest => some ((f.name, r) :: rest)
    | _, _ => none

mutual
/-- `<T as InputType>::parse(Some(v))`; `dflt` evaluates the default of a struct field -/
def parseWith (dflt : InField → GValue → Option RV) (D : Defects) (T : Table) : RTy → GValue → Option RV
  | rty, .null => parseNull D rty
  | rty, .list xs =>
    match rty.core with
    | .vec t => (parseListWith dflt D T t xs).map .list
    | _ => none
  | rty, .obj fs =>
    match T.find? rty.base with
    | some (.input true variants) =>
      -- `if obj.contains_key(name) && obj.len() == 1 { parse(obj.remove(name)) }`
      (match parseEntriesWith dflt D T true variants fs with
       | [(k, some r)] => if fs.length = 1 then some (wrapVec rty (.obj [(k, r)])) else none
       | _ => none)
    | some (.input false fields) =>
      (finishStruct D dflt fields (parseEntriesWith dflt D T false fields fs)).map
        (fun r => wrapVec rty (.obj r))
    | _ => none
  | rty, .int i => (parseLeaf T rty.base (.int i)).map (wrapVec rty)
  | rty, .float t => (parseLeaf T rty.base (.float t)).map (wrapVec rty)
  | rty, .str s => (parseLeaf T rty.base (.str s)).map (wrapVec rty)
  | rty, .bool b => (parseLeaf T rty.base (.bool b)).map (wrapVec rty)
  | rty, .enum n => (parseLeaf T rty.base (.enum n)).map (wrapVec rty)
def parseListWith (dflt : InField → GValue → Option RV) (D : Defects) (T : Table) (t : RTy) :
    List GValue → Option (List RV)
  | [] => some []
  | x :: xs =>
    match parseWith dflt D T t x, parseListWith dflt D T t xs with
    | some a, some b => some (a :: b)
    | _, _ => none
/-- parse results of the entries whose key is declared (others are never looked at); a oneof
    variant `X(T)` is registered as `Option<T>` but parsed as `T` -/
def parseEntriesWith (dflt : InField → GValue → Option RV) (D : Defects) (T : Table) (oneOf : Bool)
    (fields : List InField) : List (String × GValue) → List (String × Option RV)
  | [] => []
  | (k, v) :: rest =>
    match fields.find? (·.name = k) with
    | none => parseEntriesWith dflt D T oneOf fields rest
    | some f =>
      let ty := if oneOf then (match f.ty with | .opt t => t | t => t) else f.ty
      (k, parseWith dflt D T ty v) :: parseEntriesWith dflt D T oneOf fields rest
end

/-
  Field defaults of a struct are Rust expressions; the macro publishes `to_value(default)` as
  the schema default (cross-checked by the harness against the table), and `parse ∘ to_value`
  is the identity on the values used, so the default a resolver sees is the parse of the
  table's default.  Defaults are constants without further defaulted objects inside, so one
  level of unfolding evaluates them.
-/
def parse0 (D : Defects) (T : Table) : RTy → GValue → Option RV :=
  parseWith (fun _ _ => none) D T
def fieldDefault (D : Defects) (T : Table) (f : InField) (d : GValue) : Option RV := parse0 D T f.ty d
def parseD (D : Defects) (T : Table) : RTy → GValue → Option RV :=
  parseWith (fieldDefault D T) D T

mutual
/-- every object literal met at an input object type (following the declared types the way
    `parse` does: list items at the item type, a single value at the base type, the value of a
    declared key at the field's type) carries declared keys only -/
def declaredOk (T : Table) : TypeRef → GValue → Bool
  | ty, .list xs =>
    match ty.nullable with
    | .list t => declaredOkList T t xs
    | _ => true
  | ty, .obj fs =>
    match T.find? ty.base with
    | some (.input _ fields) => declaredOkEntries T fields fs
    | _ => true
  | _, .null => true
  | _, .int _ => true
  | _, .float _ => true
  | _, .str _ => true
  | _, .bool _ => true
  | _, .enum _ => true
def declaredOkList (T : Table) (t : TypeRef) : List GValue → Bool
  | [] => true
  | x :: xs => declaredOk T t x && declaredOkList T t xs
def declaredOkEntries (T : Table) (fields : List InField) : List (String × GValue) → Bool
  | [] => true
  | (k, v) :: rest =>
    (match fields.find? (·.name = k) with
     | some f => declaredOk T f.ty.gql v
     | none => false) && declaredOkEntries T fields rest
end

/-- `<T as InputType>::parse(Some(v))` of a supplied value: pinned = `parseD` (undeclared keys of
    a struct are never looked at); repaired = an object with an undeclared key is refused -/
def parseK (D : Defects) (T : Table) (rty : RTy) (v : GValue) : Option RV :=
  if D.undeclaredKeysIgnored || declaredOk T rty.gql v then parseD D T rty v else none

/-- NOT the pinned tree — the seeded variant of the generated `OneofObject::parse` kept as
    /verif/seeded/C06-r3 (`if let Some(value) = obj.remove(name) { parse(Some(value)) … }` instead
    of `if obj.contains_key(name) && obj.len() == 1`): the first declared variant that is present
    wins, the other members are dropped.  Only used by the witness theorem
    `c06_witness_oneof_first_present` (what the check must notice). -/
def oneofFirstPresent (p : RTy → GValue → Option RV) : List InField → List (String × GValue) → Option RV
  | [], _ => none
  | f :: rest, fs =>
    match lookup fs f.name with
    | some v => (p (match f.ty with | .opt t => t | t => t) v).map (fun r => .obj [(f.name, r)])
    | none => oneofFirstPresent p rest fs

/-- `get_param_value` with the default closure of the generated resolver wrapper -/
def paramValue (D : Defects) (T : Table) (defs : List VarDef) (raw : List (String × GValue))
    (provided : List (String × DValue)) (a : InField) : Option RV :=
  let dflt : Option RV :=
    match a.default with
    | some d => parseD D T a.ty d
    | none => parseAbsent D a.ty
  match lookup provided a.name with
  | none => dflt
  | some dv =>
    match resolve defs raw dv with
    | none => if D.omittedVarSkipsArgDefault then parseAbsent D a.ty else dflt
    | some v => parseK D T a.ty v

/-- all parameters in declaration order; the first failure is the field's error -/
def paramValues (D : Defects) (T : Table) (defs : List VarDef) (raw : List (String × GValue))
    (provided : List (String × DValue)) : List InField → Option (List (String × RV))
  | [] => some []
  | a :: as =>
    match paramValue D T defs raw provided a, paramValues D T defs raw provided as with
    | some v, some rest => some ((a.name, v) :: rest)
    | _, _ => none

-- ------------------------------------------------------------------ validation/utils.rs

def isValidScalar (n : String) (v : GValue) : Bool :=
  match n, v with
  | "Int", .int i => decide (AGV.Model.Scalars.readable i32Entry.isValid i)
  | "Float", .int _ => true
  | "Float", .float _ => true
  | "String", .str _ => true
  | "Boolean", .bool _ => true
  | "ID", .int _ => true
  | "ID", .str _ => true
  | _, _ => false

/-- a non-null, non-list, non-object value at a named type; `np` = the toggle
    `nonObjectPassesInputObject` -/
def isValidLeaf (np : Bool) (T : Table) (n : String) (v : GValue) : Bool :=
  match T.find? n with
  | some .scalar => isValidScalar n v
  | some (.enum values) =>
    (match v with
     | .enum e => values.contains e
     | .str e => values.contains e
     | _ => false)
  | some (.input _ _) => np       -- pinned `_ => None`: anything but an object passes
  | none => false

/-- every required field (non-null, no default) has a key -/
def requiredPresent (fields : List InField) (fs : List (String × GValue)) : Bool :=
  fields.all (fun f => (lookup fs f.name).isSome || !f.ty.gql.isNonNull || f.default.isSome)

mutual
/-- `is_valid_input_value(..).is_none()` -/
def isValid (np : Bool) (T : Table) : TypeRef → GValue → Bool
  | ty, .null => !ty.isNonNull
  | ty, .list xs =>
    match ty.nullable with
    | .list t => isValidList np T t xs
    | .named n => (match T.find? n with | some (.input _ _) => np | _ => false)
    | .nonNull _ => false
  | ty, .obj fs =>
    match T.find? ty.base with
    | some (.input oneOf fields) =>
      (!oneOf || (match fs with | [(_, .null)] => false | [_] => true | _ => false))
        && isValidEntries np T fields fs && requiredPresent fields fs
    | _ => false
  | ty, .int i => isValidLeaf np T ty.base (.int i)
  | ty, .float t => isValidLeaf np T ty.base (.float t)
  | ty, .str s => isValidLeaf np T ty.base (.str s)
  | ty, .bool b => isValidLeaf np T ty.base (.bool b)
  | ty, .enum n => isValidLeaf np T ty.base (.enum n)
def isValidList (np : Bool) (T : Table) (t : TypeRef) : List GValue → Bool
  | [] => true
  | x :: xs => isValid np T t x && isValidList np T t xs
def isValidEntries (np : Bool) (T : Table) (fields : List InField) : List (String × GValue) → Bool
  | [] => true
  | (k, v) :: rest =>
    (match fields.find? (·.name = k) with
     | some f => isValid np T f.ty.gql v
     | none => false) && isValidEntries np T fields rest
end

mutual
/-- `into_const_with(|name| variables.get(name))`: fails when a variable is not supplied -/
def toConst (raw : List (String × GValue)) : DValue → Option GValue
  | .var n => lookup raw n
  | .null => some .null
  | .int i => some (.int i)
  | .float t => some (.float t)
  | .str s => some (.str s)
  | .bool b => some (.bool b)
  | .enum n => some (.enum n)
  | .list xs => (toConstList raw xs).map .list
  | .obj fs => (toConstFields raw fs).map .obj
def toConstList (raw : List (String × GValue)) : List DValue → Option (List GValue)
  | [] => some []
  | x :: xs =>
    match toConst raw x, toConstList raw xs with
    | some a, some b => some (a :: b)
    | _, _ => none
def toConstFields (raw : List (String × GValue)) : List (String × DValue) → Option (List (String × GValue))
  | [] => some []
  | (k, v) :: rest =>
    match toConst raw v, toConstFields raw rest with
    | some a, some b => some ((k, a) :: b)
    | _, _ => none
end

mutual
/-- the repair of `literalUncheckedBesideVar`: `is_valid_input_value` on a literal, a supplied
    variable standing for its value, a variable without supplied value accepted at its position
    (and counting as a provided key) -/
def isValidP (np : Bool) (T : Table) (raw : List (String × GValue)) : TypeRef → DValue → Bool
  | ty, .var n =>
    match lookup raw n with
    | some v => isValid np T ty v
    | none => true
  | ty, .null => !ty.isNonNull
  | ty, .list xs =>
    match ty.nullable with
    | .list t => isValidPList np T raw t xs
    | .named n => (match T.find? n with | some (.input _ _) => np | _ => false)
    | .nonNull _ => false
  | ty, .obj fs =>
    match T.find? ty.base with
    | some (.input oneOf fields) =>
      (!oneOf || (match fs with
          | [(_, v)] => (match toConst raw v with | some .null => false | _ => true)
          | _ => false))
        && isValidPEntries np T raw fields fs
        && fields.all (fun f => (lookup fs f.name).isSome || !f.ty.gql.isNonNull || f.default.isSome)
    | _ => false
  | ty, .int i => isValidLeaf np T ty.base (.int i)
  | ty, .float t => isValidLeaf np T ty.base (.float t)
  | ty, .str s => isValidLeaf np T ty.base (.str s)
  | ty, .bool b => isValidLeaf np T ty.base (.bool b)
  | ty, .enum n => isValidLeaf np T ty.base (.enum n)
def isValidPList (np : Bool) (T : Table) (raw : List (String × GValue)) (t : TypeRef) : List DValue → Bool
  | [] => true
  | x :: xs => isValidP np T raw t x && isValidPList np T raw t xs
def isValidPEntries (np : Bool) (T : Table) (raw : List (String × GValue)) (fields : List InField) :
    List (String × DValue) → Bool
  | [] => true
  | (k, v) :: rest =>
    (match fields.find? (·.name = k) with
     | some f => isValidP np T raw f.ty.gql v
     | none => false) && isValidPEntries np T raw fields rest
end

/-- ArgumentsOfCorrectType + ProvidedNonNullArguments on one field -/
def fieldValid (D : Defects) (T : Table) (raw : List (String × GValue)) (sig : FieldSig)
    (provided : List (String × DValue)) : Bool :=
  sig.args.all (fun a =>
    match lookup provided a.name with
    | none => !a.ty.gql.isNonNull || a.default.isSome
    | some dv =>
      match toConst raw dv with
      | none => D.literalUncheckedBesideVar || isValidP D.nonObjectPassesInputObject T raw a.ty.gql dv
      | some c => isValid D.nonObjectPassesInputObject T a.ty.gql c)

/-- DefaultValuesOfCorrectType -/
def varDefaultsValid (np : Bool) (T : Table) (defs : List VarDef) : Bool :=
  defs.all (fun d => match d.default with
    | some v => isValid np T d.ty v
    | none => true)

/-- the repair of `varValueNotCoerced`: the same validity test applied to every supplied
    variable value against the DECLARED type, and required variables must be supplied -/
def varValuesValid (np : Bool) (T : Table) (defs : List VarDef) (raw : List (String × GValue)) : Bool :=
  defs.all (fun d => match lookup raw d.name with
    | some v => isValid np T d.ty v
    | none => d.default.isSome || !d.ty.isNonNull)

-- ------------------------------------------------------------------ a request

inductive Outcome where
  | seen (args : List (String × RV))
  | err
  | notInvoked
  deriving Repr, Inhabited, BEq

inductive Status where
  | ok | reqerr | fielderr
  deriving Repr, Inhabited, BEq, DecidableEq

structure Out where
  status : Status
  fields : List (String × Outcome)
  deriving Repr, Inhabited

def rootFields (op : OpDef) : List (String × String × List (String × DValue)) :=
  op.sels.filterMap (fun s => match s with
    | .field al n args _ _ _ => some (al.getD n, n, args)
    | _ => none)

/-- root fields run in order; a failing one aborts those after it -/
def execFields (D : Defects) (T : Table) (defs : List VarDef) (raw : List (String × GValue)) :
    List (String × String × List (String × DValue)) → Bool → List (String × Outcome)
  | [], _ => []
  | (key, _, _) :: rest, true => (key, .notInvoked) :: execFields D T defs raw rest true
  | (key, name, args) :: rest, false =>
    match (T.field? name).bind (fun sig => paramValues D T defs raw args sig.args) with
    | some vs => (key, .seen vs) :: execFields D T defs raw rest false
    | none => (key, .err) :: execFields D T defs raw rest true

def run (D : Defects) (T : Table) (op : OpDef) (raw : List (String × GValue)) : Out :=
  let fs := rootFields op
  let valid :=
    varDefaultsValid D.nonObjectPassesInputObject T op.vars
      && fs.all (fun f => match T.field? f.2.1 with
          | some sig => fieldValid D T raw sig f.2.2
          | none => false)
      && (D.varValueNotCoerced || varValuesValid D.nonObjectPassesInputObject T op.vars raw)
  if !valid then { status := .reqerr, fields := fs.map (fun f => (f.1, .notInvoked)) }
  else
    let outs := execFields D T op.vars raw fs false
    { status := if outs.all (fun o => match o.2 with | .seen _ => true | _ => false) then .ok else .fielderr,
      fields := outs }

/-- `ValidationMode::Fast`: none of the rules that look at argument values runs; what remains is
    the executor.  The repair of `varValueNotCoerced` (CoerceVariableValues, §6.1.2, is part of
    EXECUTING a request, not of validating the document) applies in this mode too and then has
    to cover the variable defaults, which no rule has checked. -/
def runFast (D : Defects) (T : Table) (op : OpDef) (raw : List (String × GValue)) : Out :=
  let fs := rootFields op
  let valid :=
    D.varValueNotCoerced ||
      (varDefaultsValid D.nonObjectPassesInputObject T op.vars
        && varValuesValid D.nonObjectPassesInputObject T op.vars raw)
  if !valid then { status := .reqerr, fields := fs.map (fun f => (f.1, .notInvoked)) }
  else
    let outs := execFields D T op.vars raw fs false
    { status := if outs.all (fun o => match o.2 with | .seen _ => true | _ => false) then .ok else .fielderr,
      fields := outs }

/-- the validation mode is a parameter of the schema -/
def runMode (fast : Bool) (D : Defects) (T : Table) (op : OpDef) (raw : List (String × GValue)) : Out :=
  if fast then runFast D T op raw else run D T op raw

end AGV.Model.Coerce
