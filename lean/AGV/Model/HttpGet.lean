/-
  C35 — model of the request pipeline behind the bundled web-framework integrations, as far as
  the transport (GET vs POST) matters.

  Mirrors, in this order:
    * the GET / POST branches of the integrations' request extractors
      (integrations/axum/src/extract.rs, actix-web/src/request.rs, poem/src/extractor.rs,
      warp/src/batch_request.rs: `parse_query_string` → `BatchRequest::Single`;
      integrations/rocket/src/lib.rs: `GraphQLQuery` (a rocket form) → `Request::new`),
    * the routes built from them (`GraphQL` service / single extractor = `into_single` / batch),
    * `prepare_request` (src/schema.rs): parse, validate the whole document, select the operation
      by `operationName`,
    * `execute_once`: dispatch on the operation type; mutation root fields run serially,
    * `execute_batch`: the requests of a batch in order.

  The schema is the one of the harness (harness/http/src/bin/c35.rs): query root `a b fail`,
  mutation root `inc set(v: Int) boom`, no subscription root; every resolver logs its invocation.

  Defect toggles (`true` = behaviour of the pinned tree): one per integration — the integration
  hands a request decoded from a GET query string to the executor like any other request.  The
  repaired pipeline marks such a request as query-only (`GReq.queryOnly`) and `prepare_request`
  answers a marked request whose selected operation is a mutation with an error.
-/
import AGV.Spec.HttpGet

namespace AGV.Model.HttpGet
open AGV.Spec.HttpGet

structure Defects where
  axum : Bool := false
  actix : Bool := false
  poem : Bool := false
  warp : Bool := false
  rocket : Bool := false
  deriving DecidableEq, Repr, Inhabited

/-- the repaired pipeline -/
def Defects.none : Defects := {}
/-- the pinned tree -/
def Defects.pinned : Defects := ⟨true, true, true, true, true⟩

def Defects.unmarked (D : Defects) : Integ → Bool
  | .axum => D.axum | .actix => D.actix | .poem => D.poem | .warp => D.warp | .rocket => D.rocket

/-- all integrations, in the order of their directory names under integrations/ -/
def allIntegs : List Integ := [.actix, .axum, .poem, .rocket, .warp]

def integDir : Integ → String
  | .axum => "axum" | .actix => "actix-web" | .poem => "poem" | .warp => "warp" | .rocket => "rocket"

/-- what the integration hands the query string of a GET request to (`decodeGet` below has
    exactly these two shapes) -/
def getDecoderOf : Integ → String
  | .rocket => "GraphQLQuery"
  | _ => "parse_query_string"

-- ------------------------------------------------------------------ executor

/-- `async_graphql::Request` as far as it matters here -/
structure GReq where
  doc : Doc
  opName : Option String
  v : Option Int
  /-- set by the repaired GET decoders: mutation operations are refused -/
  queryOnly : Bool
  deriving DecidableEq, Repr, Inhabited

/-- the root type that defines a field -/
def rootOf : Fld → Option OpType
  | .a | .b | .fail => some .query
  | .inc | .set | .boom => some .mutation
  | .nope => none

/-- resolvers that return an error (after logging) -/
def failing : Fld → Bool
  | .fail | .boom => true
  | _ => false

/-- what the parser accepts: at least one operation, no empty selection set, an anonymous
    operation only alone, operation names pairwise distinct -/
def parses (ops : List Op) : Bool :=
  !ops.isEmpty && ops.all (fun o => !o.fields.isEmpty)
    && (ops.length ≤ 1 || ops.all (fun o => o.name.isSome))
    && (ops.filterMap (·.name)).Nodup

/-- validation visits EVERY operation of the document: its root type must exist and define
    each selected field -/
def opValid (o : Op) : Bool :=
  o.ty != .subscription && o.fields.all (fun f => rootOf f == some o.ty)

/-- `DocumentOperations::Single`: a lone anonymous operation -/
def isSingleDoc : List Op → Bool
  | [o] => o.name.isNone
  | _ => false

/-- operation selection of `prepare_request` -/
def selectOp (ops : List Op) : Option String → Option Op
  | some n => if isSingleDoc ops then none else ops.find? (fun o => o.name == some n)
  | none => match ops with
    | [o] => some o
    | _ => none

/-- `prepare_request`: the operation to execute, or a request-level error.  The query-only
    gate sits right after operation selection. -/
def prepare (r : GReq) : Option Op :=
  match r.doc with
  | .raw => none
  | .ops l =>
    if !parses l then none
    else if !l.all opValid then none
    else match selectOp l r.opName with
      | none => none
      | some o => if r.queryOnly && o.ty == .mutation then none else some o

def entryOf (v : Option Int) (ty : OpType) (f : Fld) : Entry :=
  match ty, f with
  | .mutation, .set => .mset v
  | .mutation, f => .m f
  | _, f => .q f

/-- `execute_once`: dispatch on the operation type.  A failing resolver logs before it fails;
    the cases put it last in its operation (whether fields after a failed one still run is
    C03/C05's subject). -/
def executeOnce (v : Option Int) (o : Op) : Resp × List Entry :=
  match o.ty with
  | .subscription => (Resp.failed, [])
  | ty => (⟨o.fields.any failing⟩, o.fields.map (entryOf v ty))

def execute (r : GReq) : Resp × List Entry :=
  match prepare r with
  | none => (Resp.failed, [])
  | some o => executeOnce r.v o

/-- `execute_batch` on the requests of a batch, in order -/
def executeAll : List GReq → List Resp × List Entry
  | [] => ([], [])
  | r :: rs =>
    let (x, l) := execute r
    let (xs, ls) := executeAll rs
    (x :: xs, l ++ ls)

-- ------------------------------------------------------------------ transport

/-- status class of the answer to a query string that does not decode
    (`parse_query_string` returned an error): axum and poem map it to 400; actix-web converts the
    `io::Error` into its generic 500; warp's custom rejection is unhandled without a `recover`
    filter: 500.  (rocket never fails this way.) -/
def badQueryStatus : Integ → Nat
  | .axum => 4 | .poem => 4 | .actix => 5 | .warp => 5 | .rocket => 4

/-- status class when a single-request route receives a batch (`into_single` fails) -/
def notSingleStatus : Integ → Nat
  | .warp => 5
  | _ => 4

def rejected (s : Nat) : Out := ⟨s, .none, []⟩

/-- the GET branch of an integration: query string → executor request -/
def decodeGet (D : Defects) (i : Integ) (r : Req) : Except Nat GReq :=
  let mark := !D.unmarked i
  match i with
  | .rocket =>
    -- rocket form `GraphQLQuery`: `query` is required; `variables` that is not JSON is dropped
    match r.quirk with
    | .noquery => .error 4
    | .badvars => .ok ⟨r.doc, r.opName, none, mark⟩
    | .ok => .ok ⟨r.doc, r.opName, r.v, mark⟩
  | _ =>
    -- `parse_query_string`: `query` defaults to ""; bad `variables` is an error
    match r.quirk with
    | .noquery => .ok ⟨.raw, r.opName, r.v, mark⟩
    | .badvars => .error (badQueryStatus i)
    | .ok => .ok ⟨r.doc, r.opName, r.v, mark⟩

/-- the POST branch: JSON body (quirks are GET-only) -/
def decodePost (r : Req) : GReq := ⟨r.doc, r.opName, r.v, false⟩

/-- does the route run the request as a stream (`execute_stream`, multipart/mixed answer)?
    only the ready-made services look at the Accept header -/
def streams (route : Route) (acc : Accept) : Bool := route == .svc && acc == .mixed

def respondSingle (r : GReq) : Out :=
  let (x, l) := execute r
  ⟨2, .single x, l⟩

/-- one HTTP request through integration `i` -/
def handle (D : Defects) (i : Integ) (route : Route) (m : Method) (acc : Accept) (b : Body) : Out :=
  match m with
  | .get =>
    -- a query string carries one request: the first of the case
    let r := match b with
      | .single r => some r
      | .batch (r :: _) => some r
      | .batch [] => none
    match r with
    | none => rejected 4
    | some r =>
      match decodeGet D i r with
      | .error s => rejected s
      | .ok g => respondSingle g
  | .post =>
    match b with
    | .single r => respondSingle (decodePost r)
    | .batch rs =>
      -- actix-web's `GraphQL` handler takes the single-request extractor
      let singleOnly := route == .single || streams route acc || (i == .actix && route == .svc)
      if singleOnly then rejected (notSingleStatus i)
      else
        let (xs, l) := executeAll (rs.map decodePost)
        ⟨2, .batch xs, l⟩

end AGV.Model.HttpGet
