/-
  C29 — executable model of the DataLoader cache path, mirroring the Rust code as it is:

    src/dataloader/cache.rs   NoCacheImpl / HashMapCacheImpl / LruCacheImpl (`lru` crate:
                              `get` = detach + attach at the head, `put` = update + move to the
                              head, or reuse the tail node when `len == cap`, `pop`, `clear`)
    src/dataloader/mod.rs     DataLoader: `requests[TypeId::of::<K>()]` is created lazily
                              (`entry.or_insert_with(Requests::new)`) by load_many / feed_many /
                              clear / clear_one, while `enable_cache` does
                              `get_async(&tid).await.unwrap()`; `Requests.disable_cache`,
                              `DataLoader.disable_cache`; load_many's cache probe, the dispatch
                              of the keys that were not found, `do_load`'s cache write.

  Sequential histories only: every operation is awaited before the next one starts, so a
  dispatched batch holds exactly the keys of the one pending `load_many` (ImmediateLoad with
  `max_batch_size = 1`, or StartFetch with a zero delay — the same steps for one caller).
  The operation/observation vocabulary is the one of `Spec/LoaderCache.lean`.
-/
import AGV.Spec.LoaderCache

namespace AGV.Model.LoaderCache
open AGV.Spec.LoaderCache (Key Val Op Out loaderVal normKeys normKVs arrange oneOf)

/-- defect toggles (`true` = behaviour of the pinned tree) -/
structure Defects where
  /-- `enable_cache::<K>` unwraps the key type's entry instead of creating it: it panics on a
      loader on which nothing has been loaded, fed or cleared yet -/
  enableCacheNeedsEntry : Bool := false
  deriving DecidableEq, Repr

def Defects.none : Defects := {}

/-- the cache factory the DataLoader was built with -/
inductive Kind where
  | noCache
  | hashMap
  | lru (cap : Nat)
  deriving DecidableEq, Repr

/-- `Box<dyn CacheStorage>` -/
inductive Storage where
  | nocache
  /-- `HashMap`: association list, at most the first pair of a key is live; no order meaning -/
  | map (m : List (Key × Val))
  /-- `lru::LruCache`: the linked list from head (most recent) to tail -/
  | lru (cap : Nat) (l : List (Key × Val))
  deriving DecidableEq, Repr

def Storage.create : Kind → Storage
  | .noCache => .nocache
  | .hashMap => .map []
  | .lru c => .lru c []

-- HashMap
def hmInsert : List (Key × Val) → Key → Val → List (Key × Val)
  | [], k, v => [(k, v)]
  | (k', v') :: r, k, v => if k' = k then (k, v) :: r else (k', v') :: hmInsert r k v

-- lru crate
/-- unlink the node of `k`: its value (if any) and the remaining list -/
def lruDetach : List (Key × Val) → Key → Option Val × List (Key × Val)
  | [], _ => (none, [])
  | (k', v') :: r, k =>
    if k' = k then (some v', r)
    else let d := lruDetach r k; (d.1, (k', v') :: d.2)

def lruGet (l : List (Key × Val)) (k : Key) : Option Val × List (Key × Val) :=
  match lruDetach l k with
  | (some v, r) => (some v, (k, v) :: r)
  | (none, _) => (none, l)

def lruPut (cap : Nat) (l : List (Key × Val)) (k : Key) (v : Val) : List (Key × Val) :=
  match lruDetach l k with
  | (some _, r) => (k, v) :: r
  | (none, _) => if l.length = cap then (k, v) :: l.dropLast else (k, v) :: l

/-- `CacheStorage::get(&mut self)` -/
def Storage.get : Storage → Key → Option Val × Storage
  | .nocache, _ => (none, .nocache)
  | .map m, k => (m.lookup k, .map m)
  | .lru c l, k => let g := lruGet l k; (g.1, .lru c g.2)

def Storage.insert : Storage → Key → Val → Storage
  | .nocache, _, _ => .nocache
  | .map m, k, v => .map (hmInsert m k v)
  | .lru c l, k, v => .lru c (lruPut c l k v)

def Storage.remove : Storage → Key → Storage
  | .nocache, _ => .nocache
  | .map m, k => .map (m.filter (fun p => p.1 != k))
  | .lru c l, k => .lru c (lruDetach l k).2

def Storage.clear : Storage → Storage
  | .nocache => .nocache
  | .map _ => .map []
  | .lru c _ => .lru c []

/-- `iter()` collected into a map, restricted to keys `0 … n-1`, ascending -/
def Storage.values (n : Nat) : Storage → List (Key × Val)
  | .nocache => []
  | .map m => (List.range n).filterMap (fun k => (m.lookup k).map (fun v => (k, v)))
  | .lru _ l => (List.range n).filterMap (fun k => (l.lookup k).map (fun v => (k, v)))

/-- `Requests<K, T>` without the batching fields (always empty between sequential operations) -/
structure Requests where
  storage : Storage
  disable : Bool := false
  deriving DecidableEq, Repr

structure State where
  kind : Kind
  /-- `requests.get(&TypeId::of::<K>())` -/
  entry : Option Requests := none
  /-- `DataLoader.disable_cache` -/
  disableAll : Bool := false
  gen : Nat := 0
  fail : Bool := false
  deriving DecidableEq, Repr

def init (kind : Kind) : State := { kind := kind }

/-- `entry(tid).or_insert_with(|| Requests::new(&self.cache_factory))` -/
def State.entryOr (s : State) : Requests :=
  match s.entry with
  | some r => r
  | none => { storage := Storage.create s.kind }

/-- the cache probe of `load_many`: keys found (with values) and keys to fetch, in request order -/
def probe : Storage → List Key → Storage × List (Key × Val) × List Key
  | st, [] => (st, [], [])
  | st, k :: ks =>
    match st.get k with
    | (some v, st') => let r := probe st' ks; (r.1, (k, v) :: r.2.1, r.2.2)
    | (none, st') => let r := probe st' ks; (r.1, r.2.1, k :: r.2.2)

/-- the cache write of `do_load`: `for (key, value) in &values { insert }` -/
def writeBack (g : Nat) : Storage → List Key → Storage
  | st, [] => st
  | st, k :: ks =>
    match loaderVal g k with
    | some v => writeBack g (st.insert k v) ks
    | none => writeBack g st ks

def loadMany (s : State) (ks ord : List Key) : State × Out :=
  let r := s.entryOr
  let bypass := r.disable || s.disableAll
  let p := if bypass then (r.storage, [], ks) else probe r.storage ks
  let call := normKeys p.2.2
  if call = [] then
    ({ s with entry := some { r with storage := p.1 } }, .loaded (normKVs p.2.1) [] [])
  else
    let g := s.gen + 1
    if s.fail then ({ s with entry := some { r with storage := p.1 }, gen := g }, .failed call)
    else
      let got := call.filterMap (fun k => (loaderVal g k).map (fun v => (k, v)))
      let ins := arrange ord (got.map (·.1))
      -- do_load: `typed_requests.disable_cache || disable_cache` (the snapshot taken at dispatch)
      let st2 := if r.disable || s.disableAll then p.1 else writeBack g p.1 ins
      ({ s with entry := some { r with storage := st2 }, gen := g },
        .loaded (normKVs (p.2.1 ++ got)) call ins)

def feedAll : Storage → List (Key × Val) → Storage
  | st, [] => st
  | st, (k, v) :: r => feedAll (st.insert k v) r

def step (D : Defects) (s : State) : Op → State × Out
  | .load ks ord => loadMany s ks ord
  | .loadOne k => let r := loadMany s [k] []; (r.1, oneOf k r.2)
  | .feed kvs =>
    let r := s.entryOr
    ({ s with entry := some { r with storage := feedAll r.storage kvs } }, .unit)
  | .clear =>
    let r := s.entryOr
    ({ s with entry := some { r with storage := r.storage.clear } }, .unit)
  | .clearOne k =>
    let r := s.entryOr
    ({ s with entry := some { r with storage := r.storage.remove k } }, .unit)
  | .enable b =>
    match s.entry with
    | some r => ({ s with entry := some { r with disable := !b } }, .unit)
    | none =>
      if D.enableCacheNeedsEntry then (s, .panic)      -- `get_async(&tid).await.unwrap()`
      else ({ s with entry := some { s.entryOr with disable := !b } }, .unit)
  | .enableAll b => ({ s with disableAll := !b }, .unit)
  | .cached n =>
    match s.entry with
    | none => (s, .vals [])
    | some r => (s, .vals (r.storage.values n))
  | .setFail b => ({ s with fail := b }, .unit)

def run (D : Defects) (s : State) : List Op → List Out
  | [] => []
  | op :: ops => let r := step D s op; r.2 :: run D r.1 ops

end AGV.Model.LoaderCache
