/-
  Model of the two views a resolver has of its own field:
    src/context.rs    Context::field → SelectionField::{name, alias, arguments, selection_set}
                      (SelectionFieldsIter), resolve_input_value / var_value, get_param_value
    src/look_ahead.rs Lookahead::{new, field, exists, selection_fields}, the recursive `filter`
    src/schema.rs     prepare_request: remove_skipped_selection on every fragment definition and
                      on the selected operation BEFORE execution — the views walk the pruned
                      document (model: `ExecStatic.prune`, with its defect toggle)
  Both walks follow inline fragments and fragment spreads WITHOUT looking at type conditions; an
  unknown fragment name is skipped.  `fuel` bounds the nesting (documents are finite and, after
  validation, acyclic: `Spec.Exec.fuelBound`).
  Import-free apart from AGV Core/Spec/Model.
-/
import AGV.Core.Types
import AGV.Spec.Exec
import AGV.Spec.Lookahead
import AGV.Model.ExecStatic

namespace AGV.Model.Lookahead
open AGV.Core
open AGV.Spec.Lookahead (Node subst resolvedArgs)
open AGV.Spec.Exec (lookupVar coerceVars)

/-- `SelectionFieldsIter`: the stack of slice iterators yields the fields in document order,
    descending into a fragment at the place of its spread -/
def selFields (d : Doc) : Nat → List Sel → List Node
  | 0, _ => []
  | fuel + 1, sels =>
    (sels.map (fun sel =>
      match sel with
      | .field al n args _ ss pos => [{ alias := al, name := n, args := args, sels := ss, pos := pos }]
      | .spread n _ _ =>
        match d.frag? n with
        | none => []
        | some f => selFields d fuel f.sels
      | .inline _ _ ss _ => selFields d fuel ss)).flatten

/-- look_ahead.rs `filter`: the fields called `name` (aliases ignored) -/
def filter (d : Doc) (name : String) : Nat → List Sel → List Node
  | 0, _ => []
  | fuel + 1, sels =>
    (sels.map (fun sel =>
      match sel with
      | .field al n args _ ss pos =>
        if n = name then [{ alias := al, name := n, args := args, sels := ss, pos := pos }] else []
      | .spread n _ _ =>
        match d.frag? n with
        | none => []
        | some f => filter d name fuel f.sels
      | .inline _ _ ss _ => filter d name fuel ss)).flatten

/-- `Lookahead::field`: one `filter` per field the look-ahead currently covers -/
def laField (d : Doc) (fuel : Nat) (fields : List Node) (name : String) : List Node :=
  (fields.map (fun f => filter d name fuel f.sels)).flatten

/-- `Lookahead::exists` -/
def laExists (fields : List Node) : Bool := !fields.isEmpty

/-- `SelectionField::arguments`: `resolve_input_value` on every argument; an argument whose
    variable has no value (`var_value` = None) is left out.  `vars` = request variables with the
    operation's defaults (`var_value` falls back to the default). -/
def arguments (vars : List (String × GValue)) (n : Node) : List (String × GValue) := resolvedArgs vars n.args

/-- `get_param_value`: what the resolver function receives for its parameter `a`
    (`none` = `InputType::parse(None)`: null for an `Option`, an error otherwise) -/
def paramValue (vars : List (String × GValue)) (dflt : Option GValue) (args : List (String × DValue)) (a : String) :
    Option GValue :=
  match args.find? (·.1 = a) with
  | none => dflt
  | some p => subst vars p.2

/-- all fields the views can reach below a selection set, at any depth -/
def deep (d : Doc) : Nat → List Sel → List Node
  | 0, _ => []
  | fuel + 1, sels =>
    selFields d (fuel + 1) sels ++ ((selFields d (fuel + 1) sels).map (fun n => deep d fuel n.sels)).flatten

/-- the document the views walk: fragments and the selected operation pruned by
    `remove_skipped_selection` (the other operations are gone) -/
def prunedDoc (D : ExecStatic.Defects) (d : Doc) (op : OpDef) (raw : List (String × GValue)) (fuel : Nat) : Doc :=
  let sv := ExecStatic.skipVars D op.vars raw
  { ops := [{ op with sels := ExecStatic.prune sv fuel op.sels }],
    frags := d.frags.map (fun f => { f with sels := ExecStatic.prune sv fuel f.sels }) }

/-- the field node at a source position (positions identify field nodes of a parsed document) -/
def findNode : Nat → Pos → List Sel → Option Node
  | 0, _, _ => none
  | fuel + 1, p, sels =>
    sels.findSome? (fun sel =>
      match sel with
      | .field al n args _ ss pos =>
        if pos == p then some { alias := al, name := n, args := args, sels := ss, pos := pos }
        else findNode fuel p ss
      | .spread _ _ _ => none
      | .inline _ _ ss _ => findNode fuel p ss)

def findNodeDoc (d : Doc) (fuel : Nat) (p : Pos) : Option Node :=
  ((d.ops.map (·.sels)) ++ (d.frags.map (·.sels))).findSome? (findNode fuel p)

end AGV.Model.Lookahead
