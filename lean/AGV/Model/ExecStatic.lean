/-
  Model of query execution for schemas built with the derive macros:
    src/schema.rs            prepare_request (operation selection, remove_skipped_selection)
    src/resolver_utils/container.rs   Fields::add_set, resolve_container_inner,
                                      create_value_object / insert_value (deep merge)
    src/resolver_utils/list.rs        resolve_list
    src/types/external/optional.rs    Option<T>::resolve (error capture at nullable positions)
    derive/src/{interface,union}.rs   collect_all_fields dispatch, introspection_type_name
  Resolvers are data-driven (`World`), all immediately ready, so `try_join_all` visits its
  children in index order and stops at the first error that propagates.

  Defect toggles (true = behaviour of the pinned tree):
    unionCondIgnored        a fragment whose type condition is a union (or any type that is
                            neither the runtime object type, one of its interfaces, nor the
                            static type) is dropped inside object / interface selections
    skipIgnoresVarDefault   @skip/@include look variables up in the raw request variables,
                            ignoring variable default values
    nanNullInNonNull        a non-finite float serialises to null even in a non-null position
    resolverErrPropagates   an `Err` returned by a field's own resolver always propagates to the
                            parent selection set, even when the field's type is nullable
                            (`Result<Option<T>>`): the generated `resolve_field` applies `?` before
                            `Option<T>::resolve` can capture anything
    listItemPathOverwrite   an error travelling up through a list item has its path replaced by the
                            path of that item (`resolve_list` calls `set_error_path` unconditionally)
    ifaceErrNoPath          an `Err` returned by a resolver reached through an interface's own
                            `resolve_field` carries no path
    mergeKeepsPartialOnNull when a response key occurs more than once and a LATER occurrence completed to
                            `null` (an error below it was captured at this nullable position) while an
                            earlier one produced an object / list, `merge_value`'s `_ => {}` arm keeps the
                            earlier partial value instead of `null`
  Convention: when `val = none`, the error that is travelling upwards is the LAST one of `errs`.
  Import-free.
-/
import AGV.Core.Types
import AGV.Spec.Exec

namespace AGV.Model.ExecStatic
open AGV.Core
open AGV.Spec.Exec (FieldOcc Sel.key lookupVar argValue mapIdx selectOp)

structure Defects where
  unionCondIgnored : Bool := false
  skipIgnoresVarDefault : Bool := false
  nanNullInNonNull : Bool := false
  resolverErrPropagates : Bool := false
  listItemPathOverwrite : Bool := false
  ifaceErrNoPath : Bool := false
  mergeKeepsPartialOnNull : Bool := false
  deriving Repr, Inhabited, DecidableEq

def Defects.none : Defects := {}

structure Ctx where
  D : Defects
  S : Schema
  d : Doc
  /-- variables as used by argument resolution (request variables; defaults are applied at use) -/
  vars : List (String × GValue)
  w : World

-- ------------------------------------------------------------------ remove_skipped_selection

/-- `is_skipped`: the first @skip/@include directive whose condition says so removes the node;
    a condition that is not a boolean (e.g. a variable that is not supplied) counts as `false` -/
def isSkipped (vars : List (String × GValue)) : List Dir → Bool
  | [] => false
  | d :: rest =>
    if d.name = "skip" ∨ d.name = "include" then
      let incl := d.name = "include"
      match d.args.find? (·.1 = "if") with
      | some (_, dv) =>
        let value : Bool := match dv with
          | .bool b => b
          | .var n => match lookupVar vars n with
            | some (.bool b) => b
            | _ => false
          | _ => false
        if incl != value then true else isSkipped vars rest
      | none => isSkipped vars rest
    else isSkipped vars rest

def selDirs : Sel → List Dir
  | .field _ _ _ ds _ _ => ds
  | .spread _ ds _ => ds
  | .inline _ ds _ _ => ds

/-- prune a selection set (fuel = nesting depth; selections are finite trees) -/
def prune (vars : List (String × GValue)) : Nat → List Sel → List Sel
  | 0, ss => ss
  | fuel + 1, ss =>
    (ss.filter (fun s => !isSkipped vars (selDirs s))).map (fun s =>
      match s with
      | .field al n as ds sub p => .field al n as ds (prune vars fuel sub) p
      | .spread n ds p => .spread n ds p
      | .inline c ds sub p => .inline c ds (prune vars fuel sub) p)

/-- the variables `remove_skipped_selection` consults -/
def skipVars (D : Defects) (defs : List VarDef) (raw : List (String × GValue)) : List (String × GValue) :=
  if D.skipIgnoresVarDefault then raw else AGV.Spec.Exec.coerceVars defs raw

-- ------------------------------------------------------------------ Fields::add_set

/-- `applies_concrete_object`, plus (when the defect is repaired) union conditions -/
def appliesConcrete (D : Defects) (S : Schema) (rt cond : String) : Bool :=
  cond = rt ||
  (match S.find? rt with
   | some o => o.implements.contains cond
   | none => false) ||
  (!D.unionCondIgnored &&
    (match S.find? cond with
     | some t => t.kind == .union && t.members.contains rt
     | none => false))

/-- `add_set`: `st` is the static type parameter `T`, `rt` the runtime object type -/
def collect (c : Ctx) (rt : String) : Nat → String → List Sel → List FieldOcc
  | 0, _, _ => []
  | fuel + 1, st, sels =>
    (sels.map (fun sel =>
      match sel with
      | .field al n args _ ss pos => [{ key := Sel.key al n, name := n, args := args, sels := ss, pos := pos, st := st }]
      | .spread n _ _ =>
        match c.d.frag? n with
        | none => []
        | some f =>
          if appliesConcrete c.D c.S rt f.cond then collect c rt fuel rt f.sels
          else if st = f.cond then collect c rt fuel st f.sels
          else []
      | .inline cond _ ss _ =>
        match cond with
        | some t =>
          if appliesConcrete c.D c.S rt t then collect c rt fuel rt ss
          else if st = t then collect c rt fuel st ss
          else []
        | none => collect c rt fuel st ss)).flatten

-- ------------------------------------------------------------------ create_value_object / insert_value

def lookupKV (m : List (String × GValue)) (k : String) : Option GValue := (m.find? (·.1 = k)).map (·.2)

/-- `insert_value` with the merge of an existing entry abstracted as `mergeFn prev new` -/
def insertKV (mergeFn : GValue → GValue → GValue) (m : List (String × GValue)) (k : String) (v : GValue) :
    List (String × GValue) :=
  if m.any (·.1 = k) then m.map (fun p => if p.1 = k then (p.1, mergeFn p.2 v) else p)
  else m ++ [(k, v)]

def zipMerge (f : GValue → GValue → GValue) : List GValue → List GValue → List GValue
  | [], _ => []
  | t :: ts, [] => t :: ts
  | t :: ts, v :: vs => f t v :: zipMerge f ts vs

/-- `merge_value`: what `insert_value` does to an existing value `prev` when `new` arrives under the
    same key — objects key by key, lists item by item at any nesting depth (one unit of fuel per
    object / list level).  `keep` = `mergeKeepsPartialOnNull`: a `null` arriving for a key that holds
    an object or a list is ignored (pinned); without it the key becomes `null`, which is what one
    execution of the merged selection set yields.  An earlier `null` always stays. -/
def merge (keep : Bool) : Nat → GValue → GValue → GValue
  | 0, prev, _ => prev
  | fuel + 1, .obj tm, .obj o => .obj (o.foldl (fun tm p => insertKV (merge keep fuel) tm p.1 p.2) tm)
  | fuel + 1, .list tl, .list l => .list (zipMerge (merge keep fuel) tl l)
  | _ + 1, .obj tm, .null => if keep then .obj tm else .null
  | _ + 1, .list tl, .null => if keep then .list tl else .null
  | _ + 1, prev, _ => prev

/-- `create_value_object`.  `fuel` = remaining selection depth; the merge gets four units per level
    (an object level plus up to three list levels around it). -/
def createValueObject (D : Defects) (fuel : Nat) (kvs : List (String × GValue)) : GValue :=
  .obj (kvs.foldl (fun m p => insertKV (merge D.mergeKeepsPartialOnNull (4 * fuel)) m p.1 p.2) [])

-- ------------------------------------------------------------------ resolution

/-- `ScalarType::to_value` / enum serialisation for the Rust type that the schema type `tn` stands for.
    `none` = the resolver's value does not fit (cannot happen for derive-built schemas). -/
def toValue (D : Defects) (S : Schema) (tn : String) (v : GValue) : Option (Option GValue) :=
  match tn, v with
  | "Int", .int i => some (some (.int i))
  | "Float", .float t =>
    if t = "NaN" ∨ t = "inf" ∨ t = "-inf" then (if D.nanNullInNonNull then some (some .null) else some none)
    else some (some (.float t))
  | "String", .str s => some (some (.str s))
  | "Boolean", .bool b => some (some (.bool b))
  | "ID", .str s => some (some (.str s))
  | tn, .enum e =>
    match S.find? tn with
    | some t => if t.kind == .enum && t.values.contains e then some (some (.str e)) else none
    | none => none
  | _, _ => none

/-- sequential `try_join_all` over already-started children: results in index order, stop at the
    first child whose error propagates (later children are never polled) -/
def joinAll (rs : List (Unit → Res)) : List Res :=
  match rs with
  | [] => []
  | r :: rest =>
    let x := r ()
    match x.val with
    | none => [x]
    | some _ => x :: joinAll rest

/-- a non-`Option` Rust type: an error captured below (the value became null there) propagates -/
def nnWrap (r : Res) : Res :=
  match r.val with
  | some .null => if r.errs.isEmpty then r else { r with val := none }
  | _ => r

/-- replace the path of the error that is travelling upwards (the last one) -/
def rewriteLast (p : List PathSeg) : List GErr → List GErr
  | [] => []
  | [e] => [{ e with path := p }]
  | e :: rest => e :: rewriteLast p rest

/-- the per-item wrapper of `resolve_list` -/
def itemWrap (D : Defects) (p : List PathSeg) (r : Res) : Res :=
  if D.listItemPathOverwrite && r.val.isNone then { r with errs := rewriteLast p r.errs } else r

/-- `OutputType::resolve` for the Rust type standing behind a schema type.
    `rec st rt id sels path` = resolve_container on an object value. -/
def resolveValue (c : Ctx) (rec : String → String → Nat → List Sel → List PathSeg → Res) :
    TypeRef → RVal → List Sel → List PathSeg → Pos → Res
  | .nonNull t, rv, ss, path, pos =>
    match rv with
    | .null => { val := none, errs := [⟨path, pos⟩] }   -- not expressible in a derive-built schema
    | _ =>
      -- the inner Rust type is not an Option: an error below propagates
      nnWrap (resolveValue c rec t rv ss path pos)
  | .list t, rv, ss, path, pos =>
    match rv with
    | .null => { val := some .null }
    | .list xs =>
      let rs := joinAll (mapIdx (fun i x => fun (_ : Unit) =>
        itemWrap c.D (path ++ [.idx i]) (resolveValue c rec t x ss (path ++ [.idx i]) pos)) xs 0)
      let errs := (rs.map (·.errs)).flatten
      let log := (rs.map (·.log)).flatten
      if rs.all (·.val.isSome) then { val := some (.list (rs.filterMap (·.val))), errs := errs, log := log }
      else { val := some .null, errs := errs, log := log }
    | _ => { val := some .null, errs := [⟨path, pos⟩] }
  | .named n, rv, ss, path, pos =>
    match rv with
    | .null => { val := some .null }
    | .obj ty id =>
      if (c.S.possibleTypes n).contains ty then
        let r := rec n ty id ss path
        match r.val with
        | some v => { r with val := some v }
        | none => { r with val := some .null }
      else { val := some .null, errs := [⟨path, pos⟩] }
    | .leaf v =>
      match toValue c.D c.S n v with
      | some (some v') => { val := some v' }
      | _ => { val := some .null, errs := [⟨path, pos⟩] }
    | _ => { val := some .null, errs := [⟨path, pos⟩] }

/-- what the resolver of field `occ` of object `id` returns -/
def fieldRVal (c : Ctx) (id : Nat) (fd : FieldDef) (occ : FieldOcc) : RVal :=
  match c.w.get id occ.name with
  | .arg a => RVal.leaf (argValue { S := c.S, d := c.d, vars := c.vars, w := c.w } fd occ a)
  | rv => rv

/-- resolver result → completed value -/
def completeField (c : Ctx) (recC : String → String → Nat → List Sel → List PathSeg → Res)
    (fd : FieldDef) (rv : RVal) (occ : FieldOcc) (fpath : List PathSeg) : Res :=
  match rv with
  | .fail _ =>
    -- the resolver itself returned Err: an `Option` return type captures it, anything else propagates
    let epath := if c.D.ifaceErrNoPath && c.S.kindOf occ.st == some .interface then [] else fpath
    if fd.ty.isNonNull || c.D.resolverErrPropagates then { val := none, errs := [⟨epath, occ.pos⟩] }
    else { val := some .null, errs := [⟨epath, occ.pos⟩] }
  | _ => resolveValue c recC fd.ty rv occ.sels fpath occ.pos

/-- one field future of `add_set`: `__typename`, or the resolver followed by completion;
    the result value is the single-entry object `{key: value}` handed to `create_value_object` -/
def runField (c : Ctx) (recC : String → String → Nat → List Sel → List PathSeg → Res)
    (rt : String) (id : Nat) (path : List PathSeg) (occ : FieldOcc) : Res :=
  if occ.name = "__typename" then { val := some (.obj [(occ.key, .str rt)]) }
  else
    match c.S.field? rt occ.name with
    | none => { val := some (.obj [(occ.key, .null)]) }
    | some fd =>
      let r := completeField c recC fd (fieldRVal c id fd occ) occ (path ++ [PathSeg.key occ.key])
      { r with val := r.val.map (fun v => .obj [(occ.key, v)]), log := ⟨id, occ.name, occ.key⟩ :: r.log }

def singleKV : GValue → Option (String × GValue)
  | .obj [(k, x)] => some (k, x)
  | _ => none

/-- `resolve_container_inner`: collect the field occurrences, run each one, deep-merge by key -/
def resolveContainer (c : Ctx) : Nat → String → String → Nat → List Sel → List PathSeg → Res
  | 0, _, _, _, _, path => { val := none, errs := [⟨path, ⟨0, 0⟩⟩] }   -- out of fuel (never with `fuelBound`)
  | fuel + 1, st, rt, id, sels, path =>
    let occs := collect c rt (fuel + 1) st sels
    let rs := joinAll (occs.map (fun occ => fun (_ : Unit) => runField c (resolveContainer c fuel) rt id path occ))
    let errs := (rs.map (·.errs)).flatten
    let log := (rs.map (·.log)).flatten
    if rs.all (·.val.isSome) then
      { val := some (createValueObject c.D (fuel + 1) ((rs.filterMap (·.val)).filterMap singleKV)), errs := errs, log := log }
    else { val := none, errs := errs, log := log }

def run (D : Defects) (S : Schema) (d : Doc) (opName : Option String) (raw : List (String × GValue)) (w : World)
    (fuel : Nat) : Res :=
  match selectOp d opName with
  | none => { val := none }
  | some op =>
    let sv := skipVars D op.vars raw
    let d' : Doc := { ops := d.ops, frags := d.frags.map (fun f => { f with sels := prune sv fuel f.sels }) }
    -- argument variables: the request variables with defaults (resolve_input_value applies them)
    let c : Ctx := { D := D, S := S, d := d', vars := AGV.Spec.Exec.coerceVars op.vars raw, w := w }
    let root := match op.ty with
      | .query => S.query
      | .mutation => S.mutation.getD ""
      | .subscription => S.subscription.getD ""
    resolveContainer c fuel root root 0 (prune sv fuel op.sels) []

end AGV.Model.ExecStatic
