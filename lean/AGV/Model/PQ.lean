/-
  Model of `ApolloPersistedQueriesExtension::prepare_request`
  (src/extensions/apollo_persisted_queries.rs) followed by what `schema.rs::prepare_request` does
  with the result (`parsed_query` if set, else `parse_query(query)`).

  SHA-256 is a parameter `H : Text → Hash` (arbitrary: collisions allowed), the GraphQL parser a
  parameter `parse : Text → Option Doc`.  The cache is an association list with the semantics
  of an exact map; that a real cache may forget entries (LRU eviction) is an action of the
  environment (`Act.forget`).  Core-only imports.
-/
import AGV.Gen.PersistedQueries

namespace AGV.Model.PQ

abbrev Text := List Char

/-- the `persistedQuery` member of `request.extensions` after `from_value::<PersistedQuery>` -/
inductive Ext (Hash : Type) where
  | none                               -- the request has no such extension
  | bad                                -- present, but not a `PersistedQuery` (decode error)
  | pq (version : Int) (hash : Hash)
  deriving Repr, DecidableEq

structure Req (Hash : Type) where
  /-- `request.query`; `[]` = the empty string -/
  query : Text
  ext : Ext Hash
  deriving Repr, DecidableEq

inductive Err where
  | invalid                -- Invalid "PersistedQuery" extension configuration.
  | version (v : Int)      -- Only the "PersistedQuery" extension of version "1" is supported …
  | notFound               -- PersistedQueryNotFound
  | mismatch               -- provided sha does not match query
  | parse                  -- the query text does not parse
  deriving Repr, DecidableEq

inductive Outcome (Doc : Type) where
  | exec (d : Doc)         -- the document handed to validation/execution
  | err (e : Err)          -- the request is answered with this error; nothing is executed
  deriving Repr, DecidableEq

abbrev Store (Hash Doc : Type) := List (Hash × Doc)

section
variable {Hash Doc : Type} [DecidableEq Hash]

/-- `storage.get(key)` -/
def sGet (h : Hash) : Store Hash Doc → Option Doc
  | [] => none
  | (k, d) :: r => if k = h then some d else sGet h r

def sErase (h : Hash) : Store Hash Doc → Store Hash Doc
  | [] => []
  | (k, d) :: r => if k = h then sErase h r else (k, d) :: sErase h r

/-- `storage.set(key, doc)`: replaces what was stored under the key -/
def sPut (h : Hash) (d : Doc) (s : Store Hash Doc) : Store Hash Doc := (h, d) :: sErase h s

/-- one request -/
def step (H : Text → Hash) (parse : Text → Option Doc) (s : Store Hash Doc) (r : Req Hash) :
    Store Hash Doc × Outcome Doc :=
  match r.ext with
  | .none =>
    -- `Ok(request)`: the schema parses `request.query` itself
    (s, match parse r.query with | some d => .exec d | none => .err .parse)
  | .bad => (s, .err .invalid)
  | .pq v h =>
    if v ≠ AGV.Gen.PersistedQueries.supportedVersion then (s, .err (.version v))
    else if r.query = [] then
      match sGet h s with
      | some d => (s, .exec d)
      | none => (s, .err .notFound)
    else if h ≠ H r.query then (s, .err .mismatch)
    else match parse r.query with
      | none => (s, .err .parse)
      | some d => (sPut (H r.query) d s, .exec d)

/-- what happens between the creation of the schema and now -/
inductive Act (Hash : Type) where
  | req (r : Req Hash)
  | forget (h : Hash)      -- the cache drops its entry for `h` (eviction)
  deriving Repr

def stepAct (H : Text → Hash) (parse : Text → Option Doc) (s : Store Hash Doc) :
    Act Hash → Store Hash Doc × Option (Outcome Doc)
  | .req r => ((step H parse s r).1, some (step H parse s r).2)
  | .forget h => (sErase h s, none)

/-- the store after a history -/
def after (H : Text → Hash) (parse : Text → Option Doc) (s : Store Hash Doc) : List (Act Hash) → Store Hash Doc
  | [] => s
  | a :: r => after H parse (stepAct H parse s a).1 r

/-- the outcomes of the requests of a history, in order -/
def run (H : Text → Hash) (parse : Text → Option Doc) (s : Store Hash Doc) : List (Act Hash) → List (Outcome Doc)
  | [] => []
  | a :: r =>
    match (stepAct H parse s a).2 with
    | some o => o :: run H parse (stepAct H parse s a).1 r
    | none => run H parse (stepAct H parse s a).1 r

end
end AGV.Model.PQ
