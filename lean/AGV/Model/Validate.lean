/-
  C09 — the strict-mode validation pipeline AS IMPLEMENTED (src/validation/{mod,visitor,utils}.rs,
  src/validation/rules/*.rs, registry helpers), as an executable model.

  Shape: `events` mirrors `visit` and the `visit_*` walkers of visitor.rs — it flattens a document
  into the sequence of `Visitor` callbacks, each with the snapshot of the walker's type stack
  (`current_type`, `parent_type`).  Every rule is a function of that sequence, with exactly the
  state the Rust struct keeps (so e.g. the stale `current_args` of `KnownArgumentNames` is
  reproduced).  What `VisitorCons` forwards is a parameter of the model (`Defects`).

  Errors are message KINDS; `Kind.idx` is the row of the source-derived table
  `AGV.Gen.Rules.messages` (rule, format chunks, number of locations).
-/
import AGV.Core.Types
import AGV.Core.VSchema
import AGV.Spec.Validate

namespace AGV.Model.Validate
open AGV.Core

/-- defects of the pinned tree; `true` = pinned behaviour -/
structure Defects where
  /-- `VisitorCons` forwards neither `enter_input_value` nor `exit_input_value` -/
  inputValueNotForwarded : Bool := false
  /-- `MetaTypeName::is_subtype` has no arm for (List, NonNull): `[T]!` is not accepted where `[T]` is expected -/
  subtypeListNonNull : Bool := false
  /-- `VariableInAllowedPosition` ignores the default value of the LOCATION -/
  locationDefaultIgnored : Bool := false
  /-- `visit_selection` does not walk `__typename` fields (arguments, directives, sub-selection unchecked) -/
  typenameNotVisited : Bool := false
  /-- `OverlappingFieldsCanBeMerged` keys by (type condition text, response key), never looks into
      sub-selections and never compares return types -/
  overlapKeyedByCondition : Bool := false
  /-- no single-root-field rule for subscriptions -/
  noSingleRootSubscription : Bool := false
  /-- `is_valid_input_value`: any non-object literal is accepted for an input object -/
  inputObjectAnyValue : Bool := false
  /-- `is_valid_input_value`: a string literal is accepted for an enum -/
  enumAcceptsString : Bool := false
  /-- `Int::is_valid` accepts every 64-bit integer -/
  intRangeNotChecked : Bool := false
  /-- a required variable without a value is not a validation (request) error -/
  missingVariableAccepted : Bool := false
  /-- `FieldsOnCorrectType` skips every unknown field that carries a directive NAMED `ifdef` (remnant
      of a built-in directive that no longer exists; reachable when the schema registers a custom
      directive of that name) -/
  ifdefSkipsUnknownField : Bool := false
  /-- `OverlappingFieldsCanBeMerged` files the fields of an inline fragment WITHOUT type condition under
      the key `None` instead of the `on_type` of the enclosing selection, so two of them below
      DIFFERENT type conditions collide: a valid document is rejected -/
  overlapUntypedInlineKeyedNone : Bool := false
  /-- `VariableInAllowedPosition` counts the literal `null` as a default value of the variable -/
  nullDefaultCounts : Bool := false
  /-- `KnownArgumentNames` keeps `current_args` when it enters a field it does not know — and
      `__typename` is one: arguments of such a field are judged against the enclosing field's -/
  knownArgsStale : Bool := false
  /-- `ArgumentsOfCorrectType` substitutes the supplied variable values into the argument and judges
      the result as a constant: the argument is not judged at all when a variable has no value, and a
      variable VALUE is judged by the rules for literals -/
  argsJudgedAfterSubstitution : Bool := false
  deriving Repr, Inhabited, DecidableEq

def Defects.pinned : Defects :=
  { inputValueNotForwarded := true, subtypeListNonNull := true, locationDefaultIgnored := true,
    typenameNotVisited := true, overlapKeyedByCondition := true, noSingleRootSubscription := true,
    inputObjectAnyValue := true, enumAcceptsString := true, intRangeNotChecked := true,
    missingVariableAccepted := true, ifdefSkipsUnknownField := true,
    overlapUntypedInlineKeyedNone := true, nullDefaultCounts := true, knownArgsStale := true,
    argsJudgedAfterSubstitution := true }

-- ------------------------------------------------------------------ message kinds

inductive Kind where
  | argInvalid | unknownTypeDefault | invalidDefault | dupDirective | unknownField
  | fragNonComposite | inlineNonComposite | unknownArgField | unknownArgDir | dirMisplaced
  | unknownDirective | unknownFragment | unknownType | cycle | undefVarOp | undefVar
  | unusedFragment | unusedVarOp | unusedVar | conflictFields | conflictArgsLen | conflictArgsVal
  | spreadImpossible | inlineImpossible | dirArgMissing | fieldArgMissing | leafWithSel
  | compositeNoSel | dupArg | dupVar | upload | varPosition | varNonInput | notConfigured
  | typenameSubscription
  -- reported by a repaired implementation only (no message in the pinned tree)
  | repaired
  deriving Repr, Inhabited, DecidableEq, BEq

/-- row of `AGV.Gen.Rules.messages` -/
def Kind.idx : Kind → Nat
  | .argInvalid => 0 | .unknownTypeDefault => 1 | .invalidDefault => 2 | .dupDirective => 3
  | .unknownField => 4 | .fragNonComposite => 5 | .inlineNonComposite => 6 | .unknownArgField => 7
  | .unknownArgDir => 8 | .dirMisplaced => 9 | .unknownDirective => 10 | .unknownFragment => 11
  | .unknownType => 12 | .cycle => 13 | .undefVarOp => 14 | .undefVar => 15 | .unusedFragment => 16
  | .unusedVarOp => 17 | .unusedVar => 18 | .conflictFields => 19 | .conflictArgsLen => 20
  | .conflictArgsVal => 21 | .spreadImpossible => 22 | .inlineImpossible => 23 | .dirArgMissing => 24
  | .fieldArgMissing => 25 | .leafWithSel => 26 | .compositeNoSel => 27 | .dupArg => 28 | .dupVar => 29
  | .upload => 30 | .varPosition => 31 | .varNonInput => 32 | .notConfigured => 33
  | .typenameSubscription => 34 | .repaired => 1000

/-- the rule struct that reports the kind -/
def Kind.rule : Kind → String
  | .argInvalid => "ArgumentsOfCorrectType" | .unknownTypeDefault => "DefaultValuesOfCorrectType"
  | .invalidDefault => "DefaultValuesOfCorrectType" | .dupDirective => "DirectivesUnique"
  | .unknownField => "FieldsOnCorrectType" | .fragNonComposite => "FragmentsOnCompositeTypes"
  | .inlineNonComposite => "FragmentsOnCompositeTypes" | .unknownArgField => "KnownArgumentNames"
  | .unknownArgDir => "KnownArgumentNames" | .dirMisplaced => "KnownDirectives"
  | .unknownDirective => "KnownDirectives" | .unknownFragment => "KnownFragmentNames"
  | .unknownType => "KnownTypeNames" | .cycle => "NoFragmentCycles" | .undefVarOp => "NoUndefinedVariables"
  | .undefVar => "NoUndefinedVariables" | .unusedFragment => "NoUnusedFragments"
  | .unusedVarOp => "NoUnusedVariables" | .unusedVar => "NoUnusedVariables"
  | .conflictFields => "OverlappingFieldsCanBeMerged" | .conflictArgsLen => "OverlappingFieldsCanBeMerged"
  | .conflictArgsVal => "OverlappingFieldsCanBeMerged" | .spreadImpossible => "PossibleFragmentSpreads"
  | .inlineImpossible => "PossibleFragmentSpreads" | .dirArgMissing => "ProvidedNonNullArguments"
  | .fieldArgMissing => "ProvidedNonNullArguments" | .leafWithSel => "ScalarLeafs"
  | .compositeNoSel => "ScalarLeafs" | .dupArg => "UniqueArgumentNames" | .dupVar => "UniqueVariableNames"
  | .upload => "UploadFile" | .varPosition => "VariableInAllowedPosition"
  | .varNonInput => "VariablesAreInputTypes" | .notConfigured => "<walker>"
  | .typenameSubscription => "<walker>" | .repaired => "<repaired>"

-- ------------------------------------------------------------------ registry helpers

end AGV.Model.Validate
namespace AGV.Core.VSchema
def ty? (S : VSchema) (n : String) : Option TypeDef := S.base.find? n
def exists? (S : VSchema) (n : String) : Bool := (S.ty? n).isSome
def kindOf (S : VSchema) (n : String) : Option Core.Kind := (S.ty? n).map (·.kind)
/-- `MetaType::field_by_name`: objects and interfaces only -/
def field? (S : VSchema) (ty fname : String) : Option FieldDef :=
  match S.ty? ty with
  | some t => if t.kind == .object || t.kind == .interface then t.fields.find? (·.name = fname) else none
  | none => none
def dir? (S : VSchema) (n : String) : Option DirDef := S.dirs.find? (·.name = n)
def input? (S : VSchema) (n : String) : Option InputDef := S.inputs.find? (·.name = n)
/-- `Registry::concrete_type_by_name` -/
def concrete (S : VSchema) (t : TypeRef) : Option String := if S.exists? t.base then some t.base else none
def isComposite (S : VSchema) (n : String) : Bool :=
  match S.kindOf n with | some .object | some .interface | some .union => true | _ => false
def isAbstract (S : VSchema) (n : String) : Bool :=
  match S.kindOf n with | some .interface | some .union => true | _ => false
def isLeaf (S : VSchema) (n : String) : Bool :=
  match S.kindOf n with | some .scalar | some .enum => true | _ => false
def isInput (S : VSchema) (n : String) : Bool :=
  match S.kindOf n with | some .scalar | some .enum | some .input => true | _ => false
def members (S : VSchema) (n : String) : List String := match S.ty? n with | some t => t.members | none => []
/-- `MetaType::is_possible_type` -/
def isPossible (S : VSchema) (n other : String) : Bool :=
  match S.kindOf n with
  | some .interface | some .union => (S.members n).contains other
  | some .object => n == other
  | _ => false
/-- `MetaType::type_overlap` (pointer equality = same name) -/
def overlap (S : VSchema) (a b : String) : Bool :=
  if a == b then true else
  match S.isAbstract a, S.isAbstract b with
  | true, true => (S.members a).any (fun t => S.isPossible b t)
  | true, false => S.isPossible a b
  | false, true => S.isPossible b a
  | false, false => false
end AGV.Core.VSchema
namespace AGV.Model.Validate
open AGV.Core

/-- `MetaTypeName::unwrap_non_null` -/
def unwrapNN : TypeRef → TypeRef
  | .nonNull t => t
  | t => t

/-- `MetaTypeName::is_subtype` (self = the position, sub = the variable).  The repaired version
    adds the (List, NonNull) arm. -/
def isSubtype (D : Defects) : TypeRef → TypeRef → Bool
  | .nonNull p, .nonNull v => isSubtype D p v
  | .named p, .nonNull v => isSubtype D (.named p) v
  | .named p, .named v => p == v
  | .list p, .list v => isSubtype D p v
  | .list p, .nonNull v => if D.subtypeListNonNull then false else isSubtype D (.list p) v
  | _, _ => false

-- ------------------------------------------------------------------ values

mutual
/-- `Value::into_const_with`: `none` when a variable has no supplied value -/
def substVars (vars : List (String × GValue)) : DValue → Option GValue
  | .var n => (vars.find? (·.1 = n)).map (·.2)
  | .null => some .null
  | .int i => some (.int i)
  | .float t => some (.float t)
  | .str s => some (.str s)
  | .bool b => some (.bool b)
  | .enum n => some (.enum n)
  | .list xs => (substList vars xs).map .list
  | .obj fs => (substFields vars fs).map .obj
def substList (vars : List (String × GValue)) : List DValue → Option (List GValue)
  | [] => some []
  | x :: xs => match substVars vars x, substList vars xs with
    | some a, some as => some (a :: as)
    | _, _ => none
def substFields (vars : List (String × GValue)) : List (String × DValue) → Option (List (String × GValue))
  | [] => some []
  | (k, x) :: xs => match substVars vars x, substFields vars xs with
    | some a, some as => some ((k, a) :: as)
    | _, _ => none
end

mutual
/-- `referenced_variables` -/
def refVars : DValue → List String
  | .var n => [n]
  | .list xs => refVarsList xs
  | .obj fs => refVarsFields fs
  | _ => []
def refVarsList : List DValue → List String
  | [] => []
  | x :: xs => refVars x ++ refVarsList xs
def refVarsFields : List (String × DValue) → List String
  | [] => []
  | (_, x) :: xs => refVars x ++ refVarsFields xs
end

def i32Min : Int := -2147483648
def i32Max : Int := 2147483647

/-- built-in scalars' `is_valid` -/
def scalarValid (D : Defects) (n : String) (v : GValue) : Bool :=
  if n = "Int" then (match v with | .int i => D.intRangeNotChecked || (i32Min ≤ i && i ≤ i32Max) | _ => false)
  else if n = "Float" then (match v with | .int _ => true | .float _ => true | _ => false)
  else if n = "String" then (match v with | .str _ => true | _ => false)
  else if n = "Boolean" then (match v with | .bool _ => true | _ => false)
  else if n = "ID" then (match v with | .int _ => true | .str _ => true | _ => false)
  else true

/-- `is_valid_input_value` (true = no reason returned).  Fuel bounds the nesting of the VALUE. -/
def validInput (S : VSchema) (D : Defects) : Nat → TypeRef → GValue → Bool
  | 0, _, _ => true
  | fuel + 1, ty, v =>
    match ty with
    | .nonNull t => (match v with | .null => false | _ => validInput S D fuel t v)
    | .list t => (match v with
        | .list xs => xs.all (validInput S D fuel t)
        | .null => true
        | _ => validInput S D fuel t v)
    | .named n =>
      match v with
      | .null => true
      | _ =>
        match S.kindOf n with
        | some .scalar => scalarValid D n v
        | some .enum =>
          let vals := match S.ty? n with | some t => t.values | none => []
          (match v with
           | .enum e => vals.contains e
           | .str s => if D.enumAcceptsString then vals.contains s else false
           | _ => false)
        | some .input =>
          (match S.input? n, v with
           | some idef, .obj fs =>
             (if idef.oneof then
                (fs.length == 1 && (match fs with | [(_, .null)] => false | _ => true))
              else true)
             && idef.fields.all (fun f =>
                  match fs.find? (·.1 = f.name) with
                  | some (_, fv) => validInput S D fuel f.ty fv
                  | none => !(f.ty.isNonNull && f.default.isNone))
             && fs.all (fun p => idef.fields.any (·.name = p.1))
           | _, .obj _ => true
           | _, _ => D.inputObjectAnyValue)
        | _ => true

def valueFuel : Nat := 64

/-- what a repaired `ArgumentsOfCorrectType` applies to the argument AS WRITTEN: `is_valid_input_value`
    over literals, a variable being acceptable wherever it stands (its type is the business of
    `VariableInAllowedPosition`, its value that of variable coercion) -/
def validLit (S : VSchema) (D : Defects) : Nat → TypeRef → DValue → Bool
  | 0, _, _ => true
  | fuel + 1, ty, v =>
    match v with
    | .var _ => true
    | _ =>
    match ty with
    | .nonNull t => (match v with | .null => false | _ => validLit S D fuel t v)
    | .list t => (match v with
        | .list xs => xs.all (validLit S D fuel t)
        | .null => true
        | _ => validLit S D fuel t v)
    | .named n =>
      match v with
      | .null => true
      | _ =>
        match S.kindOf n with
        | some .scalar =>
          if n = "Int" then (match v with | .int i => D.intRangeNotChecked || (i32Min ≤ i && i ≤ i32Max) | _ => false)
          else if n = "Float" then (match v with | .int _ => true | .float _ => true | _ => false)
          else if n = "String" then (match v with | .str _ => true | _ => false)
          else if n = "Boolean" then (match v with | .bool _ => true | _ => false)
          else if n = "ID" then (match v with | .int _ => true | .str _ => true | _ => false)
          else true
        | some .enum =>
          let vals := match S.ty? n with | some t => t.values | none => []
          (match v with
           | .enum e => vals.contains e
           | .str s => if D.enumAcceptsString then vals.contains s else false
           | _ => false)
        | some .input =>
          (match S.input? n, v with
           | some idef, .obj fs =>
             (if idef.oneof then
                (fs.length == 1 && (match fs with | [(_, .null)] => false | _ => true))
              else true)
             && idef.fields.all (fun f =>
                  match fs.find? (·.1 = f.name) with
                  | some (_, fv) => validLit S D fuel f.ty fv
                  | none => !(f.ty.isNonNull && f.default.isNone))
             && fs.all (fun p => idef.fields.any (·.name = p.1))
           | _, .obj _ => true
           | _, _ => D.inputObjectAnyValue)
        | _ => true

-- ------------------------------------------------------------------ the walker (visitor.rs)

inductive Ev where
  | enterDoc | exitDoc
  | enterOp (o : OpDef) | exitOp (o : OpDef)
  | enterFrag (f : FragDef) | exitFrag (f : FragDef)
  | enterVar (v : VarDef) | exitVar (v : VarDef)
  | enterDir (d : Dir) | exitDir (d : Dir)
  | enterArg (n : String) (v : DValue) | exitArg (n : String)
  /-- the `enter_input_value` calls of one argument that carry a variable and an expected type -/
  | inputVars (us : List (String × TypeRef × Bool))
  | enterSet (ss : List Sel) | exitSet
  | enterSel | exitSel
  | enterField (alias : Option String) (name : String) (args : List (String × DValue)) (dirs : List Dir) (sels : List Sel)
  | exitField
  | enterSpread (name : String) (dirs : List Dir) | exitSpread
  | enterInline (cond : Option String) (dirs : List Dir) (sels : List Sel) | exitInline
  | report (k : Kind)
  deriving Inhabited

/-- a callback with the walker's type stack at that moment -/
structure Evt where
  ev : Ev
  cur : Option String
  par : Option String
  deriving Inhabited

abbrev Stack := List (Option String)
def Stack.cur : Stack → Option String
  | x :: _ => x
  | [] => none
def Stack.par : Stack → Option String
  | _ :: y :: _ => y
  | _ => none
def mk (st : Stack) (e : Ev) : Evt := { ev := e, cur := Stack.cur st, par := Stack.par st }

/-- `visit_input_value`: the (variable, expected type, location-has-default) triples it would hand
    to `enter_input_value`.  Fuel bounds the nesting of the value. -/
def inputUsages (S : VSchema) : Nat → Option TypeRef → Bool → DValue → List (String × TypeRef × Bool)
  | 0, _, _, _ => []
  | fuel + 1, exp, locDef, v =>
    match v with
    | .var n => (match exp with | some t => [(n, t, locDef)] | none => [])
    | .list xs =>
      (match exp.map unwrapNN with
       | some (.list inner) => xs.flatMap (inputUsages S fuel (some inner) false)
       | _ => [])
    | .obj fs =>
      (match exp.map unwrapNN with
       | some (.named n) =>
         (match S.input? n with
          | some idef => fs.flatMap (fun p =>
              match idef.fields.find? (·.name = p.1) with
              | some f => inputUsages S fuel (some f.ty) f.default.isSome p.2
              | none => [])
          | none => [])
       | _ => [])
    | _ => []

/-- the argument loop shared by `visit_field` and `visit_directives` -/
def walkArgs (S : VSchema) (D : Defects) (st : Stack) (defs : Option (List ArgDef)) (args : List (String × DValue)) : List Evt :=
  args.flatMap (fun a =>
    let d := defs.bind (fun ds => ds.find? (·.name = a.1))
    [mk st (.enterArg a.1 a.2)]
    ++ (if D.inputValueNotForwarded then [] else
          [mk st (.inputVars (inputUsages S valueFuel (d.map (·.ty)) ((d.map (·.default.isSome)).getD false) a.2))])
    ++ [mk st (.exitArg a.1)])

/-- `visit_directives` -/
def walkDirs (S : VSchema) (D : Defects) (st : Stack) (ds : List Dir) : List Evt :=
  ds.flatMap (fun d =>
    [mk st (.enterDir d)] ++ walkArgs S D st ((S.dir? d.name).map (·.args)) d.args ++ [mk st (.exitDir d)])

/-- `visit_selection`: `ctx.current_type()` is a `MetaType::Object { is_subscription: true, .. }`.
    The walker goes by the FLAG the registry carries for the type (`S.subFlag`, dumped from the real
    registry) — it never compares the type with `registry.subscription_type`. -/
def isSubscriptionRoot (S : VSchema) (t : Option String) : Bool :=
  match t with
  | some a => S.subFlag.contains a
  | none => false

/-- what the flag is meant to say: the type is the one `subscription_type` names -/
def isSubscriptionRootByName (S : VSchema) (t : Option String) : Bool :=
  match t, S.base.subscription with
  | some a, some b => a == b
  | _, _ => false

/-- the registry's `is_subscription` flags mark exactly the type `subscription_type` names
    (decidable; every registry the library's macros and the dynamic builder produce is meant to
    satisfy it — `Schema::build` / `MergedSubscription` / `dynamic::Subscription` set the flag) -/
def flagWF (S : VSchema) : Bool :=
  S.subFlag.all (fun n => S.base.subscription == some n)
  && (match S.base.subscription with | some r => S.subFlag.contains r | none => true)

/-- the registry with the flags a well-formed registry has -/
def withRootFlag (S : VSchema) : VSchema :=
  { S with subFlag := match S.base.subscription with | some r => [r] | none => [] }

mutual
/-- `visit_selection` -/
def walkSel (S : VSchema) (D : Defects) (st : Stack) : Sel → List Evt
  | .field al n args ds ss _ =>
    [mk st .enterSel]
    ++ (if n = "__typename" && D.typenameNotVisited then
          (if isSubscriptionRoot S (Stack.cur st) then [mk st (.report .typenameSubscription)] else [])
        else
          let fty : Option String :=
            if n = "__typename" then (if S.exists? "String" then some "String" else none)
            else ((Stack.cur st).bind (fun t => S.field? t n)).bind (fun f => S.concrete f.ty)
          let st' : Stack := fty :: st
          let defs := ((Stack.cur st).bind (fun t => S.field? t n)).map (·.args)
          [mk st' (.enterField al n args ds ss)]
          ++ walkArgs S D st' defs args
          ++ walkDirs S D st' ds
          ++ (match ss with
              | [] => []
              | _ => [mk st' (.enterSet ss)] ++ walkSels S D st' ss ++ [mk st' .exitSet])
          ++ [mk st' .exitField])
    ++ [mk st .exitSel]
  | .spread n ds _ =>
    [mk st .enterSel, mk st (.enterSpread n ds)] ++ walkDirs S D st ds ++ [mk st .exitSpread, mk st .exitSel]
  | .inline c ds ss _ =>
    let st' : Stack := match c with
      | some t => (if S.exists? t then some t else none) :: st
      | none => st
    [mk st .enterSel, mk st' (.enterInline c ds ss)]
    ++ walkDirs S D st' ds
    ++ (match ss with
        | [] => []
        | _ => [mk st' (.enterSet ss)] ++ walkSels S D st' ss ++ [mk st' .exitSet])
    ++ [mk st' .exitInline, mk st .exitSel]
def walkSels (S : VSchema) (D : Defects) (st : Stack) : List Sel → List Evt
  | [] => []
  | s :: ss => walkSel S D st s ++ walkSels S D st ss
end

def walkSet (S : VSchema) (D : Defects) (st : Stack) (ss : List Sel) : List Evt :=
  match ss with
  | [] => []
  | _ => [mk st (.enterSet ss)] ++ walkSels S D st ss ++ [mk st .exitSet]

def rootOf (S : VSchema) : OpType → Option String
  | .query => some S.base.query
  | .mutation => S.base.mutation
  | .subscription => S.base.subscription

/-- `visit_operation_definition` -/
def walkOp (S : VSchema) (D : Defects) (o : OpDef) : List Evt :=
  [mk [] (.enterOp o)]
  ++ (match rootOf S o.ty with
      | some r =>
        let st : Stack := [if S.exists? r then some r else none]
        o.vars.flatMap (fun v => [mk st (.enterVar v), mk st (.exitVar v)])
        ++ walkDirs S D st o.dirs ++ walkSet S D st o.sels
      | none => [mk [] (.report .notConfigured)])
  ++ [mk [] (.exitOp o)]

/-- `visit_fragment_definition` (mode Normal) inside `with_type(types.get(cond))` -/
def walkFrag (S : VSchema) (D : Defects) (f : FragDef) : List Evt :=
  let st : Stack := [if S.exists? f.cond then some f.cond else none]
  [mk st (.enterFrag f)] ++ walkDirs S D st f.dirs ++ walkSet S D st f.sels ++ [mk st (.exitFrag f)]

/-- `visit`: fragments first, then operations -/
def events (S : VSchema) (D : Defects) (d : Doc) : List Evt :=
  [mk [] .enterDoc] ++ d.frags.flatMap (walkFrag S D) ++ d.ops.flatMap (walkOp S D) ++ [mk [] .exitDoc]

-- ------------------------------------------------------------------ stateless rules (one callback at a time)

def hasDupNonRepeatable (S : VSchema) (ds : List Dir) : Bool :=
  let rec go (seen : List String) : List Dir → Bool
    | [] => false
    | d :: rest =>
      match S.dir? d.name with
      | some dd => if dd.repeatable then go seen rest else if seen.contains d.name then true else go (d.name :: seen) rest
      | none => go seen rest
  go [] ds

def missingArgs (defs : List ArgDef) (given : List (String × DValue)) : Bool :=
  defs.any (fun a => a.ty.isNonNull && a.default.isNone && !(given.any (·.1 = a.name)))

/-- the rules whose callbacks look at nothing but the current node and the type stack -/
def stateless (S : VSchema) (D : Defects) (d : Doc) (e : Evt) : List Kind :=
  match e.ev with
  | .report k => [k]
  | .enterOp o =>
    (if hasDupNonRepeatable S o.dirs then [.dupDirective] else [])
    ++ (if o.vars.any (fun v => S.exists? v.ty.base && o.ty != .mutation && v.ty.base == "Upload") then [.upload] else [])
  | .enterFrag f =>
    (if hasDupNonRepeatable S f.dirs then [.dupDirective] else [])
    ++ (match e.cur with | some t => if S.isComposite t then [] else [.fragNonComposite] | none => [])
    ++ (if S.exists? f.cond then [] else [.unknownType])
  | .enterVar v =>
    -- DefaultValuesOfCorrectType
    (match v.ty.nullable with
     | .named n => if S.exists? n then none else some [Kind.unknownTypeDefault]
     | _ => none).getD
       (match v.default with
        | some dv => if validInput S D valueFuel v.ty dv then [] else [.invalidDefault]
        | none => [])
    -- KnownTypeNames
    ++ (if S.exists? v.ty.base then [] else [.unknownType])
    -- VariablesAreInputTypes
    ++ (if S.exists? v.ty.base && !S.isInput v.ty.base then [.varNonInput] else [])
  | .enterDir dr =>
    (match S.dir? dr.name with
     | some dd => if missingArgs dd.args dr.args then [.dirArgMissing] else []
     | none => [])
  | .enterField _ n args ds ss =>
    -- FieldsOnCorrectType
    (match e.par with
     | some p =>
       if S.isAbstract p && n = "__typename" then []
       else if !D.typenameNotVisited && n = "__typename" then []
       else if (S.field? p n).isNone && !(D.ifdefSkipsUnknownField && ds.any (·.name = "ifdef")) then [.unknownField] else []
     | none => [])
    -- ScalarLeafs
    ++ (match (e.par.bind (fun p => S.field? p n)).bind (fun f => S.concrete f.ty) with
        | some t =>
          if S.isLeaf t && !ss.isEmpty then [.leafWithSel]
          else if !S.isLeaf t && ss.isEmpty then [.compositeNoSel] else []
        | none => [])
    -- ProvidedNonNullArguments
    ++ (match e.par.bind (fun p => S.field? p n) with
        | some f => if missingArgs f.args args then [.fieldArgMissing] else []
        | none => [])
    -- DirectivesUnique
    ++ (if hasDupNonRepeatable S ds then [.dupDirective] else [])
  | .enterSpread n ds =>
    (if (d.frag? n).isSome then [] else [.unknownFragment])
    ++ (match d.frag? n, e.cur with
        | some f, some c => if S.exists? f.cond && !S.overlap c f.cond then [.spreadImpossible] else []
        | _, _ => [])
    ++ (if hasDupNonRepeatable S ds then [.dupDirective] else [])
  | .enterInline c ds _ =>
    (match e.cur with | some t => if S.isComposite t then [] else [.inlineNonComposite] | none => [])
    ++ (match c with | some t => if S.exists? t then [] else [.unknownType] | none => [])
    ++ (match e.par, c with
        | some p, some t => if S.exists? t && !S.overlap p t then [.inlineImpossible] else []
        | _, _ => [])
    ++ (if hasDupNonRepeatable S ds then [.dupDirective] else [])
  | _ => []

-- ------------------------------------------------------------------ rules with state across callbacks

/-- `ArgumentsOfCorrectType` -/
def ruleArgsCorrect (S : VSchema) (D : Defects) (vars : List (String × GValue)) (opName : Option String) :
    Option (List ArgDef) → Bool → List Evt → List Kind
  | _, _, [] => []
  | cur, unsel, e :: es =>
    match e.ev with
    | .enterOp o =>
      let u := match opName, o.name with | some a, some b => a != b | _, _ => false
      ruleArgsCorrect S D vars opName cur u es
    | .enterDir dr => ruleArgsCorrect S D vars opName ((S.dir? dr.name).map (·.args)) unsel es
    | .exitDir _ => ruleArgsCorrect S D vars opName none unsel es
    | .enterField _ n _ _ _ => ruleArgsCorrect S D vars opName ((e.par.bind (fun p => S.field? p n)).map (·.args)) unsel es
    | .exitField => ruleArgsCorrect S D vars opName none unsel es
    | .enterArg n v =>
      (match cur.bind (fun ds => ds.find? (·.name = n)) with
       | some a =>
         if D.argsJudgedAfterSubstitution then
           (match substVars (if unsel then [] else vars) v with
            | some c => if validInput S D valueFuel a.ty c then [] else [Kind.argInvalid]
            | none => [])
         else (if validLit S D valueFuel a.ty v then [] else [Kind.argInvalid])
       | none => [])
      ++ ruleArgsCorrect S D vars opName cur unsel es
    | _ => ruleArgsCorrect S D vars opName cur unsel es

/-- `KnownArgumentNames`: `current_args` is NOT reset when the field is unknown (`knownArgsStale`);
    repaired: a field the parent type does not have has no argument definitions, `__typename` on a
    composite type has the empty list -/
def ruleKnownArgs (S : VSchema) (D : Defects) : Option (List ArgDef × Bool) → List Evt → List Kind
  | _, [] => []
  | cur, e :: es =>
    match e.ev with
    | .enterDir dr => ruleKnownArgs S D ((S.dir? dr.name).map (fun dd => (dd.args, true))) es
    | .exitDir _ => ruleKnownArgs S D none es
    | .enterField _ n _ _ _ =>
      (match e.par.bind (fun p => S.field? p n) with
       | some f => ruleKnownArgs S D (some (f.args, false)) es
       | none =>
         if D.knownArgsStale then ruleKnownArgs S D cur es
         else ruleKnownArgs S D
           (if n = "__typename" && (match e.par with | some p => S.isComposite p | none => false) then some ([], false) else none) es)
    | .exitField => ruleKnownArgs S D none es
    | .enterArg n _ =>
      (match cur with
       | some (defs, isDir) => if defs.any (·.name = n) then [] else [if isDir then Kind.unknownArgDir else Kind.unknownArgField]
       | none => [])
      ++ ruleKnownArgs S D cur es
    | _ => ruleKnownArgs S D cur es

/-- `UniqueArgumentNames` -/
def ruleUniqueArgs : List String → List Evt → List Kind
  | _, [] => []
  | seen, e :: es =>
    match e.ev with
    | .enterDir _ => ruleUniqueArgs [] es
    | .enterField _ _ _ _ _ => ruleUniqueArgs [] es
    | .enterArg n _ => (if seen.contains n then [Kind.dupArg] else []) ++ ruleUniqueArgs (n :: seen) es
    | _ => ruleUniqueArgs seen es

/-- `UniqueVariableNames` -/
def ruleUniqueVars : List String → List Evt → List Kind
  | _, [] => []
  | seen, e :: es =>
    match e.ev with
    | .enterOp _ => ruleUniqueVars [] es
    | .enterVar v => (if seen.contains v.name then [Kind.dupVar] else []) ++ ruleUniqueVars (v.name :: seen) es
    | _ => ruleUniqueVars seen es

/-- `KnownDirectives` with its location stack -/
def ruleKnownDirs (S : VSchema) : List String → List Evt → List Kind
  | _, [] => []
  | stk, e :: es =>
    match e.ev with
    | .enterOp o => ruleKnownDirs S ((match o.ty with | .query => "QUERY" | .mutation => "MUTATION" | .subscription => "SUBSCRIPTION") :: stk) es
    | .exitOp _ => ruleKnownDirs S stk.tail es
    | .enterFrag _ => ruleKnownDirs S ("FRAGMENT_DEFINITION" :: stk) es
    | .exitFrag _ => ruleKnownDirs S stk.tail es
    | .enterField _ _ _ _ _ => ruleKnownDirs S ("FIELD" :: stk) es
    | .exitField => ruleKnownDirs S stk.tail es
    | .enterSpread _ _ => ruleKnownDirs S ("FRAGMENT_SPREAD" :: stk) es
    | .exitSpread => ruleKnownDirs S stk.tail es
    | .enterInline _ _ _ => ruleKnownDirs S ("INLINE_FRAGMENT" :: stk) es
    | .exitInline => ruleKnownDirs S stk.tail es
    | .enterDir dr =>
      (match S.dir? dr.name with
       | some dd => (match stk with
          | loc :: _ => if dd.locs.contains loc then [] else [Kind.dirMisplaced]
          | [] => [])
       | none => [Kind.unknownDirective])
      ++ ruleKnownDirs S stk es
    | _ => ruleKnownDirs S stk es

-- ------------------------------------------------------------------ scope tables (the graph rules)

inductive Scope where
  | op (n : Option String)
  | frag (n : String)
  deriving Repr, Inhabited, DecidableEq, BEq

/-- what the four graph rules record while walking: per scope, spreads, variables referenced by
    arguments, variable usages with their expected type -/
structure ScopeRec where
  scope : Scope
  spreads : List String := []
  used : List String := []
  usages : List (String × TypeRef × Bool) := []
  deriving Inhabited

def recOf (tbl : List ScopeRec) (s : Scope) : ScopeRec :=
  (tbl.find? (·.scope == s)).getD { scope := s }

def updRec (tbl : List ScopeRec) (s : Scope) (f : ScopeRec → ScopeRec) : List ScopeRec :=
  if tbl.any (·.scope == s) then tbl.map (fun r => if r.scope == s then f r else r)
  else tbl ++ [f { scope := s }]

def scopeTable : Option Scope → List ScopeRec → List Evt → List ScopeRec
  | _, tbl, [] => tbl
  | cur, tbl, e :: es =>
    match e.ev with
    | .enterOp o => scopeTable (some (.op o.name)) (updRec tbl (.op o.name) id) es
    | .enterFrag f => scopeTable (some (.frag f.name)) (updRec tbl (.frag f.name) id) es
    | .enterSpread n _ =>
      scopeTable cur (match cur with | some s => updRec tbl s (fun r => { r with spreads := r.spreads ++ [n] }) | none => tbl) es
    | .enterArg _ v =>
      scopeTable cur (match cur with | some s => updRec tbl s (fun r => { r with used := r.used ++ refVars v }) | none => tbl) es
    | .inputVars us =>
      scopeTable cur (match cur with | some s => updRec tbl s (fun r => { r with usages := r.usages ++ us }) | none => tbl) es
    | _ => scopeTable cur tbl es

/-- scopes reachable from `s` through recorded spreads (the `visited` set of the Rust helpers) -/
def reach (tbl : List ScopeRec) : Nat → List Scope → List Scope → List Scope
  | 0, _, seen => seen
  | _, [], seen => seen
  | fuel + 1, s :: todo, seen =>
    if seen.contains s then reach tbl fuel todo seen
    else reach tbl fuel ((recOf tbl s).spreads.map Scope.frag ++ todo) (seen ++ [s])

def reachFuel (tbl : List ScopeRec) : Nat := (tbl.foldl (fun n r => n + r.spreads.length + 1) 1) * 2 + 2

def reachable (tbl : List ScopeRec) (s : Scope) : List Scope := reach tbl (reachFuel tbl) [s] []

/-- `NoFragmentCycles` reports iff some fragment reaches itself through the recorded spreads
    (the DFS of `CycleDetector` finds a back edge iff a cycle exists) -/
def ruleCycles (d : Doc) (tbl : List ScopeRec) : List Kind :=
  if d.frags.any (fun f => (recOf tbl (.frag f.name)).spreads.any (fun n =>
       (reachable tbl (.frag n)).contains (.frag f.name))) then [.cycle] else []

def ruleUnusedFrags (d : Doc) (tbl : List ScopeRec) : List Kind :=
  let r := d.ops.flatMap (fun o => reachable tbl (.op o.name))
  if d.frags.any (fun f => !r.contains (.frag f.name)) then [.unusedFragment] else []

def ruleUndefinedVars (d : Doc) (tbl : List ScopeRec) : List Kind :=
  d.ops.flatMap (fun o =>
    let used := (reachable tbl (.op o.name)).flatMap (fun s => (recOf tbl s).used)
    if used.any (fun v => !(o.vars.any (·.name = v))) then [if o.name.isSome then Kind.undefVarOp else Kind.undefVar] else [])

def ruleUnusedVars (d : Doc) (tbl : List ScopeRec) : List Kind :=
  d.ops.flatMap (fun o =>
    let used := (reachable tbl (.op o.name)).flatMap (fun s => (recOf tbl s).used)
    if o.vars.any (fun v => !used.contains v.name) then [if o.name.isSome then Kind.unusedVarOp else Kind.unusedVar] else [])

/-- `def.node.default_value.is_some()` as `VariableInAllowedPosition` reads it; repaired: the literal
    `null` is not a default that makes a nullable variable usable at a non-null position -/
def hasDefault (D : Defects) (v : VarDef) : Bool :=
  match v.default with
  | some .null => D.nullDefaultCounts
  | some _ => true
  | none => false

/-- `VariableInAllowedPosition::collect_incorrect_usages` -/
def ruleVarPositions (D : Defects) (d : Doc) (tbl : List ScopeRec) : List Kind :=
  d.ops.flatMap (fun o =>
    if o.vars.isEmpty then [] else
    let us := (reachable tbl (.op o.name)).flatMap (fun s => (recOf tbl s).usages)
    if us.any (fun u =>
      match o.vars.find? (·.name = u.1) with
      | some v =>
        let expected := if !v.ty.isNonNull && hasDefault D v then TypeRef.nonNull v.ty else v.ty
        let expected' := if !D.locationDefaultIgnored && u.2.2 && !v.ty.isNonNull then TypeRef.nonNull v.ty else expected
        !(isSubtype D u.2.1 expected')
      | none => false) then [Kind.varPosition] else [])

-- ------------------------------------------------------------------ OverlappingFieldsCanBeMerged (as implemented)

structure OutField where
  cond : Option String
  key : String
  name : String
  args : List (String × DValue)
  deriving Inhabited

structure FCState where
  outputs : List OutField := []
  visited : List String := []
  errs : List Kind := []
  deriving Inhabited

def addOutput (st : FCState) (cond : Option String) (key name : String) (args : List (String × DValue)) : FCState :=
  match st.outputs.find? (fun o => o.cond == cond && o.key == key) with
  | some prev =>
    let e1 := if prev.name != name then [Kind.conflictFields] else []
    let e2 := if prev.args.length != args.length then [Kind.conflictArgsLen] else []
    let e3 := if prev.args.any (fun a => match args.find? (·.1 = a.1) with | some b => !(Spec.Validate.dvEq a.2 b.2) | none => true)
              then [Kind.conflictArgsVal] else []
    { st with errs := st.errs ++ e1 ++ e2 ++ e3 }
  | none => { st with outputs := st.outputs ++ [{ cond, key, name, args }] }

/-- the `on_type` the fields of an inline fragment are filed under: its type condition; without one,
    `None` (`u`, the pinned behaviour) or the `on_type` of the enclosing selection (repaired) -/
def inlineCond (u : Bool) (cond c : Option String) : Option String :=
  match c with
  | some t => some t
  | none => if u then none else cond

/-- `FindConflicts::find`; fuel bounds inline nesting + fragment expansion -/
def findConflicts (d : Doc) (u : Bool) : Nat → Option String → List Sel → FCState → FCState
  | 0, _, _, st => st
  | fuel + 1, cond, sels, st =>
    sels.foldl (fun st s =>
      match s with
      | .field al n args _ _ _ => addOutput st cond (al.getD n) n args
      | .inline c _ ss _ => findConflicts d u fuel (inlineCond u cond c) ss st
      | .spread n _ _ =>
        match d.frag? n with
        | some f =>
          if st.visited.contains n then st
          else findConflicts d u fuel (some f.cond) f.sels { st with visited := n :: st.visited }
        | none => st) st

mutual
def selSize : Sel → Nat
  | .field _ _ _ _ ss _ => 1 + selsSize ss
  | .spread _ _ _ => 1
  | .inline _ _ ss _ => 1 + selsSize ss
def selsSize : List Sel → Nat
  | [] => 0
  | s :: ss => selSize s + selsSize ss
end

def docFuel (d : Doc) : Nat :=
  d.ops.foldl (fun n o => n + selsSize o.sels + 1) (d.frags.foldl (fun n f => n + selsSize f.sels + 1) 2)

def ruleOverlap (D : Defects) (d : Doc) (evs : List Evt) : List Kind :=
  evs.flatMap (fun e => match e.ev with
    | .enterSet ss => (findConflicts d D.overlapUntypedInlineKeyedNone (docFuel d) none ss {}).errs
    | _ => [])

-- ------------------------------------------------------------------ check_rules (Strict)

/-- all error kinds of the first strict-mode pass, in no particular order -/
def strictErrors (S : VSchema) (D : Defects) (d : Doc) (vars : List (String × GValue)) (opName : Option String) : List Kind :=
  let evs := events S D d
  let tbl := scopeTable none [] evs
  evs.flatMap (stateless S D d)
  ++ ruleArgsCorrect S D vars opName none false evs
  ++ ruleKnownArgs S D none evs
  ++ ruleUniqueArgs [] evs
  ++ ruleUniqueVars [] evs
  ++ ruleKnownDirs S [] evs
  ++ ruleCycles d tbl ++ ruleUnusedFrags d tbl ++ ruleUndefinedVars d tbl ++ ruleUnusedVars d tbl
  ++ ruleVarPositions D d tbl
  ++ ruleOverlap D d evs

-- ------------------------------------------------------------------ before validation: parser and recursion guard

inductive PreKind where
  | dupOperation | multipleAnonymous | dupFragment | recursionDepth
  deriving Repr, Inhabited, DecidableEq, BEq

def hasDup : List String → Bool
  | [] => false
  | x :: xs => xs.contains x || hasDup xs

mutual
def spreadsOf : Sel → List String
  | .field _ _ _ _ ss _ => spreadsOfL ss
  | .spread n _ _ => [n]
  | .inline _ _ ss _ => spreadsOfL ss
def spreadsOfL : List Sel → List String
  | [] => []
  | s :: ss => spreadsOf s ++ spreadsOfL ss
end

/-- fragments reachable from a selection set in the plain syntax graph -/
def fragReach (d : Doc) : Nat → List String → List String → List String
  | 0, _, seen => seen
  | _, [], seen => seen
  | fuel + 1, n :: todo, seen =>
    if seen.contains n then fragReach d fuel todo seen
    else match d.frag? n with
      | some f => fragReach d fuel (spreadsOfL f.sels ++ todo) (seen ++ [n])
      | none => fragReach d fuel todo seen

/-- `parse_query` + `check_recursive_depth` (documents are assumed shallower than the limit, so the
    guard fires exactly when an operation reaches a fragment cycle) -/
def preErrors (d : Doc) : List PreKind :=
  let names := d.ops.filterMap (·.name)
  if hasDup names then [.dupOperation]
  else if d.ops.length > 1 && d.ops.any (·.name.isNone) then [.multipleAnonymous]
  else if hasDup (d.frags.map (·.name)) then [.dupFragment]
  else
    let fuel := docFuel d * 2 + 2
    let r := d.ops.flatMap (fun o => fragReach d fuel (spreadsOfL o.sels) [])
    if r.any (fun n => match d.frag? n with
        | some f => (fragReach d fuel (spreadsOfL f.sels) []).contains n
        | none => false) then [.recursionDepth] else []

inductive Outcome where
  | parseRejected (ks : List PreKind)
  | rejected (ks : List Kind)
  | accepted
  deriving Inhabited

/-- what a REPAIRED implementation additionally reports for the defects that are missing rules
    rather than wrong ones (toggle off = the reference rule is enforced) -/
def repairedErrors (S : VSchema) (D : Defects) (d : Doc) (vars : List (String × GValue)) (opName : Option String) : List Kind :=
  (if !D.overlapKeyedByCondition && Spec.Validate.violates_FieldSelectionMerging S d then [Kind.repaired] else [])
  ++ (if !D.noSingleRootSubscription && Spec.Validate.violates_SingleRootField d (Spec.Validate.closureFuel d) then [Kind.repaired] else [])
  ++ (if !D.missingVariableAccepted && Spec.Validate.violates_VariableValues S d vars opName then [Kind.repaired] else [])

/-- the pipeline up to and including `check_rules` -/
def checkRules (S : VSchema) (D : Defects) (d : Doc) (vars : List (String × GValue)) (opName : Option String) : Outcome :=
  match preErrors d with
  | [] => (match strictErrors S D d vars opName ++ repairedErrors S D d vars opName with
           | [] => .accepted
           | ks => .rejected ks)
  | ks => .parseRejected ks

def Outcome.isRejected : Outcome → Bool
  | .accepted => false
  | _ => true

end AGV.Model.Validate
