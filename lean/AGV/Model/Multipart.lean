/-
  Model of `create_multipart_mixed_stream` (src/http/multipart_subscribe.rs).

  The function is a loop around `futures_util::select!` over the (fused) response stream and
  the heartbeat timer.  Which of the two is served next is decided by the environment (arrival
  order, and `select!`'s pseudo-random choice when both are ready): the model takes that order
  as its input, a list of events.

      resp j   the response stream yields a `Response` whose `serde_json` text is `j`
      tick     the heartbeat timer fires (the arm re-arms it)
      fin      the response stream ends (`None => break`); nothing after it is looked at

  The chunk sequences of the three places that yield, and the four byte strings, are read from
  the source (`AGV.Gen.MultipartWire`).  Bytes are modelled as `Char`s (all constants are ASCII
  and the payload is UTF-8 text; the harness decodes the real byte stream as UTF-8).
  Core-only imports.
-/
import AGV.Gen.MultipartWire

namespace AGV.Model.Multipart
open AGV.Gen.MultipartWire

inductive Ev where
  | resp (json : List Char)
  | tick
  | fin
  deriving Repr, DecidableEq, Inhabited

/-- the bytes of one yielded chunk; `data` = the serialised response of the current arm -/
def piece (data : List Char) : Piece → List Char
  | .partHeader => partHeader
  | .eof => eof
  | .crlf => crlf
  | .heartbeat => heartbeat
  | .data => data

def pieces (data : List Char) (ps : List Piece) : List Char := (ps.map (piece data)).flatten

/-- all bytes the stream yields while the environment produces the events `evs` (the stream
    is pending afterwards if `fin` did not occur, finished otherwise) -/
def emit : List Ev → List Char
  | [] => []
  | .resp j :: r => pieces j onResponse ++ emit r
  | .tick :: r => pieces [] onTick ++ emit r
  | .fin :: _ => pieces [] onEnd

/-- how often `Timer::delay` is called: once before the loop, once per heartbeat served -/
def delays : List Ev → Nat
  | [] => 1
  | .resp _ :: r => delays r
  | .tick :: r => delays r + 1
  | .fin :: _ => 1

end AGV.Model.Multipart
