/-
  C27: the subscription stream model instantiated with the executor / scheduler models
  (`Model/ExecStatic.lean`, `Model/Sched.lean`), the wire format of harness/core/src/bin/c27.rs and
  canonical printing.  Import-free (no Mathlib).

  An event value of root field `k: f` is resolved by `OutputType::resolve(&event, ctx(path = [k]),
  field)` = `Sched.resolveT` on the field's type and sub-selection, started in round 0 of its own
  clock; the TRes (events stamped with rounds) is cut into the polls 0 … fin.
-/
import AGV.Util.Sexp
import AGV.Core.Types
import AGV.Spec.Exec
import AGV.Spec.Subscr
import AGV.Model.ExecStatic
import AGV.Model.Sched
import AGV.Model.SchedWire
import AGV.Model.Subscr

namespace AGV.Model.SubscrWire
open AGV AGV.Sexp AGV.Core AGV.Spec.Subscr AGV.Model.Subscr
open AGV.Model.SchedWire (Toggles Entries gateOf errStrings)

-- ------------------------------------------------------------------ event resolution → polls

def pollAt (r : Sched.TRes) (ρ : Nat) : Poll :=
  { caps := r.evs.filterMap (fun x => if x.1 = ρ then Sched.errOf x else none),
    starts := r.evs.filterMap (fun x => if x.1 = ρ then Sched.invOf x else none) }

def eventRun (r : Sched.TRes) : EventRun :=
  { val := r.val, up := if r.val.isSome then none else r.up,
    first := pollAt r 0, rest := (List.range r.fin).map (fun ρ => pollAt r (ρ + 1)) }

/-- a scripted source: the subscription resolver fails, or event values with their gates -/
inductive SrcScript where
  | fail
  | events (es : List (RVal × Entries))

structure Case where
  S : Schema
  doc : Doc
  opName : Option String
  vars : List (String × GValue)
  world : World
  srcs : List (String × SrcScript)
  scheds : List (List Act)
  kind : String

/-- the root fields of the subscription with their event runs under the toggles `t` -/
def fieldsOf (c : Case) (t : Toggles) : List Field :=
  match Spec.Exec.selectOp c.doc c.opName with
  | none => []
  | some op =>
    let fuel := Spec.Exec.fuelBound c.doc
    let D := t.defects
    let sv := ExecStatic.skipVars D op.vars c.vars
    let d' : Doc := { ops := c.doc.ops, frags := c.doc.frags.map (fun f => { f with sels := ExecStatic.prune sv fuel f.sels }) }
    let ec : ExecStatic.Ctx := { D := D, S := c.S, d := d', vars := Spec.Exec.coerceVars op.vars c.vars, w := c.world }
    let root := c.S.subscription.getD ""
    (ExecStatic.prune sv fuel op.sels).filterMap (fun sel =>
      match sel with
      | .field al n _ _ ss pos =>
        let key := Spec.Exec.Sel.key al n
        match c.S.field? root n with
        | none => none
        | some fd =>
          let scr : Option SrcScript := (c.srcs.find? (·.1 = key)).map (·.2)
          match scr with
          | none => some { key := key, src := .events [] }
          | some .fail => some { key := key, src := .fail ⟨[.key key], pos⟩ }
          | some (.events es) =>
            some { key := key, src := .events (es.map (fun (p : RVal × Entries) =>
              let g : Sched.Cfg := { c := ec, perOccurrence := t.perOccurrence, gate := gateOf p.2 }
              eventRun (Sched.resolveT ec (Sched.resolveContainerT g false fuel) true fd.ty p.1 ss [.key key] pos 0))) }
      | _ => none)   -- `collect_subscription_streams` looks at direct fields only

-- ------------------------------------------------------------------ decoding

def act? : Sexp → Option Act
  | .list [.atom "a", i] => (asNat? i).map .arr
  | .list [.atom "s", i] => (asNat? i).map .step
  | _ => none

def scheds? : Sexp → Option (List (List Act))
  | .list (.atom "scheds" :: scs) =>
    scs.mapM (fun (sc : Sexp) => match sc with
      | .list (.atom "acts" :: as) => as.mapM act?
      | _ => none)
  | _ => none

def gates? : Sexp → Option Entries
  | .list (.atom "gates" :: es) => SchedWire.sched? (.list (.atom "sched" :: es))
  | _ => none

def src? : Sexp → Option (String × SrcScript)
  | .list (.atom "src" :: .str k :: rest) =>
    if rest.any (· == .atom "fail") then some (String.ofList k, .fail)
    else do
      let es ← rest.mapM (fun (e : Sexp) => match e with
        | .list [.atom "ev", rv, g] => do some (← Decode.rval? rv, ← gates? g)
        | _ => none)
      some (String.ofList k, .events es)
  | _ => none

def srcs? : Sexp → Option (List (String × SrcScript))
  | .list (.atom "srcs" :: ss) => ss.mapM src?
  | _ => none

def case? (case : String) : Option Case :=
  match parse case with
  | some (.list [.atom "case", s, d, opn, vs, w, _, sr, sc, .atom kind]) => do
    some { S := ← Decode.schema? s, doc := ← Decode.doc? d, opName := ← Decode.optStr? opn, vars := ← Decode.vars? vs,
           world := ← Decode.world? w, srcs := ← srcs? sr, scheds := ← scheds? sc, kind := kind }
  | _ => none

-- ------------------------------------------------------------------ printing (same canonical form as the harness)

def dataSexp : Option GValue → Sexp
  | some v => v.toSexp
  | none => .atom "null"

def respSexp (r : Resp) : Sexp :=
  .list [.atom "r", dataSexp r.data, .list (.atom "errs" :: (errStrings r.errs).map .atom)]

/-- `(run (r DATA (errs …)) … end|open (log …))` -/
def runSexp (s : St) : Sexp :=
  .list (.atom "run" :: (s.out.map respSexp ++
    [.atom (if ended s then "end" else "open"), .list (.atom "log" :: s.log.map Inv.toSexp)]))

def outStr (D : Defects) (fields : List Field) (scheds : List (List Act)) : String :=
  render (.list (.atom "out" :: scheds.map (fun acts => runSexp (run D fields acts))))

/-- the response of a query / mutation (`Schema::execute`), printed as `family::response_sexp` -/
def onceRespStr (c : Case) (t : Toggles) : String :=
  let r := Sched.run t.defects t.perOccurrence (fun _ _ _ => 0) c.S c.doc c.opName c.vars c.world (Spec.Exec.fuelBound c.doc)
  render (.list [.atom "resp", dataSexp r.val,
    .list (.atom "errs" :: (errStrings r.errors).map .atom),
    .list (.atom "log" :: r.log.map Inv.toSexp)])

end AGV.Model.SubscrWire
